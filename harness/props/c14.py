"""C14 — Cache containers conform to their replacement-policy model.

Correspondence: `pipefunc.cache.{LRUCache, HybridCache, SimpleCache, DiskCache}` driven through their public methods
(`put`, `get`, `in`, `len`, `clear`, the `cache` property, a new `DiskCache` on the same directory, pickling into worker
processes for `shared=True`) against `PF.Cache` (lean/PfModel/Model/CachePolicy.lean).  After **every** operation the
harness probes `k in cache` for the whole key alphabet, `len(cache)` and the public `cache` mapping and compares them with
the model's state; the property's own clauses (nothing raises, `len <= max_size`, present iff `get` returns the value most
recently put) are evaluated on the implementation's answers directly.
"""
from __future__ import annotations

import collections
import copy
import json
import multiprocessing
import os
import pickle
import re
import shutil
import tempfile
import time
from pathlib import Path

import pfimport  # noqa: F401
import c14_preempt as pre
import framework
from pfimport import exc_enum
from pipefunc.cache import DiskCache, HybridCache, LRUCache, SimpleCache

PID = "C14"
PROPS = ["PfModel.Props.C14", "PfModel.Props.C14Shared", "PfModel.Props.C14Score", "PfModel.Props.C14Clear", "PfModel.Props.C14Ties",
         "PfModel.Props.C14Access", "PfModel.Props.C14Retain"]
DRIVER = "C14"
RULE = ("(1) explicit-state exploration: breadth-first over the abstract states of the Lean model itself (driver C14Explore; used "
        "only to find a shortest history to every reachable state, never for a verdict), 3-4 keys, max_size 1..3; every "
        "transition of every reachable state becomes a case 'shortest history + operation', executed on the real cache with "
        "presence of all keys, len and the cache mapping probed after every step; (2) seeded random histories of length <= 40 "
        "(put-heavy, re-puts of resident keys, clear, reopen for DiskCache with changed max_size / LRU size); (3) shared=True "
        "caches pickled into 2 forked worker processes, every operation issued by a harness-chosen process, probes from the "
        "parent; (4) separate streams: zero durations (HybridCache), unhashable keys, max_size=0, pickling a non-shared cache. "
        "(5) preemption stream (shared LRUCache / HybridCache / DiskCache with lru_shared): the lock and the shared containers of one "
        "cache object are wrapped (c14_preempt.py); for a set-up history H, an operation P, a peer operation Q and a point n, Q runs to "
        "completion in a real second process exactly at the n-th preemption point of P (before an acquire, after a release, before a "
        "container access made without the lock; for peers that a dry run shows to be lock-free also before every access made INSIDE the "
        "critical section); (result of P, result of Q, probe, epilogue put/gets, final probe) must equal the model's answers for H+[P,Q]+E or "
        "H+[Q,P]+E; all (P, Q, n) over get/put/has of victim / other / new key, len, clear, max_size 1..2, empty / non-full / full caches "
        "within the budget, hot pairs (evicting or clearing peer against get/put) first; (6) schedules of the Lean process model "
        "(PF.Cache.Shared.exec) whose linearisation is replayed on the real cache from the processes the model names; (7) every fourth "
        "put stores a falsy value (0, '', None, (), False, 0.0, b''); exploration cases end with a drain of max_size fresh puts. "
        "(8) clear-resets stream: a populating history H (hits, re-puts, reopens for DiskCache), clear(), a continuation E that fills the cache "
        "beyond max_size — run on the real cache and, side by side, E alone on a NEWLY constructed cache (for DiskCache: new directory, the "
        "max_size / LRU size in force after H as the Lean driver reports them); both are compared step by step with the driver entry "
        "cache.clear_fresh (which re-evaluates C14_clear_resets_*) and with each other, and right after clear() the public views of every "
        "piece of state (cache, access_counts, computation_durations, lru_cache.cache, the directory listing) must be empty; "
        "(10) accesses stream: the container accesses LRUCache makes inside its lock for every operation after set-up and random histories "
        "(proxies of c14_preempt.py, non-shared and manager-backed) against the labelled micro-steps of lruBody (cache.accesses); "
        "(9) max_size=0 for HybridCache / DiskCache (accepted by the constructors) against C14_hybrid_never_raises_iff / C14_disk_max0. "
        "A case is non-trivial when it contains a put that evicts or re-puts a resident key, or a hit (preemption: an evicting/clearing "
        "peer against a get/put); distinct by its JSON")
ASSUMPTIONS = [
    "shared=True: C14_shared_linearisable proves that ANY interleaving of processes whose operations are 'prelude; one critical section "
    "of container accesses under the lock; epilogue' equals the sequential history in lock-acquisition order. That LRUCache/HybridCache "
    "operations have this shape (every shared-container access inside one `with self._cache_lock:`) and that manager.Lock is a mutex is "
    "assumed, and checked on the implementation by the preemption stream at single-preemption granularity (one peer operation at one "
    "point; not two peers, not a peer preempted in turn) plus the invariants-only concurrent soak",
    "the preemption stream resets its cache with the public clear() between runs (a manager-backed cache costs ~0.25 s to create); a "
    "failing run is repeated on a new cache before it is reported",
    "DiskCache from several processes: only the shared in-memory LRU is instrumented; file-system steps (exists/open/stat/unlink/glob) "
    "are not preemption points. Not promised and not checked: concurrent writers of one file, a reader racing an unlink "
    "(KF-C14-disk-put-not-atomic records the put/clear window that the LRU points do expose)",
    "HybridCache scores are exact rationals in the model and floats in the code: an eviction in which another entry has the victim's "
    "exact score without being computed from identical (count, duration) pairs (Hyb.floatAmbiguous, decided by the driver) ends the "
    "comparison of that case (counted); distinct exact scores of the small counts/durations generated differ by far more than float rounding",
    "DiskCache 'oldest file' is st_ctime_ns order; the harness spaces file writes until a probe file's ctime has advanced "
    "(granularity measured at start-up and reported), so that 'oldest' is unambiguous; the model uses a logical clock",
    "values are ('v', n) tuples or one of the falsy values 0, '', None, (), False, 0.0, b''; a stored None is legal (`in` says present, get "
    "returns None, which is the value); numbers that stand for the same falsy value are not told apart; keys are picklable hashable atoms/tuples",
    "DiskCache.__contains__/get consult the in-memory LRU first, so a key whose file was evicted stays present while the "
    "LRU holds it: len counts files (documented: 'maximum number of cache files'), presence is LRU-or-file; modelled as such",
]

KEYS = ["a", "b", ("c", 1), 3, "n4", ("n", 5), 6.5]          # index in this list = key number in the model (4.. are the fresh keys of a drain)
WEIGHTS = [(1, 1), (1, 0), (0, 1), (1, 3), (3, 1), (3, 7)]   # (wa, wd): access_weight = wa/(wa+wd), duration_weight = wd/(wa+wd)


FALSY = [0, "", None, (), False, 0.0, b""]      # legal stored values that are falsy (None: `in` says present, get returns None = the value)


def val(n):
    """the Python value that stands for the model's value number n: every fourth number is one of the falsy values"""
    return FALSY[(n // 4) % len(FALSY)] if n % 4 == 2 else ("v", n)


def decode(r):
    """canonical form of a value that came out of a cache: the number of a ("v", n) value, "F:<repr>" of a falsy one, None"""
    if r is None:
        return None
    if isinstance(r, tuple) and len(r) == 2 and r[0] == "v":
        return r[1]
    if type(r) in (int, str, tuple, bool, float, bytes) and not r:
        return "F:" + repr(r)
    return f"garbled:{r!r}"


def canon_n(n):
    """the model's value number in the canonical form of `decode` (distinct numbers that stand for the same falsy value compare equal)"""
    return None if n is None else decode(val(n))


def canon_mstep(st):
    """a step of the driver's answer with its value numbers in canonical form"""
    st = dict(st)
    if isinstance(st.get("o"), list) and st["o"][0] == "val":
        st["o"] = ["val", canon_n(st["o"][1])]
    if isinstance(st.get("values"), list):
        st["values"] = [canon_n(v) for v in st["values"]]
    return st


# ------------------------------------------------------------------------------------------------ implementation side
class Spacer:
    """Keeps DiskCache file writes apart in st_ctime_ns: after a write, a probe file outside the cache directory is rewritten
    until its ctime is later than every cache file's.  Timestamps are only used to pace the generator, never compared with
    the model."""

    def __init__(self, base: Path):
        self.probe = base / "ctime-probe"
        self.spins = 0
        stamps = []
        t0 = time.perf_counter()
        for _ in range(300):
            self.probe.write_bytes(b"x")
            stamps.append(os.stat(self.probe).st_ctime_ns)
        self.per_write = (time.perf_counter() - t0) / 300
        diffs = [b - a for a, b in zip(stamps, stamps[1:]) if b > a]
        self.granularity_ns = min(diffs) if diffs else None
        self.distinct = len(set(stamps))

    def after_write(self, cache_dir: Path):
        newest = 0
        with os.scandir(cache_dir) as it:
            for e in it:
                newest = max(newest, e.stat().st_ctime_ns)
        for _ in range(200000):
            self.probe.write_bytes(b"x")
            if os.stat(self.probe).st_ctime_ns > newest:
                return
            self.spins += 1
        raise RuntimeError("ctime does not advance")


def _worker(conn):
    caches = {}
    while True:
        try:
            msg = conn.recv()
        except EOFError:
            return
        if msg[0] == "quit":
            return
        try:
            if msg[0] == "new":
                caches[msg[1]] = pickle.loads(msg[2])
                conn.send(("ok", None))
            elif msg[0] == "drop":
                caches.pop(msg[1], None)
                conn.send(("ok", None))
            elif msg[0] == "op":
                conn.send(("ok", do_op(caches[msg[1]], msg[2], msg[3])))
            elif msg[0] == "soak":
                conn.send(("ok", soak_ops(caches[msg[1]], msg[2], msg[3], msg[4])))
        except BaseException as e:  # noqa: BLE001
            conn.send(("exc", exc_enum(e)))


class Workers:
    """Two forked worker processes that receive pickled shared caches and execute single operations on request."""

    def __init__(self, n=2):
        mp = multiprocessing.get_context("fork")
        self.procs, self.conns = [], []
        for _ in range(n):
            a, b = mp.Pipe()
            p = mp.Process(target=_worker, args=(b,), daemon=True)
            p.start()
            b.close()
            self.procs.append(p)
            self.conns.append(a)

    def call(self, i, *msg, timeout=60):
        c = self.conns[i]
        c.send(msg)
        if not c.poll(timeout):
            return ("exc", "Other:Hang")
        return c.recv()

    def close(self):
        for c in self.conns:
            try:
                c.send(("quit",))
            except Exception:  # noqa: BLE001
                pass
        for p in self.procs:
            p.join(2)
            if p.is_alive():
                p.kill()


def do_op(cache, kind, op):
    """Execute one operation through the public API; the observation in the driver's JSON form or {'err': enum}."""
    try:
        name = op[0]
        if name == "put":
            k = KEYS[op[1]] if isinstance(op[1], int) else op[1]
            if kind == "hybrid":
                cache.put(k, val(op[2]), op[3])
            else:
                cache.put(k, val(op[2]))
            return "unit"
        if name == "get":
            r = cache.get(KEYS[op[1]])
            return ["val", decode(r)]
        if name == "has":
            return ["bool", bool(KEYS[op[1]] in cache)]
        if name == "len":
            return ["nat", len(cache)]
        if name == "clear":
            cache.clear()
            return "unit"
        if name == "badkey":
            bad = [1, 2] if op[1] == "list" else {"x": 1}
            if op[2] == "put":
                cache.put(bad, val(0), 1) if kind == "hybrid" else cache.put(bad, val(0))
            elif op[2] == "get":
                cache.get(bad)
            else:
                bad in cache  # noqa: B015
            return "unit"
        raise AssertionError(op)
    except Exception as e:  # noqa: BLE001
        return {"err": exc_enum(e)}


def probe(cache, kind, keys):
    """presence of every key, len, and the public `cache` mapping — none of these has a side effect on any of the caches"""
    out = {}
    try:
        out["present"] = [i for i in keys if KEYS[i] in cache]
        out["len"] = len(cache)
        if kind in ("lru", "hybrid", "simple"):
            m = cache.cache
            out["values"] = [(decode(m[KEYS[i]]) if KEYS[i] in m else None) for i in keys]
            if len(m) != out["len"]:
                out["values"] = f"cache-property-size:{len(m)}"
    except Exception as e:  # noqa: BLE001
        out["err"] = exc_enum(e)
    return out


def bijection(cache, kind):
    """ANCHOR LRUCache._cache_dict + _cache_queue 'must stay a bijection' — read through getattr; absent attributes are
    counted, not reported (the property is about public behaviour)."""
    lru = cache if kind == "lru" else (getattr(cache, "lru_cache", None) if kind == "disk" else None)
    if lru is None:
        return None
    d, q = getattr(lru, "_cache_dict", None), getattr(lru, "_cache_queue", None)
    if d is None or q is None:
        return "no-attr"
    ks, ql = list(d.keys()), list(q)
    if len(ql) != len(set(map(repr, ql))):
        return f"queue holds a key twice: {ql!r}"
    if sorted(map(repr, ks)) != sorted(map(repr, ql)):
        return f"queue {ql!r} and dict keys {ks!r} differ"
    return None


def make_cache(case, base: Path, reopen=None):
    kind, shared = case["kind"], bool(case.get("shared"))
    cp = case.get("cloudpickle", True)
    if kind == "lru":
        return LRUCache(max_size=case["max"], shared=shared, allow_cloudpickle=cp)
    if kind == "hybrid":
        wa, wd = case["weights"]
        return HybridCache(max_size=case["max"], access_weight=wa / (wa + wd), duration_weight=wd / (wa + wd), shared=shared, allow_cloudpickle=cp)
    if kind == "simple":
        return SimpleCache()
    mx, lru = (case["max"], case.get("lru")) if reopen is None else reopen
    return DiskCache(base, max_size=mx, use_cloudpickle=cp, with_lru_cache=lru is not None, lru_cache_size=lru or 128, lru_shared=shared)


class Env:
    def __init__(self):
        self.base = Path(tempfile.mkdtemp(prefix="verif-c14-"))
        self.workers = None
        self.spacer = Spacer(self.base)
        self.n = 0

    def get_workers(self):
        if self.workers is None:
            self.workers = Workers(2)
        return self.workers

    def close(self):
        if self.workers:
            self.workers.close()
        shutil.rmtree(self.base, ignore_errors=True)


def run_impl(env: Env, case):
    """Execute the history; returns (steps, clause failures).  `steps[i]` mirrors the driver's entry for operation i.  The run
    stops at the first exception (that is already a violation of 'no operation raises')."""
    kind, keys = case["kind"], case["keys"]
    shared = bool(case.get("shared"))
    procs = case.get("procs") or [0] * len(case["ops"])
    env.n += 1
    cdir = env.base / f"d{env.n}"
    bad, steps = [], []
    cid = env.n
    sent = False
    cache = None
    try:
        try:
            cache = make_cache(case, cdir)
            if shared and any(procs):
                blob = pickle.dumps(cache)
                for w in (0, 1):
                    r = env.get_workers().call(w, "new", cid, blob)
                    if r[0] != "ok":
                        bad.append(f"unpickling the shared cache in a worker raised {r[1]}")
                sent = True
        except Exception as e:  # noqa: BLE001
            bad.append(f"constructing/pickling the cache raised {exc_enum(e)}")
            return steps, bad
        if bad:
            return steps, bad
        last_put = {}
        max_size = case.get("max")
        present_before = []
        disk_bounded = True
        for i, op in enumerate(case["ops"]):
            if op[0] == "reopen":
                try:
                    cache = None
                    cache = make_cache(case, cdir, reopen=(op[1], op[2]))
                    max_size = op[1]
                    if shared and any(procs):
                        blob = pickle.dumps(cache)
                        for w in (0, 1):
                            env.get_workers().call(w, "new", cid, blob)
                    o = "unit"
                except Exception as e:  # noqa: BLE001
                    o = {"err": exc_enum(e)}
            elif procs[i] == 0 or not shared:
                o = do_op(cache, kind, op)
            else:
                r = env.get_workers().call(procs[i] - 1, "op", cid, kind, op)
                o = r[1] if r[0] == "ok" else {"err": r[1]}
            if kind == "disk" and op[0] == "put":
                env.spacer.after_write(cdir)
            st = {"o": o}
            if isinstance(o, dict):
                bad.append(f"step {i} {op[0]} raised {o['err']}")
                steps.append(st)
                break
            pr = probe(cache, kind, keys)
            st.update(pr)
            steps.append(st)
            if "err" in pr:
                bad.append(f"step {i}: probing `in`/len/cache after {op[0]} raised {pr['err']}")
                break
            # ---- clauses of the property, on the implementation's own answers
            if op[0] == "put":
                last_put[op[1]] = op[2]
                if op[1] not in pr["present"]:
                    bad.append(f"step {i}: key {op[1]} is absent right after it was put")
            # DiskCache (C14_disk_len_le_history / C14_disk_len_le_after_put): a reopen with a smaller max_size may find more files than that;
            # from the next put on — and from the start on a new directory — len <= max_size after EVERY operation
            if op[0] == "reopen":
                disk_bounded = False
            elif op[0] == "put":
                disk_bounded = True
            if max_size is not None and kind != "simple" and (kind != "disk" or disk_bounded) and pr["len"] > max_size:
                bad.append(f"step {i}: len {pr['len']} exceeds max_size {max_size}")
            if op[0] == "get":
                was = op[1] in present_before
                got = o[1]
                want = canon_n(last_put.get(op[1])) if was else None          # a stored None: present, and get returns None
                if got != want:
                    if (got is None) != (want is None):
                        bad.append(f"step {i}: key {op[1]} reported {'present' if was else 'absent'} but get returned {got!r}"
                                   + (f" (most recent put: {want!r})" if was else ""))
                    else:
                        bad.append(f"step {i}: get({op[1]}) returned {got!r}, most recent put was {want!r}")
            if op[0] == "has" and o[1] != (op[1] in present_before):
                bad.append(f"step {i}: `in` answered {o[1]} for key {op[1]}, previous probe said {op[1] in present_before}")
            if op[0] == "len" and i > 0 and o[1] != steps[i - 1].get("len"):
                bad.append(f"step {i}: len() answered {o[1]}, previous probe said {steps[i - 1].get('len')}")
            if op[0] == "clear" and (pr["present"] or pr["len"]):
                bad.append(f"step {i}: after clear {pr['present']} present, len {pr['len']}")
            bj = bijection(cache, kind)
            if bj == "no-attr":
                st["bij"] = "no-attr"
            elif bj:
                bad.append(f"step {i}: after {op[0]}: {bj}")
            present_before = pr["present"]
            if bad:
                break
        return steps, bad
    finally:
        if sent:
            for w in (0, 1):
                env.get_workers().call(w, "drop", cid)
        cache = None
        if kind == "disk":
            shutil.rmtree(cdir, ignore_errors=True)


# ------------------------------------------------------------------------------------------------ reference for exploration
# The reachable abstract states (keys only) and a shortest history to each are enumerated by the Lean model itself: the driver
# lean/Driver/C14Explore.lean (`cache.explore`) runs a breadth-first search over `PF.Cache.{LRU,Hyb,Simple,Disk}.step` and returns
# 'shortest history + operation' for every transition found (level by level, states in discovery order, operations in the order
# given, at most `limit` histories).  There is no Python copy of the policies.  Verdicts never depend on the exploration: every
# case is compared with the Lean model and with the property clauses.
def concretise(history):
    """give every put a fresh value number (so 'the value most recently put' is identifiable)"""
    out, n = [], 100
    for op in history:
        if op[0] == "put":
            n += 1
            out.append(["put", op[1], n, op[3] if len(op) > 3 else 0])
        else:
            out.append(list(op))
    return out


def exploration_plan(thorough):
    """the explorations of a tier: (arguments of `cache.explore`, name of the state counter, history -> case)"""
    plan = []
    nk = 4
    basic = [("put", k, 0, 0) for k in range(nk)] + [("get", k) for k in range(nk)] + [("clear",)]
    for mx in (1, 2, 3):
        # every case ends with a drain — max_size puts of fresh keys, presence probed after each — so that the recency ORDER the
        # last operation left behind (not observable through `in`/len) decides observable evictions
        drain = [("put", 4 + j, 0, 0) for j in range(mx)]
        plan.append(({"kind": "lru", "max": mx, "ops": basic, "depth": 8 if thorough else 6, "limit": 100000}, f"explore:lru:max{mx}:states",
                     lambda h, mx=mx, drain=drain: {"kind": "lru", "max": mx, "keys": list(range(nk + mx)), "ops": concretise(h + drain), "src": "explore"}))
    plan.append(({"kind": "simple", "max": None, "ops": [("put", k, 0, 0) for k in range(3)] + [("get", k) for k in range(3)] + [("clear",)],
                  "depth": 4, "limit": 1000}, "explore:simple:states",
                 lambda h: {"kind": "simple", "max": None, "keys": [0, 1, 2], "ops": concretise(h), "src": "explore"}))
    for mx in (1, 2, 3):
        for w in ((1, 1), (1, 3)) if not thorough else WEIGHTS:
            ops = [("put", k, 0, d) for k in range(3) for d in (1, 2)] + [("get", k) for k in range(3)] + [("clear",)]
            drain = [("put", 4 + j, 0, 1 + j) for j in range(mx)]       # the scores the last operation left behind decide these evictions
            plan.append(({"kind": "hybrid", "max": mx, "weights": list(w), "ops": ops, "depth": 5 if thorough else 4, "limit": 6000 if thorough else 260},
                         f"explore:hybrid:max{mx}:states",
                         lambda h, mx=mx, w=w, drain=drain: {"kind": "hybrid", "max": mx, "weights": list(w), "keys": [0, 1, 2] + [4 + j for j in range(mx)],
                                                             "ops": concretise(h + drain), "src": "explore"}))
    for mx in (1, 2):
        for lsz in (None, 1, 2):
            ops = ([("put", k, 0, 0) for k in range(3)] + [("get", k) for k in range(3)] + [("clear",), ("reopen", mx, lsz)]
                   + ([("reopen", 1, lsz)] if mx != 1 else []) + [("reopen", None, lsz)])
            plan.append(({"kind": "disk", "max": mx, "lru": lsz, "ops": ops, "depth": 6 if thorough else 4, "limit": 4000 if thorough else 170},
                         f"explore:disk:max{mx}:lru{lsz}:states",
                         lambda h, mx=mx, lsz=lsz: {"kind": "disk", "max": mx, "lru": lsz, "keys": [0, 1, 2], "ops": concretise(h), "src": "explore"}))
    return plan


def exploration_cases(ctx):
    plan = exploration_plan(ctx.tier == "thorough")
    res = ctx.lean([{"m": "cache.explore", "a": a} for a, _, _ in plan], driver="C14Explore")       # one call: the model explores itself
    cases = []
    for (_, counter, mk), r in zip(plan, res):
        ctx.count(counter, r["r"]["states"])
        cases += [mk([tuple(op) for op in h]) for h in r["r"]["histories"]]
    return cases


# ------------------------------------------------------------------------------------------------ random histories
def gen_ops(rng, kind, nk, length, durations):
    ops, n = [], 0
    for _ in range(length):
        r = rng.random()
        k = rng.randrange(nk)
        if ops and ops[-1][0] == "put" and rng.random() < 0.2:
            k = ops[-1][1]                                       # re-put / read the key just written
        if r < 0.5:
            n += 1
            ops.append(["put", k, n, rng.choice(durations)])
        elif r < 0.75:
            ops.append(["get", k])
        elif r < 0.85:
            ops.append(["has", k])
        elif r < 0.92:
            ops.append(["len"])
        elif r < 0.96 or kind != "disk":
            ops.append(["clear"])
        else:
            ops.append(["reopen", rng.choice([None, 1, 2, 3]), rng.choice([None, 1, 2, 128])])
    order = list(range(nk))
    rng.shuffle(order)
    return ops + [["get", k] for k in order]                      # drain: what does every key answer at the end


def gen_case(rng, kind=None, shared=False, maxlen=40):
    kind = kind or rng.choices(["lru", "hybrid", "disk", "simple"], [4, 4, 3, 1])[0]
    nk = rng.choice([3, 4])
    case = {"kind": kind, "max": rng.choice([1, 1, 2, 2, 3]), "keys": list(range(nk)), "src": "random"}
    if kind == "simple":
        case["max"] = None
    if kind == "hybrid":
        case["weights"] = list(rng.choice(WEIGHTS))
    if kind == "disk":
        case["lru"] = rng.choice([None, 1, 2, 128])
        if rng.random() < 0.1:
            case["max"] = None
        case["cloudpickle"] = rng.random() < 0.7
    case["ops"] = gen_ops(rng, kind, nk, rng.randint(1, maxlen), [1, 2, 3, 5, 7, 11])
    if shared:
        case["shared"] = True
        case["cloudpickle"] = rng.random() < 0.7
        case["procs"] = [rng.choice([0, 1, 2]) for _ in case["ops"]]
        case["src"] = "shared"
    return case


# ------------------------------------------------------------------------------------------------ comparison
def to_request(case):
    a = {"kind": case["kind"], "max": case.get("max"), "keys": case["keys"], "ops": case["ops"]}
    if case["kind"] == "hybrid":
        a["weights"] = case["weights"]
    if case["kind"] == "disk":
        a["lru"] = case.get("lru")
    return {"m": "cache.run", "a": a}


def near_tie(case, msteps, i):
    """the eviction performed by put number i hinges on floating-point rounding (see ASSUMPTIONS): decided by the model
    (`Hyb.floatAmbiguous`, theorems C14_hybrid_unambiguous_strict / C14_hybrid_ambiguous_iff), only read here"""
    if case["kind"] != "hybrid" or case["ops"][i][0] != "put" or i == 0:
        return False
    return bool(msteps[i - 1]["state"]["amb"])


def hybrid_tie_order(case, msteps, i, impl_step):
    """the implementation evicted a different entry than the model, but one of the entries the model lists as sharing the minimal
    exact score (`Hyb.minKeys`, theorem C14_hybrid_minKeys_spec): the property ('lowest score leaves') holds, only the model's
    tie-break (first in insertion order, as `min` over a dict) differs"""
    if case["kind"] != "hybrid" or case["ops"][i][0] != "put" or i == 0 or "present" not in impl_step:
        return False
    before = msteps[i - 1]
    gone = [k for k in before["present"] if k not in impl_step["present"] and k != case["ops"][i][1]]
    if case["ops"][i][1] in before["present"] and case["ops"][i][1] not in gone and len(impl_step["present"]) == len(before["present"]):
        gone = gone or [case["ops"][i][1]]          # the re-put key itself was the one expired and stored again
    return len(gone) == 1 and gone[0] in before["state"]["min_keys"]


def branches(ctx, case, msteps):
    kind = case["kind"]
    before = {"present": [], "len": 0, "state": None}
    for op, st in zip(case["ops"], msteps):
        tag = op[0]
        if op[0] == "put":
            resident = op[1] in before["present"]
            lost = [k for k in before["present"] if k not in st["present"]]
            tag = f"put:{'resident' if resident else 'new'}:{'evicts' if lost else 'keeps'}"
            if kind == "disk" and before["state"] is not None:
                gone = len(before["state"]["files"]) + (0 if any(f[0] == op[1] for f in before["state"]["files"]) else 1) - len(st["state"]["files"])
                tag += f":unlinked{min(gone, 2)}{'+' if gone > 2 else ''}"
            if kind == "hybrid" and before["state"] is not None and before["state"]["du"] and sum(d for _, d in before["state"]["du"]) == 0 \
                    and len(before["state"]["dict"]) >= case["max"]:
                tag += ":zero-total"
        elif op[0] == "get":
            hit = op[1] in before["present"]
            tag = "get:hit" if hit else "get:miss"
            if hit and st["o"][1] is None:
                tag += ":stored-None"
            elif hit and isinstance(st["o"][1], str):
                tag += ":falsy"
            if kind == "disk" and hit and before["state"] is not None and before["state"]["lru"] is not None:
                tag += ":lru" if op[1] in before["state"]["lru"]["dict"] else ":file"
        ctx.count(f"{kind}:{tag}")
        if kind == "disk" and len(st["present"]) > st["len"]:
            ctx.count("disk:more-keys-present-than-files")      # C14_disk_present_bound: the LRU answers for keys whose file is gone
        before = st


def nontrivial(case, msteps):
    seen = set()
    for op, st in zip(case["ops"], msteps):
        if op[0] == "put" and (op[1] in seen):
            return True
        if op[0] == "get" and op[1] in seen:
            return True
        if op[0] == "put":
            seen.add(op[1])
    return len(seen) > (case.get("max") or 99)


def check_cases(ctx, env, cases):
    impls = []
    for case in cases:
        steps, bad = run_impl(env, case)
        impls.append((steps, bad))
    outs = ctx.lean([to_request(c) for c in cases])
    for case, (steps, bad), resp in zip(cases, impls, outs):
        model = resp["r"]
        msteps = [canon_mstep(st) for st in model["steps"]]
        ctx.count(f"case:{case['kind']}:{case.get('src', 'corpus')}{':shared' if case.get('shared') else ''}")
        ctx.count("transitions", len(steps))
        branches(ctx, case, msteps)
        ctx.record({k: case[k] for k in case if k != "src"}, nontrivial(case, msteps))
        slim = {k: v for k, v in case.items() if k != "src"}
        if not model["spec_ok"]:
            ctx.violation(slim, "the LRU model and its recency-list specification disagree (extraction sanity check)", found_input=False,
                          item="C14_lru_refines")
        if bad:
            cut = dict(slim, ops=case["ops"][:len(steps)])
            if "procs" in cut:
                cut["procs"] = cut["procs"][:len(steps)]
            ctx.violation(cut, f"{case['kind']}{' shared' if case.get('shared') else ''}: {bad[0]}", impl=steps[-3:], model=msteps[max(0, len(steps) - 3):len(steps)],
                          key=case["kind"] + ":" + re.sub(r"[0-9]+|\[.*|\(.*|'.*", "#", bad[0])[:50])
            continue
        if model["err"] is not None:
            ctx.violation(slim, f"the model raises {model['err']} at step {len(msteps)} where the implementation does not", found_input=False,
                          item="correspondence:model-raises", impl=steps[-2:], model=model["err"])
            continue
        for i, (a, b) in enumerate(zip(steps, msteps)):
            if near_tie(case, msteps, i):
                ctx.skip("hybrid-near-tie")
                break
            diff = [f for f in ("o", "present", "len", "values") if f in a and a[f] != b[f]]
            if a.get("bij") == "no-attr":
                ctx.count("bijection-anchor-attributes-missing")
            if diff:
                cut = dict(slim, ops=case["ops"][:i + 1])
                if "procs" in cut:
                    cut["procs"] = cut["procs"][:i + 1]
                f = diff[0]
                what = {"o": f"{case['ops'][i][0]} answered {a['o']}, the policy gives {b['o']}",
                        "present": f"after {case['ops'][i][0]} the keys present are {a.get('present')}, the policy keeps {b['present']}",
                        "len": f"len is {a.get('len')} after {case['ops'][i][0]}, the policy gives {b['len']}",
                        "values": f"the cache mapping holds {a.get('values')} after {case['ops'][i][0]}, most recent puts are {b['values']}"}[f]
                if f == "present" and hybrid_tie_order(case, msteps, i, a):
                    ctx.violation(cut, f"hybrid step {i}: the entry evicted has the lowest score but is not the first such entry in insertion order "
                                  f"(implementation keeps {a.get('present')}, model {b['present']})", found_input=False, item="correspondence:hybrid-tie-order",
                                  impl={k: a.get(k) for k in ("o", "present", "len", "values")}, model=b, key="hybrid-tie-order")
                    break
                ctx.violation(cut, f"{case['kind']}{' shared' if case.get('shared') else ''} step {i}: {what}",
                              impl={k: a.get(k) for k in ("o", "present", "len", "values")}, model=b, key=f"{case['kind']}:{case['ops'][i][0]}:{f}")
                break


# ------------------------------------------------------------------------------------------------ separate streams
def malformed_stream(ctx, env):
    """constructor guard, unhashable keys, pickling guard: each is an expected, specific exception"""
    try:
        LRUCache(max_size=0, shared=False)
        ctx.violation({"malformed": "LRUCache(max_size=0)"}, "LRUCache(max_size=0) is accepted (the constructor documents a ValueError)",
                      found_input=False, item="correspondence:max_size-0")
    except ValueError:
        ctx.count("malformed:max_size0:ValueError")
    except Exception as e:  # noqa: BLE001
        ctx.violation({"malformed": "LRUCache(max_size=0)"}, f"LRUCache(max_size=0) raised {exc_enum(e)}", found_input=False, item="correspondence:max_size-0")
    for kind in ("lru", "hybrid", "simple", "disk"):
        case = {"kind": kind, "max": 2, "weights": [1, 1], "lru": 2, "keys": [0, 1]}
        env.n += 1
        cache = make_cache(case, env.base / f"d{env.n}")
        try:
            pickle.dumps(cache)
            ctx.violation({"malformed": f"pickle non-shared {kind}"}, f"a non-shared {kind} cache pickles silently (the copy would not share entries)",
                          found_input=False, item="correspondence:getstate-guard")
        except RuntimeError:
            ctx.count(f"malformed:pickle-nonshared:{kind}:RuntimeError")
        except Exception as e:  # noqa: BLE001
            ctx.violation({"malformed": f"pickle non-shared {kind}"}, f"pickling a non-shared {kind} cache raised {exc_enum(e)}", found_input=False,
                          item="correspondence:getstate-guard")
        if kind == "disk":
            continue                                  # DiskCache pickles its keys: unhashable keys are legal there
        for bad in ("list", "dict"):
            for how in ("put", "get", "in"):
                do_op(cache, kind, ["put", 0, 1, 1])
                o = do_op(cache, kind, ["badkey", bad, how])
                ctx.count(f"malformed:unhashable:{kind}:{how}:{o['err'] if isinstance(o, dict) else 'accepted'}")
                if o != {"err": "TypeError"}:
                    ctx.violation({"malformed": f"{kind} {how} unhashable {bad}"}, f"{kind}.{how} with an unhashable key: {o}", found_input=False,
                                  item="correspondence:unhashable-key")
                if do_op(cache, kind, ["get", 0]) != ["val", 1]:
                    ctx.violation({"malformed": f"{kind} {how} unhashable {bad}"}, f"{kind}: a failed {how} with an unhashable key lost a resident entry")


def zero_duration_cases(ctx):
    """DF-02 stream: durations 0 (all, or mixed with positive ones)"""
    rng = ctx.rng
    cases = []
    for _ in range(ctx.n(60, 3000)):
        nk = rng.choice([3, 4])
        durs = [0] if rng.random() < 0.5 else [0, 0, 1, 2]
        cases.append({"kind": "hybrid", "max": rng.choice([1, 2, 3]), "weights": list(rng.choice(WEIGHTS)), "keys": list(range(nk)),
                      "ops": gen_ops(rng, "hybrid", nk, rng.randint(2, 14), durs), "src": "zero-duration"})
    return cases


# ------------------------------------------------------------------------------------------------ concurrent soak (invariants only)
def soak_ops(cache, kind, seed, n):
    import random
    rng = random.Random(seed)
    errs = collections.Counter()
    for j in range(n):
        k = KEYS[rng.randrange(4)]
        try:
            r = rng.random()
            if r < 0.5:
                cache.put(k, val(j), 1.0) if kind == "hybrid" else cache.put(k, val(j))
            elif r < 0.9:
                v = cache.get(k)
                if str(decode(v)).startswith("garbled"):
                    errs["garbled"] += 1
            elif r < 0.98:
                k in cache  # noqa: B015
            else:
                len(cache)
        except Exception as e:  # noqa: BLE001
            errs[exc_enum(e)] += 1
    return dict(errs)


def soak(ctx, env):
    """truly concurrent callers on shared caches: asserted are 'nothing raises', 'len <= max_size afterwards' and 'queue/dict
    still a bijection' — not conformance to the model (ASSUMPTIONS: atomic operations)"""
    w = env.get_workers()
    for kind in ("lru", "hybrid"):
        for mx in (1, 2):
            case = {"kind": kind, "max": mx, "weights": [1, 1], "shared": True}
            cache = make_cache(case, env.base)
            env.n += 1
            blob = pickle.dumps(cache)
            for i in (0, 1):
                w.call(i, "new", env.n, blob)
            n = ctx.n(100, 4000)
            for i in (0, 1):
                w.conns[i].send(("soak", env.n, kind, ctx.rng.randrange(10**9), n))
            mine = soak_ops(cache, kind, ctx.rng.randrange(10**9), n)
            res = [mine]
            for i in (0, 1):
                res.append(w.conns[i].recv()[1] if w.conns[i].poll(600) else {"Other:Hang": 1})
            for r in res:
                for e, c in (r or {}).items():
                    ctx.count(f"soak:{kind}:raised:{e}", c)
                    ctx.violation({"soak": kind, "max": mx, "ops_per_process": n}, f"{kind} shared: {e} raised {c} times by put/get/in/len issued "
                                  "concurrently from 3 processes", found_input=False, item="correspondence:soak-raises", key=f"soak-raises-{kind}")
            ctx.count(f"soak:{kind}:ops", 3 * n)
            ln = len(cache)
            if ln > mx:
                ctx.violation({"soak": kind, "max": mx, "ops_per_process": n}, f"{kind} shared: len {ln} exceeds max_size {mx} after concurrent use",
                              found_input=False, item="correspondence:soak-len")
            bj = bijection(cache, kind)
            if bj and bj != "no-attr":
                ctx.violation({"soak": kind, "max": mx, "ops_per_process": n}, f"{kind} shared after concurrent use: {bj}", found_input=False,
                              item="correspondence:soak-bijection")
            for i in (0, 1):
                w.call(i, "drop", env.n)


# ------------------------------------------------------------------------------------------------ schedules of the process model
def interleave_cases(ctx):
    """Random schedules for the Lean process model (`PF.Cache.Shared.exec`: 3 processes, lock, critical sections of container
    accesses).  The driver answers with the linearisation (who entered which critical section in which order) and re-evaluates
    `C14_shared_linearisable` on it; the linearisation then runs on the real shared cache, every operation issued by the process
    the model says (0 = this process, 1/2 = workers), through the ordinary comparison."""
    rng = ctx.rng
    metas, reqs = [], []
    for _ in range(ctx.n(6, 40)):
        kind, mx = rng.choice(["lru", "hybrid"]), rng.choice([1, 2, 2, 3])
        sch, n = [], 400
        for _ in range(rng.randint(15, 80)):
            r, k = rng.random(), rng.randrange(4)
            n += 1
            op = ["put", k, n, rng.choice([1, 2, 3, 5])] if r < 0.5 else ["get", k] if r < 0.8 else ["has", k] if r < 0.9 else ["len"] if r < 0.96 else ["clear"]
            sch.append([rng.randrange(3), op])
        a = {"kind": kind, "max": mx, "schedule": sch}
        if kind == "hybrid":
            a["weights"] = list(rng.choice(WEIGHTS))
        metas.append(a)
        reqs.append({"m": "cache.interleave", "a": a})
    cases = []
    for a, out in zip(metas, ctx.lean(reqs)):
        r = out["r"]
        ctx.count("interleave:schedules")
        ctx.count("interleave:critical-sections", len(r["lin"]))
        ctx.count("interleave:blocked-or-overtaken", sum(1 for i, e in enumerate(r["log"]) if e[0] != i))
        if not r["seq_ok"]:
            ctx.violation({"stream": "interleave", **a}, "the process model's results differ from the sequential run of its linearisation "
                          "(extraction sanity check of C14_shared_linearisable)", found_input=False, item="C14_shared_linearisable")
            continue
        case = {"kind": a["kind"], "max": a["max"], "keys": [0, 1, 2, 3], "ops": [e[1] for e in r["lin"]], "procs": [e[0] for e in r["lin"]],
                "shared": True, "cloudpickle": True, "src": "interleave"}
        if a["kind"] == "hybrid":
            case["weights"] = a["weights"]
        if case["ops"]:
            cases.append(case)
    return cases


# ------------------------------------------------------------------------------------------------ preemption stream
# One operation P of the parent process is preempted, at one of its preemption points (c14_preempt.py), by one operation Q that
# a REAL second process (a worker holding a pickled copy of the shared cache) runs to completion.  Sound judgement for every
# correct implementation: (result of P, result of Q, everything observed afterwards) equals what the Lean model gives for
# H+[P,Q]+E or for H+[Q,P]+E; 'no operation raises' and 'len <= max_size' are checked on the implementation's answers directly.
PRE_EPILOGUE = [["put", 3, 301, 5], ["get", 0], ["get", 1], ["get", 2]]
IN_LOCK_WAIT = 0.25          # seconds a peer gets to finish inside P's critical section before it counts as blocked


def preempt_ops():
    ops = []
    for k in (0, 1, 2):                       # 0: the designated victim of H, 1: another (resident when max_size >= 2), 2: new
        ops += [["get", k], ["put", k], ["has", k]]
    return ops + [["len"], ["clear"]]


def preempt_histories(mx):
    hs = [[], [["put", 0, 101, 1]]]
    if mx >= 2:
        hs += [[["put", 0, 101, 1], ["put", 1, 102, 3]], [["put", 0, 101, 1], ["put", 1, 102, 3], ["get", 0]]]
    if mx >= 3:
        hs += [[["put", 0, 101, 1], ["put", 1, 102, 3], ["put", 2, 103, 2]], [["put", 0, 101, 1], ["put", 1, 102, 3], ["put", 2, 103, 2], ["get", 0], ["get", 0]]]
    return hs


def _with_value(op, v, d):
    return ["put", op[1], v, d] if op[0] == "put" else list(op)


class PreSlot:
    """one shared cache per configuration, reused for every run (creating a manager-backed cache costs ~0.25 s): the parent's
    object, the worker's pickled copy, and what a dry run found out about each operation (does it take the lock?)"""

    def __init__(self, env, cfg):
        self.cfg = cfg
        env.n += 1
        self.cid = env.n
        self.cache = make_cache(dict(cfg, shared=True), env.base / f"pre{env.n}")
        self.target = getattr(self.cache, "lru_cache", None) if cfg["kind"] == "disk" else self.cache    # the object whose lock/containers are wrapped
        self.err = None
        r = env.get_workers().call(0, "new", self.cid, pickle.dumps(self.cache))
        if r[0] != "ok":
            self.err = f"unpickling the shared cache in a worker raised {r[1]}"

    def drop(self, env):
        if env.workers:
            env.workers.call(0, "drop", self.cid)
        self.cache = self.target = None


def pre_probe(cache, kind, keys):
    pr = probe(cache, kind, keys)
    if kind == "hybrid" and "err" not in pr:
        try:
            ac, du = cache.access_counts, cache.computation_durations
            pr["ac"] = sorted([KEYS.index(k), int(n)] for k, n in ac.items())
            pr["du"] = sorted([KEYS.index(k), int(d)] for k, d in du.items())
        except Exception as e:  # noqa: BLE001
            pr["err"] = exc_enum(e)
    return pr


def preempt_run(env, slot, case):
    """one run: reset (public clear), H, then P with Q fired at `case['at']`, then probe, epilogue, probes"""
    kind, keys = case["kind"], case["keys"]
    cache = slot.cache
    out = {"fired": False}
    for op in [["clear"]] + case["H"]:
        o = do_op(cache, kind, op)
        if isinstance(o, dict):
            out["setup"] = f"set-up {op[0]} raised {o['err']}"
            return out
    q = {}

    def act():
        try:
            _act()
        except Exception as e:  # noqa: BLE001 — a broken pipe to the worker must not look like an exception of P
            q["infra"] = f"{type(e).__name__}: {e}"

    def _act():
        c = env.get_workers().conns[0]
        c.send(("op", slot.cid, kind, case["Q"]))
        if c.poll(IN_LOCK_WAIT if case["at"][0] == "in" else 60):
            r = c.recv()
            q["o"] = r[1] if r[0] == "ok" else {"err": r[1]}
            q["when"] = "inside" if case["at"][0] == "in" else "at-point"
        elif case["at"][0] == "in":
            q["pending"] = True
        else:
            q["o"] = {"err": "Other:Hang"}
            q["hang"] = True

    sched = pre.Sched(target=case["at"], action=act)
    saved, missing = pre.install(slot.target, sched)
    if saved is None:
        out["no_lock"] = True
        return out
    try:
        oP = do_op(cache, kind, case["P"])
    finally:
        pre.uninstall(slot.target, saved)
    if q.get("infra"):
        raise framework.Infra(f"C14 preemption stream: talking to the peer process failed ({q['infra']})")
    out.update(fired=sched.fired, n_out=sched.n_out, n_in=sched.n_in, trace=sched.trace, fired_at=sched.fired_at,
               acquires=sched.acquires, unlocked=sched.accesses_unlocked, missing=missing)
    if not sched.fired:
        return out
    if q.get("pending"):
        c = env.get_workers().conns[0]
        if c.poll(60):
            r = c.recv()
            q["o"] = r[1] if r[0] == "ok" else {"err": r[1]}
            q["when"] = "blocked-until-release"
        else:
            q["o"] = {"err": "Other:Hang"}
            q["hang"] = True
    out.update(P=oP, Q=q.get("o"), when=q.get("when"), hang=bool(q.get("hang")))
    if isinstance(oP, dict) or isinstance(out["Q"], dict):
        return out
    out["post"] = pre_probe(cache, kind, keys)
    if "err" in out["post"]:
        return out
    out["E"] = []
    for op in case["E"]:
        o = do_op(cache, kind, op)
        st = {"o": o}
        out["E"].append(st)
        if isinstance(o, dict):
            return out
    out["final"] = pre_probe(cache, kind, keys)
    return out


def pre_pick(mstep, kind):
    d = {"present": mstep["present"], "len": mstep["len"], "values": [canon_n(v) for v in mstep["values"]]}
    if kind == "hybrid":
        d["ac"] = sorted(list(p) for p in mstep["state"]["ac"])
        d["du"] = sorted(list(p) for p in mstep["state"]["du"])
    if kind == "disk":
        d.pop("values")
    return d


def pre_expected(case, msteps, order):
    h = len(case["H"])
    a, b = canon_mstep(msteps[h])["o"], canon_mstep(msteps[h + 1])["o"]
    kind = case["kind"]
    return {"P": a if order == "PQ" else b, "Q": b if order == "PQ" else a, "post": pre_pick(msteps[h + 1], kind),
            "E": [{"o": canon_mstep(s)["o"]} for s in msteps[h + 2:]], "final": pre_pick(msteps[-1], kind)}


def pre_diff(obs, exp, fields):
    """first difference between the observation and one linearisation, restricted to `fields` of the probes"""
    if obs["P"] != exp["P"]:
        return f"P answered {obs['P']} (this order gives {exp['P']})"
    if obs["Q"] != exp["Q"]:
        return f"Q answered {obs['Q']} (this order gives {exp['Q']})"
    for f in fields:
        if f in obs["post"] and obs["post"][f] != exp["post"].get(f):
            return f"afterwards {f} is {obs['post'][f]} (this order gives {exp['post'].get(f)})"
    for i, (a, b) in enumerate(zip(obs.get("E", []), exp["E"])):
        if a["o"] != b["o"]:
            return f"epilogue step {i} answered {a['o']} (this order gives {b['o']})"
    for f in fields:
        if f in obs.get("final", {}) and obs["final"][f] != exp["final"].get(f):
            return f"at the end {f} is {obs['final'][f]} (this order gives {exp['final'].get(f)})"
    return None


def pre_requests(case):
    base = {"kind": case["kind"], "max": case.get("max"), "keys": case["keys"]}
    if case["kind"] == "hybrid":
        base["weights"] = case["weights"]
    if case["kind"] == "disk":
        base["lru"] = case.get("lru")
    return [to_request(dict(base, ops=case["H"] + [case["P"], case["Q"]] + case["E"])),
            to_request(dict(base, ops=case["H"] + [case["Q"], case["P"]] + case["E"]))]


def pre_clauses(case, obs):
    """the property's own clauses on the implementation's answers"""
    mx = case.get("max")
    for who in ("P", "Q"):
        if isinstance(obs.get(who), dict):
            return f"{who} = {case[who][0]} raised {obs[who]['err']}"
    lens = [(f"{who} = len() answered", obs[who][1]) for who in ("P", "Q") if case[who][0] == "len"]
    if "post" in obs:
        if "err" in obs["post"]:
            return f"probing in/len/cache afterwards raised {obs['post']['err']}"
        lens.append(("afterwards len is", obs["post"]["len"]))
    for i, st in enumerate(obs.get("E", [])):
        if isinstance(st["o"], dict):
            return f"epilogue step {i} ({case['E'][i][0]}) raised {st['o']['err']}"
    if "final" in obs:
        if "err" in obs["final"]:
            return f"probing in/len/cache at the end raised {obs['final']['err']}"
        lens.append(("at the end len is", obs["final"]["len"]))
    if mx is not None and case["kind"] != "disk":
        for what, n in lens:
            if n > mx:
                return f"{what} {n}, max_size is {mx}"
    return None


def preempt_combos(ctx, cfgs):
    ops = preempt_ops()
    first, rest = [], []
    for ci, cfg in enumerate(cfgs):
        cap = cfg.get("lru") or cfg["max"]
        for H in preempt_histories(cap):
            full = len({op[1] for op in H if op[0] == "put"}) >= cap
            for P in ops:
                for Q in ops:
                    # the pairs in which an evicting/emptying peer meets a read or write of the victim come first
                    hot = full and Q[0] in ("put", "clear") and P[0] in ("get", "put") and len(H) <= cap
                    (first if hot else rest).append((ci, H, P, Q))
    ctx.rng.shuffle(rest)
    return first + rest


def preempt_stream(ctx, env):
    thorough = ctx.tier == "thorough"
    cfgs = [{"kind": k, "max": mx, "weights": [1, 1], "keys": [0, 1, 2, 3], "cloudpickle": True} for k in ("lru", "hybrid") for mx in (1, 2)]
    # DiskCache with a shared in-memory LRU (lru_shared=True), max_size=None: the points are those of the LRU's lock and containers
    cfgs += [{"kind": "disk", "max": None, "lru": n, "keys": [0, 1, 2, 3], "cloudpickle": True} for n in (1, 2)]
    if thorough:
        cfgs += [{"kind": k, "max": 3, "weights": [1, 1], "keys": [0, 1, 2, 3], "cloudpickle": True} for k in ("lru", "hybrid")]
        cfgs += [{"kind": k, "max": 2, "weights": [1, 3], "keys": [0, 1, 2, 3], "cloudpickle": False} for k in ("lru", "hybrid")]
    budget = ctx.n(300, 2500)
    slots = {}
    runs = []                     # (case, obs)
    lockfree = {}
    try:
        for ci, cfg in enumerate(cfgs):
            slots[ci] = PreSlot(env, cfg)
            if slots[ci].err:
                ctx.violation({"stream": "preempt", **cfg}, slots[ci].err)
                return
            # dry run: which operations take the lock at all?  (a lock-free peer can run inside P's critical section)
            for op in (["get", 0], ["put", 0], ["has", 0], ["len"], ["clear"]):
                case = dict(cfg, H=[["put", 0, 101, 1]], P=_with_value(op, 201, 2), Q=["len"], E=[], at=["none", 0])
                o = preempt_run(env, slots[ci], case)
                if o.get("no_lock"):
                    ctx.count("preempt:no-lock-attr")
                    return
                lockfree[(ci, op[0])] = o.get("acquires", 1) == 0
                ctx.count(f"preempt:dry:{cfg['kind']}:{op[0]}:acquires{o.get('acquires')}:unlocked-accesses{o.get('unlocked')}")
                for name in o.get("missing", []):
                    if (name == "_cache_queue") != (cfg["kind"] == "hybrid") or name == "_cache_dict":
                        ctx.count(f"preempt:no-container:{cfg['kind']}:{name}")
        # corpus first: the runs that exposed DF-C14-unlocked-len-in (a peer's len()/`in` inside put's critical section; with the
        # repair the peer blocks until the release), the seeded change C14-s1-B and DF-C14-get-race
        for c in PRE_CORPUS:
            ci = next((i for i, cfg in enumerate(cfgs) if cfg["kind"] == c["kind"] and cfg["max"] == c["max"] and cfg.get("lru") == c.get("lru")), None)
            if ci is None:
                continue
            case = dict(cfgs[ci], stream="preempt", E=PRE_EPILOGUE, **{k: c[k] for k in ("H", "P", "Q", "at")})
            obs = preempt_run(env, slots[ci], case)
            ctx.count("preempt:corpus" + ("" if obs.get("fired") else ":point-not-reached"))
            if obs.get("fired") and not obs.get("setup"):
                runs.append((case, obs))
        n = 0
        npoints = {}
        for ci, H, P0, Q0 in preempt_combos(ctx, cfgs):
            if n >= budget:
                ctx.count("preempt:combos-beyond-budget")
                continue
            cfg = cfgs[ci]
            P, Q = _with_value(P0, 201, 2), _with_value(Q0, 202, 4)
            hp = (ci, json.dumps(H), json.dumps(P))
            if hp not in npoints:
                # the points of P up to the one where the peer runs do not depend on the peer: count them once, without a peer
                o = preempt_run(env, slots[ci], dict(cfg, H=H, P=P, Q=["len"], E=[], at=["none", 0]))
                n += 1
                if o.get("setup"):
                    ctx.violation(dict(cfg, stream="preempt", H=H, P=P, Q=None, at=None), f"{cfg['kind']} shared: {o['setup']}", key="preempt-setup")
                    npoints[hp] = {"out": 0, "in": 0}
                else:
                    npoints[hp] = {"out": min(o["n_out"], 40), "in": min(o["n_in"], 40)}
                    if o["unlocked"]:
                        ctx.count(f"preempt:{cfg['kind']}:P={P[0]}:container-accesses-without-the-lock", o["unlocked"])
            for cls in ("out", "in"):
                if cls == "in" and not lockfree.get((ci, Q0[0])):
                    continue
                for i in range(1, npoints[hp][cls] + 1):
                    case = dict(cfg, stream="preempt", H=H, P=P, Q=Q, E=PRE_EPILOGUE, at=[cls, i])
                    obs = preempt_run(env, slots[ci], case)
                    n += 1
                    if obs.get("setup") or not obs["fired"]:
                        ctx.count("preempt:point-not-reached")
                        continue
                    runs.append((case, obs))
                    if obs.get("hang"):
                        ctx.violation(case, f"{cfg['kind']} shared: the peer's {Q[0]} did not return within 60 s (P = {P[0]} preempted at {cls} point {i}: "
                                      f"{obs['fired_at']})", key="preempt-hang")
                        env.workers.close()
                        env.workers = None
                        return
        preempt_judge(ctx, env, runs)
    finally:
        for s in slots.values():
            s.drop(env)


def pre_verdict(case, obs, models):
    """('ok'|'skip'|'clause'|'nonlin'|'counts'|'model-raises', text, expected)"""
    bad = pre_clauses(case, obs)
    if bad:
        return "clause", bad, None
    if any(m["err"] is not None for m in models.values()):
        return "model-raises", "the model raises on a linearisation", None
    if any(near_tie(dict(case, ops=case["H"] + pq + case["E"]), m["steps"], i) for m, pq in
           ((models["PQ"], [case["P"], case["Q"]]), (models["QP"], [case["Q"], case["P"]])) for i in range(len(m["steps"]))):
        return "skip", "near-tie", None
    exps = {o: pre_expected(case, models[o]["steps"], o) for o in ("PQ", "QP")}
    pub = ("present", "len", "values")
    d_pub = {o: pre_diff(obs, exps[o], pub) for o in exps}
    if all(d_pub.values()):
        return "nonlin", f"no sequential order of P and Q explains what was observed — as P;Q: {d_pub['PQ']}; as Q;P: {d_pub['QP']}", exps
    if case["kind"] == "hybrid":
        d_all = {o: pre_diff(obs, exps[o], pub + ("ac", "du")) for o in exps if not d_pub[o]}
        if all(d_all.values()):
            return "counts", "access_counts/computation_durations afterwards fit neither order — " + "; ".join(f"as {o}: {d}" for o, d in d_all.items()), exps
    return "ok", "+".join(o for o in d_pub if not d_pub[o]), exps


def pre_tag(case, obs):
    return (f"{case['kind']} shared, P = {case['P']} preempted at {case['at'][0]}-point {case['at'][1]} ({obs.get('fired_at')}) by a peer process "
            f"running Q = {case['Q']}")


def preempt_judge(ctx, env, runs):
    reqs, index = [], {}
    for case, _ in runs:
        key = json_key(case)
        if key not in index:
            index[key] = len(reqs)
            reqs += pre_requests(case)
    outs = ctx.lean(reqs) if reqs else []
    fresh_runs = 0
    seen_classes = collections.Counter()
    for case, obs in runs:
        kind = case["kind"]
        j = index[json_key(case)]
        models = {"PQ": outs[j]["r"], "QP": outs[j + 1]["r"]}
        slim = {k: v for k, v in case.items() if k != "cloudpickle" or not v}
        ctx.count(f"preempt:{kind}:P={case['P'][0]}:at={case['at'][0]}:{re.sub('[^A-Za-z_.]', '', str(obs['fired_at']))}")
        ctx.count(f"preempt:{kind}:Q={case['Q'][0]}:{obs.get('when')}")
        ctx.count("preempt:runs")
        ctx.record(slim, case["P"][0] in ("get", "put") and case["Q"][0] in ("put", "clear"))
        cls, text, exps = pre_verdict(case, obs, models)
        if cls == "ok":
            ctx.count(f"preempt:explained-as:{text}")
            continue
        if cls == "skip":
            ctx.skip("preempt-hybrid-near-tie")
            continue
        vkey = f"preempt:{kind}:{cls}:{case['P'][0]}:{case['Q'][0]}"
        seen_classes[vkey] += 1
        if seen_classes[vkey] > 2 or len(seen_classes) > 8:
            ctx.count("preempt:further-failures-of-a-reported-class")
            continue
        shown = {k: obs.get(k) for k in ("P", "Q", "when", "post", "E", "final", "trace")}
        if cls == "model-raises":
            ctx.violation(slim, f"{text} of {pre_tag(case, obs)}", found_input=False, item="correspondence:model-raises", key=vkey)
            continue
        # the run used a cache that had served earlier runs (reset with the public clear()): confirm on a new cache
        obs2, slot = None, None
        if fresh_runs < 16:
            fresh_runs += 1
            try:
                slot = PreSlot(env, {k: case[k] for k in ("kind", "max", "weights", "keys", "cloudpickle", "lru") if k in case})
                if not slot.err:
                    obs2 = preempt_run(env, slot, case)
                    if cls == "counts" and obs2.get("fired") and preempt_search_counts(ctx, env, slot, case, slim, pre_tag(case, obs2)):
                        continue
            finally:
                if slot:
                    slot.drop(env)
        if obs2 is not None and obs2.get("fired"):
            cls2, text2, _ = pre_verdict(case, obs2, models)
            if cls2 != cls:
                ctx.violation(slim, f"{pre_tag(case, obs)}: {text} — but only on a cache that had been used and cleared before (a new cache: {cls2})",
                              found_input=False, item="correspondence:preempt-reused-cache", impl=shown, model=exps, key=vkey)
                continue
            text, shown = text2, {k: obs2.get(k) for k in ("P", "Q", "when", "post", "E", "final", "trace")}
        if cls == "counts":
            ctx.violation(slim, f"{pre_tag(case, obs)}: {text}", found_input=False, item="correspondence:preempt-scoring-inputs", impl=shown, model=exps, key=vkey)
        else:
            ctx.violation(slim, f"{pre_tag(case, obs)}: {text}", impl=shown, model=exps, key=vkey)


def json_key(case):
    return json.dumps([case["kind"], case["max"], case.get("weights"), case.get("lru"), case["H"], case["P"], case["Q"], case["E"]])


def preempt_search_counts(ctx, env, slot, case, slim, tag):
    """continuations after P||Q that make a wrong access count / duration visible as a wrong eviction or an exception"""
    for extra in ([["put", 3, 301, 1], ["put", 0, 302, 1], ["put", 1, 303, 1]], [["put", 3, 301, 9], ["put", 2, 302, 1], ["put", 0, 303, 9]],
                  [["get", 0], ["put", 3, 301, 3], ["put", 1, 302, 2]], [["get", 1], ["get", 1], ["put", 3, 301, 2], ["put", 0, 302, 2]]):
        c2 = dict(case, E=extra)
        obs = preempt_run(env, slot, c2)
        if not obs.get("fired") or obs.get("setup"):
            continue
        outs = ctx.lean(pre_requests(c2))
        cls, text, exps = pre_verdict(c2, obs, {"PQ": outs[0]["r"], "QP": outs[1]["r"]})
        if cls in ("clause", "nonlin"):
            ctx.violation(dict(slim, E=extra), f"{tag}: {text}", impl={k: obs.get(k) for k in ("P", "Q", "post", "E", "final", "trace")}, model=exps,
                          key=f"preempt:hybrid:counts:{cls}")
            return True
    return False


# ------------------------------------------------------------------------------------------------ clear() resets every piece of state
def first_diff(steps, msteps, fields=("o", "present", "len", "values")):
    """(index, field) of the first difference between implementation steps and (canonicalised) model steps, or None"""
    for i, (a, b) in enumerate(zip(steps, msteps)):
        for f in fields:
            if f in a and a[f] != b.get(f):
                return i, f
    if len(steps) != len(msteps):
        return min(len(steps), len(msteps)), "length"
    return None


def leftover_state(cache, kind, cdir):
    """what the public views of the container's state show right after clear(): a list of non-empty pieces (empty = all reset)"""
    left = []
    try:
        if kind in ("lru", "hybrid", "simple") and len(cache.cache):
            left.append(f"cache={sorted(map(repr, cache.cache))}")
        if kind == "hybrid":
            if len(cache.access_counts):
                left.append(f"access_counts={dict(cache.access_counts)!r}")
            if len(cache.computation_durations):
                left.append(f"computation_durations={dict(cache.computation_durations)!r}")
        if kind == "disk":
            if getattr(cache, "with_lru_cache", False) and len(cache.lru_cache.cache):
                left.append(f"lru_cache.cache={sorted(map(repr, cache.lru_cache.cache))}")
            files = sorted(p.name for p in Path(cdir).glob("*")) if Path(cdir).exists() else []
            if files:
                left.append(f"directory={files}")
        if len(cache):
            left.append(f"len={len(cache)}")
    except Exception as e:  # noqa: BLE001
        left.append(f"reading the state raised {exc_enum(e)}")
    return left


def gen_clear_case(rng, shared=False):
    kind = rng.choice(["lru", "hybrid"]) if shared else rng.choices(["lru", "hybrid", "disk", "simple"], [3, 5, 4, 1])[0]
    nk = rng.choice([3, 4])
    mx = rng.choice([1, 2, 2, 3])
    case = {"kind": kind, "max": mx, "keys": list(range(nk + 2)), "stream": "clear"}
    if kind == "simple":
        case["max"] = None
    if kind == "hybrid":
        case["weights"] = list(rng.choice(WEIGHTS))
    if kind == "disk":
        case["lru"] = rng.choice([None, 1, 2, 128])
        case["cloudpickle"] = rng.random() < 0.7
    if shared:
        case["shared"] = True
    durs = [1, 2, 3, 5, 7, 11]
    H = [op for op in gen_ops(rng, kind, nk, rng.randint(2, 12), durs) if op[0] != "clear"]
    # a hit-heavy tail: access counts / recency that a sloppy clear() would leave behind
    H += [["get", rng.randrange(nk)] for _ in range(rng.randint(0, 4))]
    n = 500
    E = []
    for op in gen_ops(rng, kind, nk, rng.randint(3, 10), durs):
        if op[0] == "put":
            n += 1
            op = ["put", op[1], n, op[3]]
        if op[0] not in ("clear", "reopen"):
            E.append(op)
    # ... and a fill beyond max_size with fresh keys, so that the evictions after clear() are decided by the state clear() left
    for j in range((case["max"] or 2) + 1):
        n += 1
        E.append(["put", nk + (j % 2), n, durs[j % len(durs)]])
        E.append(["get", rng.randrange(nk)])
    case["H"], case["E"] = H, E
    return case


def clear_request(case):
    a = {"kind": case["kind"], "max": case.get("max"), "keys": case["keys"], "H": case["H"], "E": case["E"]}
    if case["kind"] == "hybrid":
        a["weights"] = case["weights"]
    if case["kind"] == "disk":
        a["lru"] = case.get("lru")
    return {"m": "cache.clear_fresh", "a": a}


def run_clear_impl(env, case, fresh_cfg):
    """(steps of E after H;clear, leftover state right after clear, clause failures), (steps of E on a new cache, clause failures)"""
    kind = case["kind"]
    base = {k: case[k] for k in ("kind", "max", "keys", "weights", "lru", "cloudpickle", "shared") if k in case}
    nh = len(case["H"]) + 1
    # A: the ordinary runner up to and including clear(), then the leftovers, then E — all on one cache object
    left = None
    hooked = dict(base, ops=case["H"] + [["clear"]] + case["E"])
    orig_probe = probe

    def spy(cache, kind_, keys):
        nonlocal left
        pr = orig_probe(cache, kind_, keys)
        spy.calls += 1
        if spy.calls == nh:
            left = leftover_state(cache, kind_, env.base / f"d{env.n}")
        return pr
    spy.calls = 0
    globals()["probe"] = spy
    try:
        stepsA, badA = run_impl(env, hooked)
    finally:
        globals()["probe"] = orig_probe
    # B: E alone on a newly constructed cache
    fresh = dict(base, ops=case["E"])
    if kind == "disk" and fresh_cfg is not None:
        fresh["max"], fresh["lru"] = fresh_cfg
    stepsB, badB = run_impl(env, fresh)
    return (stepsA, left, badA), (stepsB, badB)


def clear_stream(ctx, env):
    rng = ctx.rng
    cases = [copy.deepcopy(c) for c in CLEAR_CORPUS]
    cases += [gen_clear_case(rng) for _ in range(ctx.n(70, 2500))]
    cases += [gen_clear_case(rng, shared=True) for _ in range(ctx.n(3, 40))]
    outs = ctx.lean([clear_request(c) for c in cases])
    for case, resp in zip(cases, outs):
        m = resp["r"]
        kind = case["kind"]
        slim = dict(case)
        ctx.count(f"clear:case:{kind}{':shared' if case.get('shared') else ''}")
        if m.get("err") is not None:
            ctx.violation(slim, f"the model raises {m['err']} in H;clear where histories never raise", found_input=False, item="correspondence:model-raises")
            continue
        if not m["same"]:
            ctx.violation(slim, "the model's answers after H;clear differ from those of a new container (extraction sanity check)",
                          found_input=False, item=f"C14_clear_resets_{'lru' if kind == 'lru' else kind}")
            continue
        (stepsA, left, badA), (stepsB, badB) = run_clear_impl(env, case, m.get("fresh_cfg"))
        nh = len(case["H"]) + 1
        ctx.count("clear:transitions", len(stepsA) + len(stepsB))
        populated = nh >= 2 and len(stepsA) >= nh - 1 and bool(stepsA[nh - 2].get("present"))     # something was present right before clear()
        ctx.count(f"clear:{kind}:{'populated' if populated else 'empty'}-before-clear")
        ctx.record(slim, populated)
        if badA or badB:
            which, bad = ("after H;clear", badA) if badA else ("on a new cache", badB)
            ctx.violation(slim, f"{kind}{' shared' if case.get('shared') else ''} (clear stream, {which}): {bad[0]}", impl=(stepsA if badA else stepsB)[-3:],
                          key=f"clear:{kind}:clause")
            continue
        if left:
            ctx.violation(slim, f"{kind}: right after clear() the container still holds state: {'; '.join(left)}", found_input=False,
                          item=f"correspondence:clear-leaves-state:{kind}", impl=left, key=f"clear:{kind}:leftover")
            continue
        if left is None:
            ctx.count("clear:leftover-not-inspected")
        afterM = [canon_mstep(st) for st in m["after"]]
        freshM = [canon_mstep(st) for st in m["fresh"]]
        tailA = stepsA[nh:]
        ecase = dict(case, ops=case["E"])
        skip = False
        for i in range(len(afterM)):
            if near_tie(ecase, afterM, i):
                skip = True
        if skip:
            ctx.skip("clear-hybrid-near-tie")
            continue
        dA, dB, dAB = first_diff(tailA, afterM), first_diff(stepsB, freshM), first_diff(tailA, stepsB)
        if dAB:
            i, f = dAB
            a, b = (tailA[i].get(f) if i < len(tailA) else None), (stepsB[i].get(f) if i < len(stepsB) else None)
            ctx.violation(slim, f"{kind}{' shared' if case.get('shared') else ''}: after H; clear() the cache differs from a newly constructed one at step {i} of the "
                          f"continuation ({case['E'][i][0] if i < len(case['E']) else '-'}): {f} is {a!r}, on the new cache {b!r}",
                          impl={"after_clear": tailA[max(0, i - 1):i + 1], "new": stepsB[max(0, i - 1):i + 1]}, model=afterM[max(0, i - 1):i + 1], key=f"clear:{kind}:differs:{f}")
            continue
        for who, d, steps, ms in (("after H;clear", dA, tailA, afterM), ("on a new cache", dB, stepsB, freshM)):
            if d:
                i, f = d
                if f == "present" and i < len(steps) and hybrid_tie_order(ecase, ms, i, steps[i]):
                    ctx.violation(slim, f"hybrid (clear stream, {who}) step {i} of the continuation: the entry evicted has the lowest score but is not the "
                                  f"first such entry in insertion order (implementation keeps {steps[i].get('present')}, model {ms[i]['present']})",
                                  found_input=False, item="correspondence:hybrid-tie-order", impl=steps[max(0, i - 1):i + 1], model=ms[max(0, i - 1):i + 1],
                                  key="hybrid-tie-order")
                    break
                ctx.violation(slim, f"{kind} (clear stream, {who}) step {i} of the continuation: {f} is {steps[i].get(f) if i < len(steps) else None!r}, "
                              f"the policy gives {ms[i].get(f) if i < len(ms) else None!r}", impl=steps[max(0, i - 1):i + 1], model=ms[max(0, i - 1):i + 1],
                              key=f"clear:{kind}:{f}")
                break
        ev = sum(1 for j in range(1, len(afterM)) if case["E"][j][0] == "put" and [k for k in afterM[j - 1]["present"] if k not in afterM[j]["present"]])
        ctx.count(f"clear:{kind}:evictions-after-clear", ev)


def max_size0_stream(ctx, env):
    """max_size = 0: LRUCache refuses it (malformed_stream); HybridCache and DiskCache accept it — the model says what follows
    (C14_hybrid_never_raises_iff / C14_hybrid_max0_put_raises: the first put raises ValueError; C14_disk_max0: nothing raises, nothing is kept)"""
    reqs = [{"m": "cache.run", "a": {"kind": "hybrid", "max": 0, "allow0": True, "weights": [1, 1], "keys": [0], "ops": [["put", 0, 1, 1]]}},
            {"m": "cache.run", "a": {"kind": "disk", "max": 0, "lru": None, "keys": [0, 1],
                                     "ops": [["put", 0, 1, 0], ["has", 0], ["get", 0], ["len"], ["put", 1, 2, 0], ["put", 0, 3, 0], ["clear"], ["len"]]}}]
    outs = ctx.lean(reqs)
    try:
        c = HybridCache(max_size=0, shared=False)
        o = do_op(c, "hybrid", ["put", 0, 1, 1])
        o2 = [do_op(c, "hybrid", ["len"]), do_op(c, "hybrid", ["has", 0])]
    except Exception as e:  # noqa: BLE001
        o, o2 = {"err": "constructor:" + exc_enum(e)}, None
    want = outs[0]["r"]["err"]
    ctx.count(f"max_size0:hybrid:put:{o['err'] if isinstance(o, dict) else 'accepted'}")
    if (o["err"] if isinstance(o, dict) else None) != want or o2 not in (None, [["nat", 0], ["bool", False]]):
        ctx.violation({"malformed": "HybridCache(max_size=0).put"}, f"HybridCache(max_size=0): put answered {o} (then len/in: {o2}), the model raises {want}",
                      found_input=False, item="C14_hybrid_never_raises_iff", impl=o, model=want)
    env.n += 1
    cdir = env.base / f"d{env.n}"
    try:
        c = DiskCache(cdir, max_size=0, with_lru_cache=False)
        got = []
        for op in reqs[1]["a"]["ops"]:
            got.append(do_op(c, "disk", op))
            if op[0] == "put":
                env.spacer.after_write(cdir)
    except Exception as e:  # noqa: BLE001
        got = [{"err": "constructor:" + exc_enum(e)}]
    finally:
        shutil.rmtree(cdir, ignore_errors=True)
    want = [canon_mstep(st)["o"] for st in outs[1]["r"]["steps"]]
    ctx.count(f"max_size0:disk:{'as-model' if got == want else 'differs'}")
    if got != want:
        ctx.violation({"malformed": "DiskCache(max_size=0, with_lru_cache=False)", "ops": reqs[1]["a"]["ops"]},
                      f"DiskCache(max_size=0): answers {got}, the model gives {want}", found_input=False,
                      item="C14_disk_max0", impl=got, model=want)


CLEAR_CORPUS = [
    # access counts that a clear() forgetting `_access_counts` would leave behind: key 0 hit three times, then cleared; afterwards 0 is
    # the newest entry with count 1 and the shortest duration -> it is the one to leave when key 2 arrives
    {"kind": "hybrid", "max": 2, "weights": [1, 1], "keys": [0, 1, 2, 3], "stream": "clear",
     "H": [["put", 0, 101, 5], ["get", 0], ["get", 0], ["get", 0], ["put", 1, 102, 5]],
     "E": [["put", 1, 501, 3], ["put", 0, 502, 1], ["put", 2, 503, 2], ["get", 0], ["get", 1], ["put", 3, 504, 2], ["get", 2]]},
    # durations that a clear() forgetting `_computation_durations` would leave behind
    {"kind": "hybrid", "max": 2, "weights": [0, 1], "keys": [0, 1, 2, 3], "stream": "clear",
     "H": [["put", 0, 101, 11], ["put", 1, 102, 7]],
     "E": [["put", 2, 501, 1], ["put", 3, 502, 2], ["put", 0, 503, 3], ["get", 2], ["get", 3]]},
    # LRU recency
    {"kind": "lru", "max": 2, "keys": [0, 1, 2, 3], "stream": "clear",
     "H": [["put", 0, 101, 0], ["put", 1, 102, 0], ["get", 0]],
     "E": [["put", 1, 501, 0], ["put", 0, 502, 0], ["put", 2, 503, 0], ["get", 1], ["get", 0]]},
    # DiskCache: files and in-memory LRU; a reopen in H changes the max_size / LRU size the new cache is built with
    {"kind": "disk", "max": 3, "lru": 2, "keys": [0, 1, 2, 3], "stream": "clear",
     "H": [["put", 0, 101, 0], ["put", 1, 102, 0], ["put", 2, 103, 0], ["reopen", 2, 1], ["get", 1]],
     "E": [["get", 1], ["put", 0, 501, 0], ["put", 3, 502, 0], ["put", 1, 503, 0], ["len"], ["get", 0], ["get", 3]]},
    {"kind": "disk", "max": 1, "lru": 2, "keys": [0, 1, 2], "stream": "clear",
     "H": [["put", 0, 101, 0], ["put", 1, 102, 0]],
     "E": [["has", 0], ["get", 0], ["put", 2, 501, 0], ["has", 0], ["has", 1], ["len"]]},
]


# ------------------------------------------------------------------------------------------------ accesses inside the lock (LRUCache)
def access_stream(ctx, env):
    """`lruBody` (the statement-by-statement model of LRUCache's critical sections that C14_shared_lru is about) against the source
    by execution: the container accesses the real LRUCache makes inside `with self._cache_lock:` for an operation P after a history H,
    recorded by the proxies of c14_preempt.py, equal `PF.Cache.Shared.lruAccesses` (driver entry cache.accesses)."""
    rng = ctx.rng
    todo = []
    for mx in (1, 2, 3):
        for H in preempt_histories(mx) + [[["put", 0, 101, 1], ["put", 0, 102, 1]], [["put", 0, 101, 1], ["clear"]]]:
            for P in preempt_ops():
                todo.append((mx, H, _with_value(P, 201, 2), False))
    for _ in range(ctx.n(60, 3000)):
        mx, nk = rng.choice([1, 2, 3]), rng.choice([3, 4])
        H = [op for op in gen_ops(rng, "lru", nk, rng.randint(0, 10), [1])][:-nk or None]
        P = _with_value(rng.choice(preempt_ops()), 900, 1)
        todo.append((mx, H, P, False))
    for mx, H, P in ((2, [["put", 0, 101, 1], ["put", 1, 102, 1]], ["put", 2, 201, 2]), (2, [["put", 0, 101, 1]], ["get", 0]), (1, [["put", 0, 101, 1]], ["clear"])):
        todo.append((mx, H, P, True))                     # the same on manager-backed containers (shared=True)
    # HybridCache: its critical sections are taken whole in the model (Body.ofSem), so only the SHAPE the linearisability theorem assumes is
    # checked on the implementation: one critical section per operation, no container access outside it
    for mx in (1, 2):
        for H in preempt_histories(mx):
            for P in preempt_ops():
                case = {"stream": "accesses", "kind": "hybrid", "max": mx, "weights": [1, 1], "H": H, "P": _with_value(P, 201, 2), "shared": False}
                got = impl_accesses(case)
                if got.get("skip") or got.get("err"):
                    ctx.count(f"accesses:hybrid:{got.get('skip') or 'raised'}")
                    if got.get("err"):
                        ctx.violation(case, f"hybrid: {got['err']}", key="accesses:raised")
                    continue
                ctx.count(f"accesses:hybrid:P={P[0]}:sections{got['sections']}:outside{len(got['outside'])}")
                if got["outside"] or got["sections"] != 1:
                    ctx.violation(case, f"HybridCache.{P[0]} enters {got['sections']} critical sections and touches {got['outside']} outside them (the process "
                                  "model assumes one critical section holding every container access)", found_input=False,
                                  item="correspondence:hybrid-critical-section-shape", impl=got, key=f"accesses:hybrid-shape:{P[0]}")
    outs = ctx.lean([{"m": "cache.accesses", "a": {"max": mx, "H": H, "P": P}} for mx, H, P, _ in todo])
    for (mx, H, P, shared), resp in zip(todo, outs):
        m = resp["r"]
        case = {"stream": "accesses", "kind": "lru", "max": mx, "H": H, "P": P, "shared": shared}
        if m.get("err") is not None or not m.get("atomic_ok"):
            ctx.violation(case, f"the micro-steps of lruBody run in one go differ from LRU.step (err={m.get('err')}; extraction sanity check)", found_input=False,
                          item="C14_shared_lru")
            continue
        got = impl_accesses(case)
        ctx.count(f"accesses:lru{':shared' if shared else ''}:P={P[0]}:{len(m['accesses'])}-accesses")
        ctx.record(case, len(m["accesses"]) > 1)
        if got.get("skip"):
            ctx.count(f"accesses:{got['skip']}")
            continue
        if got.get("err"):
            ctx.violation(case, f"lru: {got['err']}", key="accesses:raised")
            continue
        if got["outside"]:
            ctx.violation(case, f"LRUCache.{P[0]} touches a shared container outside its critical section: {got['outside']}", found_input=False,
                          item="correspondence:lru-access-outside-lock", impl=got, model=m["accesses"], key=f"accesses:outside:{P[0]}")
        elif got["sections"] != 1:
            ctx.violation(case, f"LRUCache.{P[0]} enters {got['sections']} critical sections (the process model assumes one per operation)", found_input=False,
                          item="correspondence:lru-critical-sections", impl=got, model=m["accesses"], key=f"accesses:sections:{P[0]}")
        elif got["inside"] != m["accesses"]:
            ctx.violation(case, f"LRUCache.{P[0]} makes the container accesses {got['inside']} inside the lock, lruBody's labelled micro-steps give {m['accesses']}",
                          found_input=False, item="correspondence:lru-critical-section-accesses", impl=got, model=m["accesses"], key=f"accesses:differs:{P[0]}")


def impl_accesses(case):
    """run H on a new LRUCache, then P with the lock and the containers of the object wrapped: what was touched, in order"""
    cache = None
    try:
        kind = case.get("kind", "lru")
        cache = make_cache({"kind": kind, "max": case["max"], "weights": case.get("weights"), "shared": case["shared"], "cloudpickle": True}, None)
        for op in case["H"]:
            o = do_op(cache, kind, op)
            if isinstance(o, dict):
                return {"err": f"set-up {op[0]} raised {o['err']}"}
        sched = pre.Sched(target=None, action=None)
        saved, missing = pre.install(cache, sched)
        if saved is None:
            return {"skip": "no-lock-attr"}
        if "_cache_dict" in missing or ("_cache_queue" in missing and kind == "lru"):
            pre.uninstall(cache, saved)
            return {"skip": "no-container-attr"}
        try:
            o = do_op(cache, kind, case["P"])
        finally:
            pre.uninstall(cache, saved)
        if isinstance(o, dict):
            return {"err": f"P = {case['P'][0]} raised {o['err']}"}
        return {"inside": [w for c, w in sched.trace if c == "in" and w != "release"],
                "outside": [w for c, w in sched.trace if c == "out" and w not in ("acquire", "released")], "sections": sched.acquires}
    except Exception as e:  # noqa: BLE001
        return {"err": f"instrumented run raised {exc_enum(e)}"}
    finally:
        cache = None


# ------------------------------------------------------------------------------------------------ corpus
@framework.finding_matcher("c14_disk_put_clear_window")
def _kf_disk_put_clear(case, params, impl, model):
    """KF-C14-disk-put-not-atomic, narrowly: preemption stream, DiskCache, P = put(k) preempted by a peer's clear() between the
    file write and `lru_cache.put`; nothing raised; afterwards exactly k is answered (from the LRU) and the directory is empty.
    Anything else on such a pair (an exception, another key present, a wrong value) is still reported."""
    if not (isinstance(case, dict) and case.get("stream") == "preempt" and case.get("kind") == "disk" and isinstance(impl, dict)):
        return False
    if case["P"][0] != "put" or case["Q"] != ["clear"] or impl.get("P") != "unit" or impl.get("Q") != "unit":
        return False
    post = impl.get("post") or {}
    return post.get("len") == 0 and post.get("present") == [case["P"][1]] and all(not isinstance(st.get("o"), dict) for st in impl.get("E") or [])


def ensure_findings(ctx):
    """the finding of this extension travels in fixes/C14/ext/known_findings_entries.json until the integrator has merged it into
    known_findings.json (a shared file this module must not edit)"""
    ext = Path(__file__).resolve().parents[2] / "fixes" / "C14" / "ext" / "known_findings_entries.json"
    if not ext.exists():
        return
    have = {f["id"] for f in ctx.findings}
    for e in json.loads(ext.read_text()):
        if e.get("property") == PID and e.get("status") == "finding" and e["id"] not in have:
            ctx.findings.append(e)


PRE_CORPUS = [
    {"kind": "disk", "max": None, "lru": 1, "H": [["put", 0, 101, 1]], "P": ["get", 0], "Q": ["put", 1, 202, 4], "at": ["out", 2]},
    {"kind": "disk", "max": None, "lru": 1, "H": [["put", 0, 101, 1]], "P": ["get", 0], "Q": ["put", 1, 202, 4], "at": ["out", 3]},
    {"kind": "lru", "max": 2, "H": [["put", 0, 101, 1], ["put", 1, 102, 3]], "P": ["put", 2, 201, 2], "Q": ["len"], "at": ["in", 3]},
    {"kind": "hybrid", "max": 1, "H": [["put", 0, 101, 1]], "P": ["put", 0, 201, 2], "Q": ["has", 0], "at": ["in", 8]},
    {"kind": "hybrid", "max": 1, "H": [["put", 0, 101, 1]], "P": ["put", 1, 201, 2], "Q": ["len"], "at": ["in", 9]},
    {"kind": "hybrid", "max": 1, "H": [["put", 0, 101, 1]], "P": ["get", 0], "Q": ["put", 2, 202, 4], "at": ["out", 2]},
    {"kind": "hybrid", "max": 2, "H": [["put", 0, 101, 1], ["put", 1, 102, 3]], "P": ["get", 0], "Q": ["put", 2, 202, 4], "at": ["out", 2]},
    {"kind": "lru", "max": 1, "H": [["put", 0, 101, 1]], "P": ["get", 0], "Q": ["put", 2, 202, 4], "at": ["out", 1]},
    {"kind": "lru", "max": 2, "H": [["put", 0, 101, 1], ["put", 1, 102, 3]], "P": ["get", 0], "Q": ["clear"], "at": ["out", 2]},
]

CORPUS = [
    # DF-01: a re-put of a resident key queued it twice; the fourth distinct key then popped a key that had left the dict
    {"kind": "lru", "max": 2, "keys": [0, 1, 2, 3], "ops": [["put", 0, 1, 0], ["put", 0, 2, 0], ["put", 1, 3, 0], ["put", 2, 4, 0], ["put", 3, 5, 0]]},
    {"kind": "lru", "max": 1, "keys": [0, 1], "ops": [["put", 0, 1, 0], ["put", 0, 2, 0], ["has", 0], ["get", 0]]},
    {"kind": "lru", "max": 2, "keys": [0, 1, 2], "shared": True, "procs": [1, 2, 0, 1, 2, 0],
     "ops": [["put", 0, 1, 0], ["put", 0, 2, 0], ["put", 1, 3, 0], ["put", 2, 4, 0], ["get", 0], ["get", 2]]},
    # DF-02: every duration 0.0
    {"kind": "hybrid", "max": 1, "weights": [1, 1], "keys": [0, 1], "ops": [["put", 0, 1, 0], ["put", 1, 2, 0], ["get", 1]]},
    {"kind": "hybrid", "max": 2, "weights": [1, 1], "keys": [0, 1, 2], "ops": [["put", 0, 1, 0], ["put", 1, 2, 0], ["get", 0], ["put", 2, 3, 0], ["get", 1], ["get", 0]]},
    # DF-03: a directory holding more than max_size + 1 files
    {"kind": "disk", "max": None, "lru": None, "keys": [0, 1, 2, 3],
     "ops": [["put", 0, 1, 0], ["put", 1, 2, 0], ["put", 2, 3, 0], ["put", 3, 4, 0], ["reopen", 2, None], ["put", 0, 5, 0], ["len"], ["get", 3], ["get", 1]]},
    {"kind": "disk", "max": 3, "lru": 2, "keys": [0, 1, 2, 3],
     "ops": [["put", 0, 1, 0], ["put", 1, 2, 0], ["put", 2, 3, 0], ["reopen", 1, 1], ["put", 3, 4, 0], ["len"], ["get", 2], ["get", 3]]},
    # DiskCache through its LRU: re-put of a resident key (DF-01 reached through DiskCache.put)
    {"kind": "disk", "max": 2, "lru": 1, "keys": [0, 1], "ops": [["put", 0, 1, 0], ["put", 0, 2, 0], ["get", 0], ["put", 1, 3, 0], ["get", 0]]},
    # C14_disk_present_exceeds_len: max_size 1 behind an LRU of 2 — the key whose file was unlinked stays present through the LRU
    # (len 1, two keys present); a DiskCache reopened on the directory does not know it
    {"kind": "disk", "max": 1, "lru": 2, "keys": [0, 1],
     "ops": [["put", 0, 1, 0], ["put", 1, 2, 0], ["has", 0], ["has", 1], ["get", 0], ["len"], ["reopen", 1, 2], ["has", 0], ["get", 0], ["has", 1]]},
    # hybrid: first minimum in insertion order; a hit protects an entry
    {"kind": "hybrid", "max": 2, "weights": [1, 1], "keys": [0, 1, 2], "ops": [["put", 0, 1, 2], ["put", 1, 2, 2], ["get", 0], ["put", 2, 3, 2], ["has", 0], ["has", 1]]},
]


def run(ctx):
    ensure_findings(ctx)
    env = Env()
    try:
        ctx.notes.append(f"st_ctime_ns: {env.spacer.distinct}/300 distinct stamps over back-to-back rewrites of one file, smallest step "
                         f"{env.spacer.granularity_ns} ns, {env.spacer.per_write * 1e6:.0f} us per write (measured on {env.base.parent})")
        shared_n = ctx.n(34, 400)     # whole-operation interleavings from 2 more processes are also the first/last points of the preemption stream
        cases = [copy.deepcopy(c) for c in CORPUS]
        cases += exploration_cases(ctx)
        cases += [gen_case(ctx.rng) for _ in range(ctx.n(280, 30000))]
        cases += zero_duration_cases(ctx)
        cases += [gen_case(ctx.rng, kind=ctx.rng.choice(["lru", "lru", "hybrid", "hybrid", "disk"]), shared=True, maxlen=16) for _ in range(shared_n)]
        cases += interleave_cases(ctx)
        t0 = time.time()
        check_cases(ctx, env, cases)
        t1 = time.time()
        malformed_stream(ctx, env)
        max_size0_stream(ctx, env)
        tc = time.time()
        clear_stream(ctx, env)
        access_stream(ctx, env)
        tc = time.time() - tc
        preempt_stream(ctx, env)
        t2 = time.time()
        soak(ctx, env)
        ctx.notes.append(f"wall split: histories {t1 - t0:.0f} s, malformed + preemption stream {t2 - t1:.0f} s, soak {time.time() - t2:.0f} s (max_size0 + clear + accesses streams {tc:.0f} s of the second part)")
        ctx.count("disk:ctime-spacing-spins", env.spacer.spins)
    finally:
        env.close()


def replay_preempt(ctx, env, case):
    slot = PreSlot(env, {k: case[k] for k in ("kind", "max", "weights", "keys", "cloudpickle", "lru") if k in case})
    try:
        print(f"{case['kind']}(max_size={case['max']}, shared=True); history {case['H']}; then P = {case['P']} in this process, preempted at "
              f"{case['at'][0]}-point {case['at'][1]} by Q = {case['Q']} run to completion in a second process; then {case['E']}")
        obs = preempt_run(env, slot, case)
        print("implementation:")
        for k in ("fired", "fired_at", "when", "P", "Q", "post", "E", "final"):
            print("  ", k, "=", obs.get(k))
        print("   points of P:", obs.get("trace"))
        if not obs.get("fired"):
            print("the preemption point was not reached")
            return
        outs = ctx.lean(pre_requests(case))
        models = {"PQ": outs[0]["r"], "QP": outs[1]["r"]}
        for o in ("PQ", "QP"):
            if models[o]["err"] is None:
                print(f"model, order {o}:", pre_expected(case, models[o]["steps"], o))
            else:
                print(f"model, order {o}: raises", models[o]["err"])
        print("verdict:", pre_verdict(case, obs, models)[:2])
    finally:
        slot.drop(env)


def replay(ctx, case):
    env = Env()
    if case.get("stream") == "preempt":
        try:
            return replay_preempt(ctx, env, case)
        finally:
            env.close()
    if case.get("stream") == "accesses":
        try:
            if case.get("kind") == "hybrid":
                print("implementation:", impl_accesses(case))
                return None
            print("model:", ctx.lean([{"m": "cache.accesses", "a": {"max": case["max"], "H": case["H"], "P": case["P"]}}])[0]["r"])
            print("implementation:", impl_accesses(case))
            return None
        finally:
            env.close()
    if case.get("stream") == "clear":
        try:
            m = ctx.lean([clear_request(case)])[0]["r"]
            (stepsA, left, badA), (stepsB, badB) = run_clear_impl(env, case, m.get("fresh_cfg"))
            nh = len(case["H"]) + 1
            print(f"{case['kind']}: H = {case['H']}; clear(); then E, next to E on a newly constructed cache {m.get('fresh_cfg') or ''}")
            print("state left right after clear():", left, "  failed clauses:", badA, badB)
            for i, op in enumerate(case["E"]):
                pick = lambda st: {k: st.get(k) for k in ("o", "present", "len", "values") if k in st}  # noqa: E731
                print("  ", op, "-> after clear:", pick(stepsA[nh + i]) if nh + i < len(stepsA) else None, "| new:", pick(stepsB[i]) if i < len(stepsB) else None,
                      "| model:", pick(canon_mstep(m["after"][i])) if i < len(m["after"]) else None)
            print("model: same =", m["same"])
            return None
        finally:
            env.close()
    try:
        steps, bad = run_impl(env, case)
        print("implementation:")
        for op, s in zip(case["ops"], steps):
            print("  ", op, "->", {k: s.get(k) for k in ("o", "present", "len", "values") if k in s})
        print("failed clauses:", bad)
        r = ctx.lean([to_request(case)])[0]["r"]
        print("model:")
        for op, s in zip(case["ops"], r["steps"]):
            print("  ", op, "->", {k: canon_mstep(s).get(k) for k in ("o", "present", "len", "values")}, s["state"])
        print("model err:", r["err"])
    finally:
        env.close()
