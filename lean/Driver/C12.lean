import PfModel.DriverVal
import PfModel.Model.Validate
import PfModel.Generated.C12Facts
/-! Driver for C12 (`validate`): construction and the start of `map` on a possibly ill-formed request.
    Run: `lake env lean --run Driver/C12.lean < requests.jsonl`. -/
open Lean PF PF.Drv PF.Map PF.Validate

def getASpec (j : Json) : R ASpec := do
  let (n, ax) ← asPair asStr (asList (asOpt asStr)) j
  return { name := n, axes := ax }

def getMSpec (j : Json) : R MSpec := do
  return { inputs := ← listF getASpec j "inputs", outputs := ← listF getASpec j "outputs" }

def getMFunc (j : Json) : R MFunc := do
  return { name := ← strF j "name", params := ← listF (asPair asStr asStr) j "params", outputs := ← listF asStr j "outputs",
           mapspec := ← optF getMSpec j "mapspec", ret := ← optF (asList asNat) j "ret", internal := ← optF (asList asNat) j "internal",
           defaults := (← optF getKw j "defaults").getD [], bound := (← optF getKw j "bound").getD [] }

def getInternal (j : Json) (k : String) : R (List (String × List Nat)) := do
  return (← optF (asList (asPair asStr (asList asNat))) j k).getD []

/-- `"dict"`, or `{"d": [[key, name], …]}` for the dictionary form (tuple keys joined with `,`) -/
def getStorage (j : Json) : R StorageArg :=
  match j with
  | .str s => return .name s
  | _ => do return .perOutput (← listF (asPair asStr asStr) j "d")

/-- an `int`, or `{"sl": [start, stop, step]}` with `null` for an omitted bound (as in Driver/C06) -/
def getSel (j : Json) : R PF.Pieces.Sel :=
  match j with
  | .num _ => do return .idx (← asInt j)
  | _ => do
    match ← asList (asOpt asInt) (← fld j "sl") with
    | [a, b, c] => return .slice a b c
    | _ => .error "slice needs three entries"

def defaultOrder (fs : List MFunc) : List String := (generations fs).flatten.map (·.name)

def getPrev (j : Json) : R Prev := do
  let fs ← listF getMFunc j "funcs"
  return { funcs := fs, order := (← optF (asList asStr) j "order").getD (defaultOrder fs),
           inputs := ← getKw (← fld j "inputs"), internal := ← getInternal j "internal" }

def putExc : Exc → Json
  | .value => jStr "ValueError"
  | .type => jStr "TypeError"
  | .key => jStr "KeyError"
  | .index => jStr "IndexError"
  | .unfeasible => jStr "Other:NetworkXUnfeasible"
  | .other => jStr "Other"

def putRes : V Unit → Json
  | .ok _ => jObj [("ok", jBool true)]
  | .error e => jObj [("err", putExc e.exc), ("check", jStr e.check)]

def putEffect : Effect → Json
  | .cleanup => jStr "cleanup"
  | .writeRunInfo => jStr "write:run_info"
  | .writeInputs => jStr "write:inputs"
  | .writeDefaults => jStr "write:defaults"
  | .mkdirStore o => jStr s!"store:{o}"
  | .call f => jStr s!"call:{f}"

def putKind : CallKind → Json
  | .validation => jStr "validation"
  | .effect => jStr "effect"
  | .cleanup => jStr "cleanup"
  | .neutral => jStr "neutral"
  | .unknown => jStr "unknown"

def handle (m : String) (a : Json) : R Json := do
  match m with
  | "validate" =>
    let fs ← listF getMFunc a "funcs"
    let c := construct fs
    match c with
    | .error _ => return jObj [("construct", putRes c), ("map", Json.null), ("effects", jArr [])]
    | .ok _ =>
      let order := (← optF (asList asStr) a "order").getD (defaultOrder fs)
      let prev ← optF getPrev a "prev"
      let r : Req := { inputs := ← getKw (← fld a "inputs"), internal := ← getInternal a "internal", storage := ← getStorage (← fld a "storage"),
                       outputNames := ← optF (asList asStr) a "output_names",
                       fixed := ← optF (asList (asPair asStr getSel)) a "fixed",
                       folder := ← boolF a "folder", cleanup := ← boolF a "cleanup", executor := ← boolF a "executor",
                       parallel := ← boolF a "parallel", order := order, prev := prev }
      let orderOk := orderValid fs order && (match prev with | some p => orderValid p.funcs p.order | none => true)
      let (effs, res) := startMap fs r
      return jObj [("construct", putRes c), ("map", putRes res), ("effects", jList putEffect effs), ("order_ok", jBool orderOk),
                   ("steps", jList jStr ((startSteps fs r).map fun s => match s with | .check n _ => n | .eff _ => "effect"))]
  | "order" =>
    -- the extracted call order of `prepare_run` / `RunInfo.create` and the verdict of the order predicate
    return jObj [("calls", jList (fun c => jArr [jStr c, putKind (classify c)]) Generated.prepareRunCalls),
                 ("ok", jBool (validationsPrecedeEffects Generated.prepareRunCalls)),
                 ("model_order_ok", jBool (isSubseq modelSourceOrder Generated.prepareRunCalls)),
                 ("round2", jObj [
                   ("run_map", jBool (prepareGuardsRun Generated.runMapCalls)),
                   ("run_map_async", jBool (prepareGuardsRun Generated.runMapAsyncCalls)),
                   ("Pipeline.__init__", jBool (ctorValidates pipelineInitRequired Generated.pipelineInitCalls)),
                   ("Pipeline.add", jBool (ctorValidates pipelineAddRequired Generated.pipelineAddCalls && isSubseq pipelineAddRequired Generated.pipelineAddCalls)),
                   ("Pipeline._validate", jBool (ctorValidates pipelineValidateRequired Generated.pipelineValidateCalls &&
                      isSubseq ["validate_consistent_defaults", "self._validate_mapspec"] Generated.pipelineValidateCalls)),
                   ("Pipeline._validate_mapspec", jBool (ctorValidates pipelineValidateMapspecRequired Generated.pipelineValidateMapspecCalls &&
                      isSubseq pipelineValidateMapspecRequired Generated.pipelineValidateMapspecCalls)),
                   ("PipeFunc.__init__", jBool (ctorValidates pipeFuncInitRequired Generated.pipeFuncInitCalls)),
                   ("PipeFunc._validate", jBool (ctorValidates pipeFuncValidateRequired Generated.pipeFuncValidateCalls &&
                      isSubseq pipeFuncValidateRequired Generated.pipeFuncValidateCalls))]),
                 ("unknown_calls", jList jStr
                   ((Generated.runMapCalls ++ Generated.runMapAsyncCalls).filter (fun c => classifyRun c == .unknown) ++
                    (Generated.pipelineInitCalls ++ Generated.pipelineAddCalls ++ Generated.pipelineValidateCalls ++
                     Generated.pipelineValidateMapspecCalls ++ Generated.pipeFuncInitCalls ++ Generated.pipeFuncValidateCalls).filter
                      (fun c => classifyCtor c == .unknown)))]
  | _ => .error s!"unknown entry {m}"

def main : IO Unit := loop handle
