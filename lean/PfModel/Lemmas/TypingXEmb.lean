import PfModel.Lemmas.Typing
import PfModel.Lemmas.TypingX
/-!
Conservativity of the extended annotation language over the old one: `compatX (emb a) (emb b) = compat a b`
(and the three list helpers), by `compat.induct`.
-/
namespace PF.Typing

@[simp] theorem embL_nil : embL [] = [] := by rw [embL]
@[simp] theorem embL_cons (t : Ty) (ts : List Ty) : embL (t :: ts) = t.emb :: embL ts := by rw [embL]

theorem embL_eq_map (ts : List Ty) : embL ts = ts.map Ty.emb := by
  induction ts with
  | nil => simp
  | cons t ts ih => simp [ih]

@[simp] theorem embL_length (ts : List Ty) : (embL ts).length = ts.length := by
  rw [embL_eq_map, List.length_map]

@[simp] theorem embL_isEmpty (ts : List Ty) : (embL ts).isEmpty = ts.isEmpty := by
  cases ts <;> simp

/-- the bridge, all four functions at once -/
theorem compatX_emb : ∀ a b : Ty, compatX a.emb b.emb = compat a b := by
  intro a b
  refine compat.induct
    (motive1 := fun a b => compatX a.emb b.emb = compat a b)
    (motive2 := fun as bs => compatZipX (embL as) (embL bs) = compatZip as bs)
    (motive3 := fun as b => compatAllX (embL as) b.emb = compatAll as b)
    (motive4 := fun a bs => compatAnyX a.emb (embL bs) = compatAny a bs)
    ?_ ?_ ?_ ?_ ?_ ?_ ?_ ?_ ?_ ?_ ?_ ?_ ?_ ?_ ?_ ?_ ?_ ?_ ?_ ?_ ?_ ?_ ?_ ?_ ?_ ?_ ?_ a b
  · intro p b ih
    rw [Ty.emb, compatX, compat]; exact ih
  · intro x; rw [compat_tv_l _ rfl, Ty.emb, compatX_tv_l _ rfl]
  · intro a x; rw [compat_tv_l _ rfl, Ty.emb, compatX_tv_l _ rfl]
  · intro a x; rw [compat_tv_l _ rfl, Ty.emb, compatX_tv_l _ rfl]
  · intro x _ _ _ _; rw [compat_any_r, Ty.emb, compatX_any_r]
  · intro x _; rw [compat_noann_l, Ty.emb, compatX_noann_l]
  · intro x _ _ _ _ _; rw [compat_noann_r, Ty.emb, compatX_noann_r]
  · intro x _ _ _ _ _; rw [compat_tvFree_r, Ty.emb, compatX_tvFree_r]
  · intro a t _ _ _ _ _ ih
    rw [compat_tvBound, Ty.emb, compatX_tvBound]; exact ih
  · intro as cs ih4 ih3
    simp only [Ty.emb] at ih4 ih3 ⊢
    rw [compatX, compat, ih4, ih3]
  · intro a cs h1 h2 h3 h4 h5 h6 ih4
    cases a <;> simp_all [Ty.emb, compat, compatX]
  · intro as b h1 h2 h3 h4 h5 ih3
    cases b <;> simp_all [Ty.emb, compat, compatX]
  · intro a bs h1 h2 h3 h4 h5 h6 ih4
    cases a <;> simp_all [Ty.emb, compat, compatX]
  · intro e f ih
    simp only [Ty.emb]; rw [compatX, compat]; exact ih
  · intro a q h1 h2 h3 h4 h5 h6 ih
    cases a <;> simp_all [Ty.emb, compat, compatX]
  · intro a b h1 h2 h3 h4 h5 h6 h7 h8 ih
    cases b <;> simp_all [Ty.emb, compat, compatX]
  · intro a f h1 h2 h3 h4 h5 h6 h7 ih
    cases a <;> simp_all [Ty.emb, compat, compatX]
  · intro x y; simp only [Ty.emb]; rw [compatX, compat]
  · intro g as h bs ih
    simp only [Ty.emb]; rw [compatX, compat, ih]; simp
  · simp only [Ty.emb]; rw [compatX, compat]
  · intro x y h1 h2 h3 h4 h5 h6 h7 h8 h9 h10 h11 h12 h13 h14 h15 h16 h17 h18 h19 h20
    cases x <;> cases y <;>
      first
        | exact absurd rfl (h18 _ _ rfl)
        | exact absurd rfl (h19 _ _ _ _ rfl)
        | exact absurd rfl (h20 rfl)
        | simp_all [Ty.emb, compat, compatX]
  · intro a as b bs ih1 ih2
    simp only [embL_cons]; rw [compatZipX, compatZip, ih1, ih2]
  · intro x y hne
    match x, y, hne with
    | [], _, _ => simp [compatZipX, compatZip]
    | _ :: _, [], _ => simp [compatZipX, compatZip]
    | a :: as, b :: bs, hne => exact absurd rfl (hne a as b bs rfl)
  · intro x; simp [compatAllX, compatAll]
  · intro a as b ih1 ih3
    simp only [embL_cons]; rw [compatAllX, compatAll, ih1, ih3]
  · intro x; simp [compatAnyX, compatAny]
  · intro a b bs ih1 ih4
    simp only [embL_cons]; rw [compatAnyX, compatAny, ih1, ih4]

theorem compatAllX_emb (as : List Ty) (b : Ty) : compatAllX (embL as) b.emb = compatAll as b := by
  induction as with
  | nil => simp [compatAllX, compatAll]
  | cons a as ih => simp only [embL_cons]; rw [compatAllX, compatAll, compatX_emb, ih]

theorem compatAnyX_emb (a : Ty) (bs : List Ty) : compatAnyX a.emb (embL bs) = compatAny a bs := by
  induction bs with
  | nil => simp [compatAnyX, compatAny]
  | cons b bs ih => simp only [embL_cons]; rw [compatAnyX, compatAny, compatX_emb, ih]

theorem compatZipX_emb (as bs : List Ty) : compatZipX (embL as) (embL bs) = compatZip as bs := by
  induction as generalizing bs with
  | nil => simp [compatZipX, compatZip]
  | cons a as ih =>
    cases bs with
    | nil => simp [compatZipX, compatZip]
    | cons b bs => simp only [embL_cons]; rw [compatZipX, compatZip, compatX_emb, ih]

/-! ### the embedding: shape tests, well-formedness, injectivity, image -/
@[simp] theorem emb_isUnion (t : Ty) : t.emb.isUnion = t.isUnion := by cases t <;> simp [Ty.emb, XTy.isUnion, Ty.isUnion]
@[simp] theorem emb_isAnnot (t : Ty) : t.emb.isAnnot = t.isAnnot := by cases t <;> simp [Ty.emb, XTy.isAnnot, Ty.isAnnot]
@[simp] theorem emb_isArray (t : Ty) : t.emb.isArray = t.isArray := by cases t <;> simp [Ty.emb, XTy.isArray, Ty.isArray]

theorem noUnionLX_emb (ts : List Ty) : noUnionLX (embL ts) = noUnionL ts := by
  induction ts with
  | nil => simp [noUnionLX, noUnionL]
  | cons t ts ih => simp [noUnionLX, noUnionL, ih]

theorem wfLX_emb_of {ts : List Ty} (h : ∀ t ∈ ts, t.emb.wf = t.wf) : wfLX (embL ts) = wfL ts := by
  induction ts with
  | nil => simp [wfLX, wfL]
  | cons t ts ih =>
    simp only [embL_cons, wfLX, wfL]
    rw [h t (by simp), ih (fun u hu => h u (by simp [hu]))]

theorem emb_wf (t : Ty) : t.emb.wf = t.wf := by
  refine Ty.ind' (P := fun t => t.emb.wf = t.wf) ?_ ?_ ?_ ?_ ?_ ?_ ?_ ?_ ?_ ?_ ?_ t
  · intro x; simp [Ty.emb, XTy.wf, Ty.wf]
  · simp [Ty.emb, XTy.wf, Ty.wf]
  · simp [Ty.emb, XTy.wf, Ty.wf]
  · simp [Ty.emb, XTy.wf, Ty.wf]
  · intro g ts ih; simp [Ty.emb, XTy.wf, Ty.wf, wfLX_emb_of ih]
  · intro ts ih; simp [Ty.emb, XTy.wf, Ty.wf, wfLX_emb_of ih, noUnionLX_emb]
  · intro t ih; simp [Ty.emb, XTy.wf, Ty.wf, ih]
  · intro t ih; simp [Ty.emb, XTy.wf, Ty.wf, ih]
  · simp [Ty.emb, XTy.wf, Ty.wf]
  · intro t ih; simp [Ty.emb, XTy.wf, Ty.wf, ih]
  · intro ts ih; simp [Ty.emb, XTy.wf, Ty.wf, wfLX_emb_of ih]

theorem embL_inj_of {ts : List Ty} (h : ∀ t ∈ ts, ∀ u : Ty, t.emb = u.emb → t = u) :
    ∀ us, embL ts = embL us → ts = us := by
  induction ts with
  | nil => intro us hu; cases us <;> simp_all
  | cons t ts ih =>
    intro us hu
    cases us with
    | nil => simp at hu
    | cons u us =>
      simp only [embL_cons, List.cons.injEq] at hu
      rw [h t (by simp) u hu.1, ih (fun v hv => h v (by simp [hv])) us hu.2]

theorem emb_inj (a : Ty) : ∀ b : Ty, a.emb = b.emb → a = b := by
  refine Ty.ind' (P := fun a => ∀ b : Ty, a.emb = b.emb → a = b) ?_ ?_ ?_ ?_ ?_ ?_ ?_ ?_ ?_ ?_ ?_ a
  · intro x b h; cases b <;> simp_all [Ty.emb]
  · intro b h; cases b <;> simp_all [Ty.emb]
  · intro b h; cases b <;> simp_all [Ty.emb]
  · intro b h; cases b <;> simp_all [Ty.emb]
  · intro g ts ih b h
    cases b <;> simp only [Ty.emb, XTy.gen.injEq, reduceCtorEq] at h
    rw [h.1, embL_inj_of ih _ h.2]
  · intro ts ih b h
    cases b <;> simp only [Ty.emb, XTy.union.injEq, reduceCtorEq] at h
    rw [embL_inj_of ih _ h]
  · intro t ih b h
    cases b <;> simp only [Ty.emb, XTy.annot.injEq, reduceCtorEq] at h
    rw [ih _ h]
  · intro t ih b h
    cases b <;> simp only [Ty.emb, XTy.array.injEq, reduceCtorEq] at h
    rw [ih _ h]
  · intro b h; cases b <;> simp_all [Ty.emb]
  · intro t ih b h
    cases b <;> simp only [Ty.emb, XTy.tvBound.injEq, reduceCtorEq] at h
    rw [ih _ h]
  · intro ts ih b h
    cases b <;> simp only [Ty.emb, XTy.tvConstr.injEq, reduceCtorEq] at h
    rw [embL_inj_of ih _ h]

mutual
/-- an extended annotation of the old language: no `Literal`, no `tuple[T, ...]` anywhere inside -/
def XTy.old : XTy → Bool
  | .lit _ => false
  | .vtuple _ => false
  | .gen _ ts => oldLX ts
  | .union ts => oldLX ts
  | .annot t => t.old
  | .array t => t.old
  | .tvBound t => t.old
  | .tvConstr ts => oldLX ts
  | _ => true
def oldLX : List XTy → Bool
  | [] => true
  | t :: ts => t.old && oldLX ts
end

theorem oldLX_emb_of {ts : List Ty} (h : ∀ t ∈ ts, t.emb.old = true) : oldLX (embL ts) = true := by
  induction ts with
  | nil => simp [oldLX]
  | cons t ts ih =>
    simp only [embL_cons, oldLX, Bool.and_eq_true]
    exact ⟨h t (by simp), ih (fun u hu => h u (by simp [hu]))⟩

theorem emb_old (t : Ty) : t.emb.old = true := by
  refine Ty.ind' (P := fun t => t.emb.old = true) ?_ ?_ ?_ ?_ ?_ ?_ ?_ ?_ ?_ ?_ ?_ t
  · intro x; simp [Ty.emb, XTy.old]
  · simp [Ty.emb, XTy.old]
  · simp [Ty.emb, XTy.old]
  · simp [Ty.emb, XTy.old]
  · intro g ts ih; simp [Ty.emb, XTy.old, oldLX_emb_of ih]
  · intro ts ih; simp [Ty.emb, XTy.old, oldLX_emb_of ih]
  · intro t ih; simp [Ty.emb, XTy.old, ih]
  · intro t ih; simp [Ty.emb, XTy.old, ih]
  · simp [Ty.emb, XTy.old]
  · intro t ih; simp [Ty.emb, XTy.old, ih]
  · intro ts ih; simp [Ty.emb, XTy.old, oldLX_emb_of ih]

theorem old_embL_of {xs : List XTy} (h : ∀ x ∈ xs, x.old = true → ∃ t : Ty, t.emb = x) :
    oldLX xs = true → ∃ ts : List Ty, embL ts = xs := by
  induction xs with
  | nil => intro _; exact ⟨[], by simp⟩
  | cons x xs ih =>
    intro ho
    simp only [oldLX, Bool.and_eq_true] at ho
    obtain ⟨t, ht⟩ := h x (by simp) ho.1
    obtain ⟨ts, hts⟩ := ih (fun y hy => h y (by simp [hy])) ho.2
    exact ⟨t :: ts, by simp [ht, hts]⟩

/-- every extended annotation without `Literal` / variadic tuple is the image of an old annotation -/
theorem old_emb (x : XTy) : x.old = true → ∃ t : Ty, t.emb = x := by
  refine XTy.ind' (P := fun x => x.old = true → ∃ t : Ty, t.emb = x) ?_ ?_ ?_ ?_ ?_ ?_ ?_ ?_ ?_ ?_ ?_ ?_ ?_ x
  · intro b _; exact ⟨.base b, by simp [Ty.emb]⟩
  · intro vs h; simp [XTy.old] at h
  · intro _; exact ⟨.any, by simp [Ty.emb]⟩
  · intro _; exact ⟨.noann, by simp [Ty.emb]⟩
  · intro _; exact ⟨.ndarr, by simp [Ty.emb]⟩
  · intro g ts ih h
    simp only [XTy.old] at h
    obtain ⟨us, hu⟩ := old_embL_of ih h
    exact ⟨.gen g us, by simp [Ty.emb, hu]⟩
  · intro t _ h; simp [XTy.old] at h
  · intro ts ih h
    simp only [XTy.old] at h
    obtain ⟨us, hu⟩ := old_embL_of ih h
    exact ⟨.union us, by simp [Ty.emb, hu]⟩
  · intro t ih h
    simp only [XTy.old] at h
    obtain ⟨u, hu⟩ := ih h
    exact ⟨.annot u, by simp [Ty.emb, hu]⟩
  · intro t ih h
    simp only [XTy.old] at h
    obtain ⟨u, hu⟩ := ih h
    exact ⟨.array u, by simp [Ty.emb, hu]⟩
  · intro _; exact ⟨.tvFree, by simp [Ty.emb]⟩
  · intro t ih h
    simp only [XTy.old] at h
    obtain ⟨u, hu⟩ := ih h
    exact ⟨.tvBound u, by simp [Ty.emb, hu]⟩
  · intro ts ih h
    simp only [XTy.old] at h
    obtain ⟨us, hu⟩ := old_embL_of ih h
    exact ⟨.tvConstr us, by simp [Ty.emb, hu]⟩

end PF.Typing
