import PfModel.Lemmas.RewriteAxisPrior
import PfModel.Lemmas.RewriteAxisR
import PfModel.Props.C10Axis
/-!
C10, clause "`add_mapspec_axis(p, axis=k)` lifts the pipeline pointwise", for pipelines that ALREADY have MapSpecs
(element-wise functions, reductions).  What is proved here is the structural half, for ANY pipeline: a prior MapSpec is
only ever extended — old axes stay where they are, the new axis is appended last, arrays added to the inputs are whole
except for the new axis — so every function keeps its old index space and (if it depends on `p`) gains exactly one new,
last index.  The run-level half (slice `n` along the last axis of the lifted run = run `n` of the original) is NOT proved
for prior MapSpecs; the obstruction is stated exactly below, with closed witnesses checked by the kernel.
-/
namespace PF.C10
open PF PF.Pipe PF.Rw PF.Map

/-- **`add_mapspec_axis` on a pipeline with prior MapSpecs, structural half** (`_partial`: the value half is missing, see
    below).  `hU`: output names identify a function (`validate_unique_output_names`).  After `add_mapspec_axis(p, axis)`
    every function is one of the original functions with nothing but its MapSpec changed, and
    * a function WITH a prior MapSpec `old` has `new` with: `new.outputs` = `old.outputs` position by position, each with its
      old axes in place and possibly `axis` appended LAST; `new.inputs` = `old.inputs` likewise, followed by arrays of the form
      `q[:, …, :, axis]` (whole except for the new axis) — an element-wise function stays element-wise over its old index
      space, a reduction keeps reducing over the old axes;
    * a function WITHOUT a prior MapSpec either stays without, or gets `q[:, …, axis], … -> every output [axis]`.
    MISSING (why `_partial`): the run-level clause "slice `n` of every dependent output = the original result for
    `p = p[n]`" for these pipelines.  `C10_add_axis` proves it through `LiftOK`, whose first field is `nospec`: one CALL of
    the original function is related to index `[n]` of the lifted run (`func_sim`).  With a prior MapSpec the original
    function is itself run over an index space `F`, so the relation has to be between index `F` of run `n` and index
    `F ++ [n]` of the lifted run: `mapShapes` of the lifted pipeline = old shapes `++ [K]` (masks likewise), row-major
    index arithmetic in `selectArgs`/`denoteArray` for rank ≥ 2, and slicing of stored arrays for `y[:, axis]`.  None of
    the 14 lemma files of the rank-1 proof covers rank ≥ 2.  The clause is checked on the implementation and compared
    with the model's own runs on every generated case with prior MapSpecs (K ∈ {1,2,3}). -/
theorem C10_add_axis_prior_partial (p axis : String) (fs : List RFunc)
    (hU : ∀ a ∈ fs, ∀ b ∈ fs, a.core.outputs = b.core.outputs → a = b) :
    ∀ g ∈ addAxis p axis fs, ∃ f ∈ fs, stripSpec g = stripSpec f ∧ SpecExt axis f.core.outputs f.mapspec g.mapspec :=
  addAxis_prior p axis fs hU

/-- an array that gained the axis has it LAST, and its earlier axes are the old ones (read off `SpecExt`) -/
theorem C10_add_axis_prior_last (axis : String) (a b : ASpec) (h : AExt axis a b) (hnew : b.axes ≠ a.axes) :
    b.axes = a.axes ++ [some axis] ∧ b.axes.dropLast = a.axes := by
  rcases h.2 with e | e
  · exact absurd e hnew
  · exact ⟨e, by rw [e]; simp⟩

/-! ### witnesses: an element-wise function, a reduction and an element-wise consumer, all with prior MapSpecs -/

def pb0 : RFunc := { (embed ⟨"f0", [("x", "x"), ("c", "c")], ["y"], [], []⟩) with mapspec := some ⟨[⟨"x", [some "i"]⟩], [⟨"y", [some "i"]⟩]⟩ }
def pb1 : RFunc := embed ⟨"f1", [("y", "y")], ["z"], [], []⟩                          -- takes `y` whole: a reduction
def pb2 : RFunc := { (embed ⟨"f2", [("y", "y"), ("d", "d")], ["u"], [], []⟩) with mapspec := some ⟨[⟨"y", [some "i"]⟩], [⟨"u", [some "i"]⟩]⟩ }
def PB : List RFunc := [pb0, pb1, pb2]

/-- the MapSpecs after `add_mapspec_axis("c", axis="w")`: `x[i], c[w] -> y[i, w]`, `y[:, w] -> z[w]`, `y[i, w] -> u[i, w]` -/
example : (addAxis "c" "w" PB).map (fun f => f.mapspec) =
    [some ⟨[⟨"x", [some "i"]⟩, ⟨"c", [some "w"]⟩], [⟨"y", [some "i", some "w"]⟩]⟩,
     some ⟨[⟨"y", [none, some "w"]⟩], [⟨"z", [some "w"]⟩]⟩,
     some ⟨[⟨"y", [some "i", some "w"]⟩], [⟨"u", [some "i", some "w"]⟩]⟩] := by decide

/-- **the obstruction, exactly**: this pipeline is outside the fragment of `C10_add_axis` — `LiftOK.nospec` fails before
    the call, and the local condition `liftOKb` on the result is false (rank-2 arrays, an input along an OLD axis) -/
theorem C10_add_axis_prior_outside : (PB.all fun f => f.mapspec.isNone) = false ∧ liftOKb "c" "w" (addAxis "c" "w" PB) = false := by
  decide

theorem C10_ex_prior_unique : ∀ a ∈ PB, ∀ b ∈ PB, a.core.outputs = b.core.outputs → a = b := by
  intro a ha b hb h
  simp only [PB, List.mem_cons, List.not_mem_nil, or_false] at ha hb
  rcases ha with rfl | rfl | rfl <;> rcases hb with rfl | rfl | rfl <;> first | rfl | (exfalso; revert h; decide)

/-- `C10_add_axis_prior_partial` applies to `PB` -/
example : ∀ g ∈ addAxis "c" "w" PB, ∃ f ∈ PB, stripSpec g = stripSpec f ∧ SpecExt "w" f.core.outputs f.mapspec g.mapspec :=
  C10_add_axis_prior_partial "c" "w" PB C10_ex_prior_unique

private def inB (c : Val) : List (String × Val) := [("x", .arr [2] [.str "a", .str "b"]), ("c", c), ("d", .int 7)]
private def outB (c : Val) (o : String) : Val :=
  match runMap (PB.map toMFunc) (inB c) [] with
  | .ok r => (alookup r.outputs o).getD .none
  | .error _ => .none
private def elemAt (v : Val) (i : Nat) : Val := match v with | .arr _ els => els.getD i .none | _ => .none

/-- the original runs for both variants and the lifted pipeline runs, with the shapes `[2]`, `[2, 2]`, `[2]`, `[2, 2]` -/
example : ((runMap ((addAxis "c" "w" PB).map toMFunc) (inB (.arr [2] [.str "c0", .str "c1"])) []).toOption.map fun r => r.shapes) =
    some [("x", [2]), ("c", [2]), ("y", [2, 2]), ("z", [2]), ("u", [2, 2])] := by decide
example : ∀ n, n < 2 → (runMap (PB.map toMFunc) (inB ([Val.str "c0", Val.str "c1"].getD n .none)) []).toOption.isSome = true := by decide

/-- **on this closed instance the clause holds** (kernel computation, K = 2): the reduction `z` of the lifted run is the array
    of the two original results, and the element-wise `y`, `u` have run `n` of the original as their slice `[:, n]`
    (row-major: element `(i, n)` is at position `2 i + n`) -/
theorem C10_add_axis_prior_witness :
    (runMap ((addAxis "c" "w" PB).map toMFunc) (inB (.arr [2] [.str "c0", .str "c1"])) []).toOption.map (fun r =>
      ((alookup r.outputs "z").getD .none, (alookup r.outputs "y").getD .none, (alookup r.outputs "u").getD .none)) =
    some (.arr [2] [outB (.str "c0") "z", outB (.str "c1") "z"],
          .arr [2, 2] [elemAt (outB (.str "c0") "y") 0, elemAt (outB (.str "c1") "y") 0, elemAt (outB (.str "c0") "y") 1, elemAt (outB (.str "c1") "y") 1],
          .arr [2, 2] [elemAt (outB (.str "c0") "u") 0, elemAt (outB (.str "c1") "u") 0, elemAt (outB (.str "c0") "u") 1, elemAt (outB (.str "c1") "u") 1]) := by
  rfl

/-! the same pipeline lifted along the parameter that is ALREADY mapped (`x[i]` becomes `x[i, w]`; DF-C10-5's `dims`) -/

example : (addAxis "x" "w" PB).map (fun f => f.mapspec) =
    [some ⟨[⟨"x", [some "i", some "w"]⟩], [⟨"y", [some "i", some "w"]⟩]⟩,
     some ⟨[⟨"y", [none, some "w"]⟩], [⟨"z", [some "w"]⟩]⟩,
     some ⟨[⟨"y", [some "i", some "w"]⟩], [⟨"u", [some "i", some "w"]⟩]⟩] := by decide

private def inX (x : Val) : List (String × Val) := [("x", x), ("c", .str "c"), ("d", .int 7)]
private def outX (x : Val) (o : String) : Val :=
  match runMap (PB.map toMFunc) (inX x) [] with
  | .ok r => (alookup r.outputs o).getD .none
  | .error _ => .none

/-- **closed instance, `p` already an array** (K = 2): the lifted run on `x[i, n]` has, for every dependent output, run `n` of the
    original (on the column `x[:, n]`) as its slice `[…, n]` -/
theorem C10_add_axis_prior_witness_mapped :
    (runMap ((addAxis "x" "w" PB).map toMFunc) (inX (.arr [2, 2] [.str "a0", .str "a1", .str "b0", .str "b1"])) []).toOption.map (fun r =>
      ((alookup r.outputs "z").getD .none, (alookup r.outputs "y").getD .none, (alookup r.outputs "u").getD .none)) =
    some (.arr [2] [outX (.arr [2] [.str "a0", .str "b0"]) "z", outX (.arr [2] [.str "a1", .str "b1"]) "z"],
          .arr [2, 2] [elemAt (outX (.arr [2] [.str "a0", .str "b0"]) "y") 0, elemAt (outX (.arr [2] [.str "a1", .str "b1"]) "y") 0,
                       elemAt (outX (.arr [2] [.str "a0", .str "b0"]) "y") 1, elemAt (outX (.arr [2] [.str "a1", .str "b1"]) "y") 1],
          .arr [2, 2] [elemAt (outX (.arr [2] [.str "a0", .str "b0"]) "u") 0, elemAt (outX (.arr [2] [.str "a1", .str "b1"]) "u") 0,
                       elemAt (outX (.arr [2] [.str "a0", .str "b0"]) "u") 1, elemAt (outX (.arr [2] [.str "a1", .str "b1"]) "u") 1]) := by
  rfl

end PF.C10
