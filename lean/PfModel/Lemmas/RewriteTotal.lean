import PfModel.Lemmas.RewriteNest
/-! Totality of the inner evaluation of a `NestedPipeFunc`: with an acyclicity witness for the original pipeline the fixed
fuel `fuelOf S` is enough (lemmas for `Props/C10Total.lean`). -/
namespace PF.Rw
open PF PF.Pipe

/-- acyclicity witness: a rank on output names that decreases along every produced, non-bound parameter -/
structure AcyclicR (fs : List RFunc) (rank : String → Nat) : Prop where
  lt : ∀ f ∈ fs, ∀ o ∈ f.core.outputs, ∀ p ∈ freeParams f, (∃ g ∈ fs, p ∈ g.core.outputs) → rank p < rank o

/-! ### counting -/

theorem flen_le {α} (p q : α → Bool) (l : List α) (hpq : ∀ x ∈ l, p x = true → q x = true) :
    (l.filter p).length ≤ (l.filter q).length := by
  induction l with
  | nil => simp
  | cons a as ih =>
    have ih := ih (fun x hx => hpq x (List.mem_cons_of_mem _ hx))
    have ha := hpq a List.mem_cons_self
    simp only [List.filter]
    cases hp : p a <;> cases hq : q a <;> simp_all <;> omega

theorem flen_lt {α} (p q : α → Bool) (l : List α) (hpq : ∀ x ∈ l, p x = true → q x = true)
    (hx : ∃ x ∈ l, q x = true ∧ p x = false) : (l.filter p).length < (l.filter q).length := by
  induction l with
  | nil => obtain ⟨x, hx, _⟩ := hx; cases hx
  | cons a as ih =>
    have hle := flen_le p q as (fun x hx => hpq x (List.mem_cons_of_mem _ hx))
    have ha := hpq a List.mem_cons_self
    obtain ⟨x, hxm, hqx, hpx⟩ := hx
    simp only [List.filter]
    rcases List.mem_cons.mp hxm with rfl | hxm
    · simp [hqx, hpx]; omega
    · have ih := ih (fun x hx => hpq x (List.mem_cons_of_mem _ hx)) ⟨x, hxm, hqx, hpx⟩
      cases hp : p a <;> cases hq : q a <;> simp_all <;> omega

/-- the least rank among a list of names -/
def minRank (rank : String → Nat) : List String → Nat
  | [] => 0
  | [o] => rank o
  | o :: o' :: os => min (rank o) (minRank rank (o' :: os))

theorem minRank_le (rank : String → Nat) : ∀ (os : List String) (o : String), o ∈ os → minRank rank os ≤ rank o := by
  intro os
  induction os with
  | nil => intro o h; cases h
  | cons a as ih =>
    intro o h
    cases as with
    | nil =>
      have : o = a := by simpa using h
      subst this; simp [minRank]
    | cons b cs =>
      simp only [minRank]
      rcases List.mem_cons.mp h with rfl | h
      · exact Nat.min_le_left _ _
      · exact Nat.le_trans (Nat.min_le_right _ _) (ih o h)

theorem minRank_mem (rank : String → Nat) : ∀ (os : List String), os ≠ [] → ∃ o ∈ os, minRank rank os = rank o := by
  intro os
  induction os with
  | nil => intro h; exact absurd rfl h
  | cons a as ih =>
    intro _
    cases as with
    | nil => exact ⟨a, by simp, rfl⟩
    | cons b cs =>
      obtain ⟨o, ho, e⟩ := ih (by simp)
      simp only [minRank]
      by_cases h : rank a ≤ minRank rank (b :: cs)
      · exact ⟨a, by simp, Nat.min_eq_left h⟩
      · exact ⟨o, List.mem_cons_of_mem _ ho, by rw [Nat.min_eq_right (by omega), e]⟩

/-- rank of a function: the least rank of its outputs -/
def frank (rank : String → Nat) (g : RFunc) : Nat := minRank rank g.core.outputs

/-- normalised rank: the number of functions of `S` of strictly smaller rank -/
def nrank (S : List RFunc) (rank : String → Nat) (h : RFunc) : Nat :=
  (S.filter (fun g => decide (frank rank g < frank rank h))).length

theorem nrank_lt_length (S : List RFunc) (rank : String → Nat) (h : RFunc) (hh : h ∈ S) : nrank S rank h < S.length := by
  have := flen_lt (fun g => decide (frank rank g < frank rank h)) (fun _ => true) S (by simp) ⟨h, hh, rfl, by simp⟩
  have e : S.filter (fun _ => true) = S := List.filter_eq_self.mpr (by simp)
  rw [e] at this
  exact this

theorem nrank_lt (S : List RFunc) (rank : String → Nat) (g h : RFunc) (hg : g ∈ S) (hlt : frank rank g < frank rank h) :
    nrank S rank g < nrank S rank h := by
  unfold nrank
  apply flen_lt
  · intro x _ hx; simp at hx ⊢; omega
  · exact ⟨g, hg, by simp [hlt], by simp⟩

theorem frank_lt (fs : List RFunc) (rank : String → Nat) (hac : AcyclicR fs rank) (f : RFunc) (hf : f ∈ fs) (q : String)
    (hq : q ∈ f.core.outputs) (p : String) (hp : p ∈ freeParams f) (g : RFunc) (hg : g ∈ fs) (hpg : p ∈ g.core.outputs) :
    frank rank g < frank rank f := by
  obtain ⟨o, ho, e⟩ := minRank_mem rank f.core.outputs (List.ne_nil_of_mem hq)
  have h1 := hac.lt f hf o ho p hp ⟨g, hg, hpg⟩
  have h2 := minRank_le rank g.core.outputs p hpg
  unfold frank
  omega

/-! ### success of the argument evaluation -/

theorem resolve_ne_missing (gs : List Func) (kw : List (String × Val)) (g : Func) (p : String)
    (h : (alookup g.bound p).isSome ∨ (alookup kw p).isSome ∨ (∃ c, producer gs p = some c) ∨ (pdefault gs p).isSome) :
    resolve gs kw g p ≠ .missing := by
  unfold resolve
  cases hb : alookup g.bound p with
  | some w => simp
  | none =>
    cases hk : alookup kw p with
    | some w => simp
    | none =>
      cases hp : producer gs p with
      | some c => simp
      | none =>
        cases hd : pdefault gs p with
        | some v => simp
        | none => simp [hb, hk, hp, hd] at h

theorem composeArgsWith_total (r : String → Except Err Val) (gs : List Func) (kw : List (String × Val)) (f : Func) :
    ∀ ps : List (String × String), (∀ p ∈ ps, resolve gs kw f p.1 ≠ .missing) →
      (∀ p ∈ ps, resolve gs kw f p.1 = .upstream → ∃ v, r p.1 = .ok v) → ∃ a, composeArgsWith r gs kw f ps = .ok a := by
  intro ps
  induction ps with
  | nil => intro _ _; exact ⟨[], rfl⟩
  | cons e es ih =>
    obtain ⟨p, orig⟩ := e
    intro h1 h2
    obtain ⟨rest, hrest⟩ := ih (fun x hx => h1 x (List.mem_cons_of_mem _ hx)) (fun x hx => h2 x (List.mem_cons_of_mem _ hx))
    have e1 := h1 (p, orig) (by simp)
    have e2 := h2 (p, orig) (by simp)
    simp only [] at e1 e2
    simp only [composeArgsWith]
    cases hres : resolve gs kw f p with
    | missing => exact absurd hres e1
    | val v => simp only [hrest]; exact ⟨_, rfl⟩
    | upstream => obtain ⟨v, hv⟩ := e2 hres; simp only [hv, hrest]; exact ⟨_, rfl⟩

/-- the same with `eval` at a common fuel -/
theorem composeArgs_total_eval (r : List RFunc) (kw : List (String × Val)) (f : Func) :
    ∀ ps : List (String × String), (∀ p ∈ ps, resolve (cores r) kw f p.1 ≠ .missing) →
      (∀ p ∈ ps, resolve (cores r) kw f p.1 = .upstream → ∃ n v, eval r kw n p.1 = .ok v) →
      ∃ n a, composeArgsWith (eval r kw n) (cores r) kw f ps = .ok a := by
  intro ps
  induction ps with
  | nil => intro _ _; exact ⟨0, [], rfl⟩
  | cons e es ih =>
    obtain ⟨p, orig⟩ := e
    intro h1 h2
    obtain ⟨n2, rest, hrest⟩ := ih (fun x hx => h1 x (List.mem_cons_of_mem _ hx)) (fun x hx => h2 x (List.mem_cons_of_mem _ hx))
    have e1 := h1 (p, orig) (by simp)
    have e2 := h2 (p, orig) (by simp)
    simp only [] at e1 e2
    cases hres : resolve (cores r) kw f p with
    | missing => exact absurd hres e1
    | val v => exact ⟨n2, (orig, v) :: rest, by simp only [composeArgsWith, hres, hrest]⟩
    | upstream =>
      obtain ⟨n1, v, hv⟩ := e2 hres
      have a1 := eval_mono r kw (Nat.le_max_left n1 n2) hv
      have a2 := composeArgsWith_mono (cores r) kw (eval r kw n2) (eval r kw (max n1 n2))
        (fun o v h => eval_mono r kw (Nat.le_max_right n1 n2) h) f es rest hrest
      exact ⟨max n1 n2, (orig, v) :: rest, by simp only [composeArgsWith, hres, a1, a2]⟩

/-- every parameter of a successful argument evaluation was delivered a value -/
theorem composeArgs_ok_params (gs : List Func) (kw : List (String × Val)) (f : Func) (r : String → Except Err Val) :
    ∀ (ps : List (String × String)) (a : List (String × Val)), composeArgsWith r gs kw f ps = .ok a →
      ∀ p ∈ ps, ∃ v, NewArg gs kw f r p.1 v := by
  intro ps
  induction ps with
  | nil => intro a _ p hp; cases hp
  | cons e es ih =>
    obtain ⟨p, orig⟩ := e
    intro a h
    have hnew : ∃ v rest, NewArg gs kw f r p v ∧ composeArgsWith r gs kw f es = .ok rest := by
      simp only [composeArgsWith] at h
      split at h
      · simp at h
      · next v hv =>
        split at h
        · simp at h
        · next rest hr => exact ⟨v, rest, Or.inl hv, hr⟩
      · next hu =>
        split at h
        · simp at h
        · next v hv =>
          split at h
          · simp at h
          · next rest hr => exact ⟨v, rest, Or.inr ⟨hu, hv⟩, hr⟩
    obtain ⟨v, rest, hna, hrest⟩ := hnew
    intro q hq
    rcases List.mem_cons.mp hq with rfl | hq
    · exact ⟨v, hna⟩
    · exact ih rest hrest q hq

theorem freeParams_mem (g : RFunc) (p : String) (h : p ∈ freeParams g) :
    ∃ q ∈ g.core.params, q.1 = p ∧ alookup g.core.bound p = none := by
  unfold freeParams at h
  obtain ⟨q, hq, hqq⟩ := List.mem_filterMap.mp h
  obtain ⟨a, b⟩ := q
  simp only [] at hqq
  split at hqq
  · cases hqq
  · next hb =>
    injection hqq with e
    subst e
    exact ⟨(a, b), hq, rfl, by simpa using hb⟩

/-- what a successful evaluation of an output unfolds to -/
theorem eval_ok_unfold (fs : List RFunc) (kw : List (String × Val)) (hu : UniqueOutR fs) (g : RFunc) (hg : g ∈ fs) (q : String)
    (hq : q ∈ g.core.outputs) (m : Nat) (w : Val) (h : eval fs kw m q = .ok w) :
    ∃ m' a, composeArgsWith (eval fs kw m') (cores fs) kw g.core g.core.params = .ok a ∧ outVal g a q = .ok w := by
  cases m with
  | zero => simp [eval] at h
  | succ m =>
    rw [eval_succ, (rproducer_some_iff fs hu q g).mpr ⟨hg, hq⟩] at h
    simp only [] at h
    split at h
    · cases h
    · next a ha => exact ⟨m, a, ha, h⟩

/-- two successful argument evaluations of the same function return the same list -/
theorem composeArgs_det (fs : List RFunc) (kw : List (String × Val)) (g : Func) (ps : List (String × String)) {m m' : Nat}
    {a a' : List (String × Val)} (h : composeArgsWith (eval fs kw m) (cores fs) kw g ps = .ok a)
    (h' : composeArgsWith (eval fs kw m') (cores fs) kw g ps = .ok a') : a = a' := by
  have e1 := composeArgsWith_mono (cores fs) kw _ (eval fs kw (max m m'))
    (fun o v h => eval_mono fs kw (Nat.le_max_left m m') h) g ps a h
  have e2 := composeArgsWith_mono (cores fs) kw _ (eval fs kw (max m m'))
    (fun o v h => eval_mono fs kw (Nat.le_max_right m m') h) g ps a' h'
  rw [e1] at e2
  injection e2

/-- every non-bound parameter of a function the original evaluates has a value in the original -/
theorem valOld_of_args (fs : List RFunc) (kw : List (String × Val)) (g : RFunc) (m : Nat) (a : List (String × Val))
    (ha : composeArgsWith (eval fs kw m) (cores fs) kw g.core g.core.params = .ok a) :
    ∀ p ∈ freeParams g, ∃ v, ValOld fs kw p v := by
  intro p hp
  obtain ⟨q, hq, rfl, hb⟩ := freeParams_mem g p hp
  obtain ⟨v, hv⟩ := composeArgs_ok_params _ kw g.core _ _ a ha q hq
  refine ⟨v, ?_⟩
  rcases hv with hv | ⟨hup, hr⟩
  · rcases (resolve_val_iff _ _ _ _ _).mp hv with hb' | ⟨_, hk⟩ | ⟨_, hk, hpn, hd⟩
    · rw [hb] at hb'; cases hb'
    · exact Or.inl hk
    · exact Or.inr (Or.inr ⟨hk, hpn, hd⟩)
  · obtain ⟨_, hk, hc⟩ := (resolve_upstream_iff _ _ _ _).mp hup
    exact Or.inr (Or.inl ⟨hk, hc, m, hr⟩)

/-! ### the inner evaluation succeeds at the fixed fuel -/

section innerTotal
variable (fs S : List RFunc) (kw args : List (String × Val)) (rank : String → Nat)
  (hS : ∀ g ∈ S, g ∈ fs) (hu : UniqueOutR fs)
  (hK : ∀ p, (∃ c, producer (cores fs) p = some c) → alookup kw p = none)
  (hA1 : ∀ p val, alookup args p = some val → ValOld fs kw p val)
  (hA2 : ∀ g ∈ S, ∀ p ∈ freeParams g, (∃ h ∈ S, p ∈ h.core.outputs) ∨ (alookup args p).isSome)
  (hac : AcyclicR fs rank)
  (hEv : ∀ g ∈ S, ∀ q ∈ g.core.outputs, ∃ m w, eval fs kw m q = .ok w)
include hS hu hK hA1 hA2

/-- the argument list a nested function is called with inside the nest is the one the original calls it with -/
theorem composeArgs_inner (k : Nat) (g : RFunc) (hgS : g ∈ S) (a : List (String × Val))
    (ha : composeArgsWith (eval S args k) (cores S) args g.core g.core.params = .ok a) :
    ∃ m, composeArgsWith (eval fs kw m) (cores fs) kw g.core g.core.params = .ok a := by
  apply composeArgs_transfer fs kw g.core (cores S) args g.core (eval S args k) g.core.params a ha
  intro p hp v hnew
  rcases hnew with hv | ⟨hup, hr⟩
  · rcases (resolve_val_iff _ _ _ _ _).mp hv with hb | ⟨hb, hk⟩ | ⟨hb, hk, hpn, _⟩
    · exact Or.inl ((resolve_val_iff _ _ _ _ _).mpr (Or.inl hb))
    · rcases hA1 p.1 v hk with h1 | ⟨h1, h2, m, h3⟩ | ⟨h1, h2, h3⟩
      · exact Or.inl ((resolve_val_iff _ _ _ _ _).mpr (Or.inr (Or.inl ⟨hb, h1⟩)))
      · exact Or.inr ⟨(resolve_upstream_iff _ _ _ _).mpr ⟨hb, h1, h2⟩, m, h3⟩
      · exact Or.inl ((resolve_val_iff _ _ _ _ _).mpr (Or.inr (Or.inr ⟨hb, h1, h2, h3⟩)))
    · exfalso
      rcases hA2 g hgS p.1 (mem_freeParams g p hp hb) with hex | hsome
      · obtain ⟨c, hc⟩ := producer_some_of S p.1 hex
        rw [hpn] at hc; cases hc
      · rw [hk] at hsome; simp at hsome
  · obtain ⟨hb, hk, c, hc⟩ := (resolve_upstream_iff _ _ _ _).mp hup
    obtain ⟨m, hm⟩ := eval_inner fs S kw args hS hu hK hA1 hA2 k p.1 v hr
    obtain ⟨g', hg', hpg'⟩ := producer_some_mem S p.1 c hc
    have hsome := producer_some_of fs p.1 ⟨g', hS g' hg', hpg'⟩
    exact Or.inr ⟨(resolve_upstream_iff _ _ _ _).mpr ⟨hb, hK p.1 hsome, hsome⟩, m, hm⟩

include hac hEv

/-- success (with the original's value) at any fuel above the normalised rank of the producer -/
theorem eval_inner_fuel : ∀ (k : Nat) (q : String) (g : RFunc), rproducer S q = some g → nrank S rank g < k →
    ∃ w, eval S args k q = .ok w ∧ ∃ m, eval fs kw m q = .ok w := by
  intro k
  induction k with
  | zero => intro q g _ h; omega
  | succ k ih =>
    intro q g hg hlt
    obtain ⟨hgS, hqg⟩ := rproducer_mem S q g hg
    have hgfs := hS g hgS
    have hnm : ∀ p ∈ g.core.params, resolve (cores S) args g.core p.1 ≠ .missing := by
      intro p hp
      apply resolve_ne_missing
      cases hb : alookup g.core.bound p.1 with
      | some w => left; rfl
      | none =>
        rcases hA2 g hgS p.1 (mem_freeParams g p hp hb) with hex | hsome
        · exact Or.inr (Or.inr (Or.inl (producer_some_of S p.1 hex)))
        · exact Or.inr (Or.inl hsome)
    have hup : ∀ p ∈ g.core.params, resolve (cores S) args g.core p.1 = .upstream → ∃ v, eval S args k p.1 = .ok v := by
      intro p hp hres
      obtain ⟨hb, _, c, hc⟩ := (resolve_upstream_iff _ _ _ _).mp hres
      obtain ⟨g', hg', hpg'⟩ := producer_some_mem S p.1 c hc
      obtain ⟨g'', hg''⟩ := rproducer_isSome S p.1 ⟨g', hg', hpg'⟩
      obtain ⟨hg''S, hpg''⟩ := rproducer_mem S p.1 g'' hg''
      have hfl := frank_lt fs rank hac g hgfs q hqg p.1 (mem_freeParams g p hp hb) g'' (hS g'' hg''S) hpg''
      have := nrank_lt S rank g'' g hg''S hfl
      obtain ⟨v, hv, _⟩ := ih p.1 g'' hg'' (by omega)
      exact ⟨v, hv⟩
    obtain ⟨a, ha⟩ := composeArgsWith_total (eval S args k) (cores S) args g.core g.core.params hnm hup
    obtain ⟨m1, hm1⟩ := composeArgs_inner fs S kw args hS hu hK hA1 hA2 k g hgS a ha
    obtain ⟨m0, w, hw⟩ := hEv g hgS q hqg
    obtain ⟨m', a', ha', hout⟩ := eval_ok_unfold fs kw hu g hgfs q hqg m0 w hw
    have : a = a' := composeArgs_det fs kw g.core g.core.params hm1 ha'
    subst this
    refine ⟨w, ?_, m0, hw⟩
    rw [eval_succ, hg]
    simp only [ha]
    exact hout

/-- **The inner pipeline of a nest is total**: with the fuel `nestBody` uses, every output of the nested functions
    evaluates on the arguments the nest received to the original pipeline's value -/
theorem eval_inner_total (q : String) (hq : ∃ g ∈ S, q ∈ g.core.outputs) (m : Nat) (w : Val) (hw : eval fs kw m q = .ok w) :
    eval S args (fuelOf S) q = .ok w := by
  obtain ⟨g, hg⟩ := rproducer_isSome S q hq
  obtain ⟨hgS, _⟩ := rproducer_mem S q g hg
  have hl := nrank_lt_length S rank g hgS
  obtain ⟨w', h1, m', h2⟩ := eval_inner_fuel fs S kw args rank hS hu hK hA1 hA2 hac hEv (fuelOf S) q g hg
    (by unfold fuelOf; omega)
  rw [eval_det fs kw hw h2]
  exact h1

end innerTotal

end PF.Rw
