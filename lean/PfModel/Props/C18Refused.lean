import PfModel.Lemmas.LazyRefuse
import PfModel.Props.C18
/-!
# C18, the state a refused call leaves behind

A lazy request that the pipeline refuses half-way (`ValueError` missing argument, raised in `_get_func_args` after the nodes for the
earlier arguments exist; `UnusedParametersError`, raised at the end of `run` after every node exists and the caches are updated;
`KeyError` unknown output / `ValueError` output among the keyword arguments, raised at the start) leaves its traces in the session:
`_LazyFunction._counter` has advanced, the nodes are registered in the task graph, cache entries are written.  `PF.Lazy.lrunTopR`
(`Model/LazyRefuse.lean`) is `lrunTop` returning the state reached at the raise.  The theorems: it IS `lrunTop` on what `lrunTop`
returns (so every theorem of `Props/C18.lean` speaks about it); a refused request invokes and evaluates NOTHING, only appends nodes,
and re-establishes the session invariant `Sess` — so every later request / `evaluate()` of the session still satisfies `C18_eager`,
`C18_exact`, `C18_once`, `C18_dag`, … (the graph-edge characterisation `GInv` is part of `Sess`).  All inputs, all histories, both
request forms, no size bound; hypotheses as in `Props/C18.lean` (`PipeCache.WF`, `Sess`).
-/
namespace PF.C18
open PF PF.Pipe PF.Lazy

/-- **Agreement (accepted).** `lrunTopR` accepts with `(a, s')` exactly when `lrunTop` does: all theorems about `lrunTop` transfer. -/
theorem C18_refused_agree (fs : List Func) (kw : List (String × Val)) (req : Req) (s : LSt) (a : LArg) (s' : LSt) :
    lrunTopR fs kw req s = (s', .ok a) ↔ lrunTop fs kw req s = .ok (a, s') := by
  rw [lrunTopR_agree]
  rcases lrunTopR fs kw req s with ⟨s1, e | a1⟩
  · simp [forget]
  · simp only [forget, Prod.mk.injEq, Except.ok.injEq]
    exact ⟨fun h => ⟨h.2, h.1⟩, fun h => ⟨h.2, h.1⟩⟩

/-- **Agreement (refused).** `lrunTopR` refuses with `e` (in some state) exactly when `lrunTop` refuses with `e`. -/
theorem C18_refused_agree_error (fs : List Func) (kw : List (String × Val)) (req : Req) (s : LSt) (e : Err) :
    (∃ s', lrunTopR fs kw req s = (s', .error e)) ↔ lrunTop fs kw req s = .error e := by
  rw [lrunTopR_agree]
  rcases lrunTopR fs kw req s with ⟨s1, e1 | a1⟩
  · simp only [forget, Prod.mk.injEq, Except.error.injEq]
    exact ⟨fun ⟨_, _, h⟩ => h, fun h => ⟨s1, rfl, h⟩⟩
  · simp [forget]

/-- **A refused request invokes nothing.** Whatever the request (`pipeline(o, **kw)` or the whole tuple of one function), whatever
    the history of the session and whatever the reason of the refusal: in the state the raise leaves behind no `_evaluated` flag, no
    `_result` and no entry of the call log has changed (`s'.ev = s.ev`), nodes were only appended (the counter only advanced), a
    `construct_dag()` block stays active, and the session invariant holds again — the task graph's edges are still exactly the lazy
    arguments of its nodes, every cache entry (block cache, own cache) written before the raise is right for every later call
    that can find it. -/
theorem C18_refused_invokes_nothing (fs : List Func) (kw : List (String × Val)) (rank : String → Nat) (wf : PipeCache.WF fs rank)
    (s : LSt) (hs : Sess fs s) (req : Req) (s' : LSt) (e : Err) (h : lrunTopR fs kw req s = (s', .error e)) :
    s'.ev = s.ev ∧ (∃ ext, s'.nodes = s.nodes ++ ext) ∧ s'.tg.isSome = s.tg.isSome ∧ Sess fs s' := by
  obtain ⟨hst, hw⟩ := lrunTopR_refused wf hs h
  exact ⟨hst.2.1, hst.1, hst.2.2, sess_after_w hs hst hw⟩

/-- the graph clause of `Sess`, spelled out for the state after a refused request inside `construct_dag()`: the recorded nodes
    exist (orphans of the refused request included) and the edges are exactly the (older) lazy arguments of the recorded nodes -/
theorem C18_refused_graph (fs : List Func) (kw : List (String × Val)) (rank : String → Nat) (wf : PipeCache.WF fs rank)
    (s : LSt) (hs : Sess fs s) (req : Req) (s' : LSt) (e : Err) (h : lrunTopR fs kw req s = (s', .error e))
    (g : TG) (hg : s'.tg = some g) :
    (∀ n ∈ g.gnodes, n < s'.nodes.length) ∧
    (∀ a n, (a, n) ∈ g.edges ↔ (n ∈ g.gnodes ∧ ∃ nd, s'.nodes[n]? = some nd ∧ a ∈ nd.refs)) ∧
    (∀ a n, (a, n) ∈ g.edges → a < n) := by
  obtain ⟨_, _, _, hs'⟩ := C18_refused_invokes_nothing fs kw rank wf s hs req s' e h
  obtain ⟨h1, h2⟩ := hs'.graph g hg
  refine ⟨h1, h2, ?_⟩
  intro a n hm
  obtain ⟨_, nd, hnd, ha⟩ := (h2 a n).mp hm
  exact hs'.closed n nd hnd a ha

/-- **The session goes on.** After a refused request, a later accepted request (any keyword arguments) returns an object that stands
    for the eager value, and `evaluate()` returns it: `C18_eager` in the state the refused request left. -/
theorem C18_refused_then_eager (fs : List Func) (kw kw' : List (String × Val)) (rank : String → Nat) (wf : PipeCache.WF fs rank)
    (s : LSt) (hs : Sess fs s) (req : Req) (s' : LSt) (e : Err) (h : lrunTopR fs kw req s = (s', .error e))
    (o : String) (a : LArg) (s'' : LSt) (h2 : lrunTop fs kw' (.name o) s' = .ok (a, s'')) :
    ∃ v, (∃ k, compose fs kw' k o = .ok v) ∧ den s''.nodes a = some v ∧ ∀ v' t, evaluate a s'' = .ok (v', t) → v' = v :=
  C18_eager fs kw' rank wf s' (C18_refused_invokes_nothing fs kw rank wf s hs req s' e h).2.2.2 o a s'' h2

/-- … and every `evaluate()` after the refused request still invokes each node's function at most once (`C18_once` in any state
    reached from the one the refused request left) and returns what the object stands for (`C18_evaluate`) -/
theorem C18_refused_then_evaluate (fs : List Func) (kw : List (String × Val)) (rank : String → Nat) (wf : PipeCache.WF fs rank)
    (s : LSt) (hs : Sess fs s) (req : Req) (s' : LSt) (e : Err) (h : lrunTopR fs kw req s = (s', .error e))
    (a : LArg) (v : Val) (s'' : LSt) (he : evaluate a s' = .ok (v, s'')) :
    den s'.nodes a = some v ∧ Sess fs s'' ∧ s''.ev.log.Nodup := by
  have hs' := (C18_refused_invokes_nothing fs kw rank wf s hs req s' e h).2.2.2
  obtain ⟨hd, hs'', _⟩ := C18_evaluate fs s' hs' a v s'' he
  exact ⟨hd, hs'', C18_once fs s'' hs''⟩

/-- **Refused at the door.** The requested name among the keyword arguments, or a tuple no function returns: refused before anything
    is created — the state is the one before the request. -/
theorem C18_refused_early (fs : List Func) (kw : List (String × Val)) (s : LSt) :
    (∀ o, (alookup kw o).isSome → lrunTopR fs kw (.name o) s = (s, .error .outputInKwargs)) ∧
    (∀ os, fs.find? (fun f => f.outputs = os) = none → lrunTopR fs kw (.whole os) s = (s, .error (.noFunc (",".intercalate os)))) := by
  constructor
  · intro o ho; rw [lrunTopR_name_eq]; simp [ho]
  · intro os ho; rw [lrunTopR_whole_eq]; simp [ho]

/-- an unknown output name: nothing is created either (the per-call locals aside) -/
theorem C18_refused_unknown (fs : List Func) (kw : List (String × Val)) (s : LSt) (o : String) (hk : alookup kw o = none)
    (hp : producer fs o = none) :
    (lrunTopR fs kw (.name o) s).2 = .error (.noFunc o) ∧ (lrunTopR fs kw (.name o) s).1.nodes = s.nodes ∧
    (lrunTopR fs kw (.name o) s).1.tg = s.tg ∧ (lrunTopR fs kw (.name o) s).1.own = s.own ∧ (lrunTopR fs kw (.name o) s).1.ev = s.ev := by
  rw [lrunTopR_name_eq]
  have hm : alookup (kw.map fun (k, v) => (k, LArg.val v)) o = none := by rw [alookup_map_val, hk]; rfl
  simp [hk, fuelFor, lrunR_succ, hm, hp]

/-! ### non-vacuity -/

/-- the demo pipeline of `Props/C18.lean` (a diamond through a tuple-output node) satisfies the well-formedness hypothesis -/
theorem C18_refused_demo_wf :
    PipeCache.WF [fD, fB, fA] (fun o => if o = "a" then 0 else if o = "b" ∨ o = "c" then 1 else if o = "d" then 2 else 0) := by
  refine ⟨?_, ?_, ?_, ?_⟩
  · intro f hf g hg o ho ho'
    simp only [List.mem_cons, List.not_mem_nil, or_false] at hf hg
    rcases hf with rfl | rfl | rfl <;> rcases hg with rfl | rfl | rfl <;> first | rfl | (exfalso; simp [fA, fB, fD] at ho ho'; rcases ho with rfl | rfl <;> simp at ho') | (exfalso; simp [fA, fB, fD] at ho ho'; subst ho; simp at ho')
  · intro f hf g hg p v w hv hw
    simp only [List.mem_cons, List.not_mem_nil, or_false] at hf hg
    rcases hf with rfl | rfl | rfl <;> rcases hg with rfl | rfl | rfl <;> simp [fA, fB, fD] at hv hw
    rw [hv.2, hw.2]
  · intro o f hp pq hpq hb hprod
    by_cases h1 : o = "d"
    · subst h1
      have : f = fD := by simpa [producer, fD, fB, fA] using hp.symm
      subst this
      simp [fD] at hpq
      rcases hpq with rfl | rfl | rfl <;> decide
    · by_cases h2 : o = "b" ∨ o = "c"
      · have : f = fB := by rcases h2 with rfl | rfl <;> simpa [producer, fD, fB, fA] using hp.symm
        subst this
        simp [fB] at hpq
        rcases hpq with rfl | rfl
        · rcases h2 with rfl | rfl <;> decide
        · simp [producer, fD, fB, fA] at hprod
      · by_cases h3 : o = "a"
        · subst h3
          have : f = fA := by simpa [producer, fD, fB, fA] using hp.symm
          subst this
          simp [fA] at hpq
          subst hpq
          simp [producer, fD, fB, fA] at hprod
        · exfalso
          simp only [not_or] at h2
          simp [producer, fD, fB, fA, h1, h2.1, h2.2, h3] at hp
  · intro o; simp only [fuelFor, List.length_cons, List.length_nil]; split <;> (try split) <;> (try split) <;> omega

/-- a function with a SECOND parameter nobody supplies: `fe(a, z)` over `fa(x)` -/
def fE : Func := ⟨"fe", [("a", "a"), ("z", "z")], ["e"], [], []⟩

/-- a refusal as comparable data: its kind, then the names it mentions -/
def errCode : Err → List String
  | .fuel => ["fuel"]
  | .missing p => ["missing", p]
  | .noFunc _ => ["noFunc"]
  | .unused ps => "unused" :: ps
  | .outputInKwargs => ["outputInKwargs"]
  | .mapspec => ["mapspec"]

/-- a session of requests on `fs`, refused ones included, then `evaluate()` of every returned object in order.  Per request:
    the id of the returned object (`none`: refused), the refusal (`[]`: accepted), and right after it the number of nodes (= the
    counter), of graph nodes, of graph edges, of cache entries and of log entries; at the end the names invoked. -/
def demoR (fs : List Func) (own : Bool) (dag : Bool) (calls : List (Req × List (String × Val))) :
    List (Option Nat × List String × List Nat) × List String :=
  let s0' : LSt := { s0 with own := if own then some [] else none, cfn := fs.map (·.outputs) }
  let obs := fun (r : Option Nat) (e : List String) (s : LSt) =>
    (r, e, [s.nodes.length, (match s.tg with | some g => g.gnodes.length | none => 0),
      (match s.tg with | some g => g.edges.length | none => 0), (entries s).length, s.ev.log.length])
  let step := fun (acc : List (Option Nat × List String × List Nat) × List LArg × LSt) (c : Req × List (String × Val)) =>
    match lrunTopR fs c.2 c.1 acc.2.2 with
    | (s1, .ok a) => (acc.1 ++ [obs (match a with | .ref i => some i | .val _ => none) [] s1], acc.2.1 ++ [a], s1)
    | (s1, .error e) => (acc.1 ++ [obs none (errCode e) s1], acc.2.1, s1)
  let r := calls.foldl step ([], [], if dag then enterDag s0' else s0')
  let s2 := r.2.1.foldl (fun s a => match evaluate a s with | .ok (_, s') => s' | .error _ => s) r.2.2
  (r.1, callNames s2.nodes s2.ev.log)

-- a surplus keyword, inside a block: all five nodes of the request exist afterwards (graph: 5 nodes, 6 edges; block cache: 3 entries),
-- nothing is invoked; the same request without the surplus is then answered from the block's cache (no new node, returned id 4)
example : demoR [fD, fB, fA] false true [(.name "d", [("x", .int 1), ("y", .int 3), ("zz", .int 0)]), (.name "d", [("x", .int 1), ("y", .int 3)])] =
    ([(none, ["unused", "zz"], [5, 5, 6, 3, 0]), (some 4, [], [5, 5, 6, 3, 0])], ["fa", "fb", "fd"]) := by decide
-- (without a value for `y` the key of `d` is `None`: `fa` and `fb` are shared, the picks and `fd` are new)
example : demoR [fD, fB, fA] false true [(.name "d", [("x", .int 1), ("zz", .int 0)]), (.name "d", [("x", .int 1)])] =
    ([(none, ["unused", "zz"], [5, 5, 6, 2, 0]), (some 7, [], [8, 8, 11, 2, 0])], ["fa", "fb", "fd"]) := by decide
-- outside a block, no own cache: the five orphans only advance the counter; the next request gets the ids 5..9
example : demoR [fD, fB, fA] false false [(.name "d", [("x", .int 1), ("zz", .int 0)]), (.name "d", [("x", .int 1)])] =
    ([(none, ["unused", "zz"], [5, 0, 0, 0, 0]), (some 9, [], [10, 0, 0, 0, 0])], ["fa", "fb", "fd"]) := by decide
-- a pipeline with its own cache: the refused request's entries stay, the next request is answered from them
example : demoR [fD, fB, fA] true false [(.name "d", [("x", .int 1), ("y", .int 3), ("zz", .int 0)]), (.name "d", [("x", .int 1), ("y", .int 3)])] =
    ([(none, ["unused", "zz"], [5, 0, 0, 3, 0]), (some 4, [], [5, 0, 0, 3, 0])], ["fa", "fb", "fd"]) := by decide
-- a value missing for the SECOND parameter: the node for the first one (`fa`) exists and is cached, `fe`'s own node does not
example : demoR [fE, fA] false true [(.name "e", [("x", .int 1)]), (.name "a", [("x", .int 1)]), (.name "e", [("x", .int 1), ("z", .int 2)])] =
    ([(none, ["missing", "z"], [1, 1, 0, 1, 0]), (some 0, [], [1, 1, 0, 1, 0]), (some 1, [], [2, 2, 1, 2, 0])], ["fa", "fe"]) := by decide
example : demoR [fE, fA] false false [(.name "e", [("x", .int 1)]), (.name "e", [("x", .int 1), ("z", .int 2)])] =
    ([(none, ["missing", "z"], [1, 0, 0, 0, 0]), (some 2, [], [3, 0, 0, 0, 0])], ["fa", "fe"]) := by decide
-- a value missing for the FIRST parameter, an unknown output, the output among the keywords, an unknown tuple: nothing is left
example : demoR [fE, fA] true true [(.name "e", [("z", .int 2)]), (.name "nope", [("x", .int 1)]), (.name "a", [("x", .int 1), ("a", .int 3)]),
      (.whole ["a", "e"], [("x", .int 1)])] =
    ([(none, ["missing", "x"], [0, 0, 0, 0, 0]), (none, ["noFunc"], [0, 0, 0, 0, 0]), (none, ["outputInKwargs"], [0, 0, 0, 0, 0]),
      (none, ["noFunc"], [0, 0, 0, 0, 0])], []) := by decide
-- a whole-tuple request with a surplus keyword: refused after the tuple's node was created and cached
example : demoR [fD, fB, fA] false true [(.whole ["b", "c"], [("x", .int 1), ("zz", .int 0)]), (.name "c", [("x", .int 1)])] =
    ([(none, ["unused", "zz"], [2, 2, 1, 2, 0]), (some 3, [], [4, 4, 3, 2, 0])], ["fa", "fb"]) := by decide
-- a refused request after an evaluation: the log is the one from before
example : (let s1 := match lrunTopR [fD, fB, fA] [("x", .int 1)] (.name "b") (enterDag s0) with
             | (s1, .ok a) => (match evaluate a s1 with | .ok (_, s2) => s2 | .error _ => s1) | (s1, _) => s1
           let s3 := (lrunTopR [fD, fB, fA] [("x", .int 1), ("zz", .int 0)] (.name "d") s1).1
           (callNames s1.nodes s1.ev.log, callNames s3.nodes s3.ev.log, s1.nodes.length, s3.nodes.length)) =
    (["fa", "fb"], ["fa", "fb"], 4, 7) := by decide

/-- the hypotheses of `C18_refused_invokes_nothing` are satisfiable together with a refusal that leaves nodes behind -/
example : ∃ (fs : List Func) (kw : List (String × Val)) (rank : String → Nat) (s : LSt) (req : Req) (s' : LSt) (e : Err),
    PipeCache.WF fs rank ∧ Sess fs s ∧ lrunTopR fs kw req s = (s', .error e) ∧ s'.nodes.length = s.nodes.length + 5 :=
  ⟨[fD, fB, fA], [("x", .int 1), ("zz", .int 0)], _, _, .name "d",
    (lrunTopR [fD, fB, fA] [("x", .int 1), ("zz", .int 0)] (.name "d")
      { memo := [], used := [], usedNone := false, nodes := [], tg := none, ev := ⟨[], []⟩, own := if false then some [] else none, cfn := [] }).1,
    .unused ["zz"], C18_refused_demo_wf, C18_session_init [fD, fB, fA] false [], by rfl, by decide⟩

end PF.C18
