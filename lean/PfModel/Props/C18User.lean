import PfModel.Lemmas.LazyUser
/-!
C18 at user level — the property text, read off the existing theorems.

(1) `evaluate()` equals the EAGER RUN's result (`PF.Pipe.runTop`, C02's model of `Pipeline.run`) for EVERY accepted request of a session:
    also for requests served from the block cache / the pipeline's own cache, which the call-level theorems of `Props/C18Calls.lean`
    (hypothesis `entries s = []`) do not reach, and also when the session goes on before `evaluate()`.  Chains `C18_eager` (value =
    `compose`), C02's `C02_run_eq_compose` (eager run = `compose`), `compose` deterministic, `C18_evaluate_total`.
(2) when exactly the hypothesis `entries s = []` of `Props/C18Calls.lean` holds (a decidable predicate of the state), that it holds at
    the start of every block of a pipeline whose own cache is empty or absent, and `decide` witnesses of where it fails.
(3) the clauses of the property text in ONE statement for a request that can find nothing in a cache, and for the first request on a
    new pipeline (with / without a cache of its own, inside / outside `construct_dag()`).
-/
namespace PF.C18
open PF PF.Pipe PF.Lazy

/-! ### (1) value = eager run, without the freshness hypothesis -/

/-- the eager run of a named request ends in `finish` of what `run` returned -/
theorem C18_runTop_name_run (fs : List Func) (kw : List (String × Val)) (o : String) (out : Outcome)
    (h : runTop fs kw (.name o) = .ok out) :
    alookup kw o = none ∧ ∃ st, run fs kw (fuelFor fs) o ⟨kw, [], []⟩ = .ok (out.value, st) ∧ out.calls = st.calls := by
  simp only [runTop] at h
  cases hk : alookup kw o with
  | some w => rw [hk] at h; simp at h
  | none =>
    rw [hk] at h
    simp only [Option.isSome_none, Bool.false_eq_true, if_false] at h
    refine ⟨rfl, ?_⟩
    cases hr : run fs kw (fuelFor fs) o ⟨kw, [], []⟩ with
    | error e => rw [hr] at h; cases h
    | ok p =>
      obtain ⟨v, st⟩ := p
      rw [hr] at h
      simp only at h
      split at h
      · cases h; exact ⟨st, rfl, rfl⟩
      · cases h

/-- **`evaluate()` equals the eager result — every request, any time.**  In ANY state of a session (requests before it may have filled
    the block cache or the pipeline's own cache: no freshness hypothesis), if the lazy request `pipeline(o, **kw)` is accepted and the
    eager run of the same request succeeds, then — however the session goes on in between (`sL`: any later state whose node table
    extends the request's) — `evaluate()` of the returned object RETURNS, and returns the eager run's value. -/
theorem C18_value_eq_eager_any (fs : List Func) (kw : List (String × Val)) (rank : String → Nat) (wf : PipeCache.WF fs rank) (s : LSt)
    (hs : Sess fs s) (o : String) (a : LArg) (s' : LSt) (h : lrunTop fs kw (.name o) s = .ok (a, s'))
    (out : Outcome) (hrun : runTop fs kw (.name o) = .ok out)
    (sL : LSt) (more : List Lazy.Node) (hL : Sess fs sL) (hmore : sL.nodes = s'.nodes ++ more) :
    ∃ sL', evaluate a sL = .ok (out.value, sL') := by
  obtain ⟨v, ⟨k, hc⟩, hd, _⟩ := C18_eager fs kw rank wf s hs o a s' h
  obtain ⟨hko, st, hr, _⟩ := C18_runTop_name_run fs kw o out hrun
  obtain ⟨k', hc'⟩ := PF.C02.C02_run_eq_compose fs kw (PipeCache.unique_of_wf fs rank wf) (fuelFor fs) o out.value st hko hr
  have hv : v = out.value := compose_det fs kw hc hc'
  subst hv
  have hd' : den sL.nodes a = some out.value := by rw [hmore]; exact den_ext more hd
  exact evaluate_total hL hd'

/-- the same, evaluated right after the request; and evaluating again changes nothing -/
theorem C18_value_eq_eager_now (fs : List Func) (kw : List (String × Val)) (rank : String → Nat) (wf : PipeCache.WF fs rank) (s : LSt)
    (hs : Sess fs s) (o : String) (a : LArg) (s' : LSt) (h : lrunTop fs kw (.name o) s = .ok (a, s'))
    (out : Outcome) (hrun : runTop fs kw (.name o) = .ok out) :
    s'.ev = s.ev ∧ ∃ s'', evaluate a s' = .ok (out.value, s'') ∧ evaluate a s'' = .ok (out.value, s'') ∧ s''.ev.log.Nodup := by
  obtain ⟨hev, _, hs'⟩ := C18_deferred fs kw rank wf s hs o a s' h
  obtain ⟨s'', he⟩ := C18_value_eq_eager_any fs kw rank wf s hs o a s' h out hrun s' [] hs' (by simp)
  obtain ⟨_, hs'', _⟩ := C18_evaluate fs s' hs' a out.value s'' he
  exact ⟨hev, s'', he, C18_once_again fs s' hs' a out.value s'' he, C18_once fs s'' hs''⟩

/-! ### (2) the freshness hypothesis `entries s = []` -/

/-- **When a request can find nothing in a cache**: exactly when the cache of the active block (if any) and the pipeline's own cache
    (if any) are both empty. -/
theorem C18_fresh_iff (s : LSt) :
    entries s = [] ↔ (∀ g, s.tg = some g → g.cache = []) ∧ (∀ c, s.own = some c → c = []) := by
  cases htg : s.tg <;> cases hown : s.own <;> simp [entries, htg, hown]

/-- a pipeline without a cache of its own, outside `construct_dag()`: every request is fresh, in every state of the session -/
theorem C18_fresh_no_cache (s : LSt) (htg : s.tg = none) (hown : s.own = none) : entries s = [] := by
  simp [entries, htg, hown]

/-- the first request of a block is fresh exactly when the pipeline's own cache is absent or empty -/
theorem C18_fresh_enter_iff (s : LSt) : entries (enterDag s) = [] ↔ (∀ c, s.own = some c → c = []) := by
  cases hown : s.own <;> simp [entries, enterDag, hown]

/-- leaving a block: fresh again exactly when the own cache is absent or empty -/
theorem C18_fresh_exit_iff (s : LSt) : entries (exitDag s) = [] ↔ (∀ c, s.own = some c → c = []) := by
  cases hown : s.own <;> simp [entries, exitDag, hown]

/-- where the hypothesis FAILS (witnesses, `demoEntries` of Lemmas/LazyUser.lean: entries before the request, after it, after leaving the block):
    after a request inside a block; after a request on a pipeline with an own cache whose functions have `cache=True` -/
example : demoEntries false false = some (0, 0, 0) := by decide
example : demoEntries false true = some (0, 2, 0) := by decide
example : demoEntries true false = some (0, 2, 2) := by decide
example : demoEntries true true = some (0, 2, 0) := by decide

/-! ### (3) the property text in one statement -/

/-- **The property, for a request that can find nothing in a cache** (every request outside a block of a pipeline without own cache:
    `C18_fresh_no_cache`; the first request of a block: `C18_fresh_enter_iff`).  The lazy pipeline accepts exactly the requests the
    eager pipeline accepts; an accepted request invokes nothing (`_evaluated`/`_result` slots and the log of invocations are untouched);
    `evaluate()` of the returned object returns the eager run's value and invokes exactly the eager run's functions, each once (the
    invoked names are a permutation of the eager call log); evaluating again returns the same value and changes nothing; the
    session's log of invocations never holds a node twice. -/
theorem C18_user_fresh (fs : List Func) (kw : List (String × Val)) (rank : String → Nat) (wf : PipeCache.WF fs rank) (s : LSt)
    (hs : Sess fs s) (hfresh : entries s = []) (o : String) :
    ((∃ a s', lrunTop fs kw (.name o) s = .ok (a, s')) ↔ (∃ out, runTop fs kw (.name o) = .ok out)) ∧
    ∀ a s', lrunTop fs kw (.name o) s = .ok (a, s') →
      s'.ev = s.ev ∧
      ∃ out s'' new, runTop fs kw (.name o) = .ok out ∧ evaluate a s' = .ok (out.value, s'') ∧
        s''.ev.log = s'.ev.log ++ new ∧ (callNames s''.nodes new).Perm out.calls ∧
        evaluate a s'' = .ok (out.value, s'') ∧ s''.ev.log.Nodup := by
  refine ⟨C18_accepted_iff_eager fs kw rank wf s hs hfresh o, ?_⟩
  intro a s' h
  obtain ⟨hev, _, hs'⟩ := C18_deferred fs kw rank wf s hs o a s' h
  obtain ⟨out, s'', new, hrun, he, hlog, hperm⟩ := C18_calls_eq_eager_total fs kw rank wf s hs hfresh o a s' h
  obtain ⟨_, hs'', _⟩ := C18_evaluate fs s' hs' a out.value s'' he
  exact ⟨hev, out, s'', new, hrun, he, hlog, hperm, C18_once_again fs s' hs' a out.value s'' he, C18_once fs s'' hs''⟩

/-- **The property, for the first request on a new pipeline**, for all well-formed pipelines, keyword arguments and output names, with
    and without an active `construct_dag()`, with and without a cache of its own: accepted iff the eager pipeline accepts; then
    NOTHING has been invoked (the log is empty, no `_evaluated` flag is set); `evaluate()` returns the eager result; the user
    functions invoked so far are the eager run's, each exactly once; a second `evaluate()` returns the same and changes nothing; and
    under `construct_dag()` the recorded graph has an edge exactly for each lazy argument of a recorded node, edges go from older to
    newer nodes, there is no cycle. -/
theorem C18_user_new (fs : List Func) (kw : List (String × Val)) (rank : String → Nat) (wf : PipeCache.WF fs rank)
    (own : Bool) (cfn : List (List String)) (dag : Bool) (o : String) :
    ((∃ a s', lrunTop fs kw (.name o) (newSession own cfn dag) = .ok (a, s')) ↔ (∃ out, runTop fs kw (.name o) = .ok out)) ∧
    ∀ a s', lrunTop fs kw (.name o) (newSession own cfn dag) = .ok (a, s') →
      s'.ev.log = [] ∧ s'.ev.done = [] ∧
      (∃ out s'', runTop fs kw (.name o) = .ok out ∧ evaluate a s' = .ok (out.value, s'') ∧
        (callNames s''.nodes s''.ev.log).Perm out.calls ∧ s''.ev.log.Nodup ∧ evaluate a s'' = .ok (out.value, s'')) ∧
      (∀ g, s'.tg = some g →
        (∀ x n, (x, n) ∈ g.edges ↔ (n ∈ g.gnodes ∧ ∃ nd, s'.nodes[n]? = some nd ∧ x ∈ nd.refs)) ∧
        (∀ x n, (x, n) ∈ g.edges → x < n) ∧ (∀ n, ¬ Path g.edges n n)) ∧
      (s'.tg.isSome = dag) := by
  have hinit := C18_session_init fs own cfn
  have hs : Sess fs (newSession own cfn dag) := by
    cases dag
    · exact hinit
    · exact (C18_session_dag fs _ hinit).1
  have hfresh : entries (newSession own cfn dag) = [] := by
    cases dag <;> cases own <;> rfl
  have hev0 : (newSession own cfn dag).ev = ⟨[], []⟩ := by cases dag <;> rfl
  have htg0 : (newSession own cfn dag).tg.isSome = dag := by cases dag <;> rfl
  obtain ⟨hiff, hall⟩ := C18_user_fresh fs kw rank wf _ hs hfresh o
  refine ⟨hiff, ?_⟩
  intro a s' h
  obtain ⟨hev, out, s'', new, hrun, he, hlog, hperm, hagain, hnd⟩ := hall a s' h
  rw [hev0] at hev
  have hl : s'.ev.log = [] := by rw [hev]
  have hd : s'.ev.done = [] := by rw [hev]
  obtain ⟨hst, _, _⟩ := lrunTop_name wf hs h
  refine ⟨hl, hd, ⟨out, s'', hrun, he, ?_, hnd, hagain⟩, fun g hg => C18_dag fs kw rank wf _ hs o a s' h g hg, ?_⟩
  · rw [hlog, hl, List.nil_append]; exact hperm
  · rw [hst.2.2, htg0]

/-! ### non-vacuity (the diamond through a tuple-output node of `Props/C18.lean`; its `WF` is proved there) -/

example : demoServed = some (true, 2, true) := by decide

example : demoUser false false = some ([], ["fa", "fb", "fd"], ["fa", "fb", "fd"], ["fa", "fb", "fd"]) := by decide
example : demoUser true true = some ([], ["fa", "fb", "fd"], ["fa", "fb", "fd"], ["fa", "fb", "fd"]) := by decide
example : entries (newSession true [["d"]] true) = [] ∧ entries (newSession false [] false) = [] := ⟨rfl, rfl⟩
/-- `C18_runTop_name_run`: the eager run of the demo request succeeds -/
example : ∃ out, runTop [fD, fB, fA] [("x", .int 1)] (.name "d") = .ok out := ⟨_, rfl⟩
/-- `C18_fresh_no_cache` in a state that is not the initial one: after a request outside a block, no own cache -/
example : (match lrunTop [fD, fB, fA] [("x", .int 1)] (.name "d") s0 with
           | .ok (_, s1) => s1.nodes.length == 5 && s1.tg.isNone && s1.own.isNone
           | .error _ => false) = true := by decide

end PF.C18
