import PfModel.DriverVal
import PfModel.Model.Validate
import PfModel.Model.ValidateEdit
import PfModel.Model.ValidateNarrow
import PfModel.Model.ValidateCall
import PfModel.Generated.C12Facts
import PfModel.DriverC12Ctor
/-! Driver for C12 (`validate`): construction and the start of `map` on a possibly ill-formed request.
    Run: `lake env lean --run Driver/C12.lean < requests.jsonl`. -/
open Lean PF PF.Drv PF.Map PF.Validate

def getASpec (j : Json) : R ASpec := do
  let (n, ax) ← asPair asStr (asList (asOpt asStr)) j
  return { name := n, axes := ax }

def getMSpec (j : Json) : R MSpec := do
  return { inputs := ← listF getASpec j "inputs", outputs := ← listF getASpec j "outputs" }

def getMFunc (j : Json) : R MFunc := do
  return { name := ← strF j "name", params := ← listF (asPair asStr asStr) j "params", outputs := ← listF asStr j "outputs",
           mapspec := ← optF getMSpec j "mapspec", ret := ← optF (asList asNat) j "ret", internal := ← optF (asList asNat) j "internal",
           defaults := (← optF getKw j "defaults").getD [], bound := (← optF getKw j "bound").getD [] }

def getInternal (j : Json) (k : String) : R (List (String × List Nat)) := do
  return (← optF (asList (asPair asStr (asList asNat))) j k).getD []

/-- `"dict"`, or `{"d": [[key, name], …]}` for the dictionary form (tuple keys joined with `,`) -/
def getStorage (j : Json) : R StorageArg :=
  match j with
  | .str s => return .name s
  | _ => do return .perOutput (← listF (asPair asStr asStr) j "d")

/-- an `int`, or `{"sl": [start, stop, step]}` with `null` for an omitted bound (as in Driver/C06) -/
def getSel (j : Json) : R PF.Pieces.Sel :=
  match j with
  | .num _ => do return .idx (← asInt j)
  | _ => do
    match ← asList (asOpt asInt) (← fld j "sl") with
    | [a, b, c] => return .slice a b c
    | _ => .error "slice needs three entries"

def defaultOrder (fs : List MFunc) : List String := (generations fs).flatten.map (·.name)

def getPrev (j : Json) : R Prev := do
  let fs ← listF getMFunc j "funcs"
  return { funcs := fs, order := (← optF (asList asStr) j "order").getD (defaultOrder fs),
           inputs := ← getKw (← fld j "inputs"), internal := ← getInternal j "internal" }

def putExc : Exc → Json
  | .value => jStr "ValueError"
  | .type => jStr "TypeError"
  | .key => jStr "KeyError"
  | .index => jStr "IndexError"
  | .unfeasible => jStr "Other:NetworkXUnfeasible"
  | .other => jStr "Other"

def putRes : V Unit → Json
  | .ok _ => jObj [("ok", jBool true)]
  | .error e => jObj [("err", putExc e.exc), ("check", jStr e.check)]

def putEffect : Effect → Json
  | .cleanup => jStr "cleanup"
  | .writeRunInfo => jStr "write:run_info"
  | .writeInputs => jStr "write:inputs"
  | .writeDefaults => jStr "write:defaults"
  | .mkdirStore o => jStr s!"store:{o}"
  | .call f => jStr s!"call:{f}"

def putKind : CallKind → Json
  | .validation => jStr "validation"
  | .effect => jStr "effect"
  | .cleanup => jStr "cleanup"
  | .neutral => jStr "neutral"
  | .unknown => jStr "unknown"

/-- `{"k": "member-defaults" | "member-bound" | "member-rename" | "pipe-defaults" | "pipe-rename", …}` -/
def getEdit (j : Json) : R Edit := do
  match ← strF j "k" with
  | "member-defaults" => return .memberDefaults (← strF j "fn") (← strF j "p") (← getVal (← fld j "v"))
  | "member-bound" => return .memberBound (← strF j "fn") (← strF j "p") (← getVal (← fld j "v"))
  | "member-rename" => return .memberRename (← strF j "fn") (← strF j "old") (← strF j "new")
  | "pipe-defaults" => return .pipeDefaults (← strF j "p") (← getVal (← fld j "v"))
  | "pipe-rename" => return .pipeRename (← strF j "old") (← strF j "new")
  | k => .error s!"unknown edit {k}"

/-- `null` (no executor), `"bare"`, or `{"keys": […]}` -/
def getExec (j : Option Json) : R ExecArg :=
  match j with
  | none => return .absent
  | some (.str "bare") => return .bare
  | some (.str s) => .error s!"unknown executor form {s}"
  | some j => do return .dict (← listF asStr j "keys")

def getReq (a : Json) (fs : List MFunc) : R Req := do
  let order := (← optF (asList asStr) a "order").getD (defaultOrder fs)
  let prev ← optF getPrev a "prev"
  return { inputs := ← getKw (← fld a "inputs"), internal := ← getInternal a "internal", storage := ← getStorage (← fld a "storage"),
           outputNames := ← optF (asList asStr) a "output_names",
           fixed := ← optF (asList (asPair asStr getSel)) a "fixed",
           folder := ← boolF a "folder", cleanup := ← boolF a "cleanup", executor := ← boolF a "executor",
           parallel := ← boolF a "parallel", order := order, prev := prev }

/-- index of the first refused edit (the session functions themselves stop there) -/
def firstRefused (es : List EFunc) (edits : List Edit) (k : Nat := 0) : Option Nat :=
  match edits with
  | [] => none
  | ed :: rest => match applyEdit es ed with
    | .error _ => some k
    | .ok es' => firstRefused es' rest (k + 1)

def putMFuncBrief (f : MFunc) : Json :=
  jObj [("name", jStr f.name), ("params", jList (fun p => jStr p.1) f.params), ("outputs", jList jStr f.outputs),
        ("defaults", jList jStr (akeys f.defaults)), ("bound", jList jStr (akeys f.bound))]

/-- the call path has one more class: `RuntimeError` is `Exc.other` in `callChecks` -/
def putCallRes : V Unit → Json
  | .ok _ => jObj [("ok", jBool true)]
  | .error e => jObj [("err", if e.check == "mapspec-in-dependencies" then jStr "RuntimeError" else putExc e.exc), ("check", jStr e.check)]

def handle (m : String) (a : Json) : R Json := do
  match m with
  | "callpath" =>
    -- round 9: build, (optionally) edit in place, then `run` / `__call__` / `func(out)(**kw)` for one output and keyword set
    let base ← listF getMFunc a "funcs"
    let edits := (← optF (asList getEdit) a "edits").getD []
    let q : CallReq := { output := ← strF a "output", kwargs := ← listF asStr a "kwargs" }
    let viaFunc := (← strF a "via") == "func"
    let c := construct base
    match c with
    | .error _ => return jObj [("construct", putRes c), ("edit", Json.null), ("start", Json.null), ("effects", jArr [])]
    | .ok _ =>
      let edited := applyEdits (base.map EFunc.ofMFunc) edits
      let editRes : Json := match edited with
        | .ok _ => jObj [("ok", jBool true)]
        | .error e => jObj [("err", putExc e.exc), ("check", jStr e.check),
                            ("index", match firstRefused (base.map EFunc.ofMFunc) edits with | some k => jNat k | none => Json.null)]
      let fsAfter := match edited with | .ok es => funcsOf es | .error _ => []
      -- the calls of the evaluation when exactly root arguments are passed: the producer and everything upstream of it
      let needed := match producer fsAfter q.output with
        | some f => f.name :: (funcDeps fsAfter q.output).filter (· != f.name)
        | none => []
      let (effs, res) := sessionCall base edits q needed viaFunc
      return jObj [("construct", putRes c), ("edit", editRes), ("start", match edited with | .ok _ => putCallRes res | .error _ => Json.null),
                   ("effects", jList putEffect effs), ("needed", jList jStr needed),
                   ("mapped_needed", jBool (fsAfter.any fun f => needed.contains f.name && f.mapspec.isSome)),
                   ("kwargs_are_roots", jBool (q.kwargs.all (rootArgs fsAfter).contains)),
                   ("funcs_after", jList putMFuncBrief fsAfter)]
  | "session" =>
    -- build (must be valid), edit in place, then start `map` (with the executor form) or `run`
    let base ← listF getMFunc a "funcs"
    let edits ← listF getEdit a "edits"
    let c := construct base
    match c with
    | .error _ => return jObj [("construct", putRes c)]
    | .ok _ =>
      let edited := applyEdits (base.map EFunc.ofMFunc) edits
      let editRes : Json := match edited with
        | .ok _ => jObj [("ok", jBool true)]
        | .error e => jObj [("err", putExc e.exc), ("check", jStr e.check),
                            ("index", match firstRefused (base.map EFunc.ofMFunc) edits with | some k => jNat k | none => Json.null)]
      let fsAfter := match edited with | .ok es => funcsOf es | .error _ => []
      match ← strF a "action" with
      | "map" =>
        let r ← getReq a fsAfter
        let ex ← getExec (fld? a "exec")
        let (effs, res) := sessionMap base edits r ex
        let orderOk := match edited with
          | .ok _ => (orderValid fsAfter r.order || (startMap2 fsAfter r ex).2 != .ok ()) &&
                     (match r.prev with | some p => orderValid p.funcs p.order | none => true)
          | .error _ => true
        return jObj [("construct", putRes c), ("edit", editRes), ("start", putRes res), ("effects", jList putEffect effs),
                     ("order_ok", jBool orderOk), ("funcs_after", jList putMFuncBrief fsAfter)]
      | "run" =>
        let calls ← listF asStr a "calls"
        let (effs, res) := sessionRun base edits calls
        return jObj [("construct", putRes c), ("edit", editRes), ("start", putRes res), ("effects", jList putEffect effs),
                     ("funcs_after", jList putMFuncBrief fsAfter)]
      | x => .error s!"unknown action {x}"
  | "validate" =>
    let fs ← listF getMFunc a "funcs"
    let c := construct fs
    match c with
    | .error _ => return jObj [("construct", putRes c), ("map", Json.null), ("effects", jArr [])]
    | .ok _ =>
      let order := (← optF (asList asStr) a "order").getD (defaultOrder fs)
      let prev ← optF getPrev a "prev"
      let r : Req := { inputs := ← getKw (← fld a "inputs"), internal := ← getInternal a "internal", storage := ← getStorage (← fld a "storage"),
                       outputNames := ← optF (asList asStr) a "output_names",
                       fixed := ← optF (asList (asPair asStr getSel)) a "fixed",
                       folder := ← boolF a "folder", cleanup := ← boolF a "cleanup", executor := ← boolF a "executor",
                       parallel := ← boolF a "parallel", order := order, prev := prev }
      -- round 4: `auto_subpipeline=True` / a proper `output_names` selection narrow the pipeline first (`startMapN`; without
      -- either it IS `startMap`, `C12_narrow_plain`); `order` is then `sorted_functions` of the narrowed pipeline
      let auto := (← optF asBool a "auto").getD false
      let nar := narrow fs r auto
      let sub := match nar with | .ok s => s | .error _ => fs
      let orderGiven := (← optF (asList asStr) a "order").isSome
      let orderOk := (if auto || r.outputNames.isSome then
                        (match nar with | .ok s => orderValid s order || !orderGiven | .error _ => true)
                      else orderValid fs order) &&
                     (match prev with | some p => orderValid p.funcs p.order | none => true)
      let (effs, res) := startMapN fs r auto
      return jObj [("construct", putRes c), ("map", putRes res), ("effects", jList putEffect effs), ("order_ok", jBool orderOk),
                   ("narrow", match nar with | .ok s => jList (fun f => jStr f.name) s | .error e => jStr e.check),
                   ("roots", jList jStr (rootArgs sub)),
                   ("steps", jList jStr ((startSteps sub r.narrowed).map fun s => match s with | .check n _ => n | .eff _ => "effect"))]
  | "order" =>
    -- the extracted call order of `prepare_run` / `RunInfo.create` and the verdict of the order predicate
    return jObj [("calls", jList (fun c => jArr [jStr c, putKind (classify c)]) Generated.prepareRunCalls),
                 ("ok", jBool (validationsPrecedeEffects Generated.prepareRunCalls)),
                 ("model_order_ok", jBool (isSubseq modelSourceOrder Generated.prepareRunCalls)),
                 ("round2", jObj [
                   ("run_map", jBool (prepareGuardsRun Generated.runMapCalls)),
                   ("run_map_async", jBool (prepareGuardsRun Generated.runMapAsyncCalls)),
                   ("Pipeline.__init__", jBool (ctorValidates pipelineInitRequired Generated.pipelineInitCalls)),
                   ("Pipeline.add", jBool (ctorValidates pipelineAddRequired Generated.pipelineAddCalls && isSubseq pipelineAddRequired Generated.pipelineAddCalls)),
                   ("Pipeline._validate", jBool (ctorValidates pipelineValidateRequired Generated.pipelineValidateCalls &&
                      isSubseq ["validate_consistent_defaults", "self._validate_mapspec"] Generated.pipelineValidateCalls)),
                   ("Pipeline._validate_mapspec", jBool (ctorValidates pipelineValidateMapspecRequired Generated.pipelineValidateMapspecCalls &&
                      isSubseq pipelineValidateMapspecRequired Generated.pipelineValidateMapspecCalls)),
                   ("PipeFunc.__init__", jBool (ctorValidates pipeFuncInitRequired Generated.pipeFuncInitCalls)),
                   ("PipeFunc._validate", jBool (ctorValidates pipeFuncValidateRequired Generated.pipeFuncValidateCalls &&
                      isSubseq pipeFuncValidateRequired Generated.pipeFuncValidateCalls))]),
                 ("round3", jObj [
                   ("Pipeline.graph", jBool (requiredBefore ["validate_unique_output_names_of", "validate_consistent_defaults"] "nx.DiGraph"
                      Generated.pipelineGraphCalls && Generated.pipelineGraphCalls.contains "nx.DiGraph")),
                   ("Pipeline.topological_generations", jBool (Generated.pipelineTopoCalls.contains "nx.topological_generations")),
                   ("_validate_complete_inputs", jBool (requiredBefore ["pipeline.topological_generations"] "raise" Generated.validateCompleteInputsCalls)),
                   ("Pipeline.run", jBool (requiredBefore ["self.func_dependencies"] "self._run" Generated.pipelineRunCalls)),
                   ("PipeFunc.update_*", jBool (
                      isSubseq ["self._validate_update", "self._clear_internal_cache", "self._validate"] Generated.pipeFuncUpdateDefaultsCalls &&
                      isSubseq ["self._validate_update", "self._clear_internal_cache", "self._validate"] Generated.pipeFuncUpdateBoundCalls &&
                      isSubseq ["self._validate_update", "self._clear_internal_cache", "self._validate"] Generated.pipeFuncUpdateRenamesCalls &&
                      Generated.pipeFuncClearCacheCalls.contains "pipeline._clear_internal_cache")),
                   ("Pipeline.update_*", jBool (
                      isSubseq ["f.update_defaults", "self._clear_internal_cache", "raise", "self._validate"] Generated.pipelineUpdateDefaultsCalls &&
                      isSubseq ["f.update_renames", "self._clear_internal_cache", "raise", "self._validate"] Generated.pipelineUpdateRenamesCalls)),
                   ("prepare_run:_validate_executor_names", jBool ((beforeFirstEffect Generated.prepareRunCalls).contains "_validate_executor_names"))]),
                 ("round4", jObj [
                   ("prepare_run:unconditional-validations", jBool (alwaysValidated Generated.prepareRunUnconditional &&
                      isSubseq Generated.prepareRunUnconditional Generated.prepareRunCalls))]),
                 ("round9", jObj [
                   ("Pipeline.run:gate", jBool (runGateOK Generated.callRunCalls Generated.callRunUncond)),
                   ("run->mapspec_names->mapspecs()->sorted_functions->topological_generations->graph", jBool (
                      cycleChainOK Generated.callMapspecNamesCalls Generated.callMapspecsOrderedDefault Generated.callMapspecsCalls
                        Generated.callSortedFunctionsUncond Generated.callTopoUncond Generated.pipelineTopoCalls Generated.callGraphUncond)),
                   ("__call__/func/_PipelineAsFunc", jBool (
                      callEntriesOK Generated.callDunderCalls Generated.callAsFuncCalls Generated.callFuncCalls Generated.callRootArgsCalls
                        Generated.callArgCombinationsCalls Generated.callNodeMappingCalls Generated.callFuncDependenciesCalls)),
                   ("Pipeline._run", jBool (innerRunOK Generated.callInnerRunCalls)),
                   ("add->_validate->_validate_mapspec->_autogen_mapspec_axes->topological_generations (every path)", jBool (
                      ctorCycleUncondOK Generated.ctorAddUncond Generated.ctorValidateUncond Generated.ctorValidateMapspecUncond
                        Generated.ctorAutogenUncond))]),
                 ("unknown_calls", jList jStr
                   ((Generated.runMapCalls ++ Generated.runMapAsyncCalls).filter (fun c => classifyRun c == .unknown) ++
                    (Generated.pipelineInitCalls ++ Generated.pipelineAddCalls ++ Generated.pipelineValidateCalls ++
                     Generated.pipelineValidateMapspecCalls ++ Generated.pipeFuncInitCalls ++ Generated.pipeFuncValidateCalls).filter
                      (fun c => classifyCtor c == .unknown)))]
  | "ctor" => handleCtor a
  | "scopes" => handleScopes a
  | _ => .error s!"unknown entry {m}"

def main : IO Unit := loop handle
