/-
Lemmas for C19Sel: a slice taken with a key, element by element; the key `[:, …, p, …, :]`; `ds[o]` and `sel` on a dataset.
-/
import PfModel.Lemmas.XLabelSet
import PfModel.Model.XLabelSel
namespace PF.XLabel
open PF PF.Map

/-! ### slices element by element -/

theorem fillKey_subOf : ∀ (key : List (Option Nat)) (F : List Nat), Agree key F → fillKey key (subOf key F) = F
  | [], [], _ => rfl
  | [], _ :: _, h => by simp [Agree] at h
  | some k :: ks, [], h => by simp [Agree] at h
  | none :: ks, [], h => by simp [Agree] at h
  | some k :: ks, f :: fs, h => by
      have h' : k = f ∧ Agree ks fs := h
      simp [fillKey, subOf, h'.1, fillKey_subOf ks fs h'.2]
  | none :: ks, f :: fs, h => by
      have h' : Agree ks fs := h
      simp [fillKey, subOf, fillKey_subOf ks fs h']

theorem inRange_subOf : ∀ (key : List (Option Nat)) (sh F : List Nat), Agree key F → InRange sh F →
    InRange (slicedShape key sh) (subOf key F)
  | [], [], [], _, _ => by simp [slicedShape, subOf, InRange]
  | [], _ :: _, [], _, hr => by simp [InRange] at hr
  | [], _, _ :: _, h, _ => by simp [Agree] at h
  | some k :: ks, _, [], h, _ => by simp [Agree] at h
  | none :: ks, _, [], h, _ => by simp [Agree] at h
  | _ :: ks, [], f :: fs, _, hr => by simp [InRange] at hr
  | some k :: ks, d :: sh, f :: fs, h, hr => by
      have h' : k = f ∧ Agree ks fs := h
      have hr' : f < d ∧ InRange sh fs := hr
      simpa [slicedShape, subOf] using inRange_subOf ks sh fs h'.2 hr'.2
  | none :: ks, d :: sh, f :: fs, h, hr => by
      have h' : Agree ks fs := h
      have hr' : f < d ∧ InRange sh fs := hr
      simp only [slicedShape, subOf]
      exact ⟨hr'.1, inRange_subOf ks sh fs h' hr'.2⟩

/-- **An element of a slice is the element of the array at the full index.** `v[key]` with at least one `:` exists, and its
    element at the sliced part of a full index `F` that agrees with the key is the element of `v` at `F`. -/
theorem indexVal_slice_elem (sh : List Nat) (elems : List Val) (key : List (Option Nat)) (F : List Nat)
    (hlen : key.length = sh.length) (hns : key.all Option.isSome = false) (hr : InRange sh F) (hag : Agree key F) :
    ∃ s, indexVal (.arr sh elems) key = some s ∧
      indexVal s ((subOf key F).map some) = some (elems.getD (ravel sh F) .none) := by
  have hin := inRange_subOf key sh F hag hr
  refine ⟨.arr (slicedShape key sh) ((allIdx (slicedShape key sh)).map fun s => elems.getD (ravel sh (fillKey key s)) .none), ?_, ?_⟩
  · simp [indexVal, hlen, hns]
  · rw [indexVal_full _ _ _ hin, List.getElem?_map, allIdx_get _ _ hin]
    simp [fillKey_subOf key F hag]

/-! ### the key `[:, …, p, …, :]` -/

theorem keyAt_zero (n p : Nat) : keyAt (n + 1) 0 p = some p :: List.replicate n none := by
  simp only [keyAt, List.range_succ_eq_map, List.map_cons, List.map_map, if_true]
  congr 1
  apply List.ext_getElem <;> simp

theorem keyAt_succ (n q p : Nat) : keyAt (n + 1) (q + 1) p = none :: keyAt n q p := by
  simp only [keyAt, List.range_succ_eq_map, List.map_cons, List.map_map]
  simp [Function.comp_def]

theorem keyAt_length (rank q p : Nat) : (keyAt rank q p).length = rank := by simp [keyAt]

theorem agree_replicate_none : ∀ (F : List Nat), Agree (List.replicate F.length none) F
  | [] => by simp [Agree]
  | f :: fs => by simpa [List.replicate_succ, Agree] using agree_replicate_none fs

theorem subOf_replicate_none : ∀ (F : List Nat), subOf (List.replicate F.length none) F = F
  | [] => by simp [subOf]
  | f :: fs => by simp [List.replicate_succ, subOf, subOf_replicate_none fs]

/-- a full index whose entry at `q` is `p` agrees with the key `[:, …, p, …, :]` -/
theorem keyAt_agree : ∀ (q : Nat) (F : List Nat) (p : Nat), F[q]? = some p → Agree (keyAt F.length q p) F
  | _, [], _, h => by simp at h
  | 0, f :: fs, p, h => by
      have : f = p := by simpa using h
      rw [List.length_cons, keyAt_zero]
      exact ⟨this.symm, agree_replicate_none fs⟩
  | q + 1, f :: fs, p, h => by
      rw [List.length_cons, keyAt_succ]
      exact keyAt_agree q fs p (by simpa using h)

/-- the index into the slice `v[:, …, p, …, :]` is the full index without its entry at `q` -/
theorem subOf_keyAt : ∀ (q : Nat) (F : List Nat) (p : Nat), q < F.length → subOf (keyAt F.length q p) F = F.eraseIdx q
  | _, [], _, h => by simp at h
  | 0, f :: fs, p, _ => by
      rw [List.length_cons, keyAt_zero]
      simp [subOf, subOf_replicate_none]
  | q + 1, f :: fs, p, h => by
      rw [List.length_cons, keyAt_succ]
      simp [subOf, subOf_keyAt q fs p (by simpa using h)]

/-- with two or more dimensions the key `[:, …, p, …, :]` has a `:` -/
theorem keyAt_not_all (rank q p : Nat) (h : 2 ≤ rank) : (keyAt rank q p).all Option.isSome = false := by
  rw [List.all_eq_false]
  by_cases hq : q = 0
  · refine ⟨none, ?_, by simp⟩
    simp only [keyAt, List.mem_map, List.mem_range]
    exact ⟨1, by omega, by simp [hq]⟩
  · refine ⟨none, ?_, by simp⟩
    simp only [keyAt, List.mem_map, List.mem_range]
    exact ⟨0, by omega, by simp [Ne.symm hq]⟩

/-! ### `ds[o]` and `sel` on the dataset -/

/-- in a list with pairwise different names, `find?` by name finds the member of that name -/
theorem find_of_nodup : ∀ (l : List Coord) (c : Coord), (l.map (·.name)).Nodup → c ∈ l →
    l.find? (fun k => k.name = c.name) = some c
  | [], _, _, h => by simp at h
  | d :: r, c, hn, h => by
      rw [List.map_cons, List.nodup_cons] at hn
      rcases List.mem_cons.mp h with rfl | hm
      · simp
      · have hne : d.name ≠ c.name := fun e => hn.1 (e ▸ List.mem_map.mpr ⟨c, hm, rfl⟩)
        simp [List.find?_cons, hne, find_of_nodup r c hn.2 hm]

theorem nodup_filter_names (l : List Coord) (P : Coord → Bool) (h : (l.map (·.name)).Nodup) :
    ((l.filter P).map (·.name)).Nodup :=
  (List.filter_sublist.map _).nodup h

end PF.XLabel
