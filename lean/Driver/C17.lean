import PfModel.DriverLib
import PfModel.Model.Sweep
import PfModel.Lemmas.SweepProductEnum
import PfModel.Model.SweepCount
import PfModel.Lemmas.SweepFilteredPlain3
import PfModel.Model.SweepCountExt
/-! Driver for C17 (`sweep.ops`). Run: `lake env lean --run Driver/C17.lean < requests.jsonl`.

Values are small integers, strings, `None` and tagged pairs (the results of the menu derivers); derivers and exclude
predicates come from a fixed menu that exists under the same names in `harness/props/c17.py`. -/
open Lean PF.Drv PF.Sweep

inductive Val
  | int (n : Int)
  | str (s : String)
  | none
  | node (tag : String) (a b : Val)
  deriving DecidableEq, Repr

partial def getVal (j : Json) : R Val :=
  match j with
  | .null => .ok .none
  | .str s => .ok (.str s)
  | .num _ => do return .int (← asInt j)
  | .obj _ => do return .node (← strF j "t") (← getVal (← fld j "a")) (← getVal (← fld j "b"))
  | _ => .error "value expected"

def putVal : Val → Json
  | .int n => jInt n
  | .str s => jStr s
  | .none => Json.null
  | .node t a b => jObj [("t", jStr t), ("a", putVal a), ("b", putVal b)]

/-- Python's `hash(v)` does not raise: the tag `list` stands for a Python `list` (`[a, b]`), every other tag for a tuple -/
def hashable : Val → Bool
  | .node t a b => t != "list" && hashable a && hashable b
  | _ => true

def isNoneVal : Val → Bool
  | .none => true
  | _ => false

/-- `d.get(k)` -/
def get (c : Dict Val) (k : Key) : Val := (lookup c k).getD .none

/-- the deriver menu: `{"f": name, "a": [args]}` -/
def getDeriver (j : Json) : R (Dict Val → Val) := do
  let f ← strF j "f"
  let a ← listF pure j "a"
  match f, a with
  | "add", [k1, k2] =>
    let k1 ← asStr k1; let k2 ← asStr k2
    return fun c => match get c k1, get c k2 with
      | .int x, .int y => .int (x + y)
      | x, y => .node "add" x y
  | "mul10", [k] =>
    let k ← asStr k
    return fun c => match get c k with
      | .int x => .int (10 * x)
      | x => .node "mul10" x .none
  | "pair", [k1, k2] =>
    let k1 ← asStr k1; let k2 ← asStr k2
    return fun c => .node "pair" (get c k1) (get c k2)
  | "const", [v] =>
    let v ← getVal v
    return fun _ => v
  | "size", [] => return fun c => .int c.length
  | _, _ => .error s!"unknown deriver {f}"

/-- the exclude menu -/
def getExclude (j : Json) : R (Dict Val → Bool) := do
  let f ← strF j "f"
  let a ← listF pure j "a"
  match f, a with
  | "eq", [k1, k2] =>
    let k1 ← asStr k1; let k2 ← asStr k2
    return fun c => get c k1 == get c k2
  | "gt", [k, n] =>
    let k ← asStr k; let n ← asInt n
    return fun c => match get c k with | .int x => decide (x > n) | _ => false
  | "is", [k, v] =>
    let k ← asStr k; let v ← getVal v
    return fun c => get c k == v
  | "has", [k] =>
    let k ← asStr k
    return fun c => (lookup c k).isSome
  | "sizege", [n] =>
    let n ← asNat n
    return fun c => decide (c.length ≥ n)
  | "never", [] => return fun _ => false
  | "always", [] => return fun _ => true
  | _, _ => .error s!"unknown exclude {f}"

def getGroup (j : Json) : R Group :=
  match j with
  | .str k => .ok (.str k)
  | _ => do return .tup (← asList asStr j)

def nodupKeys {α} (what : String) (l : List (String × α)) : R Unit :=
  if (l.map Prod.fst).Nodup then .ok () else .error s!"{what}: repeated key (not a dict)"

def getSweep (j : Json) : R (Sweep Val) := do
  let items ← listF (asPair asStr (asList getVal)) j "items"
  nodupKeys "items" items
  let dims ← optF (asList getGroup) j "dims"
  let exclude ← optF getExclude j "exclude"
  let constants ← optF (asList (asPair asStr getVal)) j "constants"
  let derivers ← optF (asList (asPair asStr getDeriver)) j "derivers"
  match constants with | some c => nodupKeys "constants" c | none => pure ()
  match derivers with | some c => nodupKeys "derivers" c | none => pure ()
  return { items, dims, exclude, constants, derivers }

partial def getSW (j : Json) : R (SW Val) :=
  match fld? j "m" with
  | some m => do return .multi (← asList getSW m)
  | none => do return .single (← getSweep (← fld j "s"))

def errName : Err → String
  | .key => "KeyError" | .value => "ValueError" | .index => "IndexError" | .assertion => "AssertionError"

def putCombo (c : Dict Val) : Json := jList (jPair jStr putVal) c

def putExc {α} (f : α → Json) : Except Err α → Json
  | .ok v => jObj [("ok", f v)]
  | .error e => jObj [("err", jStr (errName e))]

def putGroup : Group → Json
  | .str k => jStr k
  | .tup ks => jList jStr ks

/-- list, len and the shape of a sweep -/
def observe (s : Sweep Val) : Json :=
  jObj [("list", putExc (jList putCombo) (generate s)), ("len", putExc jNat (len s)),
        ("dims", jOpt (jList putGroup) s.dims), ("items", jList (jPair jStr (jList putVal)) s.items),
        ("branch", jStr (if s.items.isEmpty then "empty" else if fullBranch s then "full" else "dims")),
        ("wf", jBool (wf s)), ("spec", jList putCombo (specList s))]

def observeSW (x : SW Val) : Json :=
  jObj [("list", putExc (jList putCombo) x.generate), ("len", putExc jNat x.len)]

def putCounts (r : List (String × List (List Val × Nat))) : Json :=
  jList (jPair jStr (jList (jPair (jList putVal) jNat))) r

def handle (m : String) (a : Json) : R Json := do
  match m with
  | "list" => return observe (← getSweep a)
  | "multi" => return observeSW (← getSW a)
  | "add" =>
    let x ← getSW (← fld a "x")
    let y ← getSW (← fld a "y")
    return observeSW (x.add y)
  | "product" =>
    let s ← getSweep (← fld a "s")
    let others ← listF getSweep a "others"
    -- the decidable hypotheses of `C17_product` (`ProductHyps` without the semantic `LocalFns`, which the harness decides
    -- from the menu, and without the disjointness of constant / deriver names, which the harness decides from the case)
    let ops := s :: others
    let hyps := ops.all (fun o => wf o && !o.items.isEmpty && decide (effGroups o = gl o)) &&
      (s.dims.isSome || others.all (fun o => o.dims.isNone))
    let extra := [("hyps", jBool hyps), ("nominal", jBool (ops.all (fun o => decide (effGroups o = gl o)))),
                  ("prodspec", if hyps then jList putCombo (prodAll (ops.map specList)) else Json.null),
                  ("prodraw", if hyps then jList putCombo (prodAll (ops.map rawList)) else Json.null)]
    match product s others with
    | .error e => return jObj ([("err", jStr (errName e))] ++ extra)
    | .ok p => return jObj ([("ok", observe p), ("raw", jList putCombo (rawList p))] ++ extra)
  | "filtered" =>
    let s ← getSweep (← fld a "s")
    let ks ← listF asStr a "keys"
    -- the right-hand side of `C17_filtered_derivers` / `C17_filtered_plain`: the distinct projections, first occurrence first
    let proj : Json :=
      if ks.isEmpty || !decide ks.Nodup then Json.null
      else match generate s with
        | .error _ => Json.null
        | .ok combos => match projectAll ks combos with
          | .error _ => Json.null
          | .ok ps => jList putCombo (distinctFold ps)
    -- the right-hand side of `C17_filtered_plain` under its (decidable) hypotheses
    let plain : Json :=
      if s.derivers.isNone && s.constants.isNone && s.exclude.isNone && wf s && ks.any (fun k => (keys s.items).contains k) then
        match filtered s ks with
        | .ok f =>
          if s.dims.isNone || decide (effGroups f = (f.dims.getD []).map Group.keys) then
            jList putCombo (distinctFold ((rawList s).map (restrict ks)))
          else Json.null
        | .error _ => Json.null
      else Json.null
    -- `filteredH` = `filtered` plus the `TypeError` of the derivers branch for unhashable values (`C17_filtered_hashable`)
    match filteredH hashable s ks with
    | .error .type => return jObj [("err", jStr "TypeError"), ("proj", proj), ("plain", plain)]
    | .error (.base e) => return jObj [("err", jStr (errName e)), ("proj", proj), ("plain", plain)]
    | .ok p => return jObj [("ok", observe p), ("proj", proj), ("plain", plain)]
  | "count" =>
    let s ← getSweep (← fld a "s")
    let deps ← listF (asPair asStr (asList asStr)) a "deps"
    match generate s with
    | .error e => return jObj [("err", jStr (errName e))]
    | .ok combos => return putExc putCounts (countSweep deps combos)
  | "count_pipe" =>
    -- `count_sweep` with `func_dependencies` / `root_args` taken from the pipeline model (`PF.Pipe`), not from the request
    let s ← getSweep (← fld a "s")
    let funcs ← listF (asPair asStr (asList asStr)) a "funcs"
    let o ← strF a "output"
    let fs : List PF.Pipe.Func := funcs.map fun (out, ps) =>
      { name := out, params := ps.map (fun p => (p, p)), outputs := [out], defaults := [], bound := [] }
    let deps := jOpt (jList (jPair jStr (jList jStr))) (countDeps fs o)
    -- the reachability specification next to the algorithmic `rootArgs` / `funcDeps` (`C17_count_deps_reach`, `C17_roots_spec`)
    let spec := jOpt (jList (jPair jStr (jList jStr))) (depsSpec fs o)
    -- `set_cache_for_sweep`: optional `min` (min_executions) and `cache` (the flags before the call)
    let minE ← optF asInt a "min"
    let cache0 ← optF (asList (asPair asStr asBool)) a "cache"
    match generate s with
    | .error e => return jObj [("deps", deps), ("spec", spec), ("counts", jObj [("err", jStr (errName e))]), ("ordered", jBool (ordered fs))]
    | .ok combos =>
      match countSweepPipe fs o combos with
      | none => return jObj [("err", jStr "KeyError")]
      | some r =>
        let pandas := match countPandasPipe isNoneVal fs o combos with
          | none => Json.null
          | some p => putExc (jList (jPair jStr (fun (x : Bool × Table Val) =>
              jObj [("scalar", jBool x.1), ("table", jList (jPair (jList putVal) jNat) x.2)]))) p
        let setc := match minE, cache0 with
          | some m, some c0 =>
            (match setCacheForSweep fs o combos m c0 with
              | none => jObj [("err", jStr "KeyError")]
              | some r => putExc (jList (jPair jStr jBool)) r)
          | _, _ => Json.null
        let sums := match r with
          | .ok t => jList (jPair jStr jNat) (t.map fun c => (c.1, tsum c.2))
          | .error _ => Json.null
        return jObj [("deps", deps), ("spec", spec), ("counts", putExc putCounts r), ("pandas", pandas), ("setcache", setc),
                     ("sums", sums), ("n", jNat combos.length), ("ordered", jBool (ordered fs))]
  | _ => .error s!"unknown entry {m}"

def main : IO Unit := loop handle
