import PfModel.Lemmas.RewriteMapAxis
/-! Renaming MapSpec index names under `Pipeline.map`, part 2: the static structure, `map_shapes`, the run. -/
namespace PF.Rw
open PF PF.Map

section
variable (α : String → String)

theorem producer_axis (fs : List MFunc) (p : String) : producer (fs.map (axisM α)) p = (producer fs p).map (axisM α) := by
  unfold producer
  rw [List.find?_map]
  rfl

theorem producer_axis_isSome (fs : List MFunc) (p : String) : (producer (fs.map (axisM α)) p).isSome = (producer fs p).isSome := by
  rw [producer_axis]; cases producer fs p <;> rfl

theorem producer_axis_isNone (fs : List MFunc) (p : String) : (producer (fs.map (axisM α)) p).isNone = (producer fs p).isNone := by
  rw [producer_axis]; cases producer fs p <;> rfl

theorem pdefaults_axis (fs : List MFunc) : pdefaults (fs.map (axisM α)) = pdefaults fs := by
  unfold pdefaults
  rw [List.flatMap_map]
  simp only [producer_axis_isNone]
  rfl

theorem pdefault_axis (fs : List MFunc) (p : String) : pdefault (fs.map (axisM α)) p = pdefault fs p := by
  unfold pdefault; rw [pdefaults_axis]

theorem upstream_axis (fs : List MFunc) (f : MFunc) : upstream (fs.map (axisM α)) (axisM α f) = upstream fs f := by
  unfold upstream
  have hb : (axisM α f).bound = f.bound := rfl
  have hp : (axisM α f).params = f.params := rfl
  rw [hp, hb]
  apply filterMap_congr'
  intro pq _
  obtain ⟨p, q⟩ := pq
  simp only [producer_axis]
  cases producer fs p <;> rfl

theorem layers_axis (fs : List MFunc) : ∀ (n : Nat) (done : List String) (rest : List MFunc),
    layers (fs.map (axisM α)) n done (rest.map (axisM α)) = (layers fs n done rest).map (List.map (axisM α)) := by
  intro n
  induction n with
  | zero => intro _ _; rfl
  | succ n ih =>
    intro done rest
    have hready : (rest.map (axisM α)).filter (fun f => (upstream (fs.map (axisM α)) f).all fun g => done.contains g) =
        (rest.filter fun f => (upstream fs f).all fun g => done.contains g).map (axisM α) := by
      rw [List.filter_map]
      congr 1
      apply List.filter_congr
      intro f _
      simp only [Function.comp, upstream_axis α fs f]
    simp only [layers, List.isEmpty_map]
    by_cases h1 : rest.isEmpty = true
    · simp only [h1, ↓reduceIte, List.map_nil]
    · simp only [h1, Bool.false_eq_true, ↓reduceIte]
      rw [hready]
      simp only [List.isEmpty_map]
      by_cases h2 : (rest.filter fun f => (upstream fs f).all fun g => done.contains g).isEmpty = true
      · simp only [h2, ↓reduceIte, List.map_nil]
      · simp only [h2, Bool.false_eq_true, ↓reduceIte, List.map_cons]
        congr 1
        have hnames : ∀ l : List MFunc, (l.map (axisM α)).map (·.name) = l.map (·.name) := by
          intro l; simp [List.map_map, Function.comp_def, axisM]
        rw [hnames]
        have hrest2 : (rest.map (axisM α)).filter
              (fun f => !(((rest.filter fun f => (upstream fs f).all fun g => done.contains g).map (axisM α)).any (·.name = f.name))) =
            (rest.filter fun f => !((rest.filter fun f => (upstream fs f).all fun g => done.contains g).any (·.name = f.name))).map (axisM α) := by
          rw [List.filter_map]
          congr 1
          apply List.filter_congr
          intro f _
          simp only [Function.comp_def, List.any_map]
          rfl
        rw [hrest2]
        apply ih

theorem generations_axis (fs : List MFunc) : generations (fs.map (axisM α)) = (generations fs).map (List.map (axisM α)) := by
  unfold generations
  rw [List.length_map]
  exact layers_axis α fs _ [] fs

theorem rootArgs_axis (fs : List MFunc) : Map.rootArgs (fs.map (axisM α)) = Map.rootArgs fs := by
  unfold Map.rootArgs
  rw [List.flatMap_map]
  simp only [producer_axis_isSome]
  rfl

theorem mapspecNames_axis (fs : List MFunc) : mapspecNames (fs.map (axisM α)) = mapspecNames fs := by
  unfold mapspecNames
  rw [List.flatMap_map]
  congr 1
  funext f
  cases hm : f.mapspec with
  | none => simp [axisM, hm]
  | some ms => simp [axisM, hm, axisS, axisA, List.map_map, Function.comp_def]

theorem constructInternal_axis (fs : List MFunc) (ui : List (String × List Nat)) :
    constructInternal (fs.map (axisM α)) ui = constructInternal fs ui := by
  unfold constructInternal
  rw [List.flatMap_map]
  rfl

theorem validateInputs_axis (fs : List MFunc) (inputs : List (String × Val)) :
    validateInputs (fs.map (axisM α)) inputs = validateInputs fs inputs := by
  unfold validateInputs
  rw [rootArgs_axis, pdefaults_axis]

theorem argWhole_axis (fs : List MFunc) (env : Map.Env) (f : MFunc) (p : String) :
    argWhole (fs.map (axisM α)) env (axisM α f) p = argWhole fs env f p := by
  unfold argWhole
  have hb : (axisM α f).bound = f.bound := rfl
  rw [hb, pdefault_axis]

theorem runSingle_axis (fs : List MFunc) (env : Map.Env) (f : MFunc) :
    runSingle (fs.map (axisM α)) env (axisM α f) = runSingle fs env f := by
  unfold runSingle
  have hp : (axisM α f).params = f.params := rfl
  rw [hp]
  simp only [argWhole_axis]
  rfl

theorem runGen_congr (R R' : Map.Env → MFunc → M FuncResult) (r : MFunc → MFunc) (env : Map.Env) (gen : List MFunc)
    (h : ∀ f ∈ gen, R' env (r f) = R env f) : runGenWith R' env (gen.map r) = runGenWith R env gen := by
  induction gen with
  | nil => rfl
  | cons f rest ih =>
    simp only [List.map_cons, runGenWith, h f List.mem_cons_self, ih (fun g hg => h g (List.mem_cons_of_mem _ hg))]

theorem runGens_congr (R R' : Map.Env → MFunc → M FuncResult) (r : MFunc → MFunc) (P : MFunc → Prop)
    (h : ∀ f, P f → ∀ env, R' env (r f) = R env f) :
    ∀ (gens : List (List MFunc)), (∀ g ∈ gens, ∀ f ∈ g, P f) → ∀ env,
      runGensWith R' (gens.map (List.map r)) env = runGensWith R gens env := by
  intro gens
  induction gens with
  | nil => intro _ _; rfl
  | cons gen rest ih =>
    intro hP env
    simp only [List.map_cons, runGensWith]
    rw [runGen_congr R R' r env gen (fun f hf => h f (hP gen List.mem_cons_self f hf) env)]
    have ih' := ih (fun g hg => hP g (List.mem_cons_of_mem _ hg))
    simp only [ih']

end

section
variable (α : String → String) (NI : String → Prop) (hinj : ∀ a b, NI a → NI b → α a = α b → a = b)
include hinj

/-- the index names of the MapSpec of `f` (if any) lie in `NI` -/
def MIdxIn (NI : String → Prop) (f : MFunc) : Prop := ∀ ms, f.mapspec = some ms → IdxIn NI ms

theorem selectArgs_axis (fs : List MFunc) (env : Map.Env) (f : MFunc) (ms : MSpec) (E : List Nat) (hms : IdxIn NI ms) :
    selectArgs (fs.map (axisM α)) env (axisM α f) (axisS α ms) E = selectArgs fs env f ms E := by
  unfold selectArgs
  have hp : (axisM α f).params = f.params := rfl
  rw [hp]
  apply mapM_congr'
  intro pq _
  obtain ⟨p, orig⟩ := pq
  simp only [argWhole_axis, inputSpec_axis]
  cases hsp : ms.inputSpec p with
  | none => rfl
  | some a =>
    have ha : a ∈ ms.inputs := List.mem_of_find?_eq_some hsp
    simp only [Option.map_some, inputKey_axis α NI hinj ms a E hms ha]

theorem runMapped_axis (fs : List MFunc) (env : Map.Env) (f : MFunc) (ms : MSpec) (shape : List Nat) (mask : List Bool)
    (hms : IdxIn NI ms) :
    runMappedWith denoteArray (fs.map (axisM α)) env (axisM α f) (axisS α ms) shape mask =
      runMappedWith denoteArray fs env f ms shape mask := by
  unfold runMappedWith
  simp only [selectArgs_axis α NI hinj fs env f ms _ hms]
  rfl

theorem runFunc_axis (fs : List MFunc) (shapes : List (String × List Nat)) (masks : List (String × List Bool))
    (env : Map.Env) (f : MFunc) (hf : MIdxIn NI f) :
    runFuncWith denoteArray (fs.map (axisM α)) shapes masks env (axisM α f) = runFuncWith denoteArray fs shapes masks env f := by
  unfold runFuncWith
  have hm : (axisM α f).mapspec = f.mapspec.map (axisS α) := rfl
  have ho : (axisM α f).outputs = f.outputs := rfl
  rw [hm, ho]
  cases hms : f.mapspec with
  | none => exact runSingle_axis α fs env f
  | some ms =>
    simp only [Option.map_some]
    have hi : (axisS α ms).inputs.isEmpty = ms.inputs.isEmpty := by simp only [axisS, List.isEmpty_map]
    rw [hi]
    simp only [runSingle_axis, runMapped_axis α NI hinj fs env f ms _ _ (hf ms hms)]

theorem mapShapes_axis (fs : List MFunc) (inputs : List (String × Val)) (internal : List (String × List Nat))
    (hfs : ∀ f ∈ fs, MIdxIn NI f) :
    Sim Eq (mapShapes fs inputs internal) (mapShapes (fs.map (axisM α)) inputs internal) := by
  unfold mapShapes
  simp only []
  rw [rootArgs_axis, mapspecNames_axis, pdefaults_axis]
  apply Sim.bind (Sim.refl _)
  intro x y hxy
  subst hxy
  apply Sim.bind (R := Eq)
  · rw [generations_axis, ← List.map_flatten]
    apply forIn_Sim Eq (axisM α) (generations fs).flatten _ rfl
    · intro f hf c c' hc
      subst hc
      have hfI : MIdxIn NI f := by
        obtain ⟨g, hg, hfg⟩ := List.mem_flatten.mp hf
        exact hfs f (generations_mem fs _ _ _ g hg f hfg)
      have hm : (axisM α f).mapspec = f.mapspec.map (axisS α) := rfl
      have ho : (axisM α f).outputs = f.outputs := rfl
      rw [hm, ho]
      cases hms : f.mapspec with
      | none => exact Sim.pure rfl
      | some ms =>
        simp only [Option.map_some]
        have e1 : (axisS α ms).inputs.filterMap (fun a => (alookup c.1 a.name).map fun sh => (a.name, sh)) =
            ms.inputs.filterMap fun a => (alookup c.1 a.name).map fun sh => (a.name, sh) := by
          have : (axisS α ms).inputs = ms.inputs.map (axisA α) := rfl
          rw [this, List.filterMap_map]
          rfl
        have e2 : internal.filter (fun kv => (axisS α ms).outputs.any fun x => decide (x.name = kv.1)) =
            internal.filter fun kv => ms.outputs.any fun x => decide (x.name = kv.1) := by
          apply List.filter_congr
          intro kv _
          have : (axisS α ms).outputs = ms.outputs.map (axisA α) := rfl
          rw [this, List.any_map]
          rfl
        rw [e1, e2]
        apply Sim.bind (mspecShape_axis α NI hinj ms _ _ (hfI ms hms))
        intro x y hxy
        subst hxy
        exact Sim.refl' stepRel_eq_refl _
    · rfl
  · intro x y hxy
    subst hxy
    exact Sim.pure rfl

/-- **`run_map` does not depend on the index names** -/
theorem specMap_axis (fs : List MFunc) (inputs : List (String × Val)) (ui : List (String × List Nat))
    (hfs : ∀ f ∈ fs, MIdxIn NI f) :
    Sim Eq (specMap fs inputs ui) (specMap (fs.map (axisM α)) inputs ui) := by
  unfold specMap runMapWith
  rw [validateInputs_axis]
  apply Sim.bind (Sim.refl _)
  intro _ _ _
  simp only []
  have hgen := generations_axis α fs
  have hlen : (generations (fs.map (axisM α))).flatten.length = (generations fs).flatten.length := by
    rw [hgen, ← List.map_flatten, List.length_map]
  rw [hlen, List.length_map, constructInternal_axis]
  apply Sim.ite
  · exact trivial
  · apply Sim.bind (mapShapes_axis α NI hinj fs inputs _ hfs)
    intro x y hxy
    subst hxy
    obtain ⟨shapes, masks⟩ := x
    simp only []
    rw [hgen, runGens_congr (runFuncWith denoteArray fs shapes masks) (runFuncWith denoteArray (fs.map (axisM α)) shapes masks)
      (axisM α) (fun f => f ∈ fs) (fun f hf env => runFunc_axis α NI hinj fs shapes masks env f (hfs f hf)) (generations fs)
      (fun g hg f hf => generations_mem fs _ _ _ g hg f hf)]
    apply Sim.bind (Sim.refl _)
    intro x y hxy
    subst hxy
    obtain ⟨rs, env⟩ := x
    apply Sim.pure
    simp only [List.map_map]
    congr 1
    apply List.map_congr_left
    intro g _
    simp only [Function.comp, List.map_map]
    apply List.map_congr_left
    intro f _
    rfl

end
/-- executable form of `MIdxIn (· ∈ names)` -/
def axesCheck (names : List String) (f : RFunc) : Bool :=
  match f.mapspec with
  | some ms => (ms.outputIndices ++ ms.inputIndices).all fun n => names.contains n
  | none => true

theorem midxIn_of_check {names : List String} {f : RFunc} (h : axesCheck names f = true) :
    MIdxIn (fun a => a ∈ names) (toMFunc f) := by
  intro ms hms
  have hm : f.mapspec = some ms := hms
  simp only [axesCheck, hm, List.all_eq_true, List.contains_iff_mem, List.mem_append] at h
  exact ⟨fun n hn => h n (Or.inl hn), fun n hn => h n (Or.inr hn)⟩

end PF.Rw
