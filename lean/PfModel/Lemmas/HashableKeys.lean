import PfModel.Model.HashableKeys
import PfModel.Lemmas.Hashable
/-! Helper lemmas for the keys built around `to_hashable` (`Model/HashableKeys.lean`). -/
namespace PF.Hashable

/-- two optional values: both absent, or both present and the same value -/
def OptEquiv : Option PV → Option PV → Prop
  | none, none => True
  | some a, some b => Equiv a b
  | _, _ => False

/-- `kwargs` and `kwargs'` hold the same names with the same values -/
def KwSame (kw kw' : List (Name × PV)) : Prop := ∀ n, OptEquiv (lookupKw n kw) (lookupKw n kw')

/-- two bindings: both calls are rejected, or both bind the same parameters to the same values -/
def BindSame : Option (List (Name × PV)) → Option (List (Name × PV)) → Prop
  | none, none => True
  | some l, some l' => All2 (fun p q => p.1 = q.1 ∧ Equiv p.2 q.2) l l'
  | _, _ => False

theorem OptEquiv.refl : ∀ o, OptEquiv o o
  | none => trivial
  | some a => Equiv.refl a

theorem OptEquiv.symm : ∀ {o o'}, OptEquiv o o' → OptEquiv o' o
  | none, none, _ => trivial
  | some a, some b, h => Equiv.symm a b h
  | none, some _, h => h.elim
  | some _, none, h => h.elim

theorem KwSame.refl (kw : List (Name × PV)) : KwSame kw kw := fun n => OptEquiv.refl _
theorem KwSame.symm {kw kw' : List (Name × PV)} (h : KwSame kw kw') : KwSame kw' kw := fun n => (h n).symm

/-! ### lookups -/
theorem lookupKw_mem : ∀ {kw : List (Name × PV)} {n : Name} {v : PV}, lookupKw n kw = some v → (n, v) ∈ kw
  | [], _, _, h => by simp [lookupKw] at h
  | (m, w) :: kw, n, v, h => by
    simp only [lookupKw] at h
    split at h
    · rename_i hm; cases h; rw [hm]; exact List.mem_cons_self
    · exact List.mem_cons_of_mem _ (lookupKw_mem h)

theorem mem_lookupKw : ∀ {kw : List (Name × PV)} {n : Name} {v : PV}, (kw.map Prod.fst).Nodup → (n, v) ∈ kw →
    lookupKw n kw = some v
  | [], _, _, _, h => by cases h
  | (m, w) :: kw, n, v, hn, h => by
    simp only [List.map_cons, List.nodup_cons] at hn
    simp only [lookupKw]
    cases h with
    | head => simp
    | tail _ h =>
      split
      · rename_i hm
        exact (hn.1 (by rw [hm]; exact List.mem_map_of_mem (f := Prod.fst) h)).elim
      · exact mem_lookupKw hn.2 h

theorem lookupKw_none_of_not_mem : ∀ {kw : List (Name × PV)} {n : Name}, n ∉ kw.map Prod.fst → lookupKw n kw = none
  | [], _, _ => rfl
  | (m, w) :: kw, n, h => by
    simp only [List.map_cons, List.mem_cons, not_or] at h
    simp only [lookupKw]
    rw [if_neg (fun e => h.1 e.symm)]
    exact lookupKw_none_of_not_mem h.2

theorem lookupKw_eraseKw (n m : Name) : ∀ kw : List (Name × PV),
    lookupKw m (eraseKw n kw) = if n = m then none else lookupKw m kw
  | [] => by simp [eraseKw, lookupKw]
  | (a, w) :: kw => by
    simp only [eraseKw]
    by_cases han : a = n
    · rw [if_pos han, lookupKw_eraseKw n m kw]
      by_cases hnm : n = m
      · simp [hnm]
      · simp only [if_neg hnm, lookupKw]
        rw [if_neg (fun e => hnm (han ▸ e))]
    · rw [if_neg han]
      simp only [lookupKw]
      by_cases ham : a = m
      · rw [if_pos ham, if_pos ham, if_neg (fun e => han (ham.trans e.symm))]
      · rw [if_neg ham, if_neg ham, lookupKw_eraseKw n m kw]

theorem KwSame.erase {kw kw' : List (Name × PV)} (h : KwSame kw kw') (n : Name) : KwSame (eraseKw n kw) (eraseKw n kw') := by
  intro m
  rw [lookupKw_eraseKw, lookupKw_eraseKw]
  split
  · trivial
  · exact h m

theorem KwSame.isEmpty {kw kw' : List (Name × PV)} (h : KwSame kw kw') : kw.isEmpty = kw'.isEmpty := by
  have one : ∀ {a b : List (Name × PV)}, KwSame a b → a.isEmpty = false → b.isEmpty = false := by
    intro a b hab ha
    cases a with
    | nil => cases ha
    | cons p a =>
      have := hab p.1
      simp only [lookupKw, if_true] at this
      cases b with
      | nil => simp [lookupKw, OptEquiv] at this
      | cons _ _ => rfl
  cases h1 : kw.isEmpty <;> cases h2 : kw'.isEmpty <;> try rfl
  · rw [one h h1] at h2; cases h2
  · rw [one h.symm h2] at h1; cases h1

/-! ### effective arguments depend on the call only through the values -/
theorem BindSame.map_cons {o o' : Option (List (Name × PV))} (h : BindSame o o') {n : Name} {a a' : PV} (ha : Equiv a a') :
    BindSame (o.map (fun l => (n, a) :: l)) (o'.map (fun l => (n, a') :: l)) := by
  match o, o', h with
  | none, none, _ => trivial
  | some l, some l', h => exact .cons ⟨rfl, ha⟩ h

theorem bindArgs_congr : ∀ (ps : List Param) {args args' : List PV} {kw kw' : List (Name × PV)},
    All2 Equiv args args' → KwSame kw kw' → BindSame (bindArgs ps args kw) (bindArgs ps args' kw')
  | [], _, _, kw, kw', ha, hk => by
    cases ha with
    | nil =>
      simp only [bindArgs, hk.isEmpty]
      split
      · exact .nil
      · trivial
    | cons _ _ => simp only [bindArgs]; trivial
  | p :: ps, _, _, kw, kw', ha, hk => by
    cases ha with
    | cons h1 h2 =>
      simp only [bindArgs]
      have hp := hk p.name
      cases h : lookupKw p.name kw <;> cases h' : lookupKw p.name kw' <;> rw [h, h'] at hp <;>
        simp only [OptEquiv] at hp <;> simp only [Option.isSome, if_true, if_false, Bool.false_eq_true]
      · exact (bindArgs_congr ps h2 hk).map_cons h1
      · trivial
    | nil =>
      simp only [bindArgs]
      have hp := hk p.name
      cases h : lookupKw p.name kw <;> cases h' : lookupKw p.name kw' <;> rw [h, h'] at hp <;>
        simp only [OptEquiv] at hp
      · cases p.default with
        | none => trivial
        | some d => exact (bindArgs_congr ps .nil hk).map_cons (Equiv.refl d)
      · exact (bindArgs_congr ps .nil (hk.erase p.name)).map_cons hp

/-! ### `Equiv` on the `kwargs` dict -/
theorem All2.mem_left {α β : Type} {R : α → β → Prop} {xs : List α} {ys : List β} (h : All2 R xs ys) :
    ∀ x ∈ xs, ∃ y ∈ ys, R x y := by
  intro x hx
  obtain ⟨y, hy, hr⟩ := h.flip.mem_right x hx
  exact ⟨y, hy, hr⟩

theorem permIf_mem' {k : Kind} {xs xs' : List PV} (h : if k.ordered then xs = xs' else xs.Perm xs') {x : PV} (hx : x ∈ xs) :
    x ∈ xs' := by
  split at h
  · rw [← h]; exact hx
  · exact h.mem_iff.1 hx

theorem equiv_kwDict_lookup {kw kw' : List (Name × PV)} (he : Equiv (kwDict kw) (kwDict kw'))
    (hn' : (kw'.map Prod.fst).Nodup) {n : Name} {v : PV} (h : lookupKw n kw = some v) :
    ∃ v', lookupKw n kw' = some v' ∧ Equiv v v' := by
  obtain ⟨xs', ys', ys, hb, h1, h2, h3⟩ := equiv_node_inv he
  simp only [kwDict, PV.node.injEq, true_and] at hb
  subst hb
  have hm : tup [strAtom n, v] ∈ kw.map (fun p => tup [strAtom p.1, p.2]) :=
    List.mem_map.2 ⟨(n, v), lookupKw_mem h, rfl⟩
  obtain ⟨y, hy, hxy⟩ := h2.mem_left _ (permIf_mem' h1 hm)
  have hy' := permIf_mem' h3 hy
  obtain ⟨k', v', rfl, hk, hv⟩ := equiv_pair_inv hxy
  obtain ⟨q, hq, hqe⟩ := List.mem_map.1 hy'
  have hk' := equiv_atom_inv hk
  simp only [tup, PV.node.injEq, true_and, List.cons.injEq, and_true] at hqe
  obtain ⟨e1, e2⟩ := hqe
  rw [hk'] at e1
  simp only [strAtom, PV.atom.injEq, Atom.str.injEq] at e1
  refine ⟨v', mem_lookupKw hn' ?_, hv⟩
  rw [← e1, ← e2]
  exact hq

/-- equal `kwargs` dicts (as values) hold the same names with the same values -/
theorem kwSame_of_equiv {kw kw' : List (Name × PV)} (he : Equiv (kwDict kw) (kwDict kw'))
    (hn : (kw.map Prod.fst).Nodup) (hn' : (kw'.map Prod.fst).Nodup) : KwSame kw kw' := by
  intro n
  cases h : lookupKw n kw with
  | some v =>
    obtain ⟨v', h', hv⟩ := equiv_kwDict_lookup he hn' h
    rw [h']; exact hv
  | none =>
    cases h' : lookupKw n kw' with
    | none => trivial
    | some v' =>
      obtain ⟨v, h2, _⟩ := equiv_kwDict_lookup (Equiv.symm _ _ he) hn h'
      rw [h] at h2; cases h2

/-- `kwargs'` is `kwargs` written in another order, each value replaced by the same value -/
def KwPerm (kw kw' : List (Name × PV)) : Prop :=
  ∃ kw'', kw.Perm kw'' ∧ All2 (fun p q => p.1 = q.1 ∧ Equiv p.2 q.2) kw'' kw'

theorem equiv_kwDict_of_perm {kw kw' : List (Name × PV)} (h : KwPerm kw kw') : Equiv (kwDict kw) (kwDict kw') := by
  obtain ⟨kw'', hp, ha⟩ := h
  have hall : All2 Equiv (kw''.map fun p => tup [strAtom p.1, p.2]) (kw'.map fun p => tup [strAtom p.1, p.2]) := by
    clear hp
    induction ha with
    | nil => exact .nil
    | cons hpq _ ih =>
      refine .cons ?_ ih
      show Equiv (tup [strAtom _, _]) (tup [strAtom _, _])
      rw [hpq.1]
      exact Equiv.ordered rfl (.cons (Equiv.refl _) (.cons hpq.2 .nil))
  refine .node .dict _ (kw''.map fun p => tup [strAtom p.1, p.2]) (kw'.map fun p => tup [strAtom p.1, p.2]) _ ?_ ?_ ?_
  · simp only [Kind.ordered, Bool.false_eq_true, if_false]; exact hp.map _
  · exact equivL_of_all2 hall
  · simp [Kind.ordered]

theorem equiv_callArg {args args' : List PV} {kw kw' : List (Name × PV)} (ha : All2 Equiv args args')
    (hk : Equiv (kwDict kw) (kwDict kw')) : Equiv (callArg args kw) (callArg args' kw') :=
  Equiv.ordered rfl (.cons (Equiv.ordered rfl ha) (.cons hk .nil))

theorem equiv_callArg_inv {args args' : List PV} {kw kw' : List (Name × PV)}
    (h : Equiv (callArg args kw) (callArg args' kw')) : All2 Equiv args args' ∧ Equiv (kwDict kw) (kwDict kw') := by
  obtain ⟨k', v', hb, hk, hv⟩ := equiv_pair_inv h
  simp only [callArg, tup, PV.node.injEq, true_and, List.cons.injEq, and_true] at hb
  obtain ⟨e1, e2⟩ := hb
  subst e1; subst e2
  refine ⟨?_, hv⟩
  obtain ⟨xs', ys', ys, hb, h1, h2, h3⟩ := equiv_node_inv hk
  simp only [PV.node.injEq, true_and] at hb
  simp only [Kind.ordered, if_true] at h1 h3
  subst h1; subst h3; subst hb
  exact h2

/-! ### `pipeItems` -/
theorem pipeItems_some : ∀ {rs : List Name} {kw : List (Name × PV)} {l : List PV}, pipeItems rs kw = .ok (some l) →
    All2 (fun r i => ∃ v k, lookupKw r kw = some v ∧ key true v = .ok k ∧ i = tup [strAtom r, k]) rs l
  | [], _, l, h => by simp only [pipeItems] at h; cases h; exact .nil
  | r :: rs, kw, l, h => by
    simp only [pipeItems] at h
    cases hl : lookupKw r kw with
    | none => rw [hl] at h; cases h
    | some v =>
      rw [hl] at h; simp only at h
      cases hk : key true v with
      | error e => rw [hk] at h; cases h
      | ok k =>
        rw [hk] at h; simp only at h
        cases hr : pipeItems rs kw with
        | error e => rw [hr] at h; cases h
        | ok o =>
          cases o with
          | none => rw [hr] at h; cases h
          | some l' =>
            rw [hr] at h; cases h
            exact .cons ⟨v, k, hl, hk, rfl⟩ (pipeItems_some hr)

theorem pipeItems_of_all2 : ∀ {rs : List Name} {kw : List (Name × PV)} {l : List PV},
    All2 (fun r i => ∃ v k, lookupKw r kw = some v ∧ key true v = .ok k ∧ i = tup [strAtom r, k]) rs l →
    pipeItems rs kw = .ok (some l)
  | _, _, _, .nil => rfl
  | _, _, _, .cons ⟨v, k, h1, h2, h3⟩ h => by
    simp only [pipeItems, h1, h2, pipeItems_of_all2 h, h3]

theorem pipeKey_some {out : PV} {rs : List Name} {kw : List (Name × PV)} {k : PV} (h : pipeKey out rs kw = .ok (some k)) :
    ∃ l, pipeItems rs kw = .ok (some l) ∧ k = tup [out, tup l] := by
  simp only [pipeKey] at h
  cases hr : pipeItems rs kw with
  | error e => rw [hr] at h; cases h
  | ok o =>
    cases o with
    | none => rw [hr] at h; cases h
    | some l => rw [hr] at h; cases h; exact ⟨l, rfl, rfl⟩

/-- the items of two calls coincide: same root names, the same value under every root name -/
theorem pipeItems_inj : ∀ {rs rs' : List Name} {kw kw' : List (Name × PV)} {l : List PV},
    pipeItems rs kw = .ok (some l) → pipeItems rs' kw' = .ok (some l) →
    rs = rs' ∧ ∀ r ∈ rs, ∃ v v', lookupKw r kw = some v ∧ lookupKw r kw' = some v' ∧ Equiv v v' := by
  intro rs rs' kw kw' l h h'
  have a := pipeItems_some h
  have a' := pipeItems_some h'
  clear h h'
  induction a generalizing rs' with
  | nil => cases a'; exact ⟨rfl, fun r hr => by cases hr⟩
  | cons hx _ ih =>
    cases a' with
    | cons hx' a' =>
      obtain ⟨v, k, h1, h2, h3⟩ := hx
      obtain ⟨v', k', h1', h2', h3'⟩ := hx'
      rw [h3] at h3'
      simp only [tup, strAtom, PV.node.injEq, true_and, List.cons.injEq, and_true, PV.atom.injEq, Atom.str.injEq] at h3'
      obtain ⟨e1, e2⟩ := h3'
      subst e1; subst e2
      obtain ⟨e, hall⟩ := ih a'
      subst e
      refine ⟨rfl, ?_⟩
      intro r hr
      cases hr with
      | head => exact ⟨v, v', h1, h1', key_injective v v' k h2 h2'⟩
      | tail _ hr => exact hall r hr

theorem pipeItems_congr : ∀ {rs : List Name} {kw kw' : List (Name × PV)} {l : List PV},
    (∀ r ∈ rs, ∀ v, lookupKw r kw = some v → wf v = true ∧ ∃ v', lookupKw r kw' = some v' ∧ Equiv v v') →
    pipeItems rs kw = .ok (some l) → pipeItems rs kw' = .ok (some l) := by
  intro rs kw kw' l hv h
  have a := pipeItems_some h
  apply pipeItems_of_all2
  clear h
  induction a with
  | nil => exact .nil
  | cons hx _ ih =>
    obtain ⟨v, k, h1, h2, h3⟩ := hx
    obtain ⟨hwf, v', h1', he⟩ := hv _ List.mem_cons_self v h1
    refine .cons ⟨v', k, h1', key_equiv v v' he hwf k h2, h3⟩ (ih ?_)
    intro r hr
    exact hv r (List.mem_cons_of_mem _ hr)

theorem PCache.lookup_some {k : PV} : ∀ {es : List (PV × (PV × List Name × List (Name × PV)) × Nat)}
    {a : PV × List Name × List (Name × PV)} {r : Nat},
    PCache.lookup k es = some (a, r) → (k, a, r) ∈ es
  | [], _, _, h => by simp [PCache.lookup] at h
  | (k', a', r') :: es, a, r, h => by
    simp only [PCache.lookup] at h
    split at h
    · rename_i hk; cases h; rw [hk]; exact List.mem_cons_self
    · exact List.mem_cons_of_mem _ (PCache.lookup_some h)

/-- every entry is stored under the key of the call that produced it -/
def PCache.Inv (c : PCache) : Prop := ∀ e ∈ c.entries, pipeKey e.2.1.1 e.2.1.2.1 e.2.1.2.2 = .ok (some e.1)

end PF.Hashable
