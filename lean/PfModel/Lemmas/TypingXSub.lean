import PfModel.Lemmas.TypingX
/-!
The declarative relation of the statement over the extended annotation language (`XSub`: the 19 rules of `Sub` and four rules for
`Literal` and `tuple[T, ...]`) and its equivalence with `compatX`.
-/
namespace PF.Typing

/-- The subtype relation of the statement, as inference rules.  `refl`: reflexive.  `any_r`, `noann_l`, `noann_r`: `Any` or a
    missing annotation is compatible with everything.  `tv_l`: a TypeVar source is accepted (the documented TODO of
    `typing.py:220-224`).  `tv_free/tv_bound/tv_constr`: a TypeVar target stands for anything / its bound / one of its
    constraints.  `base`: nominal subclassing (`bool ≤ int`).  `gen`: covariant generics of equal arity; `gen_bare_*`: an
    unparametrised generic.  `union_l`: a union source needs all members accepted; `union_r`: a union target needs one.
    `lit`: a `Literal` is accepted by a `Literal` with at least its values.  `vt`: variadic tuples are covariant; `tuple_vt`: a
    fixed-arity tuple is a `tuple[T, ...]` when every element type is accepted by `T`; `vt_bare`: the unparametrised `tuple`.
    `annot_l/annot_r`: `Annotated` is transparent.  `array`: `Array` is covariant; `array_nd`: an `Array[T]` is an object
    ndarray; `nd_array`: an object ndarray without element annotation is accepted where `Array[T]` is required. -/
inductive XSub : XTy → XTy → Prop
  | refl {a} : XSub a a
  | any_r {a} : XSub a .any
  | noann_l {b} : XSub .noann b
  | noann_r {a} : XSub a .noann
  | tv_l {a b} : a.isTV = true → XSub a b
  | tv_free {a} : XSub a .tvFree
  | tv_bound {a t} : XSub a t → XSub a (.tvBound t)
  | tv_constr {a c cs} : c ∈ cs → XSub a c → XSub a (.tvConstr cs)
  | base {x y} : Base.sub x y = true → XSub (.base x) (.base y)
  | gen {g as bs} : as.length = bs.length → (∀ p ∈ as.zip bs, XSub p.1 p.2) → XSub (.gen g as) (.gen g bs)
  | gen_bare_l {g bs} : XSub (.gen g []) (.gen g bs)
  | gen_bare_r {g as} : XSub (.gen g as) (.gen g [])
  | union_l {as b} : (∀ a ∈ as, XSub a b) → XSub (.union as) b
  | union_r {a b bs} : b ∈ bs → XSub a b → XSub a (.union bs)
  | annot_l {p b} : XSub p b → XSub (.annot p) b
  | annot_r {a q} : XSub a q → XSub a (.annot q)
  | array {e f} : XSub e f → XSub (.array e) (.array f)
  | array_nd {e} : XSub (.array e) .ndarr
  | nd_array {f} : XSub .ndarr (.array f)
  | lit {vs ws} : (∀ v ∈ vs, v ∈ ws) → XSub (.lit vs) (.lit ws)
  | vt {s t} : XSub s t → XSub (.vtuple s) (.vtuple t)
  | tuple_vt {as t} : (∀ a ∈ as, XSub a t) → XSub (.gen .tuple as) (.vtuple t)
  | vt_bare {s} : XSub (.vtuple s) (.gen .tuple [])

/-- unfold one step of `compatX` in hypothesis `h`; the side conditions of the overlapping patterns are in the context -/
macro "unfcx" h:ident : tactic => `(tactic| (rw [compatX] at $h:ident <;> try first | assumption | (intros; contradiction)))

/-- `compatX` only accepts what `XSub` derives. -/
theorem compatX_sub : ∀ a b, compatX a b = true → XSub a b := by
  intro a b
  refine compatX.induct
    (motive1 := fun a b => compatX a b = true → XSub a b)
    (motive2 := fun as bs => compatZipX as bs = true → ∀ p ∈ as.zip bs, XSub p.1 p.2)
    (motive3 := fun as b => compatAllX as b = true → ∀ a ∈ as, XSub a b)
    (motive4 := fun a bs => compatAnyX a bs = true → ∃ b ∈ bs, XSub a b)
    ?_ ?_ ?_ ?_ ?_ ?_ ?_ ?_ ?_ ?_ ?_ ?_ ?_ ?_ ?_ ?_ ?_ ?_ ?_ ?_ ?_ ?_ ?_ ?_ ?_ ?_ ?_ ?_ ?_ ?_ ?_ a b
  · intro p b ih h
    unfcx h
    exact XSub.annot_l (ih h)
  · intro x _; exact XSub.tv_l rfl
  · intro a x _; exact XSub.tv_l rfl
  · intro a x _; exact XSub.tv_l rfl
  · intro x _ _ _ _ _; exact XSub.any_r
  · intro x _ _; exact XSub.noann_l
  · intro x _ _ _ _ _ _; exact XSub.noann_r
  · intro x _ _ _ _ _ _; exact XSub.tv_free
  · intro a t h1 h2 h3 h4 h5 ih h
    unfcx h
    exact XSub.tv_bound (ih h)
  · intro as cs ih4 ih3 h
    unfcx h
    simp only [Bool.or_eq_true] at h
    rcases h with h | h
    · obtain ⟨c, hc, hs⟩ := ih4 h
      exact XSub.tv_constr hc hs
    · exact XSub.union_l (ih3 h)
  · intro a cs h1 h2 h3 h4 h5 h6 ih4 h
    unfcx h
    obtain ⟨c, hc, hs⟩ := ih4 h
    exact XSub.tv_constr hc hs
  · intro as b h1 h2 h3 h4 h5 ih3 h
    unfcx h
    exact XSub.union_l (ih3 h)
  · intro a bs h1 h2 h3 h4 h5 h6 ih4 h
    unfcx h
    obtain ⟨c, hc, hs⟩ := ih4 h
    exact XSub.union_r hc hs
  · intro e f ih h
    unfcx h
    exact XSub.array (ih h)
  · intro a q h1 h2 h3 h4 h5 h6 ih h
    unfcx h
    exact XSub.annot_r (ih h)
  · intro a b h1 h2 h3 h4 h5 h6 h7 h8 ih h
    unfcx h
    cases b <;> simp_all [compatX]
    exact XSub.array_nd
  · intro a f h1 h2 h3 h4 h5 h6 h7 ih h
    unfcx h
    cases a <;> simp_all [compatX]
    exact XSub.nd_array
  · intro x y h
    unfcx h
    exact XSub.base h
  · intro vs ws h
    unfcx h
    exact XSub.lit (litSub_iff.mp h)
  · intro g as h' bs ih h
    unfcx h
    simp only [Bool.and_eq_true, Bool.or_eq_true, beq_iff_eq, List.isEmpty_iff] at h
    obtain ⟨rfl, h⟩ := h
    rcases h with (rfl | rfl) | ⟨hl, hz⟩
    · exact XSub.gen_bare_l
    · exact XSub.gen_bare_r
    · exact XSub.gen hl (ih hz)
  · intro s t ih h
    unfcx h
    exact XSub.vt (ih h)
  · intro g as t ih h
    unfcx h
    simp only [Bool.and_eq_true, beq_iff_eq] at h
    obtain ⟨rfl, h⟩ := h
    exact XSub.tuple_vt (ih h)
  · intro a g bs h
    unfcx h
    simp only [Bool.and_eq_true, beq_iff_eq, List.isEmpty_iff] at h
    obtain ⟨rfl, rfl⟩ := h
    exact XSub.vt_bare
  · intro _; exact XSub.refl
  · intro x y
    intros
    rename_i h
    unfcx h
  · intro a as b bs ih1 ih2 h p hp
    rw [compatZipX] at h
    simp only [Bool.and_eq_true] at h
    simp only [List.zip_cons_cons, List.mem_cons] at hp
    rcases hp with rfl | hp
    · exact ih1 h.1
    · exact ih2 h.2 p hp
  · intro x y hne _ p hp
    match x, y, hp with
    | [], _, hp => simp at hp
    | _ :: _, [], hp => simp at hp
    | a :: as, b :: bs, _ => exact absurd rfl (hne a as b bs rfl)
  · intro x _ a ha; simp at ha
  · intro a as b ih1 ih3 h a' ha'
    rw [compatAllX] at h
    simp only [Bool.and_eq_true] at h
    simp only [List.mem_cons] at ha'
    rcases ha' with rfl | ha'
    · exact ih1 h.1
    · exact ih3 h.2 a' ha'
  · intro x h; rw [compatAnyX] at h; exact absurd h (by decide)
  · intro a b bs ih1 ih4 h
    rw [compatAnyX] at h
    simp only [Bool.or_eq_true] at h
    rcases h with h | h
    · exact ⟨b, List.mem_cons_self, ih1 h⟩
    · obtain ⟨c, hc, hs⟩ := ih4 h
      exact ⟨c, List.mem_cons_of_mem _ hc, hs⟩

/-- `compatX` accepts everything `XSub` derives. -/
theorem xsub_compatX {a b : XTy} (h : XSub a b) : compatX a b = true := by
  induction h with
  | refl => exact compatX_refl _
  | any_r => exact compatX_any_r _
  | noann_l => exact compatX_noann_l _
  | noann_r => exact compatX_noann_r _
  | tv_l h => exact compatX_tv_l _ h
  | tv_free => exact compatX_tvFree_r _
  | tv_bound _ ih => rw [compatX_tvBound]; exact ih
  | tv_constr hc _ ih => exact compatX_tvConstr_intro hc ih
  | base h => unfgx
  | gen hl _ ih =>
    unfgx
    simp only [beq_self_eq_true, Bool.true_and, Bool.or_eq_true, Bool.and_eq_true, beq_iff_eq]
    exact Or.inr ⟨hl, compatZipX_of ih⟩
  | gen_bare_l => unfgx; simp
  | gen_bare_r => unfgx; simp
  | union_l _ ih => exact (compatX_union_l _ _).mpr ih
  | union_r hb _ ih => exact compatX_union_r hb ih
  | annot_l _ ih => rw [compatX]; exact ih
  | annot_r _ ih => exact compatX_annot_r ih
  | array _ ih => unfgx
  | array_nd => unfgx; unfgx
  | nd_array => unfgx; unfgx
  | lit h => unfgx; exact litSub_iff.mpr h
  | vt _ ih => unfgx
  | tuple_vt _ ih => unfgx; simp [compatAllX_iff]; exact ih
  | vt_bare => unfgx; simp


end PF.Typing
