import PfModel.Lemmas.RewriteAxisFinal
import PfModel.Lemmas.RewriteTotal3
/-!
`add_mapspec_axis` (part 13): the acyclicity witness `HeightF` from the model's own Kahn check `acyclic fs = true`
(through the rank of `acyclic_rank`, reversed and normalised by counting).
-/
namespace PF.Rw
open PF PF.Map

theorem heightF_of_rank (fs : List RFunc) (hne : ∀ g ∈ fs, g.core.outputs ≠ []) (rank : String → Nat) (hac : AcyclicR fs rank) :
    HeightF fs (fun os => fs.length - (fs.filter (fun g => decide (frank rank g < minRank rank os))).length) := by
  have hn : ∀ g, (fs.filter (fun x => decide (frank rank x < minRank rank g.core.outputs))).length = nrank fs rank g := fun _ => rfl
  refine ⟨?_, ?_⟩
  · intro g hg y hy g' hg' hyg'
    simp only [hn]
    obtain ⟨q, hq⟩ : ∃ q, q ∈ g.core.outputs := by
      cases hgo : g.core.outputs with
      | nil => exact absurd hgo (hne g hg)
      | cons o os => exact ⟨o, List.mem_cons_self⟩
    have h1 := frank_lt fs rank hac g hg q hq y hy g' hg' hyg'
    have h2 := nrank_lt fs rank g' g hg' h1
    have h3 := nrank_lt_length fs rank g hg
    omega
  · intro g _
    exact Nat.sub_le _ _

/-- the Kahn check of the model gives the acyclicity witness `add_mapspec_axis` needs -/
theorem heightF_of_acyclic (fs : List RFunc) (hu : UniqueOutR fs) (hne : ∀ g ∈ fs, g.core.outputs ≠ []) (h : acyclic fs = true) :
    ∃ ht, HeightF fs ht := by
  obtain ⟨rank, hac⟩ := acyclic_rank fs hu h
  exact ⟨_, heightF_of_rank fs hne rank hac⟩

/-- **the pointwise-lifting clause of C10** for `add_mapspec_axis(p, axis)`, `p` given as the array of the variants `vs`,
    `Rn n` the result of `Pipeline.map` of the ORIGINAL pipeline for `p = vs[n]`: `map` of the lifted pipeline runs, and for
    every output `o` of the pipeline —
    * `o` depends on `p` ⇒ its value (and what the run folder holds for it) is the array of shape `[K]` whose `n`-th slice is
      the original result for `p = vs[n]`;
    * `o` does not depend on `p` ⇒ its value is what the original returns, for every variant;
    * the lifted run returns a value for exactly the names the original runs return one for. -/
def PointwiseLift (fs : List RFunc) (p axis : String) (vs : List Val) (rest : List (String × Val)) (ui : List (String × List Nat))
    (Rn : Nat → MapResult) : Prop :=
  ∃ R', runMap ((addAxis p axis fs).map toMFunc) ((p, .arr [vs.length] vs) :: rest) ui = .ok R' ∧
    (∀ g ∈ fs, ∀ o ∈ g.core.outputs, Reach fs p o →
      (∀ v', alookup R'.outputs o = some v' →
        v' = .arr [vs.length] ((List.range vs.length).map fun n => (alookup (Rn n).outputs o).getD .none)) ∧
      (∀ v', alookup R'.stored o = some v' →
        v' = .arr [vs.length] ((List.range vs.length).map fun n => (alookup (Rn n).stored o).getD .none))) ∧
    (∀ g ∈ fs, ∀ o ∈ g.core.outputs, ¬ Reach fs p o → ∀ n, n < vs.length →
      alookup R'.outputs o = alookup (Rn n).outputs o ∧ alookup R'.stored o = alookup (Rn n).stored o) ∧
    (∀ x n, n < vs.length → (alookup R'.outputs x).isSome = (alookup (Rn n).outputs x).isSome ∧
      (alookup R'.stored x).isSome = (alookup (Rn n).stored x).isSome)

end PF.Rw
