/-
Model of lazy pipelines: `pipefunc/lazy.py` (`_LazyFunction`, `construct_dag`, `evaluate_lazy`) and the lazy branches of
`Pipeline._run` (`pipefunc/_pipeline/_base.py:507-569`), `_execute_func` (`:2015-2023`), `_update_all_results` (`:1995-2012`),
`_current_cache` (`:508-512`), `_intermediate_supplied` (`:514-527`) and `compute_cache_key/get_result_from_cache/update_cache`
(`pipefunc/_pipeline/_cache.py:52-133`).  The cache key is the one of `PF.PipeCache.computeKey` (C09's model of the same lines).

The lazy layer sits on top of `PF.Pipe`: functions, `producer`, `resolve` (argument precedence), `outVals`, `result`, the error
type and the specification `compose` are the eager model's.  What is new is the *node table*: every `_LazyFunction` gets the
next value of the global counter `_LazyFunction._counter` as its id (`lazy.py:38-39`); here the id is the position in the table.
Core Lean only.
-/
import PfModel.Model.Pipeline
import PfModel.Model.PipeCache
namespace PF.Lazy
open PF PF.Pipe

/-- an argument of a deferred call: a plain value, or another `_LazyFunction` (by id) -/
inductive LArg
  | val (v : Val)
  | ref (id : Nat)
  deriving Repr, Inhabited

/-- a `_LazyFunction` (`lazy.py:18-39`) as the pipeline creates it -/
inductive Node
  /-- `_LazyFunction(func, kwargs=func_args)` (`_execute_func`, `_base.py:2016-2017`); the arguments are keyed by the wrapped
      function's own parameter names (`PipeFunc.__call__` applies the inverse renames, `_pipefunc.py:645-646`) -/
  | call (f : Func) (args : List (String × LArg))
  /-- `_LazyFunction(func.output_picker, args=(r, name))` (`_update_all_results`, `_base.py:2006-2010`) -/
  | pick (f : Func) (src : LArg) (name : String)
  deriving Repr, Inhabited

/-- the `_LazyFunction`s among the positional and keyword arguments of a node (what `add_edge` looks at, `lazy.py:45-58`) -/
def argRefs : List (String × LArg) → List Nat
  | [] => []
  | (_, .ref i) :: r => i :: argRefs r
  | (_, .val _) :: r => argRefs r

def Node.refs : Node → List Nat
  | .call _ args => argRefs args
  | .pick _ (.ref i) _ => [i]
  | .pick _ (.val _) _ => []

/-- the cache key of `compute_cache_key` (`_cache.py:52-95`): the function's output name(s) and the values of the root arguments -/
abbrev Key := List String × List (String × Val)

/-- `TaskGraph` (`lazy.py:78-83`): the graph under construction and the cache that lives as long as the `construct_dag()` block -/
structure TG where
  gnodes : List Nat                 -- `graph.add_node(self._id, …)`
  edges : List (Nat × Nat)          -- `graph.add_edge(arg._id, self._id)`, in registration order
  cache : List (Key × LArg)         -- `SimpleCache`: most recent `put` first
  deriving Repr, Inhabited

/-- per-node memo and the log of invocations -/
structure ESt where
  done : List (Nat × Val)           -- nodes with `_evaluated = True`, with their `_result`
  log : List Nat                    -- ids of the nodes whose function has been invoked, oldest first
  deriving Repr, Inhabited

structure LSt where
  memo : List (String × LArg)       -- `all_results` of the current call (seeded with the keyword arguments)
  used : List String                -- `used_parameters`
  usedNone : Bool                   -- `None in used_parameters`: some result came from the cache (`_cache.py:131`)
  nodes : List Node                 -- every `_LazyFunction` created so far; id = position (`_LazyFunction._counter`)
  tg : Option TG                    -- `_TASK_GRAPH` (`lazy.py:97`)
  ev : ESt                          -- the `_evaluated/_result` slots of all nodes, and the call log
  own : Option (List (Key × LArg)) := none
                                    -- `Pipeline.cache`: the lazy pipeline's own cache (`create_cache`, `_cache.py:19-49`; `None` when
                                    -- `cache_type=None` and no function has `cache=True`), below its size limit: most recent `put` first
  cfn : List (List String) := []    -- the output names of the functions with `cache=True` (`PipeFunc.cache`; constant)
  deriving Repr, Inhabited

/-- `_LazyFunction.__init__` (`lazy.py:25-58`): take the next id; under `construct_dag()` add the node and one edge per
    argument that is itself a `_LazyFunction` -/
def mkNode (nd : Node) (s : LSt) : Nat × LSt :=
  let id := s.nodes.length
  (id, { s with
    nodes := s.nodes ++ [nd],
    tg := match s.tg with
      | none => none
      | some g => some { g with gnodes := g.gnodes ++ [id], edges := g.edges ++ nd.refs.map (fun a => (a, id)) } })

/-! ### values: structural equality (cache keys are compared with `==`) -/
mutual
def vbeq : Val → Val → Bool
  | .int a, .int b => a == b
  | .str a, .str b => a == b
  | .none, .none => true
  | .masked, .masked => true
  | .app f a, .app g b => f == g && kbeq a b
  | .pick v o, .pick w p => vbeq v w && o == p
  | .proj v i, .proj w j => vbeq v w && i == j
  | .arr s a, .arr t b => s == t && lbeq a b
  | .tup a, .tup b => lbeq a b
  | _, _ => false
def lbeq : List Val → List Val → Bool
  | [], [] => true
  | a :: as, b :: bs => vbeq a b && lbeq as bs
  | _, _ => false
def kbeq : List (String × Val) → List (String × Val) → Bool
  | [], [] => true
  | (k, a) :: as, (l, b) :: bs => k == l && vbeq a b && kbeq as bs
  | _, _ => false
end

def keq (k k' : Key) : Bool := k.1 == k'.1 && kbeq k.2 k'.2

def cacheGet : List (Key × LArg) → Key → Option LArg
  | [], _ => none
  | (k, a) :: r, k' => if keq k k' then some a else cacheGet r k'

/-- (the pinned code, before the repairs 0741b81 and the bound-shadowing one; kept for reference, used by nothing)
    `_func_defaults | flat_scope_kwargs | func._bound` looked up at one name -/
def keyArg (fs : List Func) (kw : List (String × Val)) (f : Func) (p : String) : Option Val :=
  match alookup f.bound p with
  | some v => some v
  | none =>
    match alookup kw p with
    | some v => some v
    | none =>
      match alookup f.defaults p with
      | some v => some v
      | none => if (akeys f.params).contains p then pdefault fs p else none

def keyItems (fs : List Func) (kw : List (String × Val)) (f : Func) : List String → Option (List (String × Val))
  | [] => some []
  | p :: ps =>
    match keyArg fs kw f p, keyItems fs kw f ps with
    | some v, some r => some ((p, v) :: r)
    | _, _ => none

/-- `compute_cache_key(func.output_name, self._func_defaults(func) | flat_scope_kwargs, self.root_args(output_name))`, set to `None`
    by `_intermediate_supplied` (`_base.py:549-560`): `PF.PipeCache.computeKey` with the values themselves as hashable stand-ins.
    `None` when a root argument has no value here or a keyword supplies an output of an upstream function. -/
def cacheKey (fs : List Func) (kw : List (String × Val)) (f : Func) (o : String) : Option Key :=
  match PipeCache.computeKey (fun v => v) fs kw f o with
  | none => none
  | some K => some (K.outs, K.items)

/-- `use_cache = (func.cache and cache is not None) or task_graph() is not None` (`_base.py:543-544`) -/
def useCache (f : Func) (s : LSt) : Bool := s.tg.isSome || (s.cfn.contains f.outputs && s.own.isSome)

/-- the key `_run` works with: none unless `use_cache` (`_base.py:547-560`) -/
def activeKey (fs : List Func) (kw : List (String × Val)) (f : Func) (o : String) (s : LSt) : Option Key :=
  if useCache f s then cacheKey fs kw f o else none

/-- `_current_cache()` (`_base.py:508-512`): the task graph's cache inside `construct_dag()`, else the pipeline's own -/
def curCache (s : LSt) : Option (List (Key × LArg)) :=
  match s.tg with
  | some g => some g.cache
  | none => s.own

/-- `get_result_from_cache` (`_cache.py:126-127`): `cache_key is not None and cache_key in cache`, then `cache.get` -/
def cacheLookup (s : LSt) : Option Key → Option LArg
  | none => none
  | some k => match curCache s with
    | none => none
    | some c => cacheGet c k

/-- `update_cache` (`_cache.py:98-109`, `_base.py:588-590`) on the current cache -/
def cachePut (key : Option Key) (a : LArg) (s : LSt) : LSt :=
  match key with
  | none => s
  | some k =>
    match s.tg with
    | some g => { s with tg := some { g with cache := (k, a) :: g.cache } }
    | none =>
      match s.own with
      | some c => { s with own := some ((k, a) :: c) }
      | none => s

/-- the `for name in func.output_name` loop of `_update_all_results` in lazy mode: one pick node per output name -/
def mkPicks (f : Func) (src : LArg) : List String → LSt → List (String × LArg) × LSt
  | [], s => ([], s)
  | o :: os, s =>
    let (id, s1) := mkNode (.pick f src o) s
    let (rest, s2) := mkPicks f src os s1
    ((o, .ref id) :: rest, s2)

/-- `_update_all_results(func, r, output_name, all_results, lazy=True)` when a single name was requested
    (`_base.py:1995-2012`); an assignment overwrites an existing key, so the new entries go in front (the names of one output
    tuple are distinct) -/
def updateAll (f : Func) (r : LArg) (s : LSt) : LSt :=
  match f.outputs with
  | [o] => { s with memo := (o, r) :: s.memo }
  | os =>
    let (picks, s1) := mkPicks f r os s
    { s1 with memo := picks ++ s1.memo }

/-- `_get_func_args` (`_base.py:475-505`) with lazy upstream results -/
def largs (rec : String → LSt → Except Err (LArg × LSt)) (fs : List Func) (kw : List (String × Val)) (f : Func) :
    List (String × String) → LSt → Except Err (List (String × LArg) × LSt)
  | [], s => .ok ([], s)
  | (p, orig) :: ps, s =>
    match resolve fs kw f p with
    | .missing => .error (.missing p)
    | .val v =>
      match largs rec fs kw f ps { s with used := s.used ++ [p] } with
      | .error e => .error e
      | .ok (rest, s2) => .ok ((orig, .val v) :: rest, s2)
    | .upstream =>
      match rec p s with
      | .error e => .error e
      | .ok (a, s1) =>
        match largs rec fs kw f ps { s1 with used := s1.used ++ [p] } with
        | .error e => .error e
        | .ok (rest, s2) => .ok ((orig, a) :: rest, s2)

/-- `Pipeline._run` with `lazy=True` for a single output name (`_base.py:513-569`): memo, task-graph cache, arguments,
    `_execute_func` (a new node instead of a call), cache update, `_update_all_results` -/
def lrun (fs : List Func) (kw : List (String × Val)) : Nat → String → LSt → Except Err (LArg × LSt)
  | 0, _, _ => .error .fuel
  | n+1, o, s =>
    match alookup s.memo o with
    | some a => .ok (a, s)
    | none =>
      match producer fs o with
      | none => .error (.noFunc o)
      | some f =>
        match cacheLookup s (activeKey fs kw f o s) with
        | some r =>
          -- `get_result_from_cache` (`_cache.py:126-132`): the cached `_LazyFunction` is shared
          let s1 := updateAll f r { s with usedNone := true }
          match alookup s1.memo o with
          | some a => .ok (a, s1)
          | none => .error (.noFunc o)
        | none =>
          match largs (lrun fs kw n) fs kw f f.params s with
          | .error e => .error e
          | .ok (args, s1) =>
            let (id, s2) := mkNode (.call f args) s1
            let s3 := updateAll f (.ref id) (cachePut (activeKey fs kw f o s) (.ref id) s2)
            match alookup s3.memo o with
            | some a => .ok (a, s3)
            | none => .error (.noFunc o)

/-- `Pipeline.run(output_name, kwargs=kw)` of a lazy pipeline (`_base.py:571-629`).  The session state (node table, task
    graph, evaluation memo) persists; memo and used-parameter set are per call. -/
def lrunTop (fs : List Func) (kw : List (String × Val)) (req : Req) (s : LSt) : Except Err (LArg × LSt) :=
  let s0 : LSt := { s with memo := kw.map fun (k, v) => (k, .val v), used := [], usedNone := false }
  let finish (a : LArg) (s : LSt) : Except Err (LArg × LSt) :=
    let unused := (akeys kw).filter (fun k => !(s.used.contains k))
    if s.usedNone || unused.isEmpty then .ok (a, s) else .error (.unused unused)
  match req with
  | .name o =>
    if (alookup kw o).isSome then .error .outputInKwargs else
    match lrun fs kw (fuelFor fs) o s0 with
    | .error e => .error e
    | .ok (a, s1) => finish a s1
  | .whole os =>
    -- the whole tuple of one function: `_update_all_results` stores `r` itself under the tuple key
    match fs.find? (fun f => f.outputs = os) with
    | none => .error (.noFunc (",".intercalate os))
    | some f =>
      let key := match os with | o :: _ => activeKey fs kw f o s0 | [] => none
      match cacheLookup s0 key with
      | some r => finish r { s0 with usedNone := true }
      | none =>
        match largs (lrun fs kw (fuelFor fs)) fs kw f f.params s0 with
        | .error e => .error e
        | .ok (args, s1) =>
          let (id, s2) := mkNode (.call f args) s1
          finish (.ref id) (cachePut key (.ref id) s2)

/-- entering / leaving `with construct_dag()` (`lazy.py:86-94`) -/
def enterDag (s : LSt) : LSt := { s with tg := some ⟨[], [], []⟩ }
def exitDag (s : LSt) : LSt := { s with tg := none }

/-! ### evaluation -/

inductive EErr | fuel | dangling (id : Nat) | notTuple
  deriving Repr, DecidableEq

def dlookup : List (Nat × Val) → Nat → Option Val
  | [], _ => none
  | (k, v) :: r, i => if k = i then some v else dlookup r i

/-- `_default_output_picker` (`_pipefunc.py`): `output[output_name.index(name)]` -/
def pickVal (os : List String) (name : String) : Val → Option Val
  | .tup vs => alookup (os.zip vs) name
  | _ => none

/-- `evaluate_lazy` on one argument (`lazy.py:105-108, 117`): a `_LazyFunction` is evaluated, anything else handed over as it is -/
def evalArg (rec : Nat → ESt → Except EErr (Val × ESt)) : LArg → ESt → Except EErr (Val × ESt)
  | .val v, s => .ok (v, s)
  | .ref i, s => rec i s

/-- `evaluate_lazy(self.kwargs)` (`lazy.py:109-110`): the dict's values in insertion order -/
def evalArgs (rec : Nat → ESt → Except EErr (Val × ESt)) : List (String × LArg) → ESt → Except EErr (List (String × Val) × ESt)
  | [], s => .ok ([], s)
  | (k, a) :: r, s =>
    match evalArg rec a s with
    | .error e => .error e
    | .ok (v, s1) =>
      match evalArgs rec r s1 with
      | .error e => .error e
      | .ok (vs, s2) => .ok ((k, v) :: vs, s2)

/-- `_LazyFunction.evaluate` (`lazy.py:60-69`): return the memoised result, else evaluate the arguments, invoke the function,
    store the result and set the flag.  The fuel bounds the recursion depth (ids decrease along arguments). -/
def eval (nodes : List Node) : Nat → Nat → ESt → Except EErr (Val × ESt)
  | 0, _, _ => .error .fuel
  | n+1, id, s =>
    match dlookup s.done id with
    | some v => .ok (v, s)
    | none =>
      match nodes[id]? with
      | none => .error (.dangling id)
      | some (.call f args) =>
        match evalArgs (eval nodes n) args s with
        | .error e => .error e
        | .ok (vals, s1) =>
          let r := result f vals
          .ok (r, { done := (id, r) :: s1.done, log := s1.log ++ [id] })
      | some (.pick f src name) =>
        match evalArg (eval nodes n) src s with
        | .error e => .error e
        | .ok (v, s1) =>
          match pickVal f.outputs name v with
          | none => .error .notTuple
          | some r => .ok (r, { done := (id, r) :: s1.done, log := s1.log ++ [id] })

/-- `x.evaluate()` on what a lazy call returned -/
def evaluate (a : LArg) (s : LSt) : Except EErr (Val × LSt) :=
  match evalArg (eval s.nodes (s.nodes.length + 1)) a s.ev with
  | .error e => .error e
  | .ok (v, e) => .ok (v, { s with ev := e })

/-- the user-function calls in a log: names of the call nodes, in order (pick nodes invoke `output_picker`, not user code) -/
def callNames (nodes : List Node) (log : List Nat) : List String :=
  log.filterMap fun i => match nodes[i]? with
    | some (Node.call f _) => some f.name
    | _ => none

/-! ### the pure denotation of the table (no memo, no log): the value every node stands for -/

def denArg (vals : List (Option Val)) : LArg → Option Val
  | .val v => some v
  | .ref i => (vals[i]?).join

def denArgs (vals : List (Option Val)) : List (String × LArg) → Option (List (String × Val))
  | [] => some []
  | (k, a) :: r =>
    match denArg vals a, denArgs vals r with
    | some v, some vs => some ((k, v) :: vs)
    | _, _ => none

def nodeVal (vals : List (Option Val)) : Node → Option Val
  | .call f args => (denArgs vals args).map (result f)
  | .pick f src name => (denArg vals src).bind (pickVal f.outputs name)

def denAcc : List Node → List (Option Val) → List (Option Val)
  | [], acc => acc
  | nd :: rest, acc => denAcc rest (acc ++ [nodeVal acc nd])

/-- the value of every node, in id order -/
def denAll (nodes : List Node) : List (Option Val) := denAcc nodes []

/-- what an argument stands for in a table -/
def den (nodes : List Node) (a : LArg) : Option Val := denArg (denAll nodes) a

end PF.Lazy
