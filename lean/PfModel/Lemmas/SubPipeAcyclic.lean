import PfModel.Lemmas.MapOrder
import PfModel.Lemmas.ValidateShapes
/-! A sub-list of an acyclic pipeline (unique function names, unique output names) is acyclic. -/
namespace PF.C01
open PF PF.Map

theorem nodupB_nodup : ∀ l : List String, nodupB l = true → l.Nodup
  | [], _ => List.nodup_nil
  | a :: l, h => by
    simp only [nodupB, Bool.and_eq_true, Bool.not_eq_true', List.contains_eq_mem, decide_eq_false_iff_not] at h
    exact List.nodup_cons.mpr ⟨h.1, nodupB_nodup l h.2⟩

theorem name_unique (fs : List MFunc) (hn : (fs.map (·.name)).Nodup) (f g : MFunc) (hf : f ∈ fs) (hg : g ∈ fs)
    (h : f.name = g.name) : f = g := by
  induction fs with
  | nil => cases hf
  | cons a t ih =>
    simp only [List.map_cons, List.nodup_cons, List.mem_map, not_exists, not_and] at hn
    rcases List.mem_cons.mp hf with hfa | hf' <;> rcases List.mem_cons.mp hg with hga | hg'
    · rw [hfa, hga]
    · rw [hfa] at h; exact absurd h.symm (hn.1 g hg')
    · rw [hga] at h; exact absurd h (hn.1 f hf')
    · exact ih hn.2 hf' hg'

theorem producer_of_mem (fs : List MFunc) (ho : (allOutputs fs).Nodup) (g : MFunc) (p : String) (hg : g ∈ fs)
    (hp : p ∈ g.outputs) : producer fs p = some g := by
  induction fs with
  | nil => cases hg
  | cons a t ih =>
    simp only [allOutputs, List.flatMap_cons] at ho
    have hd := List.nodup_append.mp ho
    simp only [producer, List.find?_cons]
    by_cases hpa : p ∈ a.outputs
    · simp only [hpa, decide_true]
      rcases List.mem_cons.mp hg with hga | hg'
      · rw [hga]
      · exfalso
        exact hd.2.2 p hpa p (List.mem_flatMap.mpr ⟨g, hg', hp⟩) rfl
    · simp only [hpa, decide_false]
      rcases List.mem_cons.mp hg with hga | hg'
      · subst hga; exact absurd hp hpa
      · have := ih hd.2.1 hg'
        simpa only [producer] using this

theorem mem_upstream (fs : List MFunc) (f : MFunc) (g : String) :
    g ∈ upstream fs f ↔ ∃ p o, (p, o) ∈ f.params ∧ (alookup f.bound p).isSome = false ∧
      ∃ h, producer fs p = some h ∧ h.name = g := by
  simp only [upstream, List.mem_filterMap]
  constructor
  · rintro ⟨⟨p, o⟩, hm, hx⟩
    by_cases hb : (alookup f.bound p).isSome = true
    · simp [hb] at hx
    · simp only [hb] at hx
      simp only [Bool.false_eq_true, if_false, Option.map_eq_some_iff] at hx
      exact ⟨p, o, hm, by simpa using hb, hx⟩
  · rintro ⟨p, o, hm, hb, h, hp, hn⟩
    refine ⟨(p, o), hm, ?_⟩
    simp [hb, hp, hn]

theorem layers_avoid (fs : List MFunc) (hn : (fs.map (·.name)).Nodup) (R : List MFunc) (hR : ∀ f ∈ R, f ∈ fs)
    (hc : ∀ f ∈ R, ∃ g ∈ R, g.name ∈ upstream fs f) :
    ∀ fuel done rest, (∀ f ∈ R, f.name ∉ done) → (∀ f ∈ rest, f ∈ fs) →
      ∀ G ∈ layers fs fuel done rest, ∀ f ∈ G, f ∉ R := by
  intro fuel
  induction fuel with
  | zero => intro done rest _ _ G hG; simp [layers] at hG
  | succ n ih =>
    intro done rest hd hr G hG f hf hfR
    simp only [layers] at hG
    split at hG
    · cases hG
    · split at hG
      · cases hG
      · have hready : ∀ x ∈ rest.filter (fun f => (upstream fs f).all fun g => done.contains g), x ∉ R := by
          intro x hx hxR
          obtain ⟨g, hgR, hgu⟩ := hc x hxR
          have h1 := (List.mem_filter.mp hx).2
          rw [List.all_eq_true] at h1
          have h2 := h1 _ hgu
          exact hd g hgR (by simpa using h2)
        rcases List.mem_cons.mp hG with hG | hG
        · subst hG; exact hready f hf hfR
        · refine ih _ _ ?_ ?_ G hG f hf hfR
          · intro x hxR hx
            rcases List.mem_append.mp hx with hx | hx
            · exact hd x hxR hx
            · obtain ⟨y, hy, hyn⟩ := List.mem_map.mp hx
              have hyx : y = x := name_unique fs hn y x (hr y (List.mem_filter.mp hy).1) (hR x hxR) hyn
              exact hready y hy (hyx ▸ hxR)
          · intro x hx; exact hr x (List.mem_filter.mp hx).1

theorem filter_split (l : List MFunc) (p : MFunc → Bool) :
    (l.filter p).length + (l.filter (fun x => !p x)).length = l.length := by
  induction l with
  | nil => rfl
  | cons a t ih => by_cases h : p a = true <;> simp [h] <;> omega

theorem ready_count (l : List MFunc) (hn : (l.map (·.name)).Nodup) (p : MFunc → Bool) :
    (l.filter p).length + (l.filter (fun f => !((l.filter p).any (·.name = f.name)))).length = l.length := by
  have : l.filter (fun f => !((l.filter p).any (·.name = f.name))) = l.filter (fun x => !p x) := by
    apply List.filter_congr
    intro f hf
    congr 1
    rw [Bool.eq_iff_iff]
    simp only [List.any_eq_true, decide_eq_true_eq]
    constructor
    · rintro ⟨y, hy, hyn⟩
      have := name_unique l hn y f (List.mem_filter.mp hy).1 hf hyn
      subst this; exact (List.mem_filter.mp hy).2
    · intro h; exact ⟨f, List.mem_filter.mpr ⟨hf, h⟩, rfl⟩
  rw [this]; exact filter_split l p

theorem kahn (fs sub : List MFunc) (hs : sub.Sublist fs) (hn : (fs.map (·.name)).Nodup)
    (ho : (allOutputs fs).Nodup) (hac : acyclic fs = true) :
    ∀ fuel done rest, rest.Sublist sub → (∀ f ∈ sub, f ∈ rest ∨ f.name ∈ done) → rest.length < fuel →
      (layers sub fuel done rest).flatten.length = rest.length := by
  intro fuel
  induction fuel with
  | zero => intro _ rest _ _ h; omega
  | succ n ih =>
    intro done rest hrs hinv hlen
    have hrn : (rest.map (·.name)).Nodup := ((hrs.trans hs).map _).nodup hn
    have hcount := ready_count rest hrn (fun f => (upstream sub f).all fun g => done.contains g)
    simp only [layers]
    split
    · rename_i he; simp [List.isEmpty_iff.mp he]
    · rename_i hne
      split
      · rename_i hre
        exfalso
        have hre' := List.isEmpty_iff.mp hre
        have hclosed : ∀ f ∈ rest, ∃ g ∈ rest, g.name ∈ upstream fs f := by
          intro f hf
          have hnr : ¬ ((upstream sub f).all fun g => done.contains g) = true := by
            intro hall
            have : f ∈ rest.filter (fun f => (upstream sub f).all fun g => done.contains g) :=
              List.mem_filter.mpr ⟨hf, hall⟩
            rw [hre'] at this; cases this
          rw [List.all_eq_true] at hnr
          obtain ⟨g, hg⟩ := Classical.not_forall.mp hnr
          obtain ⟨hgu, hgd⟩ := Classical.not_imp.mp hg
          obtain ⟨p, o, hm, hb, h, hp, hhn⟩ := (mem_upstream sub f g).mp hgu
          have hhsub : h ∈ sub := List.mem_of_find?_eq_some hp
          have hpo : p ∈ h.outputs := by
            have := List.find?_some hp
            simpa using this
          have hpf : producer fs p = some h := producer_of_mem fs ho h p (hs.subset hhsub) hpo
          refine ⟨h, ?_, (mem_upstream fs f h.name).mpr ⟨p, o, hm, hb, h, hpf, rfl⟩⟩
          rcases hinv h hhsub with hh | hh
          · exact hh
          · exfalso; apply hgd; rw [← hhn]; simpa using hh
        have havoid := layers_avoid fs hn rest (fun f hf => hs.subset (hrs.subset hf)) hclosed
          (fs.length + 1) [] fs (by simp) (fun _ h => h)
        cases rest with
        | nil => simp at hne
        | cons f0 t =>
          have hmem := PF.Validate.mem_flatten_of_acyclic fs hac f0 (hs.subset (hrs.subset (List.mem_cons_self ..)))
          obtain ⟨G, hG, hfG⟩ := List.mem_flatten.mp hmem
          exact havoid G hG f0 hfG (List.mem_cons_self ..)
      · rename_i hre
        simp only [List.flatten_cons, List.length_append]
        rw [ih]
        · exact hcount
        · exact List.filter_sublist.trans hrs
        · intro f hf
          rcases hinv f hf with h | h
          · by_cases hany : ((rest.filter (fun f => (upstream sub f).all fun g => done.contains g)).any
                (·.name = f.name)) = true
            · right
              obtain ⟨y, hy, hyn⟩ := List.any_eq_true.mp hany
              exact List.mem_append.mpr (Or.inr (List.mem_map.mpr ⟨y, hy, by simpa using hyn⟩))
            · left; exact List.mem_filter.mpr ⟨h, by simpa using hany⟩
          · right; exact List.mem_append.mpr (Or.inl h)
        · have hpos : 0 < (rest.filter (fun f => (upstream sub f).all fun g => done.contains g)).length := by
            apply List.length_pos_iff.mpr
            intro h; apply hre; rw [h]; rfl
          omega

theorem acyclic_sublist (fs sub : List MFunc) (hs : sub.Sublist fs)
    (hn : nodupB (fs.map (·.name)) = true) (ho : nodupB (allOutputs fs) = true)
    (hac : acyclic fs = true) : acyclic sub = true := by
  have := kahn fs sub hs (nodupB_nodup _ hn) (nodupB_nodup _ ho) hac (sub.length + 1) [] sub
    (List.Sublist.refl _) (fun f h => Or.inl h) (by omega)
  unfold acyclic generations
  rw [this]; simp

end PF.C01
