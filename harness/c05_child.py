"""C05 child: one real `Pipeline.map` into a run folder, in a fresh interpreter (optionally under strace).

usage: python c05_child.py SPEC.json      SPEC = {"desc": mapgen-desc, "storage": "file_array"|"dict"|..., "folder": path, "cleanup": bool,
                                                  "log": path of the cross-process call log, "fail": {func: k} | null,
                                                  "mode": "seq" | "threads" | "perm" | "procs" | "procs-spawn" | "procs-forkserver", "picker": [func names with a dict-returning wrapper]}
prints one JSON line: {"ok": {"outputs": {name: value-json}}} or {"err": class, "msg": ...}
"""
from __future__ import annotations

import functools
import json
import sys

import pfimport  # noqa: F401  (first: blocks zarr, selects VERIF_REPO)
from pfimport import exc_enum
from pipefunc import PipeFunc, Pipeline

import mapgen
import terms


def build(desc, log, fail=None, picker=()):
    """`mapgen.build`, plus: functions named in `picker` return a dict {output: value} and use a custom `output_picker`."""
    pfs = []
    for f in desc["funcs"]:
        origs = [orig for _, orig in f["params"]]
        renames = {orig: p for p, orig in f["params"] if orig != p}
        inv = {p: orig for p, orig in f["params"]}
        sig_defaults = {inv[p]: terms.dec(v) for p, v in f["defaults"]}
        k = (fail or {}).get(f["name"])
        failer = (lambda kw, idx, k=k: terms.Fail(f"call {idx}") if idx == k else None) if k is not None else None
        fn = terms.make_func(f["name"], origs, f["outputs"], defaults=sig_defaults, internal_shape=tuple(f["ret"]) if f["ret"] else None,
                             log=log, fail=failer)
        on = f["outputs"][0] if len(f["outputs"]) == 1 else tuple(f["outputs"])
        kw = {}
        if f["bound"]:
            kw["bound"] = {p: terms.dec(v) for p, v in f["bound"]}
        if f["name"] in picker and len(f["outputs"]) > 1:
            outs = list(f["outputs"])

            def as_dict(*a, _fn=fn, _outs=outs, **k):
                return dict(zip(_outs, _fn(*a, **k)))
            functools.update_wrapper(as_dict, fn)
            fn = as_dict
            kw["output_picker"] = _pick_from_dict
        pfs.append(PipeFunc(fn, on, renames=renames, mapspec=f["mapspec_str"],
                            internal_shape=tuple(f["internal"]) if f["internal"] else None, **kw))
    return mapgen.quiet(Pipeline, pfs)


def _pick_from_dict(output, name):
    return output[name]


def main(spec):
    log = terms.CallLog(spec["log"])
    try:
        p = build(spec["desc"], log, spec.get("fail"), spec.get("picker") or ())
    except Exception as e:  # noqa: BLE001
        return {"err": exc_enum(e), "at": "construct", "msg": str(e)[:300]}
    mode = spec.get("mode", "seq")
    kw = {"parallel": False}
    ex = None
    if mode == "threads":
        from concurrent.futures import ThreadPoolExecutor
        ex = ThreadPoolExecutor(3); kw = {"parallel": True, "executor": ex}
    elif mode == "perm":
        # C03's permuting executor: the bodies of every generation run (in the parent) in a seeded random order
        import random

        import c03_permexec
        rnd = random.Random(spec.get("perm_seed", 0))

        def choose(n, _batch):
            order = list(range(n))
            rnd.shuffle(order)
            return order
        ex = c03_permexec.PermExecutor(c03_permexec.PermCore(choose, debounce=None)); kw = {"parallel": True, "executor": ex}
    elif mode in ("procs-spawn", "procs-forkserver"):
        import multiprocessing
        from concurrent.futures import ProcessPoolExecutor
        ex = ProcessPoolExecutor(2, mp_context=multiprocessing.get_context(mode[len("procs-"):])); kw = {"parallel": True, "executor": ex}
    elif mode == "procs":
        from concurrent.futures import ProcessPoolExecutor
        ex = ProcessPoolExecutor(2); kw = {"parallel": True, "executor": ex}
    storage = spec["storage"]
    if spec.get("other"):       # per-output storage mix: the listed functions use the other one of file_array / dict
        alt = "dict" if storage not in ("dict", "shared_memory_dict") else "file_array"
        storage = {"": storage}
        for f in spec["desc"]["funcs"]:
            if f["name"] in spec["other"]:
                storage[f["outputs"][0] if len(f["outputs"]) == 1 else tuple(f["outputs"])] = alt
    try:
        res = mapgen.quiet(p.map, mapgen.py_inputs(spec["desc"]), run_folder=spec["folder"],
                           internal_shapes=mapgen.internal_shapes_arg(spec["desc"]), storage=storage,
                           cleanup=bool(spec.get("cleanup")), **kw)
        return {"ok": {"outputs": {name: terms.enc(r.output) for name, r in res.items()}}}
    except terms.Fail as e:
        return {"err": "raised", "msg": str(e)[:300]}
    except Exception as e:  # noqa: BLE001
        # "gate": the refusal of `_compare_to_previous_run_info` (its message may be longer than the 300 characters kept)
        return {"err": exc_enum(e), "at": "map", "msg": f"{type(e).__name__}: {e}"[:300], "gate": "cleanup=False" in str(e)}
    finally:
        if ex is not None:
            ex.shutdown(wait=True, cancel_futures=True)


def serve():
    """Zygote: pipefunc is imported, nothing has run.  For every spec path read from stdin, fork a child that performs the
    run and prints its result; the zygote itself never runs a map, so every child starts from a pristine interpreter state."""
    import os
    for line in sys.stdin:
        path = line.strip()
        if not path:
            continue
        pid = os.fork()
        if pid == 0:
            code = 0
            try:
                with open(path) as fh:
                    out = main(json.load(fh))
                sys.stdout.write("C05RESULT " + json.dumps(out) + "\n")
                sys.stdout.flush()
            except BaseException as e:  # noqa: BLE001
                sys.stdout.write("C05RESULT " + json.dumps({"err": "ChildDied", "msg": repr(e)[:300]}) + "\n")
                sys.stdout.flush()
                code = 1
            os._exit(code)
        _, status = os.waitpid(pid, 0)
        sys.stdout.write(f"C05DONE {status}\n")
        sys.stdout.flush()


if __name__ == "__main__":
    if sys.argv[1] == "--server":
        serve()
        sys.exit(0)
    with open(sys.argv[1]) as fh:
        spec_ = json.load(fh)
    out = main(spec_)
    sys.stdout.write("C05RESULT " + json.dumps(out) + "\n")
    sys.stdout.flush()
