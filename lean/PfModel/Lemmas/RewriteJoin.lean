import PfModel.Model.RewriteJoin
import PfModel.Lemmas.RewriteSub
/-! Lemmas for `C10Join`: the constructor loop of `Pipeline.join` (`PF.Rw.Join.addAll`) accepts exactly when every `add` does; an
    operand's cone that the other operands do not touch evaluates in the joined pipeline as in the operand. -/
namespace PF.Rw.Join
open PF PF.Pipe PF.Rw

theorem addF_ok_iff (f : RFunc) (fs r : List RFunc) :
    addF f fs = .ok r ↔ r = fs ++ [f] ∧ f.core.outputs.any (allOutputs fs).contains = false ∧ outputIsParam [f] = false ∧
      scopesClash none (fs ++ [f]) = false ∧ consistentDefaults (fs ++ [f]) = true := by
  unfold addF validateP
  cases h1 : f.core.outputs.any (allOutputs fs).contains <;>
  cases h2 : outputIsParam [f] <;>
  cases h3 : scopesClash none (fs ++ [f]) <;>
  cases h4 : consistentDefaults (fs ++ [f]) <;> simp [eq_comm]

theorem addStep_ok_iff (acc : List RFunc) (f : RFunc) (r : List RFunc) :
    addStep acc f = .ok r ↔ r = acc ++ [f] ∧ addOK acc f = true := by
  unfold addStep
  cases h : addF f acc with
  | error e =>
    simp only [reduceCtorEq, false_iff, not_and]
    intro _ hok
    simp only [addOK, Bool.and_eq_true, Bool.not_eq_true'] at hok
    have := (addF_ok_iff f acc (acc ++ [f])).mpr ⟨rfl, hok.1.1.1.1, hok.1.1.1.2, hok.1.1.2, hok.1.2⟩
    rw [h] at this
    cases this
  | ok r' =>
    obtain ⟨rfl, a, b, c, d⟩ := (addF_ok_iff f acc r').mp h
    simp only []
    cases hac : acyclic (acc ++ [f]) <;> simp [addOK, a, b, c, d, hac, eq_comm]

theorem addAll_ok_iff (l : List RFunc) : ∀ (acc r : List RFunc),
    addAll acc l = .ok r ↔ r = acc ++ l ∧ ∀ pre f post, l = pre ++ f :: post → addOK (acc ++ pre) f = true := by
  induction l with
  | nil =>
    intro acc r
    simp only [addAll, Except.ok.injEq, List.append_nil]
    constructor
    · intro h
      refine ⟨h.symm, ?_⟩
      intro pre f post hl
      cases pre <;> cases hl
    · intro h; exact h.1.symm
  | cons g rest ih =>
    intro acc r
    simp only [addAll]
    cases hs : addStep acc g with
    | error e =>
      simp only [reduceCtorEq, false_iff, not_and]
      intro _ hall
      have h1 := hall [] g rest rfl
      rw [List.append_nil] at h1
      have := (addStep_ok_iff acc g (acc ++ [g])).mpr ⟨rfl, h1⟩
      rw [hs] at this
      cases this
    | ok acc' =>
      obtain ⟨rfl, hok⟩ := (addStep_ok_iff acc g acc').mp hs
      simp only []
      rw [ih (acc ++ [g]) r]
      constructor
      · rintro ⟨hr, hall⟩
        refine ⟨by rw [hr]; simp, ?_⟩
        intro pre f post hl
        cases pre with
        | nil =>
          simp only [List.nil_append, List.cons.injEq] at hl
          rw [List.append_nil, ← hl.1]
          exact hok
        | cons p pre' =>
          simp only [List.cons_append, List.cons.injEq] at hl
          have := hall pre' f post hl.2
          rw [← hl.1]
          simpa using this
      · rintro ⟨hr, hall⟩
        refine ⟨by rw [hr]; simp, ?_⟩
        intro pre f post hl
        have := hall (g :: pre) f post (by rw [hl]; rfl)
        simpa using this

theorem addAll_ok (l acc r : List RFunc) (h : addAll acc l = .ok r) : r = acc ++ l := ((addAll_ok_iff l acc r).mp h).1

/-- a function whose output name an earlier function already produces makes the constructor refuse -/
theorem addAll_overlap (acc pre : List RFunc) (g : RFunc) (post : List RFunc) (o : String)
    (hg : o ∈ g.core.outputs) (ho : o ∈ allOutputs (acc ++ pre)) : ∃ e, addAll acc (pre ++ g :: post) = .error e := by
  cases h : addAll acc (pre ++ g :: post) with
  | error e => exact ⟨e, rfl⟩
  | ok r =>
    have := ((addAll_ok_iff _ acc r).mp h).2 pre g post rfl
    simp only [addOK, Bool.and_eq_true, Bool.not_eq_true'] at this
    have h1 := this.1.1.1.1
    have : g.core.outputs.any (allOutputs (acc ++ pre)).contains = true := by
      rw [List.any_eq_true]
      exact ⟨o, hg, by simpa using ho⟩
    rw [this] at h1
    cases h1

/-! ### the cone of an output of ONE operand that the other operands do not touch -/

theorem eval_join_mid (as ms bs : List RFunc) (kw : List (String × Val)) (C : String → Prop)
    (hc : ConsistentDefaults (cores (as ++ ms ++ bs)))
    (hclosed : ∀ x f, C x → rproducer ms x = some f → ∀ p ∈ f.core.params, C p.1)
    (hfree : ∀ x, C x → ∀ g ∈ as ++ bs, x ∉ g.core.outputs ∧ ∀ v, (x, v) ∉ g.core.defaults) :
    ∀ (n : Nat) (o : String), C o → eval (as ++ ms ++ bs) kw n o = eval ms kw n o := by
  have hnone : ∀ x, C x → ∀ (l : List RFunc), (∀ g ∈ l, g ∈ as ++ bs) → l.find? (fun f => decide (x ∈ f.core.outputs)) = none := by
    intro x hx l hl
    rw [List.find?_eq_none]
    intro g hg
    simpa using (hfree x hx g (hl g hg)).1
  have hprod : ∀ x, C x → rproducer (as ++ ms ++ bs) x = rproducer ms x := by
    intro x hx
    unfold rproducer
    rw [List.find?_append, List.find?_append, hnone x hx as (fun g hg => List.mem_append_left _ hg),
      hnone x hx bs (fun g hg => List.mem_append_right _ hg), Option.or_none, Option.none_or]
  have hc0 : ConsistentDefaults (cores ms) := by
    apply consistent_sublist _ _ _ hc
    intro g hg
    obtain ⟨f, hf, rfl⟩ := List.mem_map.mp hg
    exact List.mem_map.mpr ⟨f, List.mem_append_left _ (List.mem_append_right _ hf), rfl⟩
  apply eval_cone ms (as ++ ms ++ bs) kw C hprod
  · intro x f hx hf p hpm
    have hCp := hclosed x f hx hf p hpm
    have hprod' : producer (cores (as ++ ms ++ bs)) p.1 = producer (cores ms) p.1 := by
      rw [producer_cores, producer_cores, hprod p.1 hCp]
    have hdef : pdefault (cores (as ++ ms ++ bs)) p.1 = pdefault (cores ms) p.1 := by
      apply pdefault_eq_of _ _ hc0 hc
      intro v
      rw [mem_pdefaults, mem_pdefaults, hprod']
      constructor
      · rintro ⟨c, hcm, a, b, d⟩
        obtain ⟨f', hf', rfl⟩ := List.mem_map.mp hcm
        rcases List.mem_append.mp hf' with h | h
        · rcases List.mem_append.mp h with h | h
          · exact absurd a ((hfree p.1 hCp f' (List.mem_append_left _ h)).2 v)
          · exact ⟨f'.core, List.mem_map.mpr ⟨f', h, rfl⟩, a, b, d⟩
        · exact absurd a ((hfree p.1 hCp f' (List.mem_append_right _ h)).2 v)
      · rintro ⟨c, hcm, a, b, d⟩
        obtain ⟨f', hf', rfl⟩ := List.mem_map.mp hcm
        exact ⟨f'.core, List.mem_map.mpr ⟨f', List.mem_append_left _ (List.mem_append_right _ hf'), rfl⟩, a, b, d⟩
    unfold resolve
    simp only [hprod', hdef]
  · intro x f hx hf p hpm _
    exact hclosed x f hx hf p hpm

/-- the same without any hypothesis on defaults, for keywords that supply every root argument of the cone: the pipeline-level
    default is then never consulted (`resolve`: bound value, keyword, producer, only then the default) -/
theorem eval_join_mid_kw (as ms bs : List RFunc) (kw : List (String × Val)) (C : String → Prop)
    (hclosed : ∀ x f, C x → rproducer ms x = some f → ∀ p ∈ f.core.params, alookup f.core.bound p.1 = none → C p.1)
    (hfree : ∀ x, C x → ∀ g ∈ as ++ bs, x ∉ g.core.outputs)
    (hkw : ∀ x f, C x → rproducer ms x = some f → ∀ p ∈ f.core.params, alookup f.core.bound p.1 = none →
      rproducer ms p.1 = none → ∃ v, alookup kw p.1 = some v) :
    ∀ (n : Nat) (o : String), C o → eval (as ++ ms ++ bs) kw n o = eval ms kw n o := by
  have hnone : ∀ x, C x → ∀ (l : List RFunc), (∀ g ∈ l, g ∈ as ++ bs) → l.find? (fun f => decide (x ∈ f.core.outputs)) = none := by
    intro x hx l hl
    rw [List.find?_eq_none]
    intro g hg
    simpa using hfree x hx g (hl g hg)
  have hprod : ∀ x, C x → rproducer (as ++ ms ++ bs) x = rproducer ms x := by
    intro x hx
    unfold rproducer
    rw [List.find?_append, List.find?_append, hnone x hx as (fun g hg => List.mem_append_left _ hg),
      hnone x hx bs (fun g hg => List.mem_append_right _ hg), Option.or_none, Option.none_or]
  apply eval_cone ms (as ++ ms ++ bs) kw C hprod
  · intro x f hx hf p hpm
    unfold resolve
    cases hb : alookup f.core.bound p.1 with
    | some v => rfl
    | none =>
      have hCp := hclosed x f hx hf p hpm hb
      have hprod' : producer (cores (as ++ ms ++ bs)) p.1 = producer (cores ms) p.1 := by
        rw [producer_cores, producer_cores, hprod p.1 hCp]
      rw [hprod']
      simp only []
      cases hk : alookup kw p.1 with
      | some v => rfl
      | none =>
        simp only []
        cases hpr : rproducer ms p.1 with
        | some g => simp [producer_cores, hpr]
        | none =>
          obtain ⟨v, hv⟩ := hkw x f hx hf p hpm hb hpr
          rw [hk] at hv
          cases hv
  · intro x f hx hf p hpm hu
    apply hclosed x f hx hf p hpm
    cases hb : alookup f.core.bound p.1 with
    | none => rfl
    | some v =>
      unfold resolve at hu
      rw [hb] at hu
      cases hu

/-! ### the decidable form: a closed list of names -/

theorem eval_join_mid_checked (as ms bs : List RFunc) (kw : List (String × Val)) (c : List String)
    (hcl : closedB ms c = true) (hun : untouchedB (as ++ bs) c = true) (hsup : suppliedB ms kw c = true) :
    ∀ (n : Nat) (o : String), o ∈ c → eval (as ++ ms ++ bs) kw n o = eval ms kw n o := by
  apply eval_join_mid_kw as ms bs kw (fun x => x ∈ c)
  · intro x f hx hf p hp hb
    simp only [closedB, List.all_eq_true] at hcl
    have := hcl x hx
    rw [hf] at this
    simp only [List.all_eq_true] at this
    have := this p hp
    rw [hb] at this
    simpa using this
  · intro x hx g hg
    simp only [untouchedB, List.all_eq_true] at hun
    simpa using hun x hx g hg
  · intro x f hx hf p hp hb hpr
    simp only [suppliedB, List.all_eq_true] at hsup
    have := hsup x hx
    rw [hf] at this
    simp only [List.all_eq_true] at this
    have := this p hp
    rw [hb, hpr] at this
    simp only [Option.isSome_none, Bool.false_or] at this
    exact Option.isSome_iff_exists.mp this

/-! ### the seeded loop -/

theorem skipJoined_id (l : List RFunc) : ∀ acc : List RFunc,
    (∀ pre f post, l = pre ++ f :: post → (acc ++ pre).any (sameStep f) = false) → skipJoined acc l = acc ++ l := by
  induction l with
  | nil => intro acc _; simp [skipJoined]
  | cons g rest ih =>
    intro acc h
    have h0 := h [] g rest rfl
    rw [List.append_nil] at h0
    simp only [skipJoined, h0, Bool.false_eq_true, if_false]
    rw [ih (acc ++ [g])]
    · simp
    · intro pre f post hl
      have := h (g :: pre) f post (by rw [hl]; rfl)
      simpa using this

theorem sameStep_outputs (f g : RFunc) (h : sameStep f g = true) : f.core.outputs = g.core.outputs := by
  simp only [sameStep, Bool.and_eq_true, beq_iff_eq] at h
  exact h.2

/-! ### closed instances used by `Props/C10Join.lean` (the demo of seeded change C10-s4-B; parameterless functions) -/

/-- `load(x, scale)` under the output name `data`, `scale` bound to `v` -/
def loadS (v : String) : RFunc :=
  embed { name := "load", params := [("x", "x"), ("scale", "scale")], outputs := ["data"], defaults := [], bound := [("scale", .str v)] }
def plusS : RFunc := embed { name := "plus", params := [("data", "data"), ("y", "y")], outputs := ["a"], defaults := [], bound := [] }
def timesS : RFunc := embed { name := "times", params := [("data", "data")], outputs := ["b"], defaults := [], bound := [] }
/-- `Pipeline([load(scale=2), plus])` and `Pipeline([load(scale=3), times])`: the SAME callable under the same output name -/
def PJ1 : List RFunc := [loadS "2", plusS]
def PJ2 : List RFunc := [loadS "3", timesS]
def kwJ : List (String × Val) := [("x", .str "kw:x"), ("y", .str "kw:y")]

/-- the shared step under ANOTHER output name (`renames={"data": "data3"}`), `scale` bound to `v`; its consumer -/
def loadR (v : String) : RFunc :=
  { core := { name := "load", params := [("x", "x"), ("scale", "scale")], outputs := ["data3"], defaults := [], bound := [("scale", .str v)] },
    outOrig := ["data"], body := none }
def timesR : RFunc := embed { name := "times", params := [("data3", "data")], outputs := ["b"], defaults := [], bound := [] }
def PJ3 : List RFunc := [loadR "3", timesR]

/-- a parameterless one-output function -/
def nullF (n o : String) : RFunc := embed { name := n, params := [], outputs := [o], defaults := [], bound := [] }

end PF.Rw.Join
