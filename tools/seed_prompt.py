#!/usr/bin/env python3
"""Print the brief for an independent 'break this property' agent (it gets nothing from /verif)."""
import json, sys
pid, tag = sys.argv[1], sys.argv[2]
p = {json.loads(l)["id"]: json.loads(l) for l in open("/verif/properties.jsonl")}[pid]
import glob
used = []
for f in sorted(glob.glob(f"/verif/seeded/{pid}-*/meta.json")):
    m = json.load(open(f))
    used.append(f" - {str(m.get('breaks'))[:260]} [trigger: {str(m.get('needs'))[:260]}]")
USED = ("\nOther engineers have ALREADY produced the following changes for this property. Do something DIFFERENT: another clause of the\n"
        "statement, another function/file among the anchors, another kind of trigger.\n" + "\n".join(used) + "\n") if used else ""
print(f"""You are a careful adversarial engineer. The Python library pipefunc (a function-DAG pipeline library) is checked out as a git
worktree that you create yourself:   git -C /repo worktree add --detach /tmp/seed/{tag} HEAD
Work ONLY inside /tmp/seed/{tag} (never edit /repo itself, never read or write anything under /verif — it is off limits, and nothing
there would help you). Python is /venv/bin/python. IMPORTANT environment quirk: `import pipefunc` only works after blocking zarr, so every
script must start with:   import sys; sys.modules['zarr'] = None; sys.path.insert(0, '/tmp/seed/{tag}')    (before importing pipefunc).

The library is supposed to satisfy this semantic property:

  {pid} — {p['title']}
  {p['statement']}
  (quantified over: {p['quantifier']['text']})
  Anchored in: {', '.join(p['anchors']['files'])}

{USED}
YOUR TASK: produce TWO different, independent source changes (mutation A and mutation B) to files under pipefunc/ that each BREAK this
property while the library still imports, and the existing test-suite still passes. Requirements for each mutation:
 * It must look like a plausible refactoring/optimisation/bug a maintainer could commit (a few changed lines), not sabotage that any
   use would expose at once. It must need something specific to manifest: a particular input shape or value, an unusual but valid
   argument combination, a multi-step sequence of operations, a particular ordering/interleaving, a crash or fault at a particular
   point, or two cooperating sites that each look fine alone. Prefer breaking a DIFFERENT clause of the property with A and with B.
 * The existing tests must still pass: run   /venv/bin/python /tmp/seed/baseline.py /tmp/seed/{tag}   (≈ 1.5 min; it must print missing=0).
   Run it for A alone and for B alone (apply one at a time; NEVER use `git stash` — the stash is shared by all worktrees of /repo and other engineers work in parallel: save with `git diff > /tmp/seed/out/{tag}/mutation_A.diff`, reset with `git checkout -- .`, re-apply with `git apply`).
 * Write a small demonstration program for each (demo_A.py, demo_B.py; plain python, exit code 1 and a message when the property is
   violated, exit 0 otherwise) that FAILS with the mutation applied and PASSES on the unmodified worktree. The demo should state in a
   comment which clause of the property it shows broken and why the mutation needs the specific trigger.
Deliver into /tmp/seed/out/{tag}/ : mutation_A.diff and mutation_B.diff (output of `git diff` inside the worktree, paths relative to the
repo root, touching only files under pipefunc/), demo_A.py, demo_B.py, and notes.json = {{"A": {{"breaks": "<clause>", "needs": "<what it
needs to manifest>", "files": [...]}}, "B": {{...}}}}. Finally remove the worktree: git -C /repo worktree remove --force /tmp/seed/{tag}.
Your final message: 10 lines at most — what A and B do, what triggers them, and that baseline and demos behaved as required.""")
