"""C18 — Lazy pipelines evaluate to the eager result, at most once per node.

A case is a *session* on one generated pipeline built with `lazy=True`: lazy calls `pipeline(o, **kw)`, `evaluate()`s of the
returned objects (one or three times, interleaved between objects that share nodes) and `construct_dag()` blocks.  The
property's clauses are evaluated directly on the implementation (deferred object, nothing invoked before `evaluate()`,
value = what the same pipeline built eagerly returns, every needed function exactly once however often evaluated, task graph
acyclic with exactly the lazy-argument edges) and the whole observation (ids, node table, graph, values, call log after every
step) is compared with `PF.Lazy` (lean/PfModel/Model/Lazy.lean).  Two further streams exercise `evaluate_lazy` and
`add_edge` on containers: inputs of container *subclasses* (the function must receive what the eager pipeline hands it) and
lazy objects (bare and inside lists/tuples/dicts) passed as inputs of another lazy pipeline.
"""
from __future__ import annotations

import collections
import copy
import os
import shutil
import tempfile

import pfimport  # noqa: F401
from pfimport import exc_enum

import networkx as nx
from pipefunc import PipeFunc, Pipeline
from pipefunc.lazy import _LazyFunction, construct_dag
import pipefunc.lazy as pflazy

import pipegen
import terms
from terms import Term
import c18_refuse
import c18_cont
import c18_multi
import c18_fault

PID = "C18"
PROPS = ["PfModel.Props.C18", "PfModel.Props.C18Calls", "PfModel.Props.C18Refused", "PfModel.Props.C18Cont", "PfModel.Props.C18Multi", "PfModel.Props.C18Fault", "PfModel.Props.C18User", "PfModel.Props.C18FaultRaise"]
DRIVER = "C18"
EXTRA_BUILD = ["PfModel.DriverC18Refuse", "PfModel.DriverC18Cont", "PfModel.DriverC18Multi", "PfModel.DriverC18Fault"]   # imported by Driver/C18.lean only
RULE = ("sessions on random DAGs of 1-6 term-building functions (nullary, tuple outputs, shared parameters, defaults, bound values, "
        "renames) built with lazy=True: 1-4 lazy calls (every output is requested across sessions; keyword sets are root arguments or "
        "a listed argument combination cutting through intermediates; whole-tuple requests), inside 0-2 construct_dag() blocks (several "
        "calls per block share nodes through the block's cache), each returned object evaluated 1 or 3 times in a random interleaving; "
        "a malformed stream (surplus / missing keyword, unknown output, output as keyword) ends a session; in the stream 'refused' "
        "(harness/c18_refuse.py) refused calls of every kind (missing keyword for the first / a later parameter, surplus keyword, surplus "
        "intermediate, unknown output, output as keyword, refused whole-tuple requests), inside and outside construct_dag() blocks, with and "
        "without an own cache, are FOLLOWED by valid calls and evaluate()s: the counter, the node table (orphans included), graph and cache "
        "after the raise are compared with PF.Lazy.lrunTopR, a refused call must invoke nothing and flip no _evaluated flag; container-subclass inputs and "
        "lazy objects as inputs are separate streams; 30 % of the sessions give the lazy pipeline a cache of its own (cache_type x cache=True "
        "flags), calls that share a block or a cache use the same / another value per keyword or cut through intermediates; per evaluate() the "
        "nodes whose _evaluated flag flips are compared with the call log and with the object's dependency closure; further streams: two "
        "pipelines (lazy+lazy, lazy+eager) in one block, Pipeline.func / full_output, map / NestedPipeFunc / containers of containers (crash-only); "
        "for every request that can find nothing in a cache (the model says which: first request of a block, no / empty own cache) the invoked "
        "functions among the request's own nodes after each evaluate() of its object must be the eager call log as a multiset "
        "(C18_calls_eq_eager_later), the eager call log itself is compared with C02's runTop; "
        "a session is non-trivial when some call node has a lazy argument; distinct by (pipeline, ops); container stream (harness/c18_cont.py): sessions of 1-4 lazy calls "
        "followed by 1-4 steps evaluate_lazy(nested list/tuple/dict/set/frozenset/deque of returned objects, repeated objects, plain values; depth 0-3) or evaluate(), "
        "compared with PF.Lazy.evaluateCont (Model/LazyCont.lean), plus Pipeline.func / PipeFunc-level calls / chained lazy pipelines / NestedPipeFunc against the eager twin; "
        "stream multi (harness/c18_multi.py): 2-3 lazy pipelines (distinct random DAGs, 40 % with a twin = the same DAG with other function names) in one process, "
        "3-8 well-formed calls interleaved inside one / across two blocks / outside any block, each object evaluated 0-2 times anywhere after its call, compared "
        "with PF.Lazy.GSt (non-trivial when two pipelines are called inside one block); "
        "stream fault (harness/c18_fault.py): 1-3 lazy calls (outside / inside one block) followed by steps that switch a set of RAISING user functions "
        "on and off (transient: off before the retry; permanent: stays) and evaluate() steps (retry on the same object, another consumer of the failed node): "
        "a returned value is the eager value, evaluate() raises iff a needed function that has not returned raises, each needed function returns exactly once; "
        "raised / value, the invocation log and the _evaluated flags after every step are compared with PF.Lazy.evaluateF (non-trivial when an evaluate() raised)")
ASSUMPTIONS = ["the pipeline's own cache (cache_type None/simple/lru/hybrid/disk x cache=True on none/some/all functions) is modelled below its size "
               "limit (an unbounded most-recent-first list); what a refused call leaves in it is modelled in the stream 'refused' only (the main stream "
               "ends the modelled session at the first refused call)",
               "stream 'refused': every _LazyFunction construction is observed through an instrumented __init__ (the class attribute is replaced for "
               "the duration of a session); all_results / used_parameters of a refused call are locals and not observed",
               "the theorems' hypothesis PF.PipeCache.WF (unique outputs, consistent defaults, acyclic) is evaluated by the driver on every case",
               "several LAZY pipelines in one process / one construct_dag() block are modelled (PF.Lazy.GSt, stream multi); an eager pipeline inside a block and "
               "Pipeline.func / full_output / map / NestedPipeFunc are checked on the implementation only",
               "lazy objects nested in user containers (evaluate_lazy/add_edge container recursion) are checked on the implementation only; "
               "the model's arguments are flat (a value or a node id)",
               "the container stream models evaluate_lazy on list/tuple/dict/set trees (a set in the real set's iteration order, which the harness supplies); "
               "container subclasses and what a PipeFunc-level call does with deferred arguments are checked on the implementation only",
               "values are uninterpreted terms; user functions do not raise, except in the stream 'fault', where a function raises while the harness has it "
               "switched to faulty (the fault depends on the switch only, not on the arguments or the invocation count)",
               "ids are compared relative to _LazyFunction._counter at the start of the session"]


def kwval(k):
    return {"s": f"kw:{k}"}


# ------------------------------------------------------------------------------------------------ implementation side
def argenc(v, base):
    if isinstance(v, _LazyFunction):
        return {"ref": v._id - base}
    return {"val": terms.enc(v)}


def node_desc(obj, base):
    """(kind, function name, arguments) of a real `_LazyFunction`."""
    if isinstance(obj.func, PipeFunc):
        return {"kind": "call", "f": obj.func.__name__, "args": [argenc(v, base) for v in list(obj.args) + list(obj.kwargs.values())]}
    src = obj.args[0] if obj.args else None
    fname = src.func.__name__ if isinstance(src, _LazyFunction) and isinstance(src.func, PipeFunc) else "?"
    return {"kind": "pick", "f": fname, "args": [argenc(v, base) for v in list(obj.args) + list(obj.kwargs.values())]}


def lazy_children(obj):
    out = []
    for v in list(obj.args) + list(obj.kwargs.values()):
        if isinstance(v, _LazyFunction):
            out.append(v)
        elif isinstance(v, (list, tuple, set)):
            out += [x for x in v if isinstance(x, _LazyFunction)]
        elif isinstance(v, dict):
            out += [x for x in v.values() if isinstance(x, _LazyFunction)]
    return out


def closure(objs):
    seen, todo = {}, list(objs)
    while todo:
        o = todo.pop()
        if o._id in seen:
            continue
        seen[o._id] = o
        todo += lazy_children(o)
    return seen


_TMP = {"dir": None, "n": 0}


def _fresh_dir():
    """a fresh directory (below the run's one temporary directory) for a DiskCache"""
    if _TMP["dir"] is None:
        _TMP["dir"] = tempfile.mkdtemp(prefix="verif-c18-")
    _TMP["n"] += 1
    d = os.path.join(_TMP["dir"], f"disk{_TMP['n']}")
    os.makedirs(d, exist_ok=True)
    return d


def _cleanup_tmp():
    if _TMP["dir"] is not None:
        shutil.rmtree(_TMP["dir"], ignore_errors=True)
        _TMP["dir"] = None


def run_session(desc, ops, cache=None):
    """Run one session on the real pipefunc.  Returns the observation; never raises because pipefunc misbehaves.
    `cache` = {"cache_type": None|"simple"|"lru"|"hybrid"|"disk", "cached": [function names]} gives the lazy pipeline a cache of
    its own (`cache_type=None` with a cached function makes pipefunc create an LRU cache)."""
    ldesc = desc
    pipeline_kwargs = {}
    if cache:
        ldesc = {"funcs": [dict(f, cache=(f["name"] in cache["cached"])) for f in desc["funcs"]]}
        pipeline_kwargs = {"cache_type": cache["cache_type"]}
        if cache["cache_type"] == "disk":
            pipeline_kwargs["cache_kwargs"] = {"cache_dir": _fresh_dir()}
    import warnings
    with warnings.catch_warnings():
        warnings.simplefilter("ignore")          # lazy + hybrid warns that the duration is that of creating the wrapper
        p, log = pipegen.build(ldesc, lazy=True, **pipeline_kwargs)
    pe, elog = pipegen.build(desc)
    # the eager reference, computed up front: an eager call made inside a construct_dag() block would go through the block's cache too
    eagers = {}
    for i, op in enumerate(ops):
        if op["op"] == "call":
            out = op["out"] if isinstance(op["out"], str) else tuple(op["out"])
            elog.clear()
            try:
                ev = pipegen.quiet(pe, out, **{k: terms.dec(v) for k, v in op["kw"]})
                eagers[i] = {"value": terms.enc(ev), "calls": elog.names()}
            except Exception as e:  # noqa: BLE001
                eagers[i] = {"err": exc_enum(e)}
    base = _LazyFunction._counter
    obs, handles, table = [], [], {}
    segs = []                  # per call: the ids [c0, c1) of the `_LazyFunction`s the request created
    known = {}                 # every `_LazyFunction` reachable from a returned object, by id
    cm = None
    tg = None
    block_objs = []
    try:
        for opi, op in enumerate(ops):
            kind = op["op"]
            if kind == "enter":
                cm = construct_dag()
                tg = cm.__enter__()
                block_objs = []
                obs.append({"ok": True})
            elif kind == "exit":
                cm.__exit__(None, None, None)
                cm = None
                g = tg.graph
                o = {"nodes": sorted(n - base for n in g.nodes), "edges": sorted([a - base, b - base] for a, b in g.edges),
                     "acyclic": nx.is_directed_acyclic_graph(g), "cache": len(tg.cache.cache),
                     "mapping_ok": sorted(tg.mapping) == sorted(g.nodes) and
                                   all(g.nodes[n].get("lazy_func") is tg.mapping[n] and tg.mapping[n]._id == n for n in tg.mapping),
                     "global_cleared": pflazy.task_graph() is None}
                # the edges the recorded nodes' own arguments demand
                want = set()
                for n, lf in tg.mapping.items():
                    for c in lazy_children(lf):
                        want.add((c._id - base, n - base))
                o["arg_edges"] = sorted(list(e) for e in want)
                # every node the objects returned in this block depend on must be recorded
                o["closure"] = sorted(i - base for i in closure(block_objs))
                obs.append(o)
                tg = None
            elif kind == "call":
                out = op["out"] if isinstance(op["out"], str) else tuple(op["out"])
                pykw = {k: terms.dec(v) for k, v in op["kw"]}
                before = len(log.names())
                eager = eagers[opi]
                flags0 = {i: lf._evaluated for i, lf in known.items()}
                c0 = _LazyFunction._counter
                try:
                    r = pipegen.quiet(p, out, **pykw)
                except Exception as e:  # noqa: BLE001
                    handles.append(None)
                    segs.append(None)
                    obs.append({"err": exc_enum(e), "eager": eager, "invoked": log.names()[before:]})
                    continue
                handles.append(r)
                segs.append((c0, _LazyFunction._counter))
                o = {"eager": eager, "invoked": log.names()[before:], "type": type(r).__name__,
                     "seg": [c0 - base, _LazyFunction._counter - base]}
                if isinstance(r, _LazyFunction):
                    o["ret"] = {"ref": r._id - base}
                    block_objs.append(r)
                    for i, lf in closure([r]).items():
                        table[i - base] = node_desc(lf, base)
                        known[i] = lf
                    # nothing may be evaluated by a request: no `_evaluated` flag (of an older or a new node) may be set by it
                    o["evaluated_by_request"] = sorted(i - base for i, lf in known.items() if lf._evaluated and not flags0.get(i, False))
                else:
                    o["ret"] = {"val": terms.enc(r)}
                obs.append(o)
            elif kind == "eval":
                r = handles[op["h"]]
                before = len(log.names())
                flags = {i: lf._evaluated for i, lf in known.items()}
                need = closure([r]) if isinstance(r, _LazyFunction) else {}
                try:
                    v = pipegen.quiet(r.evaluate)
                    flipped = [i for i, lf in known.items() if lf._evaluated and not flags[i]]
                    lo, hi = segs[op["h"]] or (0, 0)
                    obs.append({"value": terms.enc(v), "log": log.names(), "new": log.names()[before:],
                                # the user functions of the evaluated call nodes among the nodes this object's request created
                                "seg_invoked": sorted(lf.func.__name__ for i, lf in known.items()
                                                      if lo <= i < hi and lf._evaluated and isinstance(lf.func, PipeFunc)),
                                # per node: the user functions of the nodes this evaluate() evaluated, the needed nodes it left
                                # unevaluated, the nodes it evaluated without need
                                "flipped": sorted(known[i].func.__name__ for i in flipped if isinstance(known[i].func, PipeFunc)),
                                "left": sorted(i - base for i, lf in need.items() if not lf._evaluated),
                                "needless": sorted(i - base for i in flipped if i not in need),
                                "was_needed": sorted(lf.func.__name__ for i, lf in need.items()
                                                     if isinstance(lf.func, PipeFunc) and not flags.get(i, False))})
                except Exception as e:  # noqa: BLE001
                    obs.append({"err": exc_enum(e), "log": log.names()})
            else:
                raise AssertionError(kind)
    finally:
        if cm is not None:
            cm.__exit__(None, None, None)
    own = None
    if p.cache is not None:
        try:
            own = len(p.cache)
        except Exception as e:  # noqa: BLE001
            own = exc_enum(e)
    return {"ops": obs, "table": [[i, table[i]] for i in sorted(table)], "own": own}


# ------------------------------------------------------------------------------------------------ model side
def model_session(r):
    ops = []
    for o in r["ops"]:
        o = dict(o)
        for k in ("den", "spec", "value"):
            if o.get(k) is not None:
                o[k] = terms.canon(o[k])
        if "eager" in o and "value" in o["eager"]:
            o["eager"] = {"value": terms.canon(o["eager"]["value"]), "calls": o["eager"]["calls"]}
        if "ret" in o and "val" in o["ret"]:
            o["ret"] = {"val": terms.canon(o["ret"]["val"])}
        ops.append(o)
    table = []
    for i, n in enumerate(r["table"]):
        table.append([i, {"kind": n["kind"], "f": n["f"],
                          "args": [a if "ref" in a else {"val": terms.canon(a["val"])} for a in n["args"]]}])
    return {"ops": ops, "table": table, "own": r.get("own")}


# ------------------------------------------------------------------------------------------------ generation
def gen_ops(ctx, rng, desc, p, roots_only=False):
    """A session for one pipeline; `p` (the real eager pipeline) supplies root_args / arg_combinations.
    `roots_only`: never cut through intermediates (a pipeline with its own cache keys results by root arguments: DF-18(a), C09)."""
    outs = pipegen.all_outputs(desc)
    tuples = [f["outputs"] for f in desc["funcs"] if len(f["outputs"]) > 1]

    def roots_kw(o):
        return [[k, kwval(k)] for k in p.root_args(o if isinstance(o, str) else tuple(o))]

    def combo_kw(o):
        if roots_only:
            return roots_kw(o)
        combos = sorted(p.arg_combinations(o))
        return [[k, kwval(k)] for k in rng.choice(combos)]

    def block_kw(o):
        """keyword arguments of a call that shares a block (or a pipeline cache) with other calls: mostly the root arguments with the one
        value per name, sometimes ANOTHER value for some name (another key: nothing may be shared), sometimes a cut through intermediates
        (no key at all: `_intermediate_supplied`)"""
        u = rng.random()
        if u < 0.2 and isinstance(o, str) and not roots_only:
            ctx.count("block-kw:cut")
            return combo_kw(o)
        kw = roots_kw(o)
        if u < 0.45 and kw:
            ctx.count("block-kw:other-value")
            i = rng.randrange(len(kw))
            kw = [list(x) for x in kw]
            kw[i][1] = {"s": f"kw2:{kw[i][0]}"}
        return kw

    def pick_out():
        if tuples and rng.random() < 0.15:
            return list(rng.choice(tuples))
        return rng.choice(outs)

    ops, ncalls = [], 0
    shape = rng.choice(["plain", "plain", "dag1", "dag1", "dagN", "dagN", "dag2", "mixed", "dagEval", "dagEval", "repeat", "repeat"])
    ctx.count(f"shape:{shape}")

    def call(o, kw):
        nonlocal ncalls
        ops.append({"op": "call", "out": o, "kw": kw})
        ncalls += 1
        return ncalls - 1

    hs = []
    if shape == "plain":
        for _ in range(rng.choice([1, 1, 2])):
            o = pick_out()
            kw = combo_kw(o) if isinstance(o, str) and rng.random() < 0.5 else roots_kw(o)
            hs.append(call(o, kw))
    elif shape == "dag1":
        o = pick_out()
        kw = combo_kw(o) if isinstance(o, str) and rng.random() < 0.5 else roots_kw(o)
        ops.append({"op": "enter"}); hs.append(call(o, kw)); ops.append({"op": "exit"})
    elif shape == "dagN":
        ops.append({"op": "enter"})
        first = pick_out()
        hs.append(call(first, roots_kw(first)))
        for _ in range(rng.choice([1, 2, 3])):
            o = first if rng.random() < 0.4 else pick_out()
            hs.append(call(o, block_kw(o)))
        ops.append({"op": "exit"})
    elif shape == "dagEval":
        # inside ONE block: request, evaluate an earlier object, request something that shares its nodes (the edges into the later
        # request must be recorded although their producers are already evaluated)
        ops.append({"op": "enter"})
        first = pick_out()
        hs.append(call(first, roots_kw(first)))
        for _ in range(rng.choice([1, 2, 3])):
            if rng.random() < 0.7:
                ops.append({"op": "eval", "h": rng.choice(hs)})
            o = pick_out()
            hs.append(call(o, block_kw(o)))
        ops.append({"op": "exit"})
    elif shape == "repeat":
        # the same output requested again and again, outside or inside one block, evaluations in between: a pipeline with a cache
        # of its own answers the later requests from the cache
        inside = rng.random() < 0.4
        if inside:
            ops.append({"op": "enter"})
        o = pick_out()
        kw = roots_kw(o)
        for i in range(rng.choice([2, 3, 4])):
            oi = o if rng.random() < 0.7 else pick_out()
            hs.append(call(oi, kw if oi == o and rng.random() < 0.7 else block_kw(oi)))
            if rng.random() < 0.5:
                ops.append({"op": "eval", "h": rng.choice(hs)})
        if inside:
            ops.append({"op": "exit"})
    elif shape == "dag2":
        o = pick_out()
        for _ in range(2):
            ops.append({"op": "enter"}); hs.append(call(o, roots_kw(o)))
            if rng.random() < 0.5:
                o2 = pick_out(); hs.append(call(o2, roots_kw(o2)))
            ops.append({"op": "exit"})
        hs.append(call(o, roots_kw(o)))
    else:  # mixed: a call outside, a block, a call outside; evaluations may come between
        o = pick_out()
        hs.append(call(o, roots_kw(o)))
        if rng.random() < 0.5:
            ops.append({"op": "eval", "h": hs[0]})
        ops.append({"op": "enter"}); hs.append(call(o, roots_kw(o))); o2 = pick_out(); hs.append(call(o2, roots_kw(o2))); ops.append({"op": "exit"})
        o3 = pick_out()
        hs.append(call(o3, combo_kw(o3) if isinstance(o3, str) else roots_kw(o3)))
    # evaluations: every object once or three times, interleaved
    evs = []
    for h in hs:
        evs += [h] * rng.choice([1, 3])
    rng.shuffle(evs)
    if rng.random() < 0.3 and evs:
        evs = evs[: rng.randint(1, len(evs))]          # some objects are never evaluated
    ops += [{"op": "eval", "h": h} for h in evs]
    # malformed tail
    if rng.random() < 0.2:
        o = rng.choice(outs)
        kw = roots_kw(o)
        fault = rng.choice(["surplus", "missing", "unknown-output", "output-in-kwargs", "surplus-intermediate"])
        if fault == "surplus":
            kw = kw + [["zz", kwval("zz")]]
        elif fault == "missing":
            if not kw:
                fault = "unknown-output"
            else:
                kw = [x for x in kw if x[0] != rng.choice(kw)[0]]
        if roots_only and fault == "surplus-intermediate":
            fault = "surplus"; kw = kw + [["zz", kwval("zz")]]
        if fault == "unknown-output":
            o = "nope"
        elif fault == "output-in-kwargs":
            kw = kw + [[o, kwval(o)]]
        elif fault == "surplus-intermediate":
            other = [x for x in outs if x != o and x not in [k for k, _ in kw]]
            if other:
                x = rng.choice(other); kw = kw + [[x, kwval(x)]]
        if rng.random() < 0.5:
            ops += [{"op": "enter"}, {"op": "call", "out": o, "kw": kw, "fault": fault}]
        else:
            ops.append({"op": "call", "out": o, "kw": kw, "fault": fault})
        ctx.count(f"malformed:{fault}")
    return ops


def close_blocks(ops):
    """A session that ends inside a block (after a malformed call) gets its exit appended for the model's benefit."""
    depth = 0
    for op in ops:
        depth += op["op"] == "enter"
        depth -= op["op"] == "exit"
    return ops + [{"op": "exit"}] * depth


# ------------------------------------------------------------------------------------------------ judging
def judge(ctx, case, impl, model):
    """Property clauses on the implementation first; then the correspondence with the model."""
    desc, ops = case["funcs"], case["ops"]
    viol = []

    def bad(what):
        viol.append(what)

    evaluated_calls = []          # names invoked so far according to the implementation
    handles = []
    # (other streams call `judge` without a model: then the clause that needs the model's `fresh` flag is skipped)
    mcalls = [mo for op, mo in zip(ops, model["ops"]) if op["op"] == "call"] if model is not None else None
    in_block = False
    calls_in_block = 0
    for op, ob in zip(ops, impl["ops"]):
        if op["op"] == "enter":
            in_block, calls_in_block = True, 0
        elif op["op"] == "exit":
            in_block = False
            if "nodes" in ob:
                if not ob["acyclic"]:
                    bad("the recorded task graph has a cycle")
                if any(a >= b for a, b in ob["edges"]):
                    bad("an edge of the task graph does not go from an older to a newer node")
                if ob["edges"] != ob["arg_edges"]:
                    bad(f"task graph edges {ob['edges']} are not exactly the lazy-argument pairs {ob['arg_edges']} of the recorded nodes")
                if not set(ob["closure"]) <= set(ob["nodes"]):
                    bad(f"nodes {sorted(set(ob['closure']) - set(ob['nodes']))} needed by objects returned inside construct_dag() are missing from the task graph")
                if not ob["mapping_ok"]:
                    bad("TaskGraph.mapping / node attributes do not describe the recorded nodes")
                if not ob["global_cleared"]:
                    bad("the global task graph is still set after the construct_dag() block")
        elif op["op"] == "call":
            handles.append(ob)
            if ob.get("invoked"):
                bad(f"functions {ob['invoked']} were invoked by the lazy call itself, before evaluate()")
            elif ob.get("evaluated_by_request"):
                bad(f"nodes {ob['evaluated_by_request']} were evaluated by the lazy call itself, before evaluate()")
            first_in_scope = ((not in_block) or calls_in_block == 0) and not (case.get("cache") and len(handles) > 1)
            calls_in_block += 1
            if "err" in ob or "err" in ob["eager"]:
                if first_in_scope and (("err" in ob) != ("err" in ob["eager"])):
                    bad(f"lazy call {'raises ' + ob['err'] if 'err' in ob else 'is accepted'} while the eager pipeline "
                        f"{'raises ' + ob['eager']['err'] if 'err' in ob['eager'] else 'returns a value'}")
                continue
            if ob["type"] != "_LazyFunction":
                bad(f"a lazy pipeline returned a {ob['type']}, not a deferred object")
        elif op["op"] == "eval":
            h = handles[op["h"]]
            if "err" in ob:
                bad(f"evaluate() raised {ob['err']}")
                continue
            eager = h["eager"]
            if "value" in eager and ob["value"] != eager["value"]:
                bad("evaluate() differs from the value the eager pipeline returns")
            if len(set(ob["new"])) != len(ob["new"]) and len(set(ob["flipped"])) == len(ob["flipped"]):
                bad(f"evaluate() invoked a function more than once: {ob['new']}")
            if sorted(ob["new"]) != ob["flipped"]:
                bad(f"evaluate() invoked {sorted(ob['new'])} but the nodes it evaluated are those of {ob['flipped']}: "
                    f"each node's function must run exactly once")
            elif ob["left"]:
                bad(f"evaluate() returned although the nodes {ob['left']} it depends on are not evaluated")
            elif ob["needless"]:
                bad(f"evaluate() evaluated the nodes {ob['needless']}, which the object does not depend on")
            elif ob["flipped"] != ob["was_needed"]:
                bad(f"evaluate() evaluated the nodes of {ob['flipped']}; needed and not yet evaluated were those of {ob['was_needed']}")
            if "calls" in eager and not set(ob["new"]) <= set(eager["calls"]):
                bad(f"evaluate() invoked {sorted(set(ob['new']) - set(eager['calls']))}, which the eager call does not need")
            mh = mcalls[op["h"]] if mcalls is not None else {}
            if mh.get("fresh") and "calls" in eager and "seg_invoked" in ob:
                # C18_calls_eq_eager(_later): the request found nothing in a cache; whatever happened since, after evaluate() the invoked
                # functions among the nodes the request created are exactly the eager run's, each once
                ctx.count("fresh-object-evaluations")
                if ob["seg_invoked"] != sorted(eager["calls"]):
                    bad(f"after evaluate() the invoked functions among the nodes the request created are {ob['seg_invoked']}; "
                        f"the eager call invokes {sorted(eager['calls'])}")
            if h.get("evaluated"):
                if ob["new"]:
                    bad(f"a repeated evaluate() invoked {ob['new']} again")
            elif "calls" in eager and h.get("fresh", False) and sorted(ob["new"]) != sorted(eager["calls"]):
                bad(f"first evaluate() invoked {sorted(ob['new'])}, the eager call invokes {sorted(eager['calls'])}")
            h["evaluated"] = True
    return viol


def mark_fresh(ops, impl):
    """A returned object is *fresh* when no other call of the session can share a node with it: then its first evaluate()
    must invoke exactly the eager call's functions.  (Sharing happens only between calls of one construct_dag() block.)"""
    in_block, idxs = False, []
    block_calls = []
    for op, ob in zip(ops, impl["ops"]):
        if op["op"] == "enter":
            in_block, block_calls = True, []
        elif op["op"] == "exit":
            in_block = False
            if len(block_calls) == 1:
                block_calls[0]["fresh"] = True
        elif op["op"] == "call":
            if in_block:
                block_calls.append(ob)
            else:
                ob["fresh"] = True
    return idxs


def compare(case, impl, model):
    """Differences between the implementation's and the model's observation (lists of strings)."""
    diffs = []
    for i, (op, a, b) in enumerate(zip(case["ops"], impl["ops"], model["ops"])):
        k = op["op"]
        if k == "exit":
            if "nodes" in a:
                if a["nodes"] != sorted(b["nodes"]):
                    diffs.append(f"op {i}: graph nodes {a['nodes']} vs model {sorted(b['nodes'])}")
                if a["edges"] != sorted(set(map(tuple, b["edges"]))) and a["edges"] != sorted([list(e) for e in set(map(tuple, b["edges"]))]):
                    diffs.append(f"op {i}: graph edges {a['edges']} vs model {sorted(b['edges'])}")
                if a["cache"] != b["cache"]:
                    diffs.append(f"op {i}: task-graph cache holds {a['cache']} entries, model {b['cache']}")
        elif k == "call":
            if ("err" in a) != ("err" in b):
                diffs.append(f"op {i}: call {'raises ' + a['err'] if 'err' in a else 'accepted'}; model: {b.get('err', 'accepted')}")
            elif "err" in a:
                if a["err"] != b["err"]:
                    diffs.append(f"op {i}: error class {a['err']} vs model {b['err']}")
            else:
                if a["ret"] != b["ret"]:
                    diffs.append(f"op {i}: returned {a['ret']} vs model {b['ret']}")
                if "value" in a["eager"] and b.get("den") != a["eager"]["value"]:
                    diffs.append(f"op {i}: the model's denotation of the returned object is not the eager value")
                # (the streams of harness/c18_*.py reuse `compare` on observations without these fields)
                if "eager" not in b or "seg" not in a or "seg" not in b:
                    pass
                elif ("err" in a["eager"]) != ("err" in b["eager"]):
                    diffs.append(f"op {i}: the eager pipeline {'raises' if 'err' in a['eager'] else 'returns'}, the eager model (runTop) "
                                 f"{'raises' if 'err' in b['eager'] else 'returns'}")
                elif "calls" in a["eager"] and a["eager"]["calls"] != b["eager"]["calls"]:
                    diffs.append(f"op {i}: eager call log {a['eager']['calls']} vs the eager model's {b['eager']['calls']}")
                if "ref" in a["ret"] and "seg" in a and "seg" in b and a["seg"] != b["seg"]:
                    diffs.append(f"op {i}: the request created the ids {a['seg']}, model {b['seg']}")
        elif k == "eval":
            if ("err" in a) != ("err" in b):
                diffs.append(f"op {i}: evaluate {'raises' if 'err' in a else 'returns'}; model {'raises' if 'err' in b else 'returns'}")
            elif "err" not in a:
                if a["value"] != b["value"]:
                    diffs.append(f"op {i}: evaluate() value differs from the model")
                if a["log"] != b["log"]:
                    diffs.append(f"op {i}: call log {a['log']} vs model {b['log']}")
                if "seg_invoked" in a and "seg_invoked" in b and a["seg_invoked"] != sorted(b["seg_invoked"]):
                    diffs.append(f"op {i}: invoked among the request's nodes {a['seg_invoked']} vs model {sorted(b['seg_invoked'])}")
    # (what a refused call leaves in the cache is not modelled: such a call ends the modelled session)
    if impl.get("own") != model.get("own") and not any("err" in o for o in impl["ops"]):
        diffs.append(f"the pipeline's own cache holds {impl.get('own')} entries, model {model.get('own')}")
    mt = dict((i, n) for i, n in model["table"])
    for i, n in impl["table"]:
        if mt.get(i) != n:
            diffs.append(f"node {i}: {n} vs model {mt.get(i)}")
    return diffs


def model_request(c):
    a = {"funcs": c["funcs"], "ops": close_blocks(c["ops"])}
    if c.get("cache"):
        cached = [f["outputs"] for f in c["funcs"] if f["name"] in c["cache"]["cached"]]
        # `Pipeline.__init__`: `cache_type=None` with a `cache=True` function means an LRU cache
        a["own"] = c["cache"]["cache_type"] is not None or bool(cached)
        a["cached"] = cached
    return {"m": "session", "a": a}


def check_sessions(ctx, cases):
    reqs = [model_request(c) for c in cases]
    impls = []
    for c in cases:
        try:
            impls.append(run_session({"funcs": c["funcs"]}, c["ops"], c.get("cache")))
        except Exception as e:  # noqa: BLE001
            impls.append({"crash": exc_enum(e), "msg": str(e)[:200]})
    outs = ctx.lean(reqs)
    for c, impl, resp in zip(cases, impls, outs):
        if "crash" in impl:
            ctx.violation(c, f"valid lazy pipeline refused at construction: {impl['crash']}: {impl['msg']}")
            continue
        model = model_session(resp["r"])
        for o in model["ops"]:
            if "spec" in o and o["spec"] is not None and o.get("den") != o["spec"]:
                raise AssertionError("model denotation and specification disagree (extraction bug?)")
        # instances of C18_calls_eq_eager / _later on the model's own run (the theorems say this cannot fail)
        mcalls = [mo for op, mo in zip(c["ops"], model["ops"]) if op["op"] == "call"]
        for mo in mcalls:
            if mo.get("fresh"):
                ctx.count("fresh-requests:" + ("whole" if mo.get("spec") is None else "name"))
                if "calls" not in mo["eager"] or mo["created"] != mo["eager"]["calls"]:
                    raise AssertionError("model: a fresh lazy request did not create one call node per eager invocation (extraction bug?)")
            elif "ret" in mo:
                ctx.count("cache-served-requests")
        for op, mo in zip(c["ops"], model["ops"]):
            if op["op"] == "eval" and "seg_invoked" in mo and mcalls[op["h"]].get("fresh"):
                if sorted(mo["seg_invoked"]) != sorted(mcalls[op["h"]]["eager"]["calls"]):
                    raise AssertionError("model: evaluate() of a fresh object did not invoke the eager call set (extraction bug?)")
        if c.get("cache"):
            # a pipeline with its own cache shares nodes between calls by design: no call is known to be fresh (exact call sets are not demanded);
            # the model (no own cache) does not apply, the property's clauses do
            ctx.count(f"own-cache:{c['cache']['cache_type']}:"
                      f"{'all' if len(c['cache']['cached']) == len(c['funcs']) else 'some' if c['cache']['cached'] else 'none'}")
        else:
            mark_fresh(c["ops"], impl)
        nontrivial = any(n["kind"] == "call" and any("ref" in a for a in n["args"]) for _, n in impl["table"])
        ctx.record(c, nontrivial)
        for o in impl["ops"]:
            if "nodes" in o:
                ctx.count("graphs"); ctx.count("graph-edges", len(o["edges"]))
                if o["cache"]:
                    ctx.count("graphs-with-cache-entries")
        for o in model["ops"]:
            if "log" in o and "value" in o:
                ctx.count("evaluations")
        ctx.count("nodes", len(impl["table"]))
        ctx.count("pick-nodes", sum(1 for _, n in impl["table"] if n["kind"] == "pick"))
        ids = [o["ret"]["ref"] for o in impl["ops"] if "ret" in o and "ref" in o["ret"]]
        if len(ids) != len(set(ids)):
            ctx.count("sessions-returning-a-shared-object")
        viol = judge(ctx, c, impl, model)
        for w in viol[:2]:
            ctx.violation(c, w, impl=impl, model=model)
        if not resp["r"].get("wf", True) or not resp["r"].get("roots_ok", True):
            raise AssertionError("a generated pipeline does not satisfy the theorems' well-formedness hypothesis (generator bug?)")
        if not viol:
            diffs = compare(c, impl, model)
            if diffs:
                ctx.violation(c, "lazy session differs from the model: " + diffs[0], found_input=False,
                              item="correspondence:lazy-session", impl=impl, model=model)


# ------------------------------------------------------------------------------------------------ container streams
class LSub(list):
    pass


class TSub(tuple):
    pass


class DSub(dict):
    pass


class SSub(set):
    pass


NT = collections.namedtuple("NT", "u v")

CONTAINERS = {
    "list": lambda: [1, "a"], "tuple": lambda: (1, "a"), "dict": lambda: {"k": 1}, "set": lambda: {1, 2},
    "namedtuple": lambda: NT(1, "a"), "list-subclass": lambda: LSub([1, 2]), "tuple-subclass": lambda: TSub((1, 2)),
    "dict-subclass": lambda: DSub(k=1), "set-subclass": lambda: SSub({1, 2}), "frozenset": lambda: frozenset({1, 2}),
    "ordereddict": lambda: collections.OrderedDict(k=1), "defaultdict": lambda: collections.defaultdict(int, k=1),
    "nested": lambda: [NT(1, (2, 3)), {"k": LSub([1])}], "deque": lambda: collections.deque([1, 2]),
    "str": lambda: "abc", "none": lambda: None, "term": lambda: Term("t", ()),
}


# past failures of the container-input stream (evaluate_lazy rebuilt every container: fixed)
CONTAINER_CORPUS = [("namedtuple", "defaultdict", False), ("ordereddict", "list-subclass", True), ("set-subclass", "tuple-subclass", False),
                    ("dict-subclass", "nested", True), ("deque", "frozenset", False)]


def describe(v):
    """What a user function can observe of an argument: its type, and recursively its elements."""
    t = type(v).__name__
    if isinstance(v, dict):
        return Term("$obs", (t, tuple(sorted((str(k), describe(x)) for k, x in v.items()))))
    if isinstance(v, (list, tuple, collections.deque)):
        return Term("$obs", (t, tuple(describe(x) for x in v)))
    if isinstance(v, (set, frozenset)):
        return Term("$obs", (t, tuple(sorted((describe(x) for x in v), key=repr))))
    return Term("$obs", (t, repr(v)))


def observing_pipeline(lazy, log):
    def g(x):
        log.append("g")
        return Term("g", (describe(x),))

    def f(a, y):
        log.append("f")
        return Term("f", (describe(a), describe(y)))

    return pipegen.quiet(Pipeline, [PipeFunc(g, "a"), PipeFunc(f, "o")], lazy=lazy)


def check_container_inputs(ctx, rng, n):
    """Inputs that are containers (and subclasses of containers) must reach the user function as the eager pipeline hands them."""
    todo = list(CONTAINER_CORPUS) + [None] * n
    for item in todo:
        if item is None:
            kx, ky, dag = rng.choice(sorted(CONTAINERS)), rng.choice(sorted(CONTAINERS)), rng.random() < 0.5
        else:
            kx, ky, dag = item
        case = {"stream": "container-input", "x": kx, "y": ky, "dag": dag}
        ctx.count(f"container:{kx}"); ctx.count(f"container:{ky}")
        x, y = CONTAINERS[kx](), CONTAINERS[ky]()
        elog, llog = [], []
        want = observing_pipeline(False, elog)("o", x=x, y=y)
        try:
            p = observing_pipeline(True, llog)
            if dag:
                with construct_dag() as tg:
                    r = p("o", x=x, y=y)
            else:
                r = p("o", x=x, y=y)
            before = list(llog)
            got = pipegen.quiet(r.evaluate)
            pipegen.quiet(r.evaluate)
        except Exception as e:  # noqa: BLE001
            ctx.record(case, True)
            ctx.violation(case, f"evaluate() of a lazy pipeline raised {exc_enum(e)} on an input ({kx}, {ky}) the eager pipeline accepts",
                          impl={"err": exc_enum(e)}, model={"value": repr(want)}, key="container-input-raise")
            continue
        ctx.record(case, True)
        if before:
            ctx.violation(case, f"functions {before} invoked before evaluate()")
        elif got != want:
            ctx.violation(case, f"evaluate() differs from the eager result for a {kx} / {ky} input (the function received another object type)",
                          impl={"value": repr(got)}, model={"value": repr(want)}, key="container-input-type")
        elif sorted(llog) != sorted(elog):
            ctx.violation(case, f"lazy evaluation invoked {llog}, eager {elog}")


FALSY = {"None": None, "0": 0, "empty-str": "", "empty-tuple": (), "False": False, "empty-list": [], "term": Term("t", ())}


def check_falsy_results(ctx, rng, n):
    """The memo is the `_evaluated` flag, not the result: a shared node whose function returns None / a falsy value is still
    invoked once (diamond g -> f, h; h also consumes f)."""
    for _ in range(n):
        falsy_one(ctx, {"stream": "falsy-result", "g": rng.choice(sorted(FALSY)), "f": rng.choice(sorted(FALSY)), "dag": rng.random() < 0.4})


def falsy_one(ctx, case):
    for _ in [0]:
        kg, kf, dag = case["g"], case["f"], case["dag"]
        ctx.count(f"falsy-result:{kg}")

        def build(lazy, log):
            def g(x):
                log.append("g"); return FALSY[kg]

            def f(a):
                log.append("f"); return FALSY[kf]

            def h(a, b):
                log.append("h"); return Term("h", (describe(a), describe(b)))

            return pipegen.quiet(Pipeline, [PipeFunc(g, "a"), PipeFunc(f, "b"), PipeFunc(h, "o")], lazy=lazy)

        elog, llog = [], []
        want = build(False, elog)("o", x=1)
        try:
            p = build(True, llog)
            if dag:
                with construct_dag():
                    r = p("o", x=1)
            else:
                r = p("o", x=1)
            before = list(llog)
            got = [pipegen.quiet(r.evaluate) for _ in range(3)]
        except Exception as e:  # noqa: BLE001
            ctx.record(case, True)
            ctx.violation(case, f"lazy pipeline with falsy results raised {exc_enum(e)}", impl={"err": exc_enum(e)})
            continue
        ctx.record(case, True)
        if before:
            ctx.violation(case, f"functions {before} invoked before evaluate()")
        elif any(x != want for x in got):
            ctx.violation(case, "evaluate() differs from the eager result when functions return falsy values", impl={"value": repr(got)}, model={"value": repr(want)})
        elif sorted(llog) != sorted(elog):
            ctx.violation(case, f"three evaluate() calls invoked {sorted(llog)}; each needed function must run once ({sorted(elog)}) also when it "
                                f"returns {kg} / {kf}", impl={"calls": llog}, model={"calls": elog}, key="falsy-result-once")


def check_lazy_inputs(ctx, rng, n):
    """Lazy objects (bare, or inside list / tuple / dict / set-free containers) as inputs of a second lazy pipeline: the value is the
    eager value on the evaluated inputs, the producers run once, and under construct_dag() the edges into the consumer exist."""
    for _ in range(n):
        lazy_input_one(ctx, {"stream": "lazy-input", "wrap": rng.choice(["bare", "list", "tuple", "dict", "nested-list", "two-in-list"]),
                             "dag": rng.random() < 0.6})


def lazy_input_one(ctx, case):
    for _ in [0]:
        wrap, dag = case["wrap"], case["dag"]
        ctx.count(f"lazy-input:{wrap}:{'dag' if dag else 'plain'}")
        log = []

        def src(x):
            log.append("src")
            return Term("src", (("x", x),))

        def use(a, y):
            log.append("use")
            return Term("use", (describe(a), describe(y)))

        try:
            p1 = pipegen.quiet(Pipeline, [PipeFunc(src, "s")], lazy=True)
            p2 = pipegen.quiet(Pipeline, [PipeFunc(use, "o")], lazy=True)
            pe = pipegen.quiet(Pipeline, [PipeFunc(use, "o")])
            cm = construct_dag() if dag else None
            tg = cm.__enter__() if dag else None
            try:
                l1, l2 = p1("s", x=1), p1("s", x=2)
                mk = {"bare": lambda a, b: a, "list": lambda a, b: [a, 7], "tuple": lambda a, b: (7, a), "dict": lambda a, b: {"k": a},
                      "nested-list": lambda a, b: [[a], 7], "two-in-list": lambda a, b: [a, b, a]}[wrap]
                arg = mk(l1, l2)
                r = p2("o", a=arg, y=3)
            finally:
                if cm is not None:
                    cm.__exit__(None, None, None)
            before = list(log)
            got = pipegen.quiet(r.evaluate)
            after1 = list(log)
            got2 = pipegen.quiet(r.evaluate)
            v1, v2 = pipegen.quiet(l1.evaluate), pipegen.quiet(l2.evaluate)
            after = list(log)
            log.clear()
            want = pe("o", a=mk(v1, v2), y=3)
        except Exception as e:  # noqa: BLE001
            ctx.record(case, True)
            ctx.violation(case, f"lazy objects as inputs ({wrap}): {exc_enum(e)}", impl={"err": exc_enum(e), "msg": str(e)[:200]})
            continue
        ctx.record(case, True)
        used = {"bare": 1, "list": 1, "tuple": 1, "dict": 1, "nested-list": 1, "two-in-list": 2}[wrap]
        if before:
            ctx.violation(case, f"functions {before} invoked before evaluate()")
        elif got != want or got2 != want:
            ctx.violation(case, f"evaluate() with lazy inputs ({wrap}) differs from the eager result on the evaluated inputs",
                          impl={"value": repr(got)}, model={"value": repr(want)})
        elif sorted(after1) != sorted(["src"] * used + ["use"]):
            ctx.violation(case, f"evaluate() with lazy inputs ({wrap}) invoked {after1}")
        elif after.count("use") != 1 or after.count("src") != 2:
            ctx.violation(case, f"functions re-invoked by later evaluate() calls: {after}")
        elif dag:
            edges = set(tg.graph.edges)
            want_edges = {(l1._id, r._id)} | ({(l2._id, r._id)} if wrap == "two-in-list" else set())
            if wrap == "nested-list":
                want_edges = set()       # add_edge looks one level into iterables only (lazy.py:48-51); the property speaks of pipeline DAGs
            if wrap == "dict":
                want_edges = set()       # iterating a dict yields its keys
            if not nx.is_directed_acyclic_graph(tg.graph):
                ctx.violation(case, "task graph with lazy inputs has a cycle")
            elif wrap in ("bare", "list", "tuple", "two-in-list") and edges != want_edges:
                ctx.violation(case, f"task graph edges {sorted(edges)} are not the producer-consumer pairs {sorted(want_edges)} ({wrap})")


# ------------------------------------------------------------------------------------------------ several pipelines in one block
FOREIGN_CORPUS = [
    # two lazy pipelines with the same output name and root arguments in one block (the block's cache was keyed by output name and root
    # arguments only: fixed); an eager pipeline in the block (it used the task graph's cache: fixed)
    {"stream": "foreign", "funcs": [FA0 := {"name": "fa", "params": [["x", "x"]], "outputs": ["a"], "defaults": [], "bound": []}],
     "out": "a", "kw": [["x", kwval("x")]], "b_lazy": True, "seq": ["A", "B"]},
    {"stream": "foreign", "funcs": [FA0], "out": "a", "kw": [["x", kwval("x")]], "b_lazy": False, "seq": ["B", "A"]},
    {"stream": "foreign", "funcs": [FA0], "out": "a", "kw": [["x", kwval("x")]], "b_lazy": False, "seq": ["A", "B"]},
]


def has_lazy(v):
    if isinstance(v, _LazyFunction):
        return True
    if isinstance(v, Term):
        return any(has_lazy(x) for x in v.args)
    if isinstance(v, (list, tuple)):
        return any(has_lazy(x) for x in v)
    return False


def foreign_one(ctx, case):
    """Pipeline A (lazy) and pipeline B (the same DAG with other functions; lazy or eager) called in ONE construct_dag() block with the
    same output name and arguments: each returns what it returns alone."""
    desc = {"funcs": case["funcs"]}
    desc_b = {"funcs": [dict(f, name="g" + f["name"]) for f in case["funcs"]]}
    out = case["out"] if isinstance(case["out"], str) else tuple(case["out"])
    kw = {k: terms.dec(v) for k, v in case["kw"]}
    ctx.count(f"foreign:{'lazy' if case['b_lazy'] else 'eager'}")
    try:
        pa, la = pipegen.build(desc, lazy=True)
        pb, lb = pipegen.build(desc_b, lazy=case["b_lazy"])
        want = {"A": terms.enc(pipegen.quiet(pipegen.build(desc)[0], out, **kw)), "B": terms.enc(pipegen.quiet(pipegen.build(desc_b)[0], out, **kw))}
    except Exception as e:  # noqa: BLE001
        ctx.skip(f"foreign: construction / eager reference: {exc_enum(e)}")
        return
    ctx.record(case, True)
    objs = []
    try:
        with construct_dag():
            for who in case["seq"]:
                objs.append((who, pipegen.quiet(pa if who == "A" else pb, out, **kw)))
    except Exception as e:  # noqa: BLE001
        ctx.violation(case, f"a call inside a construct_dag() block in which two pipelines are called raised {exc_enum(e)}", impl={"err": exc_enum(e)})
        return
    if la.names() or (case["b_lazy"] and lb.names()):
        ctx.violation(case, f"functions {la.names() + lb.names()} of a lazy pipeline were invoked before evaluate()")
        return
    for who, r in objs:
        lazy = who == "A" or case["b_lazy"]
        if lazy and not isinstance(r, _LazyFunction):
            ctx.violation(case, f"a lazy pipeline returned a {type(r).__name__}, not a deferred object, in a construct_dag() block in which "
                                f"another pipeline with the same output names was called", impl={"type": type(r).__name__}, key="foreign-not-deferred")
            return
        if not lazy and has_lazy(r):
            ctx.violation(case, "an eager pipeline called inside construct_dag() returned a deferred object (or a value built from one)",
                          impl={"value": repr(r)[:200]}, key="foreign-eager-deferred")
            return
        try:
            v = terms.enc(pipegen.quiet(r.evaluate) if lazy else r)
        except Exception as e:  # noqa: BLE001
            ctx.violation(case, f"evaluate() raised {exc_enum(e)}", impl={"err": exc_enum(e)})
            return
        if v != want[who]:
            ctx.violation(case, f"pipeline {who}: {'evaluate()' if lazy else 'the eager call'} differs from what the pipeline returns alone: another "
                                f"pipeline called in the same construct_dag() block shares its output names and arguments",
                          impl={"value": v}, model={"value": want[who]}, key="foreign-value")
            return
    for log, name in ((la, "A"), (lb, "B")):
        if (name == "A" or case["b_lazy"]) and len(set(log.names())) != len(log.names()):
            ctx.violation(case, f"pipeline {name}: functions invoked more than once over the block's objects: {log.names()}")
            return


def check_foreign(ctx, rng, n):
    todo = [copy.deepcopy(c) for c in FOREIGN_CORPUS]
    for _ in range(n):
        try:
            desc = pipegen.gen_dag(rng, max_funcs=rng.choice([1, 2, 3, 4]))
            p, _ = pipegen.build(desc)
            out = rng.choice(pipegen.all_outputs(desc))
            kw = [[k, kwval(k)] for k in p.root_args(out)]
        except Exception as e:  # noqa: BLE001
            ctx.skip(f"foreign generator: {exc_enum(e)}")
            continue
        todo.append({"stream": "foreign", "funcs": desc["funcs"], "out": out, "kw": kw, "b_lazy": rng.random() < 0.5,
                     "seq": [rng.choice("AB") for _ in range(rng.choice([2, 3, 4]))]})
    for case in todo:
        foreign_one(ctx, case)


# ------------------------------------------------------------------------------------------------ other entry points (mostly crash-only)
@__import__("dataclasses").dataclass
class DC:
    u: object


def misc_one(ctx, case):
    """`Pipeline.func`, `run(full_output=True)` (promised: deferred, equal to the eager result after evaluate(), nothing invoked before);
    `Pipeline.map` of a lazy pipeline, a NestedPipeFunc inside a lazy pipeline, `evaluate_lazy` on containers of containers
    (crash-only: no exception; lists / tuples / dicts / sets are rebuilt with the values, other containers are handed over as they are)."""
    kind = case["kind"]
    ctx.count(f"misc:{kind}")
    if kind in ("func", "full"):
        desc = {"funcs": case["funcs"]}
        kw = {k: terms.dec(v) for k, v in case["kw"]}
        try:
            pl, log = pipegen.build(desc, lazy=True)
            pe, _ = pipegen.build(desc)
            if kind == "func":
                want = terms.enc(pipegen.quiet(pe.func(case["out"]), **kw))
            else:
                want = {str(k): terms.enc(v) for k, v in pipegen.quiet(pe.run, case["out"], full_output=True, kwargs=kw).items()}
        except Exception as e:  # noqa: BLE001
            ctx.skip(f"misc: eager reference: {exc_enum(e)}")
            return
        ctx.record(case, True)
        try:
            if kind == "func":
                r = pipegen.quiet(pl.func(case["out"]), **kw)
                pre = log.names()
                ok_type = isinstance(r, _LazyFunction)
                got = terms.enc(pipegen.quiet(r.evaluate)) if ok_type else None
                pipegen.quiet(r.evaluate) if ok_type else None
            else:
                full = pipegen.quiet(pl.run, case["out"], full_output=True, kwargs=kw)
                pre = log.names()
                ok_type = all(isinstance(v, _LazyFunction) for k, v in full.items() if k not in kw)
                got = {str(k): terms.enc(pipegen.quiet(v.evaluate) if isinstance(v, _LazyFunction) else v) for k, v in full.items()}
        except Exception as e:  # noqa: BLE001
            ctx.violation(case, f"lazy pipeline through {kind}: raised {exc_enum(e)} where the eager pipeline returns", impl={"err": exc_enum(e)})
            return
        if pre:
            ctx.violation(case, f"functions {pre} invoked before evaluate() ({kind})")
        elif not ok_type:
            ctx.violation(case, f"a lazy pipeline's {kind} returned a value that is not deferred")
        elif got != want:
            ctx.violation(case, f"evaluate() differs from the eager result ({kind})", impl={"value": got}, model={"value": want})
        elif len(set(log.names())) != len(log.names()):
            ctx.violation(case, f"functions invoked more than once ({kind}): {log.names()}")
        return
    ctx.record(case, False)
    log = []

    def src(x):
        log.append("src")
        return Term("src", (("x", x),))

    def use(a):
        log.append("use")
        return Term("use", (("a", terms.freeze(a) if not isinstance(a, Term) else a),))

    try:
        if kind == "map":
            def dbl(x):
                return Term("dbl", (("x", x),))

            def tot(y):
                return Term("tot", (("y", terms.freeze(list(y))),))
            mk = lambda lazy: pipegen.quiet(Pipeline, [PipeFunc(dbl, "y", mapspec="x[i] -> y[i]"), PipeFunc(tot, "s")], lazy=lazy)  # noqa: E731
            rl = pipegen.quiet(mk(True).map, {"x": [1, 2, 3]}, parallel=False, storage="dict", show_progress=False)
            re_ = pipegen.quiet(mk(False).map, {"x": [1, 2, 3]}, parallel=False, storage="dict", show_progress=False)
            if terms.enc(rl["s"].output) != terms.enc(re_["s"].output) or has_lazy(rl["s"].output):
                ctx.violation(case, "Pipeline.map of a lazy pipeline differs from the eager pipeline's map")
        elif kind == "nested":
            from pipefunc import NestedPipeFunc
            mk = lambda lazy: pipegen.quiet(Pipeline, [NestedPipeFunc([PipeFunc(src, "a"), PipeFunc(use, "b")], output_name="b"),  # noqa: E731
                                                        PipeFunc(lambda b: Term("top", (("b", b),)), "o")], lazy=lazy)
            want = mk(False)("o", x=1)
            log.clear()
            r = mk(True)("o", x=1)
            pre = list(log)
            got = pipegen.quiet(r.evaluate)
            pipegen.quiet(r.evaluate)
            if pre or got != want or sorted(log) != ["src", "use"]:
                ctx.violation(case, f"lazy pipeline with a NestedPipeFunc: invoked before evaluate {pre}, calls {log}, equal to eager: {got == want}")
        else:  # containers of containers
            p1 = pipegen.quiet(Pipeline, [PipeFunc(src, "s")], lazy=True)
            l1, l2 = p1("s", x=1), p1("s", x=2)
            v1, v2 = Term("src", (("x", 1),)), Term("src", (("x", 2),))
            mk = {"dict-of-lists": lambda a, b: {"k": [a, 7], "m": [b]}, "set": lambda a, b: {a, 3}, "tuple-in-list": lambda a, b: [(a, b), [a]],
                  "list-in-dict-in-tuple": lambda a, b: ({"k": [a, [b]]}, 1),
                  "namedtuple": lambda a, b: NT(a, 2), "defaultdict": lambda a, b: collections.defaultdict(list, {"k": [a]}),
                  "dataclass": lambda a, b: DC(a), "frozenset": lambda a, b: frozenset({a}), "deque": lambda a, b: collections.deque([a])}[case["wrap"]]
            got = pflazy.evaluate_lazy(mk(l1, l2))
            pflazy.evaluate_lazy(mk(l1, l2))
            if case["wrap"] in ("dict-of-lists", "set", "tuple-in-list", "list-in-dict-in-tuple") and got != mk(v1, v2):
                ctx.violation(case, f"evaluate_lazy on a {case['wrap']} of deferred objects is not the container of their values",
                              impl={"value": repr(got)}, model={"value": repr(mk(v1, v2))})
            elif log.count("src") > 2:
                ctx.violation(case, f"evaluate_lazy evaluated a deferred object more than once: {log}")
    except Exception as e:  # noqa: BLE001
        ctx.violation(case, f"{kind} {case.get('wrap', '')}: raised {exc_enum(e)}", impl={"err": exc_enum(e), "msg": str(e)[:200]})


def check_misc(ctx, rng, n):
    todo = [{"stream": "misc", "kind": "map"}, {"stream": "misc", "kind": "nested"}]
    todo += [{"stream": "misc", "kind": "containers", "wrap": w} for w in
             ["dict-of-lists", "set", "tuple-in-list", "list-in-dict-in-tuple", "namedtuple", "defaultdict", "dataclass", "frozenset", "deque"]]
    for _ in range(n):
        try:
            desc = pipegen.gen_dag(rng, max_funcs=rng.choice([1, 2, 3, 4, 5]))
            p, _ = pipegen.build(desc)
            out = rng.choice(pipegen.all_outputs(desc))
            kw = [[k, kwval(k)] for k in p.root_args(out)]
        except Exception as e:  # noqa: BLE001
            ctx.skip(f"misc generator: {exc_enum(e)}")
            continue
        todo.append({"stream": "misc", "kind": rng.choice(["func", "full"]), "funcs": desc["funcs"], "out": out, "kw": kw})
    for case in todo:
        misc_one(ctx, case)


# ------------------------------------------------------------------------------------------------ corpus / entry points
FA = {"name": "fa", "params": [["x", "x"]], "outputs": ["a"], "defaults": [], "bound": []}
FB = {"name": "fb", "params": [["a", "a"], ["y", "y"]], "outputs": ["b", "c"], "defaults": [["y", {"s": "dy"}]], "bound": []}
FD = {"name": "fd", "params": [["a", "p"], ["b", "q"], ["c", "r"]], "outputs": ["d"], "defaults": [], "bound": []}
KX = [["x", kwval("x")]]

CORPUS: list = [
    # diamond through a tuple-output node: shared producer, picks must not re-evaluate it
    {"funcs": [FA, FB, FD], "ops": [{"op": "call", "out": "d", "kw": KX}, {"op": "eval", "h": 0}, {"op": "eval", "h": 0}, {"op": "eval", "h": 0}]},
    # two calls in one block share nodes through the block's cache; a second block and a call outside share nothing
    {"funcs": [FA, FB, FD], "ops": [{"op": "enter"}, {"op": "call", "out": "d", "kw": KX}, {"op": "call", "out": "d", "kw": KX}, {"op": "exit"},
                                    {"op": "enter"}, {"op": "call", "out": "d", "kw": KX}, {"op": "exit"}, {"op": "call", "out": "d", "kw": KX},
                                    {"op": "eval", "h": 1}, {"op": "eval", "h": 0}, {"op": "eval", "h": 2}, {"op": "eval", "h": 3}, {"op": "eval", "h": 0}]},
    # whole tuple requested, then one of its names, in one block
    {"funcs": [FA, FB, FD], "ops": [{"op": "enter"}, {"op": "call", "out": ["b", "c"], "kw": KX}, {"op": "call", "out": "c", "kw": KX}, {"op": "exit"},
                                    {"op": "eval", "h": 1}, {"op": "eval", "h": 0}]},
    # a pipeline with its own SimpleCache: two construct_dag() blocks must not share nodes (fixed: _current_cache, e93c2f3-style)
    {"funcs": [FA, FB, FD], "cache": {"cache_type": "simple", "cached": ["fa"]},
     "ops": [{"op": "enter"}, {"op": "call", "out": "d", "kw": KX}, {"op": "exit"}, {"op": "enter"}, {"op": "call", "out": "d", "kw": KX}, {"op": "exit"},
             {"op": "eval", "h": 1}, {"op": "eval", "h": 0}]},
    {"funcs": [FA, FB, FD], "cache": {"cache_type": "simple", "cached": []},
     "ops": [{"op": "call", "out": "b", "kw": KX}, {"op": "enter"}, {"op": "call", "out": "b", "kw": KX}, {"op": "exit"}, {"op": "eval", "h": 1}]},
    # lazy x hybrid / disk / implicit LRU cache, cache=True everywhere, outside any block, repeated requests: nothing may run before
    # evaluate() (seeded change C18-s2-B: update_cache evaluated the deferred object to time it); the later requests come from the cache
    {"funcs": [FA, FB, FD], "cache": {"cache_type": "hybrid", "cached": ["fa", "fb", "fd"]},
     "ops": [{"op": "call", "out": "d", "kw": KX}, {"op": "call", "out": "d", "kw": KX}, {"op": "eval", "h": 1}, {"op": "call", "out": "b", "kw": KX},
             {"op": "eval", "h": 0}, {"op": "eval", "h": 2}]},
    {"funcs": [FA, FB, FD], "cache": {"cache_type": "disk", "cached": ["fa", "fb"]},
     "ops": [{"op": "call", "out": "d", "kw": KX}, {"op": "eval", "h": 0}, {"op": "call", "out": "d", "kw": KX}, {"op": "eval", "h": 1}]},
    {"funcs": [FA, FB, FD], "cache": {"cache_type": None, "cached": ["fb"]},
     "ops": [{"op": "enter"}, {"op": "call", "out": "c", "kw": KX}, {"op": "exit"}, {"op": "call", "out": "c", "kw": KX}, {"op": "call", "out": "b", "kw": KX},
             {"op": "eval", "h": 2}, {"op": "eval", "h": 0}, {"op": "eval", "h": 1}]},
    # different keyword values, and a supplied intermediate, inside one block: equal keys share, other keys and key-less calls do not
    {"funcs": [FA, FB, FD], "ops": [{"op": "enter"}, {"op": "call", "out": "b", "kw": KX}, {"op": "call", "out": "b", "kw": [["x", {"s": "kw2:x"}]]},
                                    {"op": "call", "out": "b", "kw": KX}, {"op": "call", "out": "d", "kw": [["a", kwval("a")]]},
                                    {"op": "call", "out": "d", "kw": KX}, {"op": "exit"},
                                    {"op": "eval", "h": 3}, {"op": "eval", "h": 2}, {"op": "eval", "h": 1}, {"op": "eval", "h": 4}, {"op": "eval", "h": 0}]},
    # supplied intermediate replaces its producer
    {"funcs": [FA, FB, FD], "ops": [{"op": "call", "out": "d", "kw": [["a", kwval("a")]]}, {"op": "eval", "h": 0}]},
]


CACHE_TYPES = [None, "simple", "lru", "hybrid", "disk"]


def gen_case(ctx, rng):
    desc = pipegen.gen_dag(rng, max_funcs=rng.choice([1, 2, 3, 4, 5, 6]))
    p, _ = pipegen.build(desc)
    own_cache = rng.random() < 0.3
    case = {"funcs": desc["funcs"], "ops": gen_ops(ctx, rng, desc, p)}
    if own_cache:
        # lazy x cache_type x cache=True on none / some / all functions (inside and outside construct_dag(): the shapes above)
        names = [f["name"] for f in desc["funcs"]]
        ct = rng.choice(CACHE_TYPES)
        how = rng.choice(["all", "all", "some", "some", "none"]) if ct is not None else rng.choice(["all", "some"])
        cached = names if how == "all" else [] if how == "none" else ([n for n in names if rng.random() < 0.6] or [rng.choice(names)])
        case["cache"] = {"cache_type": ct, "cached": cached}
    return case


def run(ctx):
    try:
        _run(ctx)
    finally:
        _cleanup_tmp()


def _run(ctx):
    rng = ctx.rng
    cases = [copy.deepcopy(c) for c in CORPUS]
    for _ in range(ctx.n(260, 6000)):
        try:
            cases.append(gen_case(ctx, rng))
        except Exception as e:  # noqa: BLE001   the eager pipeline refused a generated description (C02's business)
            ctx.count(f"generator-skip:{exc_enum(e)}")
            ctx.skip(f"eager construction/arg_combinations: {exc_enum(e)}")
    # requested-output coverage
    for c in cases:
        for op in c["ops"]:
            if op["op"] == "call":
                ctx.count("call:" + ("malformed" if op.get("fault") else "whole" if not isinstance(op["out"], str) else
                                     "cut" if any(k in pipegen.all_outputs({"funcs": c["funcs"]}) for k, _ in op["kw"]) else "roots"))
    check_sessions(ctx, cases)
    check_container_inputs(ctx, rng, ctx.n(80, 1500))
    check_lazy_inputs(ctx, rng, ctx.n(40, 600))
    check_falsy_results(ctx, rng, ctx.n(30, 300))
    check_foreign(ctx, rng, ctx.n(40, 600))
    check_misc(ctx, rng, ctx.n(40, 600))
    c18_refuse.check(ctx, rng, ctx.n(40, 800))
    c18_cont.check(ctx, rng, ctx.n(40, 800))
    c18_multi.check(ctx, rng, ctx.n(40, 800))
    c18_fault.check(ctx, rng, ctx.n(50, 1000))


def replay(ctx, case):
    if case.get("stream") == "refused":
        c18_refuse.replay_one(ctx, case)
        return
    if case.get("stream") == "cont":
        return c18_cont.replay_one(ctx, case)
    if case.get("stream") == "multi":
        c18_multi.replay_one(ctx, case)
        return
    if case.get("stream") == "fault":
        c18_fault.replay_one(ctx, case)
        return
    if case.get("stream") == "container-input":
        x, y = CONTAINERS[case["x"]](), CONTAINERS[case["y"]]()
        print("eager:", observing_pipeline(False, [])("o", x=x, y=y))
        try:
            print("lazy: ", pipegen.quiet(observing_pipeline(True, [])("o", x=x, y=y).evaluate))
        except Exception as e:  # noqa: BLE001
            print("lazy:  raises", type(e).__name__, e)
        return
    if case.get("stream") in ("lazy-input", "falsy-result", "foreign", "misc"):
        {"lazy-input": lazy_input_one, "falsy-result": falsy_one, "foreign": foreign_one, "misc": misc_one}[case["stream"]](ctx, case)
        for v in ctx.violations:
            print("violation:", v["what"], "| implementation:", v["impl"], "| expected:", v["model"])
        if not ctx.violations:
            print("the case passes:", case)
        return
    try:
        impl = run_session({"funcs": case["funcs"]}, case["ops"], case.get("cache"))
    finally:
        _cleanup_tmp()
    print("implementation:", impl)
    r = ctx.lean([model_request(case)])[0]["r"]
    print("model:", model_session(r))
