import PfModel.Lemmas.RewriteRen
import PfModel.Props.C10
/-!
C10, `update_renames` with all its arguments (`update_from="current"|"original"`, `overwrite`), function by function
(`Model/RewriteRen.lean` mirrors `PipeFunc.update_renames`, `_pipefunc.py:358-428`, and `Pipeline.update_renames`,
`_base.py:965-1004`, as written: through the `_renames` dictionary and the ORIGINAL names).

Clause carried: "update_renames … compute … the same values as the original up to the stated renaming" for HISTORIES of
renames — in particular that the bound values and defaults of a function stay with the parameter they were given for
(identified by the wrapped function's own parameter name) whatever renames came before and whichever of them a later
call drops.
-/
namespace PF.C10
open PF PF.Pipe PF.Rw

/-- **One call on one function is one renaming.**  `PipeFunc.update_renames(m, update_from, overwrite)` — the new
    `_renames` dictionary, `defaults`/`bound`/MapSpec taken back to the original names and forward again — is, when it
    accepts, exactly `renameF` by the function's own renaming `rhoF`: a name that is now `c` and was originally `o`
    becomes `m[c]` (`m[o]` with `update_from="original"`) if the dictionary has it, else `o` under `overwrite`, else stays. -/
theorem C10_renames_function (m : List (String × String)) (fromOrig ow : Bool) (f f' : RFunc) (hf : WF f)
    (h : updateRenamesF m fromOrig ow f = .ok f') : f' = renameF (rhoF m fromOrig ow f) f := by
  unfold updateRenamesF at h
  split at h
  · cases h
  · next hnil =>
    have hm := keys_allowed_of_filter m _ hnil
    rw [(validNames_ok _ _ h).1]
    apply applyRenames_eq_renameF _ _ f hf
    intro c o hco
    rw [getSelf_newRenames m fromOrig ow f hf hm c o hco, rhoF_of_mem m fromOrig ow f hf c o hco]

/-- **Bound values and defaults stay with their parameter.**  After an accepted `update_renames(m, update_from, overwrite)`
    the parameters are the old ones under their new names (the wrapped function's own names unchanged), and the value
    bound to (the default of) the parameter that was called `c` is found under its new name — whatever renames the
    function went through before and whichever of them this call drops or hands to another parameter. -/
theorem C10_renames_values_follow (m : List (String × String)) (fromOrig ow : Bool) (f f' : RFunc) (hf : WF f)
    (h : updateRenamesF m fromOrig ow f = .ok f') :
    f'.core.params = f.core.params.map (fun po => (newName m fromOrig ow po.1 po.2, po.2)) ∧
    f'.outOrig = f.outOrig ∧
    ∀ po ∈ f.core.params,
      alookup f'.core.bound (newName m fromOrig ow po.1 po.2) = alookup f.core.bound po.1 ∧
      alookup f'.core.defaults (newName m fromOrig ow po.1 po.2) = alookup f.core.defaults po.1 := by
  have heq := C10_renames_function m fromOrig ow f f' hf h
  have hnd : (curNames f').Nodup := by
    unfold updateRenamesF at h
    split at h
    · cases h
    · have := validNames_ok _ _ h
      rw [this.1]; exact this.2
  rw [heq, curNames_renameF] at hnd
  have hinj := inj_of_nodup_map _ _ hnd
  have hρ : ∀ po ∈ f.core.params, rhoF m fromOrig ow f po.1 = newName m fromOrig ow po.1 po.2 :=
    fun po hpo => rhoF_of_mem m fromOrig ow f hf po.1 po.2 (params_mem_inverse f po hpo)
  have hpar : ∀ x, x ∈ f.core.params.map (·.1) → x ∈ curNames f := fun x hx => List.mem_append_left _ hx
  refine ⟨?_, ?_, ?_⟩
  · rw [heq]
    simp only [renameF]
    apply List.map_congr_left
    intro po hpo
    rw [← hρ po hpo]
  · rw [heq]; rfl
  · intro po hpo
    have hc : po.1 ∈ curNames f := hpar _ (List.mem_map.mpr ⟨po, hpo, rfl⟩)
    rw [← hρ po hpo, heq]
    simp only [renameF, rkv_eq]
    exact ⟨alookup_rename _ (· ∈ curNames f) hinj f.core.bound po.1 (fun kv hkv => hpar _ (hf.bnd kv hkv)) hc,
           alookup_rename _ (· ∈ curNames f) hinj f.core.defaults po.1 (fun kv hkv => hpar _ (hf.dflt kv hkv)) hc⟩

/-- **`Pipeline.update_renames(m, update_from, overwrite)`, when it accepts, renames every function by its own `rhoF`**
    (every function is visited, so an `overwrite` resets also the functions the dictionary does not mention). -/
theorem C10_renames_pipeline (m : List (String × String)) (fromOrig ow : Bool) (fs fs' : List RFunc) (hfs : ∀ f ∈ fs, WF f)
    (h : updateRenamesX m fromOrig ow fs = .ok fs') : fs' = fs.map fun f => renameF (rhoF m fromOrig ow f) f := by
  have hloop : ∀ (fs fs' : List RFunc), (∀ f ∈ fs, WF f) → renamesEach m fromOrig ow fs = .ok fs' →
      fs' = fs.map fun f => renameF (rhoF m fromOrig ow f) f := by
    intro fs
    induction fs with
    | nil => intro fs' _ h; simp only [renamesEach] at h; injection h with h; exact h.symm
    | cons f fs ih =>
      intro fs' hwf h
      simp only [renamesEach] at h
      split at h
      · cases h
      · next f1 h1 =>
        split at h
        · cases h
        · next r hr =>
          injection h with h
          have e1 := C10_renames_function _ fromOrig ow f f1 (hwf f (by simp)) h1
          rw [rhoF_takes] at e1
          rw [← h, e1, ih r (fun g hg => hwf g (List.mem_cons_of_mem _ hg)) hr, List.map_cons]
  unfold updateRenamesX at h
  split at h
  · cases h
  · next r hr =>
    split at h
    · cases h
    · split at h
      · cases h
      · split at h
        · cases h
        · split at h
          · cases h
          · split at h
            · cases h
            · split at h
              · cases h
              · injection h with h; rw [← h]; exact hloop fs r hfs hr

/-- **A call that is ONE renaming of the whole pipeline preserves what the pipeline computes.**  If the functions' own
    renamings agree with one map `ρ` (no name returns to different originals in different functions) that is injective
    on the names in use, the accepted result is `renameAll ρ fs`, and every output evaluates to the same value (or both
    refuse) up to `ρ` — `C10_rename` now covers `update_from` and `overwrite`, after any rename history. -/
theorem C10_renames_uniform (m : List (String × String)) (fromOrig ow : Bool) (fs fs' : List RFunc) (hfs : ∀ f ∈ fs, WF f)
    (h : updateRenamesX m fromOrig ow fs = .ok fs') (ρ : String → String)
    (hρ : ∀ f ∈ fs, ∀ n ∈ curNames f, rhoF m fromOrig ow f n = ρ n)
    (N : String → Prop) (hinj : ∀ a b, N a → N b → ρ a = ρ b → a = b)
    (kw : List (String × Val)) (hN : ∀ f ∈ fs, NamesIn N f.core) (hkw : ∀ kv ∈ kw, N kv.1) (n : Nat) (o : String) (ho : N o) :
    fs' = renameAll ρ fs ∧ Agree (eval fs' (kw.map (rkv ρ)) n (ρ o)) (eval fs kw n o) := by
  have e : fs' = renameAll ρ fs := by
    rw [C10_renames_pipeline m fromOrig ow fs fs' hfs h]
    simp only [renameAll]
    apply List.map_congr_left
    intro f hf
    exact renameF_congr _ _ f (hfs f hf) (hρ f hf)
  exact ⟨e, e ▸ C10_rename ρ N hinj fs kw hN hkw n o ho⟩

/-- **`overwrite=True` with an empty dictionary returns every name to the wrapped function's own** (whatever the history),
    and the bound values / defaults go home with their parameters (`C10_renames_values_follow` with `newName = original`). -/
theorem C10_renames_reset (fromOrig : Bool) (f f' : RFunc) (h : updateRenamesF [] fromOrig true f = .ok f') :
    f'.core.params = f.core.params.map (fun po => (po.2, po.2)) ∧ f'.core.outputs = f.outOrig := by
  unfold updateRenamesF at h
  simp only [akeys, List.map_nil, List.filter_nil] at h
  rw [(validNames_ok _ _ h).1]
  have hn : newRenames [] fromOrig true f = [] := by cases fromOrig <;> simp [newRenames]
  have hg : getSelf [] = id := by funext k; rfl
  refine ⟨?_, ?_⟩ <;> simp [applyRenames, hn, hg]

/-- **A reset forgets the rename history.**  Whatever injective renaming `ρ` a function went through (any number of
    `update_renames` / `update_scope` calls compose to one), `update_renames({}, overwrite=True)` on the renamed function gives
    exactly what it gives on the function before the renaming: names, defaults, bound values and MapSpec all return to the
    wrapped function's own names. -/
theorem C10_renames_reset_forgets (ρ : String → String) (f : RFunc) (hf : WF f)
    (hinj : ∀ a b, a ∈ curNames f → b ∈ curNames f → ρ a = ρ b → a = b) (fromOrig : Bool) :
    updateRenamesF [] fromOrig true (renameF ρ f) = updateRenamesF [] fromOrig true f := by
  have hn : ∀ g, newRenames [] fromOrig true g = [] := by intro g; cases fromOrig <;> simp [newRenames]
  simp only [updateRenamesF, akeys, List.map_nil, List.filter_nil, hn, applyRenames_nil_renameF ρ f hf hinj]

/-! ### non-vacuity: the scenario of the seeded change (f(a, b) with b bound; b → x; then `{a: x}` from the original names
    with overwrite: the freed name `x` goes to `a`, the bound value goes home to `b`) -/

example : (applyRenames (newRenames [("a", "x")] true true fAX) fAX).core.params = [("x", "a"), ("b", "b")] ∧
    akeys (applyRenames (newRenames [("a", "x")] true true fAX) fAX).core.bound = ["b"] := by decide

example : ∃ f', updateRenamesF [("a", "x")] true true fAX = .ok f' := by
  refine ⟨applyRenames (newRenames [("a", "x")] true true fAX) fAX, ?_⟩
  simp only [updateRenamesF, validNames]
  rfl

/-- the swap `a ↔ x` in one call, in terms of the current names, keeps the bound value on the original `b` -/
example : (applyRenames (newRenames [("a", "x"), ("x", "a")] false false fAX) fAX).core.params = [("x", "a"), ("a", "b")] ∧
    akeys (applyRenames (newRenames [("a", "x"), ("x", "a")] false false fAX) fAX).core.bound = ["a"] := by decide

/-- `C10_renames_function` / `C10_renames_values_follow` applied end to end to that call: the value bound under `x` is found under `b` -/
example : ∀ f', updateRenamesF [("a", "x")] true true fAX = .ok f' →
    f' = renameF (rhoF [("a", "x")] true true fAX) fAX ∧ alookup f'.core.bound "b" = alookup fAX.core.bound "x" := by
  intro f' h
  refine ⟨C10_renames_function _ _ _ fAX f' wf_fAX h, ?_⟩
  have := ((C10_renames_values_follow _ _ _ fAX f' wf_fAX h).2.2 ("x", "b") (by decide)).1
  simpa [newName, alookup] using this

/-- `fAX` is `fAB` renamed: resetting it is resetting `fAB` -/
example : updateRenamesF [] false true fAX = updateRenamesF [] false true fAB :=
  C10_renames_reset_forgets _ fAB wf_fAB (by
    intro a b ha hb
    simp only [curNames, fAB, List.map_cons, List.map_nil, List.cons_append, List.nil_append, List.mem_cons, List.not_mem_nil, or_false] at ha hb
    rcases ha with rfl | rfl | rfl <;> rcases hb with rfl | rfl | rfl <;> first | (intro _; rfl) | (intro h; exact absurd h (by decide))) false

/-- a reset returns the names to the wrapped function's own -/
example : ∀ f', updateRenamesF [] false true fAX = .ok f' → f'.core.params = [("a", "a"), ("b", "b")] := by
  intro f' h; exact (C10_renames_reset false fAX f' h).1

/-- pipeline level (a parameterless function, so that no parameter scope has to be computed — string splitting is not
    kernel-reducible): the output renamed `o → y` earlier is reset, or renamed from its original name -/
private def nY : RFunc := { core := { name := "n", params := [], outputs := ["y"], defaults := [], bound := [] }, outOrig := ["o"], body := none }
example : (updateRenamesX [] false true [nY]).toOption.map allOutputs = some ["o"] := by decide
example : (updateRenamesX [("o", "z")] true false [nY]).toOption.map allOutputs = some ["z"] := by decide
example : (updateRenamesX [("o", "z")] false false [nY]).toOption.map allOutputs = none := by decide       -- `o` is not a current name: unused key

/-- `C10_renames_uniform` applied end to end: the pipeline renamed from the ORIGINAL name `o` computes for `z` what it computed for `y` -/
example (n : Nat) : ∀ fs', updateRenamesX [("o", "z")] true false [nY] = .ok fs' → Agree (eval fs' [] n "z") (eval [nY] [] n "y") := by
  intro fs' h
  have hwf : ∀ f ∈ [nY], WF f := by
    intro f hf; simp only [List.mem_singleton] at hf; subst hf
    exact ⟨by decide, by decide, rfl, (by intro kv h; cases h), (by intro kv h; cases h), (by intro ms h; cases h)⟩
  have := (C10_renames_uniform _ _ _ _ fs' hwf h (fun n => if n = "y" then "z" else n)
    (by intro f hf n hn; simp only [List.mem_singleton] at hf; subst hf; simp [curNames, nY] at hn; subst hn; decide)
    (· = "y") (by intro a b ha hb _; rw [ha, hb]) []
    (by intro f hf; simp only [List.mem_singleton] at hf; subst hf
        exact ⟨(by intro p h; cases h), (by intro o h; simpa [nY] using h), (by intro kv h; cases h), (by intro kv h; cases h)⟩)
    (by intro kv h; cases h) n "y" rfl).2
  simpa using this

/- (`updateRenamesX … = .ok _` on functions WITH parameters is not kernel-reducible — `validate_scopes` splits strings —; that it accepts
   there is the correspondence: ≈ 350 accepted calls per quick run, 300 of them one injective renaming of the pipeline.) -/

end PF.C10
