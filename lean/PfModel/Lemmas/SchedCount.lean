import PfModel.Lemmas.Sched
import PfModel.Lemmas.SubPipeOnce
import PfModel.Model.SchedCount
/-! Counting lemmas for `PF.Sched`: calls per function name, bodies per submitted future. -/
namespace PF.SchedC
open PF PF.Map PF.Sched

/-- what parent-side processing of one function reports: one call per future, all under the function's name -/
theorem processFunc_calls_shape (dumpSub : String → Bool) (st : GState) (j : Nat) (f : MFunc) (plan : Plan) (r : FuncResult)
    (h : processFunc dumpSub st j f plan = .ok r) : r.calls.length = nFut plan ∧ ∀ c ∈ r.calls, c.name = f.name := by
  cases plan with
  | bad e => simp [processFunc] at h
  | single =>
    simp only [processFunc, bind, Except.bind] at h
    split at h
    · cases h
    · simp only [pure, Except.pure, Except.ok.injEq] at h
      subst h
      simp [nFut]
  | mapped ms sh mk =>
    simp only [processFunc, bind, Except.bind] at h
    split at h
    · cases h
    · next argsAt hm =>
      simp only [pure, Except.pure, Except.ok.injEq] at h
      subst h
      have hlen := mapM_ok_length _ _ _ hm
      simp only [List.length_range] at hlen
      refine ⟨by simp [nFut, hlen], ?_⟩
      intro c hc
      simp only [List.mem_map] at hc
      obtain ⟨a, _, rfl⟩ := hc; rfl

theorem countP_name_of_all (n : String) (m : String) : ∀ (l : List Call), (∀ c ∈ l, c.name = m) →
    l.countP (fun c => c.name == n) = if m = n then l.length else 0 := by
  intro l
  induction l with
  | nil => intro _; simp
  | cons c cs ih =>
    intro h
    have hc := h c List.mem_cons_self
    have ih' := ih (fun c' hc' => h c' (List.mem_cons_of_mem _ hc'))
    by_cases e : m = n
    · simp only [e, if_true] at ih' ⊢
      rw [List.countP_cons_of_pos (by simp [hc, e]), ih']; simp
    · simp only [e, if_false] at ih' ⊢
      rw [List.countP_cons_of_neg (by simp [hc, e]), ih']

theorem processGen_count (dumpSub : String → Bool) (st : GState) (n : String) :
    ∀ (pg : List (MFunc × Plan)) (j0 : Nat) (rs : List FuncResult), processGen dumpSub st j0 pg = .ok rs →
      (rs.flatMap (·.calls)).countP (fun c => c.name == n) = (pg.map fun fp => if fp.1.name = n then nFut fp.2 else 0).sum := by
  intro pg
  induction pg with
  | nil =>
    intro j0 rs h
    simp only [processGen, pure, Except.pure, Except.ok.injEq] at h
    subst h; simp
  | cons fp rest ih =>
    intro j0 rs h
    simp only [processGen, bind, Except.bind] at h
    split at h
    · cases h
    · next r hr =>
      split at h
      · cases h
      · next rs' hrs =>
        simp only [pure, Except.pure, Except.ok.injEq] at h
        subst h
        obtain ⟨hl, hn⟩ := processFunc_calls_shape dumpSub st j0 fp.1 fp.2 r hr
        simp only [List.flatMap_cons, List.countP_append, List.map_cons, List.sum_cons, ih (j0 + 1) rs' hrs,
          countP_name_of_all n fp.1.name r.calls hn, hl]

/-- one generation, any schedule: the executed calls named `n` are as many as the futures of the functions named `n` -/
theorem runGenSched_count (fs : List MFunc) (shapes : List (String × List Nat)) (masks : List (String × List Bool))
    (dumpSub : String → Bool) (env : Env) (gen : List MFunc) (order : List TaskId)
    (hperm : order.Perm (idsFrom 0 (planned shapes masks gen))) (hind : GenIndep gen)
    (rs : List FuncResult) (tr : GenTrace) (h : runGenSched fs shapes masks dumpSub env gen order = .ok (rs, tr)) (n : String) :
    tr.calls.countP (fun c => c.name == n) = (gen.map fun f => if f.name = n then nFut (planOf shapes masks f) else 0).sum := by
  have hp := runGenSched_calls_perm fs shapes masks dumpSub env gen order hperm hind rs tr h
  rw [hp.countP_eq]
  unfold runGenSched at h
  simp only [bind, Except.bind] at h
  split at h
  · cases h
  · next rs0 hrs =>
    simp only [pure, Except.pure, Except.ok.injEq, Prod.mk.injEq] at h
    obtain ⟨rfl, _⟩ := h
    rw [processGen_count dumpSub _ n _ 0 rs0 hrs, List.map_map]
    rfl

theorem runGensSched_count (fs : List MFunc) (shapes : List (String × List Nat)) (masks : List (String × List Bool))
    (dumpSub : String → Bool) (sched : Scheds) (hs : ValidScheds sched) (n : String) :
    ∀ (gens : List (List MFunc)) (g : Nat) (env : Env) (r : List FuncResult × Env × List GenTrace),
      (∀ gen ∈ gens, GenIndep gen) → runGensSched fs shapes masks dumpSub sched g gens env = .ok r →
      (r.2.2.flatMap (·.calls)).countP (fun c => c.name == n) =
        (gens.flatten.map fun f => if f.name = n then nFut (planOf shapes masks f) else 0).sum := by
  intro gens
  induction gens with
  | nil =>
    intro g env r _ h
    simp only [runGensSched, pure, Except.pure, Except.ok.injEq] at h
    subst h; simp
  | cons gen rest ih =>
    intro g env r hq h
    simp only [runGensSched, bind, Except.bind] at h
    split at h
    · cases h
    · next v hv =>
      obtain ⟨rs, tr0⟩ := v
      simp only at h
      split at h
      · cases h
      · next w hw =>
        obtain ⟨more, envF, trs⟩ := w
        simp only [pure, Except.pure, Except.ok.injEq] at h
        subst h
        simp only [List.flatMap_cons, List.countP_append, List.flatten_cons, List.map_append, List.sum_append]
        rw [runGenSched_count fs shapes masks dumpSub env gen _ (hs g _) (hq gen List.mem_cons_self) rs tr0
              (by simpa [planned] using hv) n,
            ih (g + 1) _ _ (fun x hx => hq x (List.mem_cons_of_mem _ hx)) hw]

/-! ### selecting one summand by a duplicate-free key -/

theorem sum_none {α} (key : α → String) (w : α → Nat) (k : String) : ∀ (l : List α), (∀ y ∈ l, key y ≠ k) →
    (l.map fun y => if key y = k then w y else 0).sum = 0 := by
  intro l
  induction l with
  | nil => intro _; rfl
  | cons x xs ih =>
    intro h
    simp only [List.map_cons, List.sum_cons, if_neg (h x List.mem_cons_self),
      ih (fun y hy => h y (List.mem_cons_of_mem _ hy))]

theorem sum_select {α} (key : α → String) (w : α → Nat) : ∀ (l : List α), (l.map key).Nodup → ∀ a ∈ l,
    (l.map fun x => if key x = key a then w x else 0).sum = w a := by
  intro l
  induction l with
  | nil => intro _ a ha; cases ha
  | cons x xs ih =>
    intro hnd a ha
    simp only [List.map_cons, List.nodup_cons, List.mem_map, not_exists, not_and] at hnd
    obtain ⟨hx, hxs⟩ := hnd
    simp only [List.map_cons, List.sum_cons]
    rcases List.mem_cons.mp ha with rfl | ha'
    · rw [if_pos rfl, sum_none key w (key a) xs (fun y hy => hx y hy)]; rfl
    · rw [if_neg (fun e => hx a ha' e.symm), ih hxs a ha']; simp

/-! ### names in the Kahn layers -/

theorem layers_mem (fs : List MFunc) : ∀ (n : Nat) (done : List String) (rest : List MFunc),
    ∀ f ∈ (layers fs n done rest).flatten, f ∈ rest := by
  intro n
  induction n with
  | zero => intro _ _ f hf; simp [layers] at hf
  | succ n ih =>
    intro done rest f hf
    simp only [layers] at hf
    split at hf
    · simp at hf
    · split at hf
      · simp at hf
      · simp only [List.flatten_cons, List.mem_append] at hf
        rcases hf with e | e
        · exact (List.mem_filter.mp e).1
        · exact (List.mem_filter.mp (ih _ _ f e)).1

theorem layers_names_nodup (fs : List MFunc) : ∀ (n : Nat) (done : List String) (rest : List MFunc),
    (rest.map (·.name)).Nodup → ((layers fs n done rest).flatten.map (·.name)).Nodup := by
  intro n
  induction n with
  | zero => intro _ _ _; simp [layers]
  | succ n ih =>
    intro done rest hnd
    simp only [layers]
    split
    · simp
    · split
      · simp
      · simp only [List.flatten_cons, List.map_append]
        rw [List.nodup_append]
        refine ⟨hnd.sublist ((List.filter_sublist).map _), ih _ _ (hnd.sublist ((List.filter_sublist).map _)), ?_⟩
        intro a ha b hb e
        obtain ⟨f, hf, rfl⟩ := List.mem_map.mp ha
        obtain ⟨h, hh, rfl⟩ := List.mem_map.mp hb
        have hh' := (List.mem_filter.mp (layers_mem fs _ _ _ h hh)).2
        simp only [Bool.not_eq_eq_eq_not, Bool.not_true, List.any_eq_false] at hh'
        exact hh' f hf (by simpa using e)

theorem generations_names_nodup (fs : List MFunc) (h : (fs.map (·.name)).Nodup) :
    ((generations fs).flatten.map (·.name)).Nodup := layers_names_nodup fs _ [] fs h

/-! ### the execution log -/

theorem runLog_count (g : Nat) (id : TaskId) : ∀ (trs : List GenTrace) (g0 : Nat), g0 ≤ g →
    (runLog g0 trs).count (g, id) = match trs[g - g0]? with | some tr => tr.ran.count id | none => 0 := by
  intro trs
  induction trs with
  | nil => intro g0 _; simp [runLog]
  | cons tr rest ih =>
    intro g0 hle
    simp only [runLog, List.count_append]
    by_cases e : g = g0
    · subst e
      have h1 : (List.map (fun id => (g, id)) tr.ran).count (g, id) = tr.ran.count id := by
        induction tr.ran with
        | nil => rfl
        | cons x xs ihx =>
          simp only [List.map_cons, List.count_cons, ihx]
          congr 1
          by_cases ex : x = id <;> simp [ex]
      have h2 : (runLog (g + 1) rest).count (g, id) = 0 := by
        apply List.count_eq_zero_of_not_mem
        intro hm
        have : ∀ (trs : List GenTrace) (g1 : Nat) (x : Nat × TaskId), x ∈ runLog g1 trs → g1 ≤ x.1 := by
          intro trs
          induction trs with
          | nil => intro g1 x hx; simp [runLog] at hx
          | cons t ts iht =>
            intro g1 x hx
            simp only [runLog, List.mem_append, List.mem_map] at hx
            rcases hx with ⟨_, _, rfl⟩ | hx
            · exact Nat.le_refl _
            · exact Nat.le_of_succ_le (iht (g1 + 1) x hx)
        have := this rest (g + 1) (g, id) hm
        simp only at this
        omega
      simp [h1, h2]
    · have h1 : (List.map (fun id => (g0, id)) tr.ran).count (g, id) = 0 := by
        apply List.count_eq_zero_of_not_mem
        intro hm
        obtain ⟨_, _, hx⟩ := List.mem_map.mp hm
        simp only [Prod.mk.injEq] at hx
        exact e hx.1.symm
      have : g - g0 = (g - (g0 + 1)) + 1 := by omega
      rw [h1, ih (g0 + 1) (by omega), this, List.getElem?_cons_succ]
      simp

/-- a successful whole run is a successful run of the generation loop on the shapes and masks it reports -/
theorem runMapSched_ok' (fs : List MFunc) (inputs : List (String × Val)) (ui : List (String × List Nat))
    (dumpSub : String → Bool) (sched : Scheds) (res : MapResult) (trs : List GenTrace)
    (h : runMapSched fs inputs ui dumpSub sched = .ok (res, trs)) :
    (generations fs).flatten.length = fs.length ∧
    ∃ rs env, runGensSched fs res.shapes res.masks dumpSub sched 0 (generations fs) { inputs := inputs, store := [] }
      = .ok (rs, env, trs) := by
  unfold runMapSched at h
  simp only [bind, Except.bind] at h
  split at h
  · cases h
  · split at h
    · cases h
    · next hcyc =>
      split at h
      · cases h
      · next sm _ =>
        obtain ⟨shapes, masks⟩ := sm
        simp only at h
        split at h
        · cases h
        · next w hw =>
          obtain ⟨rs, env, trs'⟩ := w
          simp only [pure, Except.pure, Except.ok.injEq, Prod.mk.injEq] at h
          obtain ⟨rfl, rfl⟩ := h
          exact ⟨by simpa using hcyc, rs, env, hw⟩

end PF.SchedC
