import PfModel.Model.XLabelFolder
import PfModel.Lemmas.XLabel
/-! Lemmas about run-folder histories (`Model.XLabelFolder`): frame properties of `step` / `exec`. -/
namespace PF.XLabel
open PF PF.Map

theorem slotAt_setSlot (d : Disk) (p q : String) (s : FolderState) :
    slotAt (setSlot d p s) q = if p = q then s else slotAt d q := by
  unfold slotAt setSlot
  simp only [alookup]
  split <;> simp

theorem slotAt_setSlot_same (d : Disk) (p : String) (s : FolderState) : slotAt (setSlot d p s) p = s := by
  rw [slotAt_setSlot]; simp

theorem slotAt_setSlot_other (d : Disk) (p q : String) (s : FolderState) (h : p ≠ q) : slotAt (setSlot d p s) q = slotAt d q := by
  rw [slotAt_setSlot]; simp [h]

theorem slotAt_nil (p : String) : slotAt [] p = .absent := rfl

theorem freshRun_frame (d : Disk) (path p : String) (fs : List MFunc) (inputs : List (String × Val))
    (ui : List (String × List Nat)) (h : path ≠ p) : slotAt (freshRun d path fs inputs ui).1 p = slotAt d p := by
  unfold freshRun
  split <;> exact slotAt_setSlot_other _ _ _ _ h

/-- a call that does not write `p` leaves the slot of `p` as it was -/
theorem step_frame (eqv : Val → Val → Bool) (d : Disk) (op : Op) (p : String) (h : op.writes p = false) :
    slotAt (step eqv d op).1 p = slotAt d p := by
  cases op with
  | map path fs inputs ui cleanup =>
    have hne : path ≠ p := by simpa [Op.writes] using h
    simp only [step]
    split
    · exact freshRun_frame d path p fs inputs ui hne
    · split
      · exact freshRun_frame d path p fs inputs ui hne
      · rfl
      · split
        · exact slotAt_setSlot_other _ _ _ _ hne
        · rfl
  | load path names li => rfl
  | outputs path names => rfl
  | remove path =>
    have hne : path ≠ p := by simpa [Op.writes] using h
    exact slotAt_setSlot_other _ _ _ _ hne

theorem exec_nil (eqv : Val → Val → Bool) (d : Disk) : exec eqv d [] = (d, []) := rfl

theorem exec_cons (eqv : Val → Val → Bool) (d : Disk) (op : Op) (rest : List Op) :
    exec eqv d (op :: rest) = ((exec eqv (step eqv d op).1 rest).1, (step eqv d op).2 :: (exec eqv (step eqv d op).1 rest).2) := rfl

/-- calls that do not write `p` leave the slot of `p` as it was -/
theorem exec_frame (eqv : Val → Val → Bool) (p : String) :
    ∀ (ops : List Op) (d : Disk), (∀ op ∈ ops, op.writes p = false) → slotAt (exec eqv d ops).1 p = slotAt d p
  | [], _, _ => rfl
  | op :: rest, d, h => by
    rw [exec_cons]
    simp only []
    rw [exec_frame eqv p rest _ (fun o ho => h o (List.mem_cons_of_mem _ ho))]
    exact step_frame eqv d op p (h op List.mem_cons_self)

theorem exec_append (eqv : Val → Val → Bool) :
    ∀ (a b : List Op) (d : Disk), (exec eqv d (a ++ b)).1 = (exec eqv (exec eqv d a).1 b).1
  | [], _, _ => rfl
  | op :: rest, b, d => by
    simp only [List.cons_append, exec_cons]
    exact exec_append eqv rest b _

/-- the state is a function of the slots only as far as any call can tell: what a load sees at `p` is decided by `slotAt · p` -/
theorem step_load_obs (eqv : Val → Val → Bool) (d d' : Disk) (p : String) (names : List String) (li : Bool)
    (h : slotAt d p = slotAt d' p) : (step eqv d (.load p names li)).2 = (step eqv d' (.load p names li)).2 := by
  unfold step; simp only [h]

theorem step_outputs_obs (eqv : Val → Val → Bool) (d d' : Disk) (p : String) (names : List String)
    (h : slotAt d p = slotAt d' p) : (step eqv d (.outputs p names)).2 = (step eqv d' (.outputs p names)).2 := by
  unfold step; simp only [h]

/-- a completed `cleanup=True` run into `p` decides the slot of `p` -/
theorem step_map_clean (eqv : Val → Val → Bool) (d : Disk) (p : String) (fs : List MFunc) (inputs : List (String × Val))
    (ui : List (String × List Nat)) (r : MapResult) (h : runMap fs inputs ui = .ok r) :
    slotAt (step eqv d (.map p fs inputs ui true)).1 p = .run (written fs inputs ui r) := by
  unfold step freshRun
  simp only [if_true, h]
  exact slotAt_setSlot_same _ _ _

/-- the dataset a loader builds from the records of a completed run is the dataset built from its results -/
theorem folderDataset_written (fs : List MFunc) (inputs : List (String × Val)) (ui : List (String × List Nat)) (r : MapResult)
    (h : runMap fs inputs ui = .ok r) (names : List String) (li : Bool) :
    folderDataset (written fs inputs ui r) names li =
      xarrayDataset (pipelineMapspecs fs) (effectiveInputs fs inputs) (alookup r.outputs)
        (if names.isEmpty then akeys r.outputs else names) li := by
  unfold folderDataset written effectiveInputs
  simp only [runMap_stored_eq_outputs fs inputs ui r h]

theorem freshRun_slot (d : Disk) (p : String) (fs : List MFunc) (inputs : List (String × Val)) (ui : List (String × List Nat)) :
    slotAt (freshRun d p fs inputs ui).1 p = runSlot fs inputs ui := by
  unfold freshRun runSlot
  split <;> exact slotAt_setSlot_same _ _ _

/-- one call, seen from one folder -/
theorem step_slot (eqv : Val → Val → Bool) (d : Disk) (op : Op) (p : String) :
    slotAt (step eqv d op).1 p = stepSlot eqv p (slotAt d p) op := by
  cases op with
  | map path fs inputs ui cleanup =>
    by_cases hp : path = p
    · subst hp
      simp only [step, stepSlot, if_true]
      split
      · exact freshRun_slot d path fs inputs ui
      · split
        · exact freshRun_slot d path fs inputs ui
        · next h => exact h
        · next f h =>
          split
          · exact slotAt_setSlot_same _ _ _
          · exact h
    · have hw : (Op.map path fs inputs ui cleanup).writes p = false := by simp [Op.writes, hp]
      rw [step_frame eqv d _ p hw]
      simp [stepSlot, hp]
  | load path names li => rfl
  | outputs path names => rfl
  | remove path =>
    by_cases hp : path = p
    · subst hp
      simp only [step, stepSlot, if_true]
      exact slotAt_setSlot_same _ _ _
    · simp only [step, stepSlot, hp, if_false]
      exact slotAt_setSlot_other _ _ _ _ hp

/-! ### the invariant of every history: a folder that holds a run holds the MapSpecs and the values of ONE completed run -/

def GoodSlot : FolderState → Prop
  | .run f => ∃ fs inputs ui r, runMap fs inputs ui = .ok r ∧ f.mss = pipelineMapspecs fs ∧ f.stored = r.outputs
  | _ => True

def GoodDisk (d : Disk) : Prop := ∀ p, GoodSlot (slotAt d p)

theorem goodDisk_nil : GoodDisk [] := fun _ => trivial

theorem goodDisk_setSlot (d : Disk) (p : String) (s : FolderState) (hd : GoodDisk d) (hs : GoodSlot s) : GoodDisk (setSlot d p s) := by
  intro q
  rw [slotAt_setSlot]
  split
  · exact hs
  · exact hd q

theorem goodDisk_freshRun (d : Disk) (path : String) (fs : List MFunc) (inputs : List (String × Val))
    (ui : List (String × List Nat)) (hd : GoodDisk d) : GoodDisk (freshRun d path fs inputs ui).1 := by
  unfold freshRun
  split
  · next r hr =>
    exact goodDisk_setSlot d path _ hd ⟨fs, inputs, ui, r, hr, rfl, runMap_stored_eq_outputs fs inputs ui r hr⟩
  · exact goodDisk_setSlot d path _ hd trivial

theorem goodDisk_step (eqv : Val → Val → Bool) (d : Disk) (op : Op) (hd : GoodDisk d) : GoodDisk (step eqv d op).1 := by
  cases op with
  | map path fs inputs ui cleanup =>
    simp only [step]
    split
    · exact goodDisk_freshRun d path fs inputs ui hd
    · split
      · exact goodDisk_freshRun d path fs inputs ui hd
      · exact hd
      · next f hf =>
        split
        · apply goodDisk_setSlot d path _ hd
          have := hd path
          rw [hf] at this
          obtain ⟨fs0, in0, ui0, r0, h0, hm, hs⟩ := this
          exact ⟨fs0, in0, ui0, r0, h0, hm, hs⟩
        · exact hd
  | load path names li => exact hd
  | outputs path names => exact hd
  | remove path => exact goodDisk_setSlot d path _ hd trivial

theorem goodDisk_exec (eqv : Val → Val → Bool) : ∀ (ops : List Op) (d : Disk), GoodDisk d → GoodDisk (exec eqv d ops).1
  | [], _, hd => hd
  | op :: rest, d, hd => by
    rw [exec_cons]
    exact goodDisk_exec eqv rest _ (goodDisk_step eqv d op hd)

end PF.XLabel
