import PfModel.Lemmas.LazySession
/-!
C18 — Lazy pipelines evaluate to the eager result, at most once per node.

`PF.Lazy.lrunTop` mirrors `Pipeline.run` with `lazy=True` (node table, `all_results` of node ids, the task graph's cache, edge
registration in `_LazyFunction.__init__`), `PF.Lazy.evaluate` mirrors `_LazyFunction.evaluate` (`_evaluated/_result`), `PF.Lazy.den`
is the memo-free, log-free value a node stands for and `PF.Pipe.compose` is the eager specification of C02.
A *session* is a sequence of lazy calls (each with its own keyword arguments), `evaluate()`s and `construct_dag()` blocks on one
pipeline, which may have a cache of its own (`cache_type`, `cache=True` functions); `Sess` is its invariant.  The hypothesis
`PF.PipeCache.WF fs rank` (unique output names, consistent defaults, acyclic) is what `Pipeline.__init__` validates; the driver
evaluates it on every generated pipeline.
-/
namespace PF.C18
open PF PF.Pipe PF.Lazy

/-- a new session satisfies the invariant: no nodes, no task graph, and the pipeline's own cache (if it has one: `own = true`) is
    empty; `cfn` are the functions with `cache=True` -/
theorem C18_session_init (fs : List Func) (own : Bool) (cfn : List (List String)) :
    Sess fs { memo := [], used := [], usedNone := false, nodes := [], tg := none, ev := ⟨[], []⟩,
              own := if own then some [] else none, cfn := cfn } := by
  refine ⟨?_, ?_, ?_, ?_, ⟨List.nodup_nil, ?_⟩, ?_, ?_⟩
  · intro i nd h; simp at h
  · intro key a h; cases own <;> simp [entries] at h
  · intro g h; cases h
  · intro i w h; simp [dlookup] at h
  · intro i h; cases h
  · intro i nd h; simp [dlookup] at h
  · intro i h; simp [dlookup] at h

/-- entering `construct_dag()` starts an empty graph with an empty cache; leaving it drops both -/
theorem C18_session_dag (fs : List Func) (s : LSt) (h : Sess fs s) :
    Sess fs (enterDag s) ∧ Sess fs (exitDag s) := by
  have hsub : ∀ e, e ∈ (match s.own with | some c => c | none => []) → e ∈ entries s := fun e he => List.mem_append_right _ he
  refine ⟨⟨h.closed, ?_, ?_, h.done, h.log, h.xclosed, h.logged⟩, ⟨h.closed, ?_, ?_, h.done, h.log, h.xclosed, h.logged⟩⟩
  · intro key a hmem
    simp only [enterDag, entries, List.nil_append] at hmem
    exact h.cache key a (hsub _ hmem)
  · intro g hg
    simp only [enterDag, Option.some.injEq] at hg; subst hg
    refine ⟨?_, ?_⟩
    · intro n hn; cases hn
    · intro a n
      constructor
      · intro h; cases h
      · intro h; cases h.1
  · intro key a hmem
    simp only [exitDag, entries, List.nil_append] at hmem
    exact h.cache key a (hsub _ hmem)
  · intro g hg; cases hg

/-- **Deferred.** A lazy call evaluates nothing: no node's `_evaluated` flag or `_result` changes and the call log is the
    one from before the call; nodes are only added. -/
theorem C18_deferred (fs : List Func) (kw : List (String × Val)) (rank : String → Nat) (wf : PipeCache.WF fs rank) (s : LSt)
    (hs : Sess fs s) (o : String)
    (a : LArg) (s' : LSt) (h : lrunTop fs kw (.name o) s = .ok (a, s')) :
    s'.ev = s.ev ∧ (∃ ext, s'.nodes = s.nodes ++ ext) ∧ Sess fs s' := by
  obtain ⟨hst, hi, _⟩ := lrunTop_name wf hs h
  exact ⟨hst.2.1, hst.1, sess_after hs hst hi⟩

/-- **`evaluate()` equals the eager result.** The object a lazy call returns stands for the value of the memo-free composition
    along the DAG (C02's specification), and whenever `evaluate()` returns, it returns that value — whatever was evaluated
    before, whatever is shared with other calls of the session, inside or outside `construct_dag()`. -/
theorem C18_eager (fs : List Func) (kw : List (String × Val)) (rank : String → Nat) (wf : PipeCache.WF fs rank) (s : LSt)
    (hs : Sess fs s) (o : String)
    (a : LArg) (s' : LSt) (h : lrunTop fs kw (.name o) s = .ok (a, s')) :
    ∃ v, (∃ k, compose fs kw k o = .ok v) ∧ den s'.nodes a = some v ∧
      ∀ v' s'', evaluate a s' = .ok (v', s'') → v' = v := by
  obtain ⟨hst, hi, v, k, hd, hc⟩ := lrunTop_name wf hs h
  have hs' := sess_after hs hst hi
  refine ⟨v, ⟨k, hc⟩, hd, ?_⟩
  intro v' s'' he
  simp only [evaluate] at he
  split at he
  · cases he
  · next v1 e1 hev =>
    injection he with he; injection he with h1 _; subst h1
    obtain ⟨hd', _⟩ := evalArg_sound (eval_sound hs'.closed _) a s'.ev v1 e1 hs'.done hev
    rw [hd] at hd'; injection hd' with hd'; exact hd'.symm

/-- **Whole-tuple requests.** `pipeline(("b", "c"), **kw)` returns (deferred: nothing is evaluated) an object that stands for the
    raw tuple the function returns on the composition of its arguments, and `evaluate()` returns that tuple — also when the
    object comes from a cache. -/
theorem C18_whole (fs : List Func) (kw : List (String × Val)) (rank : String → Nat) (wf : PipeCache.WF fs rank) (s : LSt)
    (hs : Sess fs s) (os : List String)
    (a : LArg) (s' : LSt) (h : lrunTop fs kw (.whole os) s = .ok (a, s')) :
    s'.ev = s.ev ∧ Sess fs s' ∧
    ∃ f k vals, fs.find? (fun f => f.outputs = os) = some f ∧ composeArgsWith (compose fs kw k) fs kw f f.params = .ok vals ∧
      den s'.nodes a = some (result f vals) ∧ ∀ v' s'', evaluate a s' = .ok (v', s'') → v' = result f vals := by
  obtain ⟨hst, hi, f, k, vals, hfind, hk, hd⟩ := lrunTop_whole wf hs h
  have hs' := sess_after hs hst hi
  refine ⟨hst.2.1, hs', f, k, vals, hfind, hk, hd, ?_⟩
  intro v' s'' he
  simp only [evaluate] at he
  split at he
  · cases he
  · next v1 e1 hev =>
    injection he with he; injection he with h1 _; subst h1
    obtain ⟨hd', _⟩ := evalArg_sound (eval_sound hs'.closed _) a s'.ev v1 e1 hs'.done hev
    rw [hd] at hd'; injection hd' with hd'; exact hd'.symm

/-- `evaluate()` of any object of the session keeps the session invariant, returns the value the object stands for, and only
    appends to the call log -/
theorem C18_evaluate (fs : List Func) (s : LSt) (hs : Sess fs s) (a : LArg) (v : Val) (s' : LSt)
    (h : evaluate a s = .ok (v, s')) :
    den s.nodes a = some v ∧ Sess fs s' ∧ s'.nodes = s.nodes ∧ s'.tg = s.tg ∧ ∃ new, s'.ev.log = s.ev.log ++ new := by
  simp only [evaluate] at h
  split at h
  · cases h
  · next v1 e1 hev =>
    injection h with h; injection h with h1 h2; subst h1; subst h2
    obtain ⟨hd, hds⟩ := evalArg_sound (eval_sound hs.closed _) a s.ev v1 e1 hs.done hev
    cases a with
    | val w =>
      simp [evalArg] at hev; obtain ⟨_, rfl⟩ := hev
      exact ⟨hd, ⟨hs.closed, hs.cache, hs.graph, hds, hs.log, hs.xclosed, hs.logged⟩, rfl, rfl, [], by simp⟩
    | ref i =>
      obtain ⟨⟨hli, _, _, hnew⟩, _⟩ := eval_once hs.closed _ i s.ev v1 e1 hs.log hev
      obtain ⟨hx, _⟩ := eval_exact hs.closed _ i s.ev v1 e1 hs.xinv hev
      exact ⟨hd, ⟨hs.closed, hs.cache, hs.graph, hds, hli, hx.closed, hx.logged⟩, rfl, rfl, hnew⟩

/-- **At most once.** In every state a session can reach — after any number of lazy calls and `evaluate()`s on any of the
    returned objects, however many consumers share a node — the log of invocations has no duplicates: no node's function
    (user function or output picker) is invoked twice. -/
theorem C18_once (fs : List Func) (s : LSt) (hs : Sess fs s) : s.ev.log.Nodup := hs.log.1

/-- **Exactly the needed nodes.** `evaluate()` of an object invokes exactly the nodes the object depends on (`Needs`: the object
    itself and, transitively, the `_LazyFunction`s among the arguments) that have not been invoked before — no needed node is
    skipped, no other node is touched — and afterwards every node the object depends on is evaluated.  With `C18_once` (no
    duplicates in the log) and `C18_evaluate` (the log only grows): each needed function exactly once, however many consumers
    share it and however the evaluations of objects that share nodes interleave. -/
theorem C18_exact (fs : List Func) (s : LSt) (hs : Sess fs s) (a : LArg) (v : Val) (s' : LSt)
    (h : evaluate a s = .ok (v, s')) :
    (∀ i, i ∈ s'.ev.log ↔ (i ∈ s.ev.log ∨ Needs s.nodes a i)) ∧ (∀ i, Needs s.nodes a i → (dlookup s'.ev.done i).isSome) := by
  simp only [evaluate] at h
  split at h
  · cases h
  · next v1 e1 hev =>
    injection h with h; injection h with h1 h2; subst h1; subst h2
    cases a with
    | val w =>
      simp [evalArg] at hev; obtain ⟨_, rfl⟩ := hev
      exact ⟨fun i => ⟨Or.inl, fun h => h.elim id (fun hn => (needs_val hn).elim)⟩, fun i hn => (needs_val hn).elim⟩
    | ref j =>
      obtain ⟨hx, hm, hr, hl⟩ := eval_exact hs.closed _ j s.ev v1 e1 hs.xinv hev
      have hroot : (dlookup e1.done j).isSome := hr j (List.mem_singleton.mpr rfl)
      refine ⟨fun i => ⟨?_, ?_⟩, fun i hn => needs_done hx.closed hroot hn⟩
      · intro hi
        rcases (hl i).mp hi with h | ⟨⟨j', hj', hn⟩, _⟩
        · exact Or.inl h
        · simp only [List.mem_singleton] at hj'; subst hj'; exact Or.inr hn
      · rintro (h | hn)
        · exact (hl i).mpr (Or.inl h)
        · by_cases hd : dlookup s.ev.done i = none
          · exact (hl i).mpr (Or.inr ⟨⟨j, List.mem_singleton.mpr rfl, hn⟩, hd⟩)
          · exact (hl i).mpr (Or.inl (hs.logged i (isSome_of_not_none hd)))

/-- **…however often `evaluate()` is called.** Evaluating an object again returns the same value and changes nothing (in
    particular invokes nothing). -/
theorem C18_once_again (fs : List Func) (s : LSt) (hs : Sess fs s) (a : LArg) (v : Val) (s' : LSt)
    (h : evaluate a s = .ok (v, s')) : evaluate a s' = .ok (v, s') := by
  obtain ⟨_, hs', hn, _, _⟩ := C18_evaluate fs s hs a v s' h
  simp only [evaluate] at h ⊢
  split at h
  · cases h
  · next v1 e1 hev =>
    injection h with h; injection h with h1 h2; subst h1; subst h2
    cases a with
    | val w => simp [evalArg] at hev ⊢; exact hev.1
    | ref i =>
      simp only [evalArg] at hev ⊢
      obtain ⟨_, hdone⟩ := eval_once hs.closed _ i s.ev v1 e1 hs.log hev
      obtain ⟨w, hw⟩ := Option.isSome_iff_exists.mp hdone
      have hsound := (eval_sound hs.closed _ i s.ev v1 e1 hs.done hev)
      have hw' := hsound.2 i w hw
      rw [hsound.1] at hw'; injection hw' with hw'; subst hw'
      rw [eval_done _ _ _ _ _ hw]

/-- **The task graph.** After a lazy call inside `construct_dag()`, the recorded graph has an edge `(x, n)` exactly when `n` is a
    recorded node and `x` is a `_LazyFunction` among `n`'s arguments; every edge goes from an older to a newer node; hence
    there is no directed cycle. -/
theorem C18_dag (fs : List Func) (kw : List (String × Val)) (rank : String → Nat) (wf : PipeCache.WF fs rank) (s : LSt)
    (hs : Sess fs s) (o : String)
    (a : LArg) (s' : LSt) (h : lrunTop fs kw (.name o) s = .ok (a, s')) (g : TG) (hg : s'.tg = some g) :
    (∀ x n, (x, n) ∈ g.edges ↔ (n ∈ g.gnodes ∧ ∃ nd, s'.nodes[n]? = some nd ∧ x ∈ nd.refs)) ∧
    (∀ x n, (x, n) ∈ g.edges → x < n) ∧ (∀ n, ¬ Path g.edges n n) := by
  obtain ⟨_, hi, _⟩ := lrunTop_name wf hs h
  obtain ⟨_, hedges⟩ := hi.graph g hg
  have hlt : ∀ x n, (x, n) ∈ g.edges → x < n := by
    intro x n he
    obtain ⟨_, nd, hnd, hx⟩ := (hedges x n).mp he
    exact hi.closed n nd hnd x hx
  exact ⟨hedges, hlt, fun n p => Nat.lt_irrefl n (path_lt hlt p)⟩

/-- no edge is registered for an argument that is not a `_LazyFunction` -/
theorem C18_dag_values_no_edge (f : Func) (args : List (String × Val)) :
    (Lazy.Node.call f (args.map fun (k, v) => (k, LArg.val v))).refs = [] := by
  induction args with
  | nil => rfl
  | cons e r ih => obtain ⟨k, v⟩ := e; simpa [Node.refs, argRefs] using ih

/-! ### non-vacuity: a diamond through a tuple-output node -/
def fA : Func := ⟨"fa", [("x", "x")], ["a"], [], []⟩
def fB : Func := ⟨"fb", [("a", "a"), ("y", "y")], ["b", "c"], [("y", .int 7)], []⟩
def fD : Func := ⟨"fd", [("a", "p"), ("b", "q"), ("c", "r")], ["d"], [], []⟩
def s0 : LSt := { memo := [], used := [], usedNone := false, nodes := [], tg := none, ev := ⟨[], []⟩ }

/-- names invoked after: a lazy call; one `evaluate()`; three `evaluate()`s -/
def demo (dag : Bool) (n : Nat) : Option (List String × List (Nat × Nat)) :=
  match lrunTop [fD, fB, fA] [("x", .int 1)] (.name "d") (if dag then enterDag s0 else s0) with
  | .error _ => none
  | .ok (a, s1) =>
    let s2 := (List.range n).foldl (fun s _ => match evaluate a s with | .ok (_, s') => s' | .error _ => s) s1
    some (callNames s2.nodes s2.ev.log, match s2.tg with | some g => g.edges | none => [])

/-- the demo pipeline satisfies the well-formedness hypothesis of the theorems -/
example : PipeCache.WF [fD, fB, fA] (fun o => if o = "a" then 0 else if o = "b" ∨ o = "c" then 1 else if o = "d" then 2 else 0) := by
  refine ⟨?_, ?_, ?_, ?_⟩
  · intro f hf g hg o ho ho'
    simp only [List.mem_cons, List.not_mem_nil, or_false] at hf hg
    rcases hf with rfl | rfl | rfl <;> rcases hg with rfl | rfl | rfl <;> first | rfl | (exfalso; simp [fA, fB, fD] at ho ho'; rcases ho with rfl | rfl <;> simp at ho') | (exfalso; simp [fA, fB, fD] at ho ho'; subst ho; simp at ho')
  · intro f hf g hg p v w hv hw
    simp only [List.mem_cons, List.not_mem_nil, or_false] at hf hg
    rcases hf with rfl | rfl | rfl <;> rcases hg with rfl | rfl | rfl <;> simp [fA, fB, fD] at hv hw
    rw [hv.2, hw.2]
  · intro o f hp pq hpq hb hprod
    by_cases h1 : o = "d"
    · subst h1
      have : f = fD := by simpa [producer, fD, fB, fA] using hp.symm
      subst this
      simp [fD] at hpq
      rcases hpq with rfl | rfl | rfl <;> decide
    · by_cases h2 : o = "b" ∨ o = "c"
      · have : f = fB := by rcases h2 with rfl | rfl <;> simpa [producer, fD, fB, fA] using hp.symm
        subst this
        simp [fB] at hpq
        rcases hpq with rfl | rfl
        · rcases h2 with rfl | rfl <;> decide
        · simp [producer, fD, fB, fA] at hprod
      · by_cases h3 : o = "a"
        · subst h3
          have : f = fA := by simpa [producer, fD, fB, fA] using hp.symm
          subst this
          simp [fA] at hpq
          subst hpq
          simp [producer, fD, fB, fA] at hprod
        · exfalso
          simp only [not_or] at h2
          simp [producer, fD, fB, fA, h1, h2.1, h2.2, h3] at hp
  · intro o; simp only [fuelFor, List.length_cons, List.length_nil]; split <;> (try split) <;> (try split) <;> omega

/-- sessions for the non-vacuity of `C18_whole`, of the cache clauses with DIFFERENT keyword arguments inside one block, and of a
    pipeline with a cache of its own: returned object per call, and the names invoked by evaluating all of them in order -/
def demo2 (own : Bool) (dag : Bool) (calls : List (Req × List (String × Val))) : Option (List (Option Nat) × List String) :=
  let s0' : LSt := { s0 with own := if own then some [] else none, cfn := [["a"], ["b", "c"], ["d"]] }
  let step := fun (acc : Option (List LArg × LSt)) (c : Req × List (String × Val)) =>
    match acc with
    | none => none
    | some (hs, s) => match lrunTop [fD, fB, fA] c.2 c.1 s with
      | .error _ => none
      | .ok (a, s1) => some (hs ++ [a], s1)
  match calls.foldl step (some ([], if dag then enterDag s0' else s0')) with
  | none => none
  | some (hs, s1) =>
    let s2 := hs.foldl (fun s a => match evaluate a s with | .ok (_, s') => s' | .error _ => s) s1
    some (hs.map (fun a => match a with | .ref i => some i | .val _ => none), callNames s2.nodes s2.ev.log)

-- whole tuple, then one of its names, in one block: the pick shares the tuple's node
example : demo2 false true [(.whole ["b", "c"], [("x", .int 1)]), (.name "c", [("x", .int 1)])] =
    some ([some 1, some 3], ["fa", "fb"]) := by decide
-- different keyword VALUES in one block: nothing is shared; equal values: everything is
-- (a hit on the tuple-output function creates new pick nodes, 7 and 8, over the shared tuple node)
example : demo2 false true [(.name "b", [("x", .int 1)]), (.name "b", [("x", .int 2)]), (.name "b", [("x", .int 1)])] =
    some ([some 2, some 6, some 8], ["fa", "fb", "fa", "fb"]) := by decide
-- a supplied intermediate is never served from (or written to) the cache
example : demo2 false true [(.name "d", [("x", .int 1)]), (.name "d", [("a", .int 5)])] =
    some ([some 4, some 8], ["fa", "fb", "fd", "fb", "fd"]) := by decide
-- a pipeline with its own cache, outside any block: the second request is answered from the cache
example : demo2 true false [(.name "d", [("x", .int 1), ("y", .int 3)]), (.name "d", [("x", .int 1), ("y", .int 3)])] =
    some ([some 4, some 4], ["fa", "fb", "fd"]) := by decide
example : demo2 true false [(.name "a", [("x", .int 1)]), (.name "a", [("x", .int 1)]), (.name "a", [("x", .int 2)])] =
    some ([some 0, some 0, some 1], ["fa", "fa"]) := by decide
example : demo2 false false [(.name "d", [("x", .int 1)]), (.name "d", [("x", .int 1)])] =
    some ([some 4, some 9], ["fa", "fb", "fd", "fa", "fb", "fd"]) := by decide

example : demo false 0 = some ([], []) := by decide
example : demo false 1 = some (["fa", "fb", "fd"], []) := by decide
example : demo false 3 = some (["fa", "fb", "fd"], []) := by decide
example : demo true 1 = some (["fa", "fb", "fd"], [(0, 1), (1, 2), (1, 3), (0, 4), (2, 4), (3, 4)]) := by decide

end PF.C18
