import PfModel.Model.Sweep
/-! Helper lemmas for `PfModel/Props/C17.lean`. -/

namespace PF.Sweep

section Dict
variable {α : Type}

theorem lookup_eq_none_of_not_mem {d : Dict α} {k : Key} (h : k ∉ keys d) : lookup d k = none := by
  induction d with
  | nil => rfl
  | cons p r ih =>
    obtain ⟨k', v⟩ := p
    simp only [keys, List.map_cons, List.mem_cons, not_or] at h
    simp only [lookup]
    split
    · next e => exact absurd e.symm h.1
    · exact ih h.2

theorem insert_of_not_mem {d : Dict α} {k : Key} (v : α) (h : k ∉ keys d) : insert d k v = d ++ [(k, v)] := by
  induction d with
  | nil => rfl
  | cons p r ih =>
    obtain ⟨k', v'⟩ := p
    simp only [keys, List.map_cons, List.mem_cons, not_or] at h
    simp only [insert]
    split
    · next e => exact absurd e.symm h.1
    · rw [ih h.2]; rfl

theorem keys_append (a b : Dict α) : keys (a ++ b) = keys a ++ keys b := by simp [keys]

theorem update_of_nodup (d : Dict α) (e : List (Key × α)) (h : (keys d ++ keys e).Nodup) : update d e = d ++ e := by
  induction e generalizing d with
  | nil => simp [update]
  | cons p r ih =>
    obtain ⟨k, v⟩ := p
    have hk : k ∉ keys d := by
      intro hm
      have := List.nodup_append.mp h
      exact this.2.2 k hm k (by simp [keys]) rfl
    simp only [update, List.foldl_cons]
    rw [insert_of_not_mem v hk]
    have : update (d ++ [(k, v)]) r = (d ++ [(k, v)]) ++ r := by
      apply ih
      simpa [keys, List.append_assoc] using h
    simpa [update, List.append_assoc] using this

theorem ofPairs_of_nodup (l : List (Key × α)) (h : (keys l).Nodup) : ofPairs l = l := by
  have := update_of_nodup [] l (by simpa [keys] using h)
  simpa [ofPairs] using this

end Dict

section Gen
variable {V : Type}

theorem foldl_update_of_nodup (acc : Dict V) (combo : List (Dict V)) (h : (keys acc ++ keys combo.flatten).Nodup) :
    combo.foldl update acc = acc ++ combo.flatten := by
  induction combo generalizing acc with
  | nil => simp
  | cons c r ih =>
    simp only [List.foldl_cons, List.flatten_cons]
    have h' : (keys acc ++ (keys c ++ keys r.flatten)).Nodup := by simpa [keys_append] using h
    have hc : (keys acc ++ keys c).Nodup := by
      rw [← List.append_assoc] at h'
      exact (List.nodup_append.mp h').1
    rw [update_of_nodup acc c hc, ih]
    · simp [List.append_assoc]
    · simpa [keys_append, List.append_assoc] using h'

theorem mergeDicts_of_nodup (combo : List (Dict V)) (h : (keys combo.flatten).Nodup) : mergeDicts combo = combo.flatten := by
  have := foldl_update_of_nodup [] combo (by simpa [keys] using h)
  simpa [mergeDicts] using this

theorem mem_cart_cons {α : Type} {l : List α} {ls : List (List α)} {c : List α} :
    c ∈ cart (l :: ls) ↔ ∃ x r, x ∈ l ∧ r ∈ cart ls ∧ c = x :: r := by
  simp only [cart, List.mem_flatMap, List.mem_map]
  constructor
  · rintro ⟨x, hx, r, hr, rfl⟩; exact ⟨x, r, hx, hr, rfl⟩
  · rintro ⟨x, r, hx, hr, rfl⟩; exact ⟨x, hx, r, hr, rfl⟩

theorem length_cart {α : Type} (ls : List (List α)) : (cart ls).length = (ls.map List.length).foldr (· * ·) 1 := by
  induction ls with
  | nil => rfl
  | cons l r ih =>
    simp only [cart, List.map_cons, List.foldr_cons, ← ih]
    induction l with
    | nil => simp
    | cons x xs ihx => simp [List.flatMap_cons, ihx, Nat.succ_mul, Nat.add_comm]

/-- the names of a zipped row are an initial part of the group -/
theorem keys_zip_sublist (ks : List Key) (r : List V) : List.Sublist (keys (ks.zip r)) ks := by
  induction ks generalizing r with
  | nil => simp [keys]
  | cons k t ih =>
    cases r with
    | nil => simp [keys]
    | cons v w => simpa [keys] using ih w

theorem finish_filterMap (s : Sweep V) (l : List (Dict V)) :
    l.filterMap (finish s) =
      (l.map (fun c => applyDerivers s.derivers (addConstants s.constants c))).filter (fun c => !excluded s.exclude c) := by
  induction l with
  | nil => rfl
  | cons c r ih =>
    simp only [List.filterMap_cons, List.map_cons, List.filter_cons, finish]
    cases h : excluded s.exclude (applyDerivers s.derivers (addConstants s.constants c)) <;> simp [ih]

end Gen

section WF
variable {V : Type}

theorem lookup_of_mem {α : Type} {d : Dict α} {k : Key} (h : k ∈ keys d) : ∃ v, lookup d k = some v := by
  induction d with
  | nil => simp [keys] at h
  | cons p r ih =>
    obtain ⟨k', v⟩ := p
    simp only [lookup]
    split
    · exact ⟨v, rfl⟩
    · next ne =>
      simp only [keys, List.map_cons, List.mem_cons] at h
      rcases h with h | h
      · exact absurd h.symm ne
      · exact ih h

theorem cols_ok {items : Dict (List V)} {ks : List Key} (h : ∀ k ∈ ks, k ∈ keys items) :
    cols items ks = .ok (ks.map (col items)) := by
  induction ks with
  | nil => rfl
  | cons k r ih =>
    obtain ⟨c, hc⟩ := lookup_of_mem (h k (by simp))
    simp only [cols, hc, ih (fun k' hk' => h k' (by simp [hk'])), List.map_cons, col, Option.getD_some]

theorem ofPairs_zip {ks : List Key} (hn : ks.Nodup) (r : List V) : ofPairs (ks.zip r) = ks.zip r :=
  ofPairs_of_nodup _ (List.Nodup.sublist (keys_zip_sublist ks r) hn)

theorem part_ok {items : Dict (List V)} {g : Group} (hok : groupOK items g = true) (hn : g.keys.Nodup) :
    part items g = .ok (zipGroup items g.keys) := by
  simp only [groupOK, Bool.and_eq_true, Bool.not_eq_true', List.all_eq_true, List.contains_iff_mem] at hok
  obtain ⟨⟨hne, hmem⟩, hlen⟩ := hok
  have hc := cols_ok (items := items) (ks := g.keys) (fun k hk => by simpa using hmem k hk)
  unfold part
  rw [hc]
  cases hk : g.keys with
  | nil => simp [hk] at hne
  | cons k t =>
    simp only [hk, List.map_cons] at hlen ⊢
    simp only [hlen, if_true, zipGroup, List.map_cons]
    congr 1
    apply List.map_congr_left
    intro r _
    exact ofPairs_zip (by simpa [hk] using hn) r

theorem parts_ok {items : Dict (List V)} {d : List Group}
    (h : ∀ g ∈ d, groupOK items g = true ∧ g.keys.Nodup) :
    parts items d = .ok (d.map (fun g => zipGroup items g.keys)) := by
  induction d with
  | nil => rfl
  | cons g r ih =>
    simp only [parts, part_ok (h g (by simp)).1 (h g (by simp)).2, ih (fun g' hg' => h g' (by simp [hg'])), List.map_cons]

end WF

section Spec
variable {V : Type}

theorem keys_flatten_sublist (items : Dict (List V)) (gs : List (List Key)) (combo : List (Dict V))
    (h : combo ∈ cart (gs.map (zipGroup items))) : List.Sublist (keys combo.flatten) gs.flatten := by
  induction gs generalizing combo with
  | nil =>
    simp only [List.map_nil, cart, List.mem_singleton] at h
    subst h; simp [keys]
  | cons g r ih =>
    rw [List.map_cons, mem_cart_cons] at h
    obtain ⟨x, rest, hx, hrest, rfl⟩ := h
    simp only [zipGroup, List.mem_map] at hx
    obtain ⟨row, _, rfl⟩ := hx
    simp only [List.flatten_cons, keys_append]
    exact List.Sublist.append (keys_zip_sublist g row) (ih rest hrest)

/-- a dict built from the names and one tuple of `product(*vals)` is the concatenation of one-entry rows -/
theorem cart_singletons (items : Dict (List V)) :
    (cart (items.map (fun kc => kc.2.map (fun v => [(kc.1, v)])))).map List.flatten =
      (cart (vals items)).map (fun res => (keys items).zip res) := by
  induction items with
  | nil => simp [cart, vals, keys]
  | cons kc r ih =>
    obtain ⟨k, c⟩ := kc
    simp only [List.map_cons, cart, vals, keys] at ih ⊢
    simp only [List.map_flatMap, List.flatMap_map, List.map_map]
    congr 1
    funext v
    have : (List.flatten ∘ fun r => [(k, v)] :: r) = (fun d : Dict V => (k, v) :: d) ∘ List.flatten := by
      funext d; simp
    rw [this, ← List.map_map, ih, List.map_map]
    rfl

theorem lookup_cons_ne {α : Type} {k k' : Key} {v : α} {r : Dict α} (h : k' ≠ k) : lookup ((k', v) :: r) k = lookup r k := by
  simp [lookup, h]

theorem zipGroup_singleton (items : Dict (List V)) (k : Key) :
    zipGroup items [k] = (col items k).map (fun v => [(k, v)]) := by
  simp [zipGroup, zipRows]

theorem lookup_append_hit {α : Type} (pre r : Dict α) (k : Key) (c : α) (hk : k ∉ keys pre) :
    lookup (pre ++ (k, c) :: r) k = some c := by
  induction pre with
  | nil => simp [lookup]
  | cons p t iht =>
    obtain ⟨k', v'⟩ := p
    simp only [keys, List.map_cons, List.mem_cons, not_or] at hk
    simp only [List.cons_append, lookup]
    rw [if_neg (fun e => hk.1 e.symm)]
    exact iht hk.2

theorem map_col_keys_aux (items pre : Dict (List V)) (hn : (keys (pre ++ items)).Nodup) :
    items.map (fun kc => zipGroup (pre ++ items) [kc.1]) = items.map (fun kc => kc.2.map (fun v => [(kc.1, v)])) := by
  induction items generalizing pre with
  | nil => rfl
  | cons kc r ih =>
    obtain ⟨k, c⟩ := kc
    simp only [List.map_cons]
    congr 1
    · rw [zipGroup_singleton]
      have hk : k ∉ keys pre := by
        intro hm
        rw [keys_append] at hn
        exact (List.nodup_append.mp hn).2.2 k hm k (by simp [keys]) rfl
      simp [col, lookup_append_hit pre r k c hk]
    · have := ih (pre ++ [(k, c)]) (by simpa [List.append_assoc] using hn)
      simpa [List.append_assoc] using this

theorem map_col_keys (items : Dict (List V)) (h : (keys items).Nodup) :
    items.map (fun kc => zipGroup items [kc.1]) = items.map (fun kc => kc.2.map (fun v => [(kc.1, v)])) := by
  simpa using map_col_keys_aux items [] (by simpa using h)

end Spec

theorem filterMap_congr_mem {α β : Type} {l : List α} {f g : α → Option β} (h : ∀ x ∈ l, f x = g x) :
    l.filterMap f = l.filterMap g := by
  induction l with
  | nil => rfl
  | cons x r ih =>
    simp only [List.filterMap_cons, h x (by simp), ih (fun y hy => h y (by simp [hy]))]

section Len
variable {V : Type}

theorem length_filterMap_finish {α : Type} (s : Sweep V) (he : s.exclude = none) (f : α → Dict V) (l : List α) :
    (l.filterMap (fun x => finish s (f x))).length = l.length := by
  induction l with
  | nil => rfl
  | cons c r ih => simp [finish, he, excluded]

theorem foldl_mul_length (l : List (List V)) (a : Nat) :
    l.foldl (fun acc c => acc * c.length) a = a * (l.map List.length).foldr (· * ·) 1 := by
  induction l generalizing a with
  | nil => simp
  | cons c r ih => simp [List.foldl_cons, ih, Nat.mul_assoc]

theorem length_zipRows (c : List V) (cs : List (List V)) (h : sameLen (c :: cs) = true) :
    (zipRows (c :: cs)).length = c.length := by
  induction cs generalizing c with
  | nil => simp [zipRows]
  | cons c' r ih =>
    simp only [sameLen, List.all_cons, Bool.and_eq_true, beq_iff_eq, List.all_eq_true] at h
    have h' : sameLen (c' :: r) = true := by
      simp only [sameLen, List.all_eq_true, beq_iff_eq]
      intro x hx; rw [h.2 x hx, h.1]
    simp only [zipRows, List.length_zipWith, ih c' h', h.1, Nat.min_self]

theorem cols_cons_ok {items : Dict (List V)} {k : Key} {t : List Key} {c : List V} {cs : List (List V)}
    (h : cols items (k :: t) = .ok (c :: cs)) : lookup items k = some c := by
  simp only [cols] at h
  split at h
  · cases h
  · next c' hc =>
    split at h
    · cases h
    · simp only [Except.ok.injEq, List.cons.injEq] at h
      rw [hc, h.1]

theorem part_length {items : Dict (List V)} {g : Group} {p : List (Dict V)} (h : part items g = .ok p) :
    ∃ k t c, g.keys = k :: t ∧ lookup items k = some c ∧ p.length = c.length := by
  unfold part at h
  split at h
  · cases h
  · cases h
  · next c cs hc =>
    split at h
    · next hs =>
      cases hk : g.keys with
      | nil => simp [hk, cols] at hc
      | cons k t =>
        rw [hk] at hc
        refine ⟨k, t, c, rfl, cols_cons_ok hc, ?_⟩
        simp only [Except.ok.injEq] at h
        rw [← h, List.length_map, length_zipRows c cs hs]
    · cases h

theorem lenDims_of_parts {items : Dict (List V)} {d : List Group} {ps : List (List (Dict V))}
    (h : parts items d = .ok ps) : lenDims items d = .ok ((ps.map List.length).foldr (· * ·) 1) := by
  induction d generalizing ps with
  | nil => simp only [parts, Except.ok.injEq] at h; subst h; rfl
  | cons g r ih =>
    simp only [parts] at h
    split at h
    · cases h
    · next p hp =>
      split at h
      · cases h
      · next ps' hps =>
        simp only [Except.ok.injEq] at h
        subst h
        obtain ⟨k, t, c, hk, hl, hlen⟩ := part_length hp
        simp only [lenDims, hk, hl, ih hps, List.map_cons, List.foldr_cons, hlen]

end Len

section Multi
variable {V : Type}

/-- run both, concatenate; the first exception wins -/
def seqApp {α : Type} (a b : Except Err (List α)) : Except Err (List α) :=
  match a with
  | .error e => .error e
  | .ok x =>
    match b with
    | .error e => .error e
    | .ok y => .ok (x ++ y)

theorem seqApp_ok_nil {α : Type} (a : Except Err (List α)) : seqApp a (.ok []) = a := by
  cases a <;> simp [seqApp]

theorem seqApp_assoc {α : Type} (a b c : Except Err (List α)) : seqApp (seqApp a b) c = seqApp a (seqApp b c) := by
  cases a <;> cases b <;> cases c <;> simp [seqApp]

theorem generateL_cons (x : SW V) (xs : List (SW V)) :
    SW.generateL (x :: xs) = seqApp x.generate (SW.generateL xs) := by
  cases h1 : x.generate <;> cases h2 : SW.generateL xs <;> simp [SW.generateL, seqApp, h1, h2]

theorem generateL_append (l l' : List (SW V)) :
    SW.generateL (l ++ l') = seqApp (SW.generateL l) (SW.generateL l') := by
  induction l with
  | nil => cases h : SW.generateL l' <;> simp [SW.generateL, seqApp, h]
  | cons x r ih => simp only [List.cons_append, generateL_cons, ih, seqApp_assoc]

end Multi

section Count
variable {V : Type} [DecidableEq V]

theorem cntGet_bump (acc : List (List V × Nat)) (t t' : List V) :
    cntGet (bump acc t) t' = cntGet acc t' + (if t = t' then 1 else 0) := by
  induction acc with
  | nil => simp [bump, cntGet]
  | cons p r ih =>
    obtain ⟨u, n⟩ := p
    simp only [bump]
    by_cases hu : u = t
    · subst hu
      by_cases h2 : u = t' <;> simp [cntGet, h2]
    · simp only [hu, if_false, cntGet]
      by_cases h2 : u = t'
      · subst h2; simp [show ¬ t = u from fun e => hu e.symm]
      · simp [h2, ih]

theorem keys_bump (acc : List (List V × Nat)) (t : List V) :
    (bump acc t).map Prod.fst = if t ∈ acc.map Prod.fst then acc.map Prod.fst else acc.map Prod.fst ++ [t] := by
  induction acc with
  | nil => simp [bump]
  | cons p r ih =>
    obtain ⟨u, n⟩ := p
    simp only [bump]
    by_cases hu : u = t
    · subst hu; simp
    · have : ¬ t = u := fun e => hu e.symm
      simp only [hu, if_false, List.map_cons, ih, List.mem_cons, this, false_or]
      split <;> simp

theorem nodup_bump (acc : List (List V × Nat)) (t : List V) (h : (acc.map Prod.fst).Nodup) :
    ((bump acc t).map Prod.fst).Nodup := by
  rw [keys_bump]
  split
  · exact h
  · next hn =>
    rw [List.nodup_append]
    refine ⟨h, by simp, ?_⟩
    intro a ha b hb
    simp only [List.mem_singleton] at hb
    subst hb
    intro e; subst e; exact hn ha

theorem pos_bump (acc : List (List V × Nat)) (t : List V) (h : ∀ p ∈ acc, p.2 > 0) : ∀ p ∈ bump acc t, p.2 > 0 := by
  induction acc with
  | nil => simp [bump]
  | cons q r ih =>
    obtain ⟨u, n⟩ := q
    simp only [bump]
    split
    · intro p hp
      simp only [List.mem_cons] at hp
      rcases hp with rfl | hp
      · simp
      · exact h p (by simp [hp])
    · intro p hp
      simp only [List.mem_cons] at hp
      rcases hp with rfl | hp
      · exact h _ (by simp)
      · exact ih (fun p hp => h p (by simp [hp])) p hp

theorem countArgs_spec (args : List Key) (combos : List (Dict V)) (acc cnt : List (List V × Nat))
    (h : countArgs args combos acc = .ok cnt) :
    (∀ t, cntGet cnt t = cntGet acc t + (combos.filter (hasTuple args t)).length) ∧
    ((acc.map Prod.fst).Nodup → (cnt.map Prod.fst).Nodup) ∧
    ((∀ p ∈ acc, p.2 > 0) → ∀ p ∈ cnt, p.2 > 0) := by
  induction combos generalizing acc with
  | nil =>
    simp only [countArgs, Except.ok.injEq] at h
    subst h
    simp
  | cons c r ih =>
    simp only [countArgs] at h
    split at h
    · cases h
    · next t ht =>
      obtain ⟨h1, h2, h3⟩ := ih (bump acc t) h
      refine ⟨?_, fun hn => h2 (nodup_bump acc t hn), fun hp => h3 (pos_bump acc t hp)⟩
      intro t'
      rw [h1 t', cntGet_bump, List.filter_cons]
      simp only [hasTuple, ht]
      by_cases e : t = t' <;> simp [e] <;> omega

end Count

section Distinct
variable {α : Type} [DecidableEq α]

theorem distinct_fold_spec (l acc : List α) (h : acc.Nodup) :
    (l.foldl (fun acc x => if x ∈ acc then acc else acc ++ [x]) acc).Nodup ∧
    ∀ x, x ∈ l.foldl (fun acc x => if x ∈ acc then acc else acc ++ [x]) acc ↔ x ∈ acc ∨ x ∈ l := by
  induction l generalizing acc with
  | nil => simp [h]
  | cons y r ih =>
    simp only [List.foldl_cons]
    by_cases hy : y ∈ acc
    · simp only [hy, if_true]
      obtain ⟨h1, h2⟩ := ih acc h
      refine ⟨h1, fun x => ?_⟩
      rw [h2 x]
      constructor
      · rintro (hx | hx)
        · exact Or.inl hx
        · exact Or.inr (by simp [hx])
      · rintro (hx | hx)
        · exact Or.inl hx
        · rcases List.mem_cons.mp hx with e | hx'
          · subst e; exact Or.inl hy
          · exact Or.inr hx'
    · simp only [hy, if_false]
      have hn : (acc ++ [y]).Nodup := by
        rw [List.nodup_append]
        refine ⟨h, by simp, ?_⟩
        intro a ha b hb
        simp only [List.mem_singleton] at hb
        subst hb
        intro e; subst e; exact hy ha
      obtain ⟨h1, h2⟩ := ih (acc ++ [y]) hn
      refine ⟨h1, fun x => ?_⟩
      rw [h2 x]
      simp only [List.mem_append, List.mem_cons, List.not_mem_nil, or_false]
      constructor
      · rintro ((hx | hx) | hx)
        · exact Or.inl hx
        · exact Or.inr (Or.inl hx)
        · exact Or.inr (Or.inr hx)
      · rintro (hx | hx | hx)
        · exact Or.inl (Or.inl hx)
        · exact Or.inl (Or.inr hx)
        · exact Or.inr hx

theorem distinctFold_nodup (l : List α) : (distinctFold l).Nodup := (distinct_fold_spec l [] List.nodup_nil).1

theorem mem_distinctFold (l : List α) (x : α) : x ∈ distinctFold l ↔ x ∈ l := by
  have := (distinct_fold_spec l [] List.nodup_nil).2 x
  simpa [distinctFold] using this

end Distinct

section WFx
variable {V : Type}

theorem wf_items {s : Sweep V} (h : wf s = true) : (keys s.items).Nodup := by
  simp only [wf, Bool.and_eq_true, decide_eq_true_eq] at h
  exact h.1

theorem wf_dims {s : Sweep V} (h : wf s = true) {d : List Group} (hd : s.dims = some d) :
    (d.flatMap Group.keys).Nodup ∧ ∀ g ∈ d, groupOK s.items g = true := by
  simp only [wf, hd, Bool.and_eq_true, decide_eq_true_eq, List.all_eq_true] at h
  exact ⟨h.2.1, h.2.2⟩

end WFx

end PF.Sweep
