"""C04 helper shared by the check (same process) and its child interpreter (fresh process): what reloading a run folder yields.

`observe(folder, names)` calls the three public loaders and canonicalises what they return; it never raises.
"""
from __future__ import annotations

import contextlib
import io

import pfimport  # noqa: F401  (FIRST: blocks zarr)
from pfimport import exc_enum

import numpy as np

import terms


def lift(v):
    """Floats (which `terms.enc` calls opaque) as the term `$float(hex=...)`, everywhere inside a value: exact, sign of zero and NaN payload included."""
    if isinstance(v, (float, np.floating)):
        return terms.Term("$float", (("hex", float(v).hex()),))
    if isinstance(v, terms.Term):
        return terms.Term(v.f, lift(v.args))
    if callable(v) and hasattr(v, "c04_term") and not isinstance(v, type):
        return lift(v.c04_term)      # a function value made by props/c04.py (`_c04_make_fn`): read as the value it stands for
    if v is np.ma.masked:
        return v
    if isinstance(v, np.ma.MaskedArray):
        if v.dtype != object and v.dtype.kind != "f":
            return v
        mask = np.ma.getmaskarray(v)
        data = np.empty(v.shape, dtype=object)
        for i in np.ndindex(*v.shape):
            data[i] = None if mask[i] else lift(v.data[i])
        return np.ma.masked_array(data, mask=mask.copy())
    if isinstance(v, np.ndarray):
        if v.dtype != object and v.dtype.kind != "f":
            return v
        out = np.empty(v.shape, dtype=object)
        for i in np.ndindex(*v.shape):
            out[i] = lift(v[i])
        return out
    if isinstance(v, tuple):
        return tuple(lift(x) for x in v)
    if isinstance(v, list):
        return [lift(x) for x in v]
    if isinstance(v, dict):
        return {k: lift(x) for k, x in v.items()}
    return v


def enc(v):
    """`terms.enc` with floats visible (see `lift`)."""
    return terms.enc(lift(v))


def tname(v):
    if isinstance(v, np.ma.MaskedArray):
        return "MaskedArray"
    if isinstance(v, np.ndarray):
        return "ndarray"
    return type(v).__name__


def enc_key(k):
    return list(k) if isinstance(k, tuple) else k


def enc_keyed(d, conv):
    """A dict keyed by OUTPUT_TYPE as a sorted list; `conv` keeps the container type of the value visible."""
    return sorted(([enc_key(k), conv(v)] for k, v in d.items()), key=repr)


def shape_val(v):
    return {"tuple": list(v)} if isinstance(v, tuple) else {"other": tname(v), "v": list(v) if isinstance(v, list) else repr(v)}


def ishape_val(v):
    if isinstance(v, bool):
        return {"other": "bool"}
    if isinstance(v, int):
        return v
    if isinstance(v, tuple):
        return list(v)
    return {"other": tname(v)}


def enc_run_info(ri):
    """The fields of a RunInfo the property speaks about."""
    return {
        "shapes": enc_keyed(ri.shapes, shape_val),
        "shape_masks": enc_keyed(ri.shape_masks, shape_val),
        "mapspecs": list(ri.mapspecs_as_strings),
        "storage": ri.storage if isinstance(ri.storage, str) else enc_keyed(ri.storage, lambda s: s),
        "internal_shapes": None if ri.internal_shapes is None else sorted([k, ishape_val(v)] for k, v in ri.internal_shapes.items()),
        "inputs": sorted([k, tname(v), enc(v)] for k, v in ri.inputs.items()),
        "defaults": sorted([k, tname(v), enc(v)] for k, v in ri.defaults.items()),
        "all_output_names": sorted(ri.all_output_names),
        "run_folder": str(ri.run_folder),
    }


def enc_dataset(ds):
    out = {"vars": {}, "coords": {}}
    for name in ds.data_vars:
        da = ds[name]
        out["vars"][str(name)] = {"dims": list(da.dims), "data": enc(da.values.item() if da.ndim == 0 else da.values)}
    for name in ds.coords:
        c = ds.coords[name]
        out["coords"][str(name)] = {"dims": list(c.dims), "data": enc(c.values.item() if c.ndim == 0 else list(c.values) if c.ndim == 1 else c.values)}
    return out


def guarded(fn):
    try:
        with contextlib.redirect_stdout(io.StringIO()), contextlib.redirect_stderr(io.StringIO()):
            return fn()
    except BaseException as e:  # noqa: BLE001
        if isinstance(e, (KeyboardInterrupt, SystemExit)):
            raise
        return {"err": exc_enum(e), "msg": str(e)[:160]}


def observe(folder, names, xarray=True, subset=None):
    from pipefunc.map import load_outputs, load_xarray_dataset
    from pipefunc.map._run_info import RunInfo

    obs = {"outputs": {}}
    for n in names:
        obs["outputs"][n] = guarded(lambda n=n: (lambda v: {"type": tname(v), "v": enc(v)})(load_outputs(n, run_folder=folder)))
    if len(names) >= 2:
        def many():
            vs = load_outputs(*names, run_folder=folder)
            return {"type": tname(vs), "v": [enc(v) for v in vs]}
        obs["outputs_many"] = guarded(many)
    if subset:
        def some():
            vs = load_outputs(*subset, run_folder=folder)
            return {"type": tname(vs), "v": [enc(v) for v in vs] if len(subset) > 1 else [enc(vs)]}
        obs["outputs_subset"] = guarded(some)
    obs["run_info"] = guarded(lambda: enc_run_info(RunInfo.load(folder)))
    if xarray:
        obs["xarray"] = guarded(lambda: enc_dataset(load_xarray_dataset(run_folder=folder)))
    return obs
