/-
Model of calling a pipeline: `Pipeline.run/_run/_get_func_args` (`pipefunc/_pipeline/_base.py:475-629`),
`_update_all_results` (`:1995-2012`), `defaults` (`:886-893`), `arg_combinations/_compute_arg_mapping` (`:833-853, 2053-2074`),
`root_args` (`:855-864`), `func_dependencies/_traverse_graph` (`:866-874, 2077-2098`).  Core Lean only.
-/
import PfModel.Core.Val
namespace PF.Pipe
open PF

/-- a `PipeFunc` as the pipeline sees it -/
structure Func where
  name : String                       -- identity of the wrapped function (appears in terms and in the call log)
  params : List (String × String)     -- (pipeline-level parameter name, the wrapped function's own parameter name)
  outputs : List String               -- pipeline-level output names; several for a tuple output
  defaults : List (String × Val)      -- keyed by pipeline-level parameter name
  bound : List (String × Val)         -- `PipeFunc._bound`
  deriving Repr, Inhabited

/-- `output_to_func[o]` for a single name -/
def producer (fs : List Func) (o : String) : Option Func := fs.find? (fun f => o ∈ f.outputs)

/-- `Pipeline.defaults`: defaults of parameters that are neither bound in their function nor produced upstream.
    A dict comprehension: a later function's entry overwrites an earlier one's. -/
def pdefaults (fs : List Func) : List (String × Val) :=
  fs.flatMap fun f => f.defaults.filter fun kv => (alookup f.bound kv.1).isNone && (producer fs kv.1).isNone

def pdefault (fs : List Func) (p : String) : Option Val := alookup (pdefaults fs).reverse p

/-- what the wrapped function returns: one term, or a tuple of picks for a tuple output -/
def result (f : Func) (args : List (String × Val)) : Val :=
  match f.outputs with
  | [_] => .app f.name args
  | os => .tup (os.map fun o => .pick (.app f.name args) o)

/-- `_update_all_results` when a single name was requested: every output name gets `output_picker(r, name)` -/
def outVals (f : Func) (args : List (String × Val)) : List (String × Val) :=
  match f.outputs with
  | [o] => [(o, .app f.name args)]
  | os => os.map fun o => (o, Val.pick (.app f.name args) o)

structure St where
  memo : List (String × Val)     -- `all_results`, seeded with the keyword arguments
  calls : List String            -- call log (function names), oldest first
  used : List String             -- `used_parameters`
  deriving Repr

inductive Err
  | fuel | missing (p : String) | noFunc (o : String) | unused (ps : List String) | outputInKwargs | mapspec
  deriving Repr, DecidableEq

/-- how one parameter is resolved (`_get_func_args`): bound, else keyword, else upstream, else default, else error -/
inductive Res | val (v : Val) | upstream | missing

def resolve (fs : List Func) (kw : List (String × Val)) (f : Func) (p : String) : Res :=
  match alookup f.bound p with
  | some v => .val v
  | none =>
    match alookup kw p with
    | some v => .val v
    | none =>
      match producer fs p with
      | some _ => .upstream
      | none =>
        match pdefault fs p with
        | some v => .val v
        | none => .missing

/-- `_get_func_args`: the arguments in parameter order, keyed by the wrapped function's own names; `rec` is the
    recursive call `self._run(output_name=arg, …)` -/
def argsWith (rec : String → St → Except Err (Val × St)) (fs : List Func) (kw : List (String × Val)) (f : Func) :
    List (String × String) → St → Except Err (List (String × Val) × St)
  | [], s => .ok ([], s)
  | (p, orig) :: ps, s =>
    match resolve fs kw f p with
    | .missing => .error (.missing p)
    | .val v =>
      match argsWith rec fs kw f ps { s with used := s.used ++ [p] } with
      | .error e => .error e
      | .ok (rest, s2) => .ok ((orig, v) :: rest, s2)
    | .upstream =>
      match rec p s with
      | .error e => .error e
      | .ok (v, s1) =>
        match argsWith rec fs kw f ps { s1 with used := s1.used ++ [p] } with
        | .error e => .error e
        | .ok (rest, s2) => .ok ((orig, v) :: rest, s2)

/-- `Pipeline._run` for a single output name, with its memo, call log and used-parameter set; the fuel bounds the
    recursion depth (the real code relies on acyclicity) -/
def run (fs : List Func) (kw : List (String × Val)) : Nat → String → St → Except Err (Val × St)
  | 0, _, _ => .error .fuel
  | n+1, o, s =>
    match alookup s.memo o with
    | some v => .ok (v, s)
    | none =>
      match producer fs o with
      | none => .error (.noFunc o)
      | some f =>
        match argsWith (run fs kw n) fs kw f f.params s with
        | .error e => .error e
        | .ok (args, s') =>
          let s'' : St := { s' with memo := outVals f args ++ s'.memo, calls := s'.calls ++ [f.name] }
          match alookup (outVals f args) o with
          | some v => .ok (v, s'')
          | none => .error (.noFunc o)

/-- argument evaluation of the specification -/
def composeArgsWith (rec : String → Except Err Val) (fs : List Func) (kw : List (String × Val)) (f : Func) :
    List (String × String) → Except Err (List (String × Val))
  | [] => .ok []
  | (p, orig) :: ps =>
    match resolve fs kw f p with
    | .missing => .error (.missing p)
    | .val v =>
      match composeArgsWith rec fs kw f ps with
      | .error e => .error e
      | .ok rest => .ok ((orig, v) :: rest)
    | .upstream =>
      match rec p with
      | .error e => .error e
      | .ok v =>
        match composeArgsWith rec fs kw f ps with
        | .error e => .error e
        | .ok rest => .ok ((orig, v) :: rest)

/-- the specification: composition along the DAG — no memo, no log -/
def compose (fs : List Func) (kw : List (String × Val)) : Nat → String → Except Err Val
  | 0, _ => .error .fuel
  | n+1, o =>
    match producer fs o with
    | none => .error (.noFunc o)
    | some f =>
      match composeArgsWith (compose fs kw n) fs kw f f.params with
      | .error e => .error e
      | .ok args =>
        match alookup (outVals f args) o with
        | some v => .ok v
        | none => .error (.noFunc o)

/-- the request: a single output name, or the whole (tuple) output of one function -/
inductive Req | name (o : String) | whole (os : List String)
  deriving Repr

/-- enough fuel for any acyclic pipeline: one level per function plus one -/
def fuelFor (fs : List Func) : Nat := fs.length + 2

structure Outcome where
  value : Val
  full : List (String × Val)      -- `all_results` (what `full_output=True` returns)
  calls : List String
  deriving Repr

/-- `Pipeline.run(output_name, kwargs=kw)` (`_base.py:571-629`) without MapSpecs -/
def runTop (fs : List Func) (kw : List (String × Val)) (req : Req) : Except Err Outcome :=
  let s0 : St := { memo := kw, calls := [], used := [] }
  let finish (v : Val) (s : St) : Except Err Outcome :=
    let unused := (akeys kw).filter (fun k => !(s.used.contains k))
    if unused.isEmpty then .ok { value := v, full := s.memo, calls := s.calls } else .error (.unused unused)
  match req with
  | .name o =>
    if (alookup kw o).isSome then .error .outputInKwargs else
    match run fs kw (fuelFor fs) o s0 with
    | .error e => .error e
    | .ok (v, s) => finish v s
  | .whole os =>
    match fs.find? (fun f => f.outputs = os) with
    | none => .error (.noFunc (",".intercalate os))
    | some f =>
      match argsWith (run fs kw (fuelFor fs)) fs kw f f.params s0 with
      | .error e => .error e
      | .ok (args, s) => finish (result f args) { s with calls := s.calls ++ [f.name] }

/-! ### arg_combinations -/

/-- a graph node: a function (identified by its position) or a root argument name -/
inductive Node | fn (i : Nat) | root (p : String)
  deriving Repr, DecidableEq

def funcAt (fs : List Func) (i : Nat) : Func := fs.getD i default

/-- `_sort_key` -/
def sortKey (fs : List Func) : Node → String
  | .fn i => ",".intercalate (funcAt fs i).outputs
  | .root p => p

def producerIdx (fs : List Func) (o : String) : Option Nat := fs.findIdx? (fun f => o ∈ f.outputs)

/-- `graph.predecessors(f)` without `_Bound` nodes, in parameter order -/
def preds (fs : List Func) (i : Nat) : List Node :=
  (funcAt fs i).params.filterMap fun (p, _) =>
    if (alookup (funcAt fs i).bound p).isSome then none
    else match producerIdx fs p with
      | some j => some (.fn j)
      | none => some (.root p)

def insertSorted (key : α → String) (x : α) : List α → List α
  | [] => [x]
  | y :: ys => if key x < key y then x :: y :: ys else if key x = key y then y :: ys else y :: insertSorted key x ys

/-- `sorted(set(nodes), key=_sort_key)` -/
def uniqueSorted (key : α → String) (l : List α) : List α := l.foldl (fun acc x => insertSorted key x acc) []

/-- the outputs of function `i` that function `c` consumes (the `arg` attribute of the graph edge `i → c`) -/
def edgeArgs (fs : List Func) (i c : Nat) : List String :=
  (funcAt fs c).params.filterMap fun (p, _) =>
    if (alookup (funcAt fs c).bound p).isSome then none
    else if producerIdx fs p = some i then some p else none

/-- `_names`: a function stands for those of its outputs that the already expanded functions (`consumers`) consume;
    a root argument for itself; sorted, duplicates merged -/
def namesOf (fs : List Func) (deps : List Node) (consumers : List Nat) : List String :=
  uniqueSorted id (deps.flatMap fun
    | .fn i => consumers.flatMap (edgeArgs fs i)
    | .root p => [p])

/-- `_compute_arg_mapping` with the `arg_set` threaded through; fuel bounds the recursion depth -/
def argMapping (fs : List Func) : Nat → Nat → List Node → List Nat → List (List String) → List (List String)
  | 0, _, _, _, acc => acc
  | fuel+1, node, args, replaced, acc =>
    let ps := (preds fs node).filter fun n => match n with | .fn j => !(replaced.contains j) | .root _ => true
    let deps := uniqueSorted (sortKey fs) (args ++ ps)
    let names := namesOf fs deps (replaced ++ [node])
    if acc.contains names then acc else
    let acc := acc ++ [names]
    deps.foldl (fun acc d =>
      match d with
      | .fn j => argMapping fs fuel j (deps.filter (· ≠ d)) (replaced ++ [node]) acc
      | .root _ => acc) acc

def argCombinations (fs : List Func) (o : String) : Option (List (List String)) :=
  match producerIdx fs o with
  | none => none
  | some i => some (argMapping fs (fs.length + 1) i [] [] [])

/-- `root_args`: the combination that consists of root names only -/
def rootArgs (fs : List Func) (o : String) : Option (List String) :=
  match argCombinations fs o with
  | none => none
  | some cs => cs.find? (fun c => c.all fun n => (producer fs n).isNone)

/-- `func_dependencies`: every function reachable backwards from `o` (positions in `fs`) -/
def funcDeps (fs : List Func) : Nat → List Nat → List Nat → List Nat
  | 0, _, seen => seen
  | fuel+1, todo, seen =>
    match todo with
    | [] => seen
    | i :: rest =>
      let new := (preds fs i).filterMap fun n => match n with | .fn j => if seen.contains j || j = i then none else some j | .root _ => none
      let new := new.eraseDups
      funcDeps fs fuel (rest ++ new) (seen ++ new.filter (fun j => !(seen.contains j)))

end PF.Pipe
