import PfModel.Lemmas.CachePolicyDiskStamps
/-! C14: the documented HybridCache score over `Rat` (specification) and helper lemmas for `Props/C14Score.lean`. -/
namespace PF.Cache

/-- the documented score as an exact rational; weights `wa / W` and `wd / W` -/
def ratScore (W wa wd ta td a d : Nat) : Rat :=
  ((wa : Rat) / W) * ((a : Rat) / ta) + ((wd : Rat) / W) * (if td = 0 then 0 else (d : Rat) / td)

theorem rat_mul_le_mul_iff (x y c : Rat) (hc : 0 < c) : x * c ≤ y * c ↔ x ≤ y := by
  constructor
  · intro h
    have hi : 0 < c⁻¹ := Rat.inv_pos.mpr hc
    have := Rat.mul_le_mul_of_nonneg_right h (Rat.le_of_lt hi)
    have e1 : x * c * c⁻¹ = x := by grind
    have e2 : y * c * c⁻¹ = y := by grind
    rwa [e1, e2] at this
  · intro h
    exact Rat.mul_le_mul_of_nonneg_right h (Rat.le_of_lt hc)

/-- the positive constant by which `Hyb.score` exceeds the documented score -/
def scoreScale (W ta td : Nat) : Nat := W * ta * (if td = 0 then 1 else td)

theorem scoreScale_pos (W ta td : Nat) (hW : 0 < W) (hta : 0 < ta) : 0 < scoreScale W ta td := by
  unfold scoreScale
  split
  · simpa using Nat.mul_pos hW hta
  · next h => exact Nat.mul_pos (Nat.mul_pos hW hta) (Nat.pos_of_ne_zero h)

/-- every stored access count is ≥ 1 (`put` stores 1, `get` adds 1) -/
def PosCounts (s : Hyb) : Prop := ∀ p ∈ s.ac, 1 ≤ p.2

theorem posCounts_step (s s' : Hyb) (op : Op) (o : Obs) (hp : PosCounts s) (h : s.step op = .ok (s', o)) : PosCounts s' := by
  cases op with
  | put k v d =>
    simp only [Hyb.step] at h
    cases hput : s.put k v d with
    | error e => simp [hput] at h
    | ok r =>
      obtain ⟨s1, ev⟩ := r
      simp only [hput, Except.ok.injEq, Prod.mk.injEq] at h
      obtain ⟨rfl, _⟩ := h
      unfold Hyb.put at hput
      split at hput
      · cases hex : s.expire with
        | error e => simp [hex] at hput
        | ok r2 =>
          obtain ⟨s2, e2⟩ := r2
          simp only [hex, Except.ok.injEq, Prod.mk.injEq] at hput
          obtain ⟨rfl, _⟩ := hput
          have h2 : PosCounts s2 := by
            unfold Hyb.expire at hex
            split at hex
            · split at hex
              · simp at hex
              · split at hex
                · simp only [Except.ok.injEq, Prod.mk.injEq] at hex
                  obtain ⟨rfl, _⟩ := hex
                  intro p hm
                  exact hp p (mem_of_mem_erase _ _ _ hm)
                · simp at hex
            · simp at hex
          intro p hm
          simp only [Hyb.store] at hm
          rcases mem_set_or _ _ _ _ hm with rfl | hm
          · exact Nat.le_refl 1
          · exact h2 p hm
      · simp only [Except.ok.injEq, Prod.mk.injEq] at hput
        obtain ⟨rfl, _⟩ := hput
        intro p hm
        simp only [Hyb.store] at hm
        rcases mem_set_or _ _ _ _ hm with rfl | hm
        · exact Nat.le_refl 1
        · exact hp p hm
  | get k =>
    simp only [Hyb.step] at h
    cases hget : s.get k with
    | error e => simp [hget] at h
    | ok r =>
      obtain ⟨s1, ov⟩ := r
      simp only [hget, Except.ok.injEq, Prod.mk.injEq] at h
      obtain ⟨rfl, _⟩ := h
      unfold Hyb.get at hget
      split at hget
      · simp only [Except.ok.injEq, Prod.mk.injEq] at hget
        obtain ⟨rfl, _⟩ := hget
        exact hp
      · split at hget
        · simp at hget
        · simp only [Except.ok.injEq, Prod.mk.injEq] at hget
          obtain ⟨rfl, _⟩ := hget
          intro p hm
          rcases mem_set_or _ _ _ _ hm with rfl | hm
          · exact Nat.le_add_left 1 _
          · exact hp p hm
  | has k => simp only [Hyb.step, Except.ok.injEq, Prod.mk.injEq] at h; obtain ⟨rfl, _⟩ := h; exact hp
  | len => simp only [Hyb.step, Except.ok.injEq, Prod.mk.injEq] at h; obtain ⟨rfl, _⟩ := h; exact hp
  | clear =>
    simp only [Hyb.step, Except.ok.injEq, Prod.mk.injEq] at h
    obtain ⟨rfl, _⟩ := h
    intro p hm; simp [Hyb.clear] at hm
  | reopen m l => simp only [Hyb.step, Except.ok.injEq, Prod.mk.injEq] at h; obtain ⟨rfl, _⟩ := h; exact hp

theorem posCounts_run (h : List Op) : ∀ (s s' : Hyb) os, PosCounts s → hybSem.run s h = .ok (s', os) → PosCounts s' := by
  induction h with
  | nil => intro s s' os hp hr; simp only [Sem.run, Except.ok.injEq, Prod.mk.injEq] at hr; obtain ⟨rfl, _⟩ := hr; exact hp
  | cons op h ih =>
    intro s s' os hp hr
    simp only [Sem.run] at hr
    cases hs : hybSem.step s op with
    | error e => simp [hs] at hr
    | ok r =>
      obtain ⟨s1, o⟩ := r
      simp only [hs] at hr
      cases hr2 : hybSem.run s1 h with
      | error e => simp [hr2] at hr
      | ok r2 =>
        obtain ⟨s2, os2⟩ := r2
        simp only [hr2, Except.ok.injEq, Prod.mk.injEq] at hr
        obtain ⟨rfl, _⟩ := hr
        exact ih s1 s2 os2 (posCounts_step s s1 op o hp hs) hr2

theorem total_pos_of_mem (d : List (Key × Nat)) (p : Key × Nat) (hm : p ∈ d) (hp : 1 ≤ p.2) : 0 < total d := by
  induction d with
  | nil => cases hm
  | cons e es ih =>
    simp only [total, List.map_cons, List.sum_cons]
    simp only [List.mem_cons] at hm
    rcases hm with rfl | hm
    · omega
    · have := ih hm; simp only [total] at this; omega

end PF.Cache
