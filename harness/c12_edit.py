"""C12, round 3: the *session* stream — build a VALID pipeline, edit it IN PLACE, then call map / run / __call__.

`PipeFunc.update_defaults / update_bound / update_renames` on a member function validate the function only and clear the caches of
its pipelines; the pipeline-level clauses of the property (duplicate output names, inconsistent defaults, cycles, …) are then
re-established by the validations inside the cached properties `Pipeline.graph` / `topological_generations`, recomputed at the start
of `map` / `run` / `__call__`.  `Pipeline.update_defaults / update_renames` end with `Pipeline._validate`.  The model is
`PF.Validate.sessionMap` / `sessionRun` (lean/PfModel/Model/ValidateEdit.lean): it applies the same edits to the description and says
which edit (if any) is refused, or whether the start refuses, with which class, after which effects.

The same stream carries the executor-dictionary operators (`executor={…}`: incomplete, unknown key, empty, complete), validated by
`_validate_executor_names` in `prepare_run` since the round-3 fix.

A session = {"base": request, "edits": [edit…], "action": "map" | "run" | "call", "folder": bool, "exec": None | "bare" | {"keys": […]},
"parallel": bool}; an edit = {"k": "member-defaults" | "member-bound" | "member-rename" | "pipe-defaults" | "pipe-rename", …}.
"""
from __future__ import annotations

import copy
from concurrent.futures import ThreadPoolExecutor

import pfimport  # noqa: F401
from pfimport import exc_enum

import c12_impl as impl
import c12_mut as mut
import mapgen
import terms

PROPERTY_CHECKS = {"duplicate-output", "inconsistent-defaults", "cycle", "complete-inputs", "inconsistent-axes", "executor-dict",
                   "executor-key", "executor-without-parallel", "map-shapes", "list-for-nd-array", "unknown-storage", "storage-default",
                   "output-is-own-parameter", "mapspec-input-not-a-parameter", "mapspec-input-bound", "mapspec-outputs-differ"}


# ------------------------------------------------------------------------------------------------ a light mirror of the names
class Names:
    """current parameter / output names per function while edits are generated (mirrors `renameMFunc` for names only)"""

    def __init__(self, desc):
        self.funcs = [{"name": f["name"], "params": [p for p, _ in f["params"]], "outputs": list(f["outputs"]),
                       "defaults": [d[0] for d in f["defaults"]], "bound": [b[0] for b in f["bound"]],
                       "mapped": [a[0] for a in (f["mapspec"] or {"inputs": []})["inputs"]]} for f in desc["funcs"]]

    def rename(self, fn, old, new):
        for f in self.funcs:
            if fn is None or f["name"] == fn:
                for k in ("params", "outputs", "defaults", "bound", "mapped"):
                    f[k] = [new if x == old else x for x in f[k]]

    def all_outputs(self):
        return [o for f in self.funcs for o in f["outputs"]]

    def all_names(self):
        return {x for f in self.funcs for x in f["params"] + f["outputs"]}

    def roots(self):
        prod = set(self.all_outputs())
        return [p for f in self.funcs for p in f["params"] if p not in prod and p not in f["bound"]]

    def downstream(self, f):
        out, todo = [], [f]
        while todo:
            g = todo.pop()
            for h in self.funcs:
                if h not in out and h is not f and any(p in g["outputs"] and p not in h["bound"] for p in h["params"]):
                    out.append(h); todo.append(h)
        return out


def _fresh(names, rng):
    taken = names.all_names()
    for c in ["zr", "zs", "zt", "zu", "zv"]:
        if c not in taken:
            return c
    return f"zw{rng.randrange(1000)}"


# ------------------------------------------------------------------------------------------------ edit operators
def gen_edits(desc, rng):
    """(operator name, [edit…]) aiming at one pipeline-level fault that only the lazy re-validation can see, or None"""
    names = Names(desc)
    fs = names.funcs
    kind = rng.choice(["default-one", "default-one", "default-one", "default-all", "default-any", "bound", "bound", "rename-out-dup",
                       "rename-out-dup", "rename-cycle", "rename-cycle", "rename-default", "rename-fresh", "rename-self",
                       "pipe-rename", "pipe-rename", "pipe-defaults", "default-then-bound", "rename-back", "unknown-key"])
    val = lambda tag: {"s": f"edit{tag}:{rng.randrange(3)}"}  # noqa: E731
    if kind in ("default-one", "default-all"):
        roots = names.roots()
        mappedset = {m for f in fs for m in f["mapped"]}
        shared = sorted({p for p in roots if roots.count(p) > 1 and p not in mappedset})
        pre = []
        if not shared:
            # no shared scalar root argument: make one by renaming a root parameter of another function in place
            plain = [(f, p) for f in fs for p in f["params"] if p in roots and p not in mappedset and p not in f["bound"]]
            pairs = [(f, p, g, q) for f, p in plain for g, q in plain if g is not f and p != q and p not in g["params"] + g["outputs"]
                     and roots.count(q) == 1 and roots.count(p) == 1]
            if not pairs:
                if not plain:
                    return None
                f, p = rng.choice(plain)
                return kind, [{"k": "member-defaults", "fn": f["name"], "p": p, "v": val("A")}]
            f, p, g, q = rng.choice(pairs)
            pre = [{"k": "member-rename", "fn": g["name"], "old": q, "new": p}]
            names.rename(g["name"], q, p)
        else:
            p = rng.choice(shared)
        users = [f for f in fs if p in f["params"] and p not in f["bound"]]
        v = val("A")
        if kind == "default-all":
            return kind, pre + [{"k": "member-defaults", "fn": f["name"], "p": p, "v": v} for f in users]
        f = rng.choice(users)
        eds = pre + [{"k": "member-defaults", "fn": f["name"], "p": p, "v": v}]
        others = [u for u in users if u is not f]
        if others and not any(p in u["defaults"] for u in others) or (others and rng.random() < 0.2):
            # nobody else has a default for `p` yet: a second member gets another value (or, benign, the same one)
            g = rng.choice(others)
            eds.append({"k": "member-defaults", "fn": g["name"], "p": p, "v": v if rng.random() < 0.2 else val("B")})
        return kind, eds
    if kind == "default-any":
        f = rng.choice(fs)
        if not f["params"]:
            return None
        return kind, [{"k": "member-defaults", "fn": f["name"], "p": rng.choice(f["params"]), "v": val("C")}]
    if kind == "bound":
        f = rng.choice(fs)
        if not f["params"]:
            return None
        return kind, [{"k": "member-bound", "fn": f["name"], "p": rng.choice(f["params"]), "v": val("D")}]
    if kind == "default-then-bound":
        f = rng.choice(fs)
        cands = [p for p in f["params"] if p not in f["mapped"]]
        if not cands:
            return None
        p = rng.choice(cands)
        eds = [{"k": "member-defaults", "fn": f["name"], "p": p, "v": val("E")}, {"k": "member-bound", "fn": f["name"], "p": p, "v": val("F")}]
        if rng.random() < 0.5:
            eds.reverse()
        return kind, eds
    if kind == "unknown-key":
        f = rng.choice(fs)
        k = rng.choice(["member-defaults", "member-bound", "member-rename", "pipe-defaults", "pipe-rename"])
        if k == "member-rename":
            return kind, [{"k": k, "fn": f["name"], "old": "zq", "new": "zr"}]
        if k == "pipe-rename":
            return kind, [{"k": k, "old": "zq", "new": "zr"}]
        if k == "pipe-defaults":
            return kind, [{"k": k, "p": "zq", "v": val("G")}]
        return kind, [{"k": k, "fn": f["name"], "p": "zq", "v": val("G")}]
    if kind == "pipe-defaults":
        roots = sorted(set(names.roots()))
        if not roots:
            return None
        return kind, [{"k": "pipe-defaults", "p": rng.choice(roots), "v": val("H")}]
    # ---- renames: never to the name of a sibling parameter/output of the same function except for the self-named fault
    if len(fs) < 2 and kind in ("rename-out-dup", "rename-cycle", "rename-default"):
        return None
    f = rng.choice(fs)
    if kind == "rename-out-dup":
        others = [g for g in fs if g is not f]
        g = rng.choice(others)
        old, new = rng.choice(f["outputs"]), rng.choice(g["outputs"])
        if new in f["params"] + f["outputs"]:
            return None
        return kind, [{"k": "member-rename", "fn": f["name"], "old": old, "new": new}]
    if kind == "rename-cycle":
        down = names.downstream(f)
        cands = [p for p in f["params"] if p not in f["bound"]]
        if not down or not cands:
            return None
        new = rng.choice(rng.choice(down)["outputs"])
        if new in f["params"] + f["outputs"]:
            return None
        return kind, [{"k": "member-rename", "fn": f["name"], "old": rng.choice(cands), "new": new}]
    if kind == "rename-default":
        # a parameter with a default becomes another root argument that has (or gets) a different default elsewhere
        cands = [p for p in f["params"] if p in f["defaults"] and p not in f["bound"] and p not in f["mapped"]]
        targets = [p for g in fs if g is not f for p in g["params"] if p in names.roots() and p not in f["params"] + f["outputs"]
                   and p not in g["mapped"]]
        if not cands or not targets:
            return None
        new = rng.choice(targets)
        eds = [{"k": "member-rename", "fn": f["name"], "old": rng.choice(cands), "new": new}]
        g = next(g for g in fs if g is not f and new in g["params"])
        if new not in g["defaults"] and rng.random() < 0.8:
            eds.insert(0, {"k": "member-defaults", "fn": g["name"], "p": new, "v": val("I")})
        return kind, eds
    if kind == "rename-self":
        if not f["params"]:
            return None
        if rng.random() < 0.5:
            return kind, [{"k": "member-rename", "fn": f["name"], "old": rng.choice(f["params"]), "new": rng.choice(f["outputs"])}]
        return kind, [{"k": "member-rename", "fn": f["name"], "old": rng.choice(f["outputs"]), "new": rng.choice(f["params"])}]
    if kind in ("rename-fresh", "rename-back"):
        old = rng.choice(f["params"] + f["outputs"])
        new = _fresh(names, rng)
        eds = [{"k": "member-rename", "fn": f["name"], "old": old, "new": new}]
        if kind == "rename-back":
            eds.append({"k": "member-rename", "fn": f["name"], "old": new, "new": old})
        return kind, eds
    if kind == "pipe-rename":
        allnames = sorted(names.all_names())
        old = rng.choice(allnames)
        how = rng.choice(["fresh", "output", "output", "any"])
        if how == "fresh":
            new = _fresh(names, rng)
        elif how == "output":
            new = rng.choice(names.all_outputs())
        else:
            new = rng.choice(allnames)
        if new == old:
            return None
        # not a sibling name inside a function that also carries `old` (duplicate parameter names are outside the model), except
        # for the output/parameter overlap the member refuses
        for g in fs:
            if old in g["params"] + g["outputs"] and new in g["params"] and old in g["params"]:
                return None
            if old in g["outputs"] and new in g["outputs"]:
                return None
        return kind, [{"k": "pipe-rename", "old": old, "new": new}]
    return None


def gen_exec(desc, rng):
    """an `executor=` dictionary form: (name, keys or None for a bare executor, parallel)"""
    keys_all = [mut.out_key(f) for f in desc["funcs"]]
    kind = rng.choice(["incomplete", "incomplete", "incomplete", "unknown-key", "unknown-key+default", "empty", "empty-seq", "complete",
                       "default-only", "element-key"])
    if kind == "incomplete":
        if len(keys_all) < 2 and rng.random() < 0.7:
            return None
        keep = [k for k in keys_all if rng.random() < 0.5]
        if len(keep) == len(keys_all):
            keep = keep[:-1]
        if not keep and rng.random() < 0.7:
            keep = keys_all[:1] if len(keys_all) > 1 else []
        # the LAST function in execution order is the interesting one to leave out (earlier generations used to run first)
        return kind, keep, True
    if kind == "unknown-key":
        return kind, ["zq"] + keys_all[:rng.randint(0, len(keys_all))], True
    if kind == "unknown-key+default":
        return kind, ["zq", ""], True
    if kind == "empty":
        return kind, [], True
    if kind == "empty-seq":
        return kind, [], False
    if kind == "complete":
        return kind, list(keys_all), True
    if kind == "default-only":
        return kind, [""], True
    tup = [f for f in desc["funcs"] if len(f["outputs"]) > 1]
    if not tup:
        return None
    f = rng.choice(tup)
    return kind, [f["outputs"][0]] + ([""] if rng.random() < 0.5 else [k for k in keys_all if k != mut.out_key(f)]), True


# ------------------------------------------------------------------------------------------------ the implementation side
def _member(p, fn):
    for f in p.functions:
        if f.__name__ == fn:
            return f
    raise KeyError(fn)


def apply_edit(p, ed):
    k = ed["k"]
    if k == "member-defaults":
        _member(p, ed["fn"]).update_defaults({ed["p"]: terms.dec(ed["v"])})
    elif k == "member-bound":
        _member(p, ed["fn"]).update_bound({ed["p"]: terms.dec(ed["v"])})
    elif k == "member-rename":
        _member(p, ed["fn"]).update_renames({ed["old"]: ed["new"]})
    elif k == "pipe-defaults":
        p.update_defaults({ed["p"]: terms.dec(ed["v"])})
    elif k == "pipe-rename":
        p.update_renames({ed["old"]: ed["new"]})
    else:
        raise AssertionError(k)


def _py_exec_keys(keys, ex):
    return {(tuple(k.split(",")) if "," in k else k): ex for k in keys}


def run_session(s, folder):
    """{"at": None | "construct" | "edit" | "start", "index": i, "err", "calls", "msg", "order"}"""
    req = s["base"]
    log = terms.CallLog()
    obs = {"at": None, "index": None, "err": None, "calls": [], "msg": "", "order": None}
    try:
        p, log = mapgen.build(req["desc"], log=log)
    except Exception as e:  # noqa: BLE001
        obs.update(at="construct", err=exc_enum(e), msg=str(e)[:160])
        return obs
    skip = 0
    if s.get("warm"):
        # the pipeline object is USED first (a complete in-memory map): every cached property and internal cache is warm when the edits come
        try:
            mapgen.quiet(p.map, impl.py_inputs(req["desc"]), None, mapgen.internal_shapes_arg(req["desc"]), parallel=False, storage="dict")
        except Exception as e:  # noqa: BLE001
            obs.update(at="construct", err=exc_enum(e), msg="warm-up run of the valid base failed: " + str(e)[:120])
            return obs
        skip = len(log.names())
    for i, ed in enumerate(s["edits"]):
        try:
            mapgen.quiet(apply_edit, p, ed)
        except Exception as e:  # noqa: BLE001
            obs.update(at="edit", index=i, err=exc_enum(e), msg=str(e)[:160], calls=log.names()[skip:])
            return obs
    ex = ThreadPoolExecutor(1) if s.get("exec") is not None else None
    try:
        if s["action"] == "map":
            kw = {}
            if s.get("exec") == "bare":
                kw["executor"] = ex
            elif s.get("exec") is not None:
                kw["executor"] = _py_exec_keys(s["exec"]["keys"], ex)
            mapgen.quiet(p.map, impl.py_inputs(req["desc"]), run_folder=folder, internal_shapes=mapgen.internal_shapes_arg(req["desc"]),
                         parallel=bool(s.get("parallel", False)), storage=impl.py_storage(req["storage"]), cleanup=False, **kw)
        else:
            out = s["output"]
            kwargs = impl.py_inputs(req["desc"])
            try:
                # `run` is lazy (C02): only the root arguments of the requested output may be passed.  Computing them recomputes the
                # cached properties; when that raises nothing is cached and the action below meets the same refusal itself.
                need = set(p.root_args(out))
                kwargs = {k: v for k, v in kwargs.items() if k in need}
            except Exception:  # noqa: BLE001
                pass
            if s["action"] == "run":
                mapgen.quiet(p.run, out, kwargs=kwargs)
            else:
                mapgen.quiet(p, out, **kwargs)
    except Exception as e:  # noqa: BLE001
        obs.update(at="start", err=exc_enum(e), msg=str(e)[:160])
    finally:
        if ex is not None:
            ex.shutdown(wait=True)
    obs["calls"] = log.names()[skip:]
    try:
        obs["order"] = [f.__name__ for f in p.sorted_functions]
    except Exception:  # noqa: BLE001
        obs["order"] = None
    return obs


# ------------------------------------------------------------------------------------------------ the model side
def model_session(s, use_folder, order, prev, model_request):
    req = dict(s["base"])
    req.update(executor=bool(s.get("exec") == "bare" or (isinstance(s.get("exec"), dict) and s["exec"]["keys"])),
               parallel=bool(s.get("parallel", False)))
    a = model_request(req, use_folder, order, prev)["a"]
    a.update(edits=s["edits"], action="map" if s["action"] == "map" else "run", calls=[])
    if s.get("exec") is not None:
        a["exec"] = s["exec"]
    return {"m": "session", "a": a}


# ------------------------------------------------------------------------------------------------ one base
def sessions_for_base(rng, base_req, n_edit, n_exec, callable_base):
    out = []
    desc = base_req["desc"]
    for _ in range(n_edit):
        g = gen_edits(desc, rng)
        if g is None:
            continue
        op, eds = g
        action = "map"
        if callable_base and rng.random() < 0.4:
            action = rng.choice(["run", "call"])
        s = {"op": f"edit:{op}", "base": base_req, "edits": eds, "action": action, "exec": None, "parallel": False,
             "warm": rng.random() < 0.5}
        if action != "map":
            # the output asked for: the last function's first output under its current name
            names = Names(desc)
            for ed in eds:
                if ed["k"] == "member-rename":
                    names.rename(ed["fn"], ed["old"], ed["new"])
                elif ed["k"] == "pipe-rename":
                    names.rename(None, ed["old"], ed["new"])
            s["output"] = names.funcs[-1]["outputs"][0]
        out.append(s)
    for _ in range(n_exec):
        g = gen_exec(desc, rng)
        if g is None:
            continue
        op, keys, par = g
        out.append({"op": f"exec:{op}", "base": base_req, "edits": [], "action": "map", "exec": {"keys": keys}, "parallel": par})
    return out


def run_base(ctx, rng, base_req, folder_ok, workdir, out, model_request, observe_order, n_edit=5, n_exec=2):
    desc = mut.explicit(base_req["desc"])
    base_req = {**base_req, "desc": desc}
    callable_base = not any(f["mapspec"] for f in desc["funcs"])
    sessions = sessions_for_base(rng, base_req, n_edit, n_exec, callable_base)
    if not sessions:
        return
    F = workdir + "/run"
    impl.fresh(F)
    have_folder = False
    if folder_ok:
        if impl.run_valid(base_req, F) is not None:
            ctx.skip("valid base refused: C01's business")
            return
        have_folder = True
    base_order = observe_order(base_req)
    if base_order is None:
        return
    prev = {"req": base_req, "order": base_order}
    s0 = impl.snapshot(F) if have_folder else {}
    for s in sessions:
        use_folder = have_folder and s["action"] == "map" and rng.random() < 0.75
        s["folder"] = use_folder
        if not use_folder and base_req["storage"] == "file_array":
            s["base"] = {**base_req, "storage": "dict"}       # file_array without a run_folder makes pipefunc create a temp dir
        obs = run_session(s, F if use_folder else None)
        if use_folder:
            s1 = impl.snapshot(F)
            content, meta = impl.diff_snap(s0, s1)
            obs["folder_content_changed"], obs["folder_meta_changed"], obs["folder_meta_paths"] = content[:6], len(meta), meta[:6]
            if content or meta or obs["err"] is None:
                impl.fresh(F)
                impl.run_valid(base_req, F)
                s0 = impl.snapshot(F)
            else:
                s0 = s1
        out.append((s, obs, model_session(s, use_folder, obs["order"], prev if use_folder else None, model_request)))


def run_corpus_session(s, workdir, model_request, observe_order):
    s = copy.deepcopy(s)
    F = workdir + "/run"
    impl.fresh(F)
    prev = None
    if s["folder"]:
        impl.run_valid(s["base"], F)
        prev = {"req": s["base"], "order": observe_order(s["base"])}
    s0 = impl.snapshot(F)
    obs = run_session(s, F if s["folder"] else None)
    if s["folder"]:
        content, meta = impl.diff_snap(s0, impl.snapshot(F))
        obs["folder_content_changed"], obs["folder_meta_changed"], obs["folder_meta_paths"] = content[:6], len(meta), meta[:6]
    return s, obs, model_session(s, s["folder"], obs["order"], prev, model_request)


# ------------------------------------------------------------------------------------------------ verdict
def judge(ctx, s, obs, model, digest):
    op = s["op"]
    ctx.count(f"op:{op}")
    ctx.count(f"action:{s['action']}{':folder' if s.get('folder') else ''}")
    if "err" in model.get("construct", {}):
        ctx.skip("session base not constructible in the model")
        return
    m_edit, m_start = model["edit"], model["start"]
    if "err" in m_edit:
        m_at, m_err, m_check, m_index = "edit", m_edit["err"], m_edit["check"], m_edit.get("index")
    elif "err" in m_start:
        m_at, m_err, m_check, m_index = "start", m_start["err"], m_start["check"], None
    else:
        m_at, m_err, m_check, m_index = None, None, None, None
    ctx.count(f"model:session:{m_at or 'accept'}:{m_check or '-'}")
    case = {k: s[k] for k in ("op", "edits", "action", "folder", "exec", "parallel", "warm") if k in s} | {"base": s["base"], "output": s.get("output")}
    ctx.count("session:warm" if s.get("warm") else "session:cold")
    ctx.record({k: case.get(k) for k in ("op", "edits", "action", "folder", "exec", "parallel", "warm")} | {"base": digest(s["base"])},
               nontrivial=(m_at is not None or bool(s["edits"]) or s.get("exec") is not None))
    mo = {"at": m_at, "err": m_err, "check": m_check, "index": m_index, "effects": model.get("effects")}
    if s["action"] != "map" and m_at is None:
        # run / __call__: the model has the gate only; what the lazy evaluation does after it (a missing value met late, unused keywords
        # reported after the evaluation) is C02's subject and the documented candidate finding of round 1
        ctx.count("info:run-gate-passed" + (":impl-raised-later" if obs["err"] else ""))
        return
    # ---- the property's clauses on the implementation's own behaviour
    if obs["err"] is not None and obs["calls"]:
        ctx.violation(case, f"[{op}] {obs['err']} raised at {obs['at']} after user functions were invoked: {obs['calls'][:4]} ({obs['msg'][:60]})",
                      impl=obs, model=mo, key=f"user-code-ran:{op}")
        return
    if obs["err"] is not None and obs.get("folder_content_changed"):
        ctx.violation(case, f"[{op}] refused ({obs['err']} at {obs['at']}) but the cleanup=False run folder was altered: "
                            f"{obs['folder_content_changed']}", impl=obs, model=mo, key=f"folder-altered:{op}")
        return
    if obs["err"] is not None and obs.get("folder_meta_changed"):
        ctx.violation(case, f"[{op}] refused ({obs['err']} at {obs['at']}) but files of the cleanup=False run folder were rewritten: "
                            f"{obs.get('folder_meta_paths')}", impl=obs, model=mo, key=f"folder-rewritten:{op}")
        return
    if m_at is not None and obs["err"] is None:
        if m_check in PROPERTY_CHECKS:
            ctx.violation(case, f"[{op}] ill-formed pipeline/request ({m_check}, after {len(s['edits'])} in-place edit(s), {s['action']}) was "
                                f"accepted; user calls: {len(obs['calls'])}", impl=obs, model=mo, key=f"accepted:{op}:{m_check}")
        else:
            ctx.violation(case, f"[{op}] the model refuses ({m_check} at {m_at}) what the implementation accepts", found_input=False,
                          item="correspondence:session-accept", impl=obs, model=mo, key=f"accepted-corr:{op}:{m_check}")
        return
    # ---- correspondence
    if model.get("order_ok") is False:
        ctx.violation(case, f"[{op}] sorted_functions is not a refinement of the model's Kahn layers", found_input=False,
                      item="correspondence:generation-order", impl=obs, model=mo)
        return
    if s["action"] != "map":
        # run / __call__: the model has the gate only (the lazy evaluation is C02's); a refusal by the gate must be one here
        if m_at is None:
            ctx.count("info:run-gate-passed" + (":impl-raised-later" if obs["err"] else ""))
            return
        if obs["at"] == "edit" and m_at == "edit" and obs["index"] != m_index:
            ctx.violation(case, f"[{op}] edit {obs['index']} refused, model: edit {m_index}", found_input=False,
                          item="correspondence:session-where", impl=obs, model=mo, key=f"where:{op}")
        elif (obs["at"], obs["err"]) != (m_at, m_err):
            ctx.violation(case, f"[{op}] refused at {obs['at']} with {obs['err']}, model: at {m_at} with {m_err} ({m_check})", found_input=False,
                          item="correspondence:session-where", impl=obs, model=mo, key=f"where:{op}")
        return
    if m_at is None and obs["err"] is not None:
        ctx.violation(case, f"[{op}] session the model accepts is refused with {obs['err']} at {obs['at']}: {obs['msg'][:80]}", found_input=False,
                      item="correspondence:session-complete", impl=obs, model=mo, key=f"refused:{op}")
        return
    if (obs["at"], obs["err"], obs["index"]) != (m_at, m_err, m_index):
        ctx.violation(case, f"[{op}] refused at {obs['at']}[{obs['index']}] with {obs['err']}, model: at {m_at}[{m_index}] with {m_err} ({m_check})",
                      found_input=False, item="correspondence:session-where", impl=obs, model=mo, key=f"where:{op}")
        return
    if m_at is None and not s.get("folder"):
        want = sorted(e[5:] for e in model["effects"] if e.startswith("call:"))
        if sorted(obs["calls"]) != want:
            ctx.violation(case, f"[{op}] accepted session: user calls {sorted(obs['calls'])[:6]} differ from the model's {want[:6]}",
                          found_input=False, item="correspondence:session-calls", impl=obs, model=mo, key=f"calls:{op}")


# ------------------------------------------------------------------------------------------------ corpus
def _fn(name, params, out, defaults=()):
    return {"name": name, "params": [[p, p] for p in params], "outputs": [out], "mapspec": None, "mapspec_str": None, "autogen": False,
            "ret": None, "internal": None, "defaults": [[p, {"s": f"dflt:{p}"}] for p in defaults], "bound": []}


def _req(funcs, roots):
    return {"desc": {"funcs": funcs, "inputs": [[r, {"s": f"in:{r}"}] for r in roots], "input_kinds": {}, "internal": [], "sizes": {}},
            "storage": "dict", "executor": False, "parallel": False}


def _demo_a():
    """seeded change C12-s2-A: f(a, b=1) → c, g(c, b=1) → y"""
    return _req([_fn("f", ["a", "b"], "c", ["b"]), _fn("g", ["c", "b"], "y", ["b"])], ["a"])


def _three():
    return _req([_fn("f", ["a"], "c"), _fn("g", ["c"], "y"), _fn("h", ["d"], "z")], ["a", "d"])


def _mapped_chain():
    f = _fn("f", ["x"], "y"); f.update(mapspec={"inputs": [["x", ["i"]]], "outputs": [["y", ["i"]]]}, mapspec_str="x[i] -> y[i]")
    g = _fn("g", ["y"], "z"); g.update(mapspec={"inputs": [["y", ["i"]]], "outputs": [["z", ["i"]]]}, mapspec_str="y[i] -> z[i]")
    r = _req([f, g], [])
    r["desc"]["inputs"] = [["x", {"arr": [[2], [{"s": "a"}, {"s": "b"}]]}]]
    return r


def _tuple_first():
    """seeded change C12-s3-A: f(x) → (a, b) [a genuine tuple output_name, listed FIRST], g(y) → c"""
    f = _fn("f", ["x"], "a"); f["outputs"] = ["a", "b"]
    return _req([f, _fn("g", ["y"], "c")], ["x", "y"])


_ED_A = [{"k": "member-defaults", "fn": "g", "p": "b", "v": {"s": "edit:2"}}]
CORPUS = [
    # seeded C12-s2-A: a changed default on ONE member after construction must be refused at the start of map / run / __call__
    {"op": "edit:default-one", "base": _demo_a(), "edits": _ED_A, "action": "map", "folder": True, "exec": None, "parallel": False},
    {"op": "edit:default-one", "base": _demo_a(), "edits": _ED_A, "action": "map", "folder": False, "exec": None, "parallel": False},
    {"op": "edit:default-one", "base": _demo_a(), "edits": _ED_A, "action": "run", "folder": False, "exec": None, "parallel": False, "output": "y"},
    {"op": "edit:default-one", "base": _demo_a(), "edits": _ED_A, "action": "call", "folder": False, "exec": None, "parallel": False, "output": "y"},
    {"op": "edit:default-one", "base": _demo_a(), "edits": _ED_A, "action": "map", "folder": True, "exec": None, "parallel": False, "warm": True},
    {"op": "edit:default-one", "base": _demo_a(), "edits": _ED_A, "action": "call", "folder": False, "exec": None, "parallel": False, "output": "y",
     "warm": True},
    # DF-C12-rename-duplicate-output: an output renamed in place to the output name of another function (member, then pipeline level)
    {"op": "edit:rename-out-dup", "base": _three(), "edits": [{"k": "member-rename", "fn": "h", "old": "z", "new": "c"}], "action": "map",
     "folder": True, "exec": None, "parallel": False},
    {"op": "edit:rename-out-dup", "base": _three(), "edits": [{"k": "member-rename", "fn": "h", "old": "z", "new": "c"}], "action": "run",
     "folder": False, "exec": None, "parallel": False, "output": "y"},
    {"op": "edit:pipe-rename", "base": _three(), "edits": [{"k": "pipe-rename", "old": "z", "new": "c"}], "action": "map",
     "folder": False, "exec": None, "parallel": False},
    # seeded C12-s3-A: an output renamed in place to an ELEMENT of a tuple output_name of an earlier-listed function
    {"op": "edit:pipe-rename", "base": _tuple_first(), "edits": [{"k": "pipe-rename", "old": "c", "new": "a"}], "action": "run",
     "folder": False, "exec": None, "parallel": False, "output": "b"},
    {"op": "edit:rename-out-dup", "base": _tuple_first(), "edits": [{"k": "member-rename", "fn": "g", "old": "c", "new": "b"}], "action": "map",
     "folder": False, "exec": None, "parallel": False},
    {"op": "edit:rename-out-dup", "base": _tuple_first(), "edits": [{"k": "member-rename", "fn": "g", "old": "c", "new": "b"}], "action": "map",
     "folder": True, "exec": None, "parallel": False},
    {"op": "edit:rename-cycle", "base": _three(), "edits": [{"k": "member-rename", "fn": "f", "old": "a", "new": "y"}], "action": "map",
     "folder": True, "exec": None, "parallel": False},
    # DF-C12-executor-dict: no executor for `z` (the second generation): refused only after `f` had run; unknown key; `{}` with parallel=False
    {"op": "exec:incomplete", "base": _mapped_chain(), "edits": [], "action": "map", "folder": True, "exec": {"keys": ["y"]}, "parallel": True},
    {"op": "exec:incomplete", "base": _mapped_chain(), "edits": [], "action": "map", "folder": False, "exec": {"keys": ["y"]}, "parallel": True},
    {"op": "exec:unknown-key+default", "base": _mapped_chain(), "edits": [], "action": "map", "folder": True, "exec": {"keys": ["zq", ""]},
     "parallel": True},
    {"op": "exec:empty-seq", "base": _mapped_chain(), "edits": [], "action": "map", "folder": True, "exec": {"keys": []}, "parallel": False},
]
