"""C01, clause "a valid request is never refused": cross-check of the Lean predicate `PF.C01.Conforms` against reality.

`PF.C01.C01_never_refused` (lean/PfModel/Props/C01Total.lean) proves `Conforms fs inputs internal -> runMap succeeds`.
`cross_check(ctx, descs)` evaluates the same `Conforms` (driver `C01Total`, entry `conforms`) on mapgen-generated requests
and on single-fault mutants of them (drop an input, add a surplus input, change the rank of an input, resize one mapped
input, drop an internal shape), runs the REAL `Pipeline.map` on every one of them, and

* reports a C01 violation when a conforming request is refused by the real library;
* reports a broken tie when the driver says `conforms` but the model itself does not run (contradicts the theorem), or when
  a generated (unmutated) request does not conform (the theorem would be vacuous on the generator's cases);
* counts, as information, how `conforms` and real refusals coincide per mutation kind.

Not registered anywhere: call `cross_check` from harness/props/c01.py.
"""
from __future__ import annotations

import copy

import numpy as np

import pfimport  # noqa: F401
from pfimport import exc_enum

import mapgen

DRIVER = "C01Total"
MUTATIONS = ["drop-input", "surplus-input", "rank", "resize", "drop-internal"]


def _mapped_names(desc):
    return {a[0] for f in desc["funcs"] if f["mapspec"] for a in f["mapspec"]["inputs"]}


def _array_inputs(desc, only_mapped=True):
    mapped = _mapped_names(desc)
    return [i for i, (n, v) in enumerate(desc["inputs"]) if isinstance(v, dict) and "arr" in v and (n in mapped or not only_mapped)]


def mutate(desc, kind, rng):
    """One single-fault mutant of `desc` (a deep copy), or None when the fault does not apply to this request."""
    d = copy.deepcopy(desc)
    if kind == "drop-input":
        if not d["inputs"]:
            return None
        d["inputs"].pop(rng.randrange(len(d["inputs"])))
        return d
    if kind == "surplus-input":
        d["inputs"].append(["zz_surplus", {"s": "surplus"}])
        return d
    if kind == "rank":
        cands = _array_inputs(d) or _array_inputs(d, only_mapped=False)
        if not cands:
            return None
        i = rng.choice(cands)
        name, v = d["inputs"][i]
        shape, elems = v["arr"]
        # the same elements under a shape of another rank
        new_shape = [len(elems)] if len(shape) > 1 else list(shape) + [1]
        d["inputs"][i] = [name, {"arr": [new_shape, elems]}]
        if len(new_shape) != 1:
            d["input_kinds"][name] = "array"
        return d
    if kind == "resize":
        # prefer an axis that is zipped with another array (same index name in one MapSpec); else any mapped root array
        roots = {n: i for i, (n, v) in enumerate(d["inputs"]) if isinstance(v, dict) and "arr" in v}
        zipped, anyaxis = [], []
        for f in d["funcs"]:
            ins = f["mapspec"]["inputs"] if f["mapspec"] else []
            for a in ins:
                for t, ax in enumerate(a[1]):
                    if a[0] in roots and t < len(d["inputs"][roots[a[0]]][1]["arr"][0]):
                        anyaxis.append((a[0], t))
                        if ax is not None and any(b[0] != a[0] and ax in b[1] for b in ins):
                            zipped.append((a[0], t))
        cands = zipped if zipped and rng.random() < 0.8 else anyaxis
        if not cands:
            return None
        name, t = rng.choice(cands)
        shape, elems = d["inputs"][roots[name]][1]["arr"]
        idx = np.arange(len(elems)).reshape(shape)
        idx = np.concatenate([idx, np.take(idx, [-1], axis=t)], axis=t)       # one more slab along axis t (never an empty array)
        d["inputs"][roots[name]] = [name, {"arr": [list(idx.shape), [elems[q] for q in idx.flat]]}]
        return d
    if kind == "drop-internal":
        spots = [("user", k) for k in range(len(d["internal"]))] + [("func", k) for k, f in enumerate(d["funcs"]) if f["internal"]]
        if not spots:
            return None
        where, k = rng.choice(spots)
        if where == "user":
            d["internal"].pop(k)
        else:
            d["funcs"][k]["internal"] = None
        return d
    raise ValueError(kind)


def run_real(desc):
    """Does the real `Pipeline.map` answer the request?  -> (ok, exception class or None, where)."""
    try:
        p, _log = mapgen.build(desc)
    except Exception as e:  # noqa: BLE001
        return False, exc_enum(e), "construct"
    try:
        mapgen.quiet(p.map, mapgen.py_inputs(desc), internal_shapes=mapgen.internal_shapes_arg(desc), parallel=False, storage="dict")
    except Exception as e:  # noqa: BLE001
        return False, exc_enum(e), "map"
    return True, None, None


def cross_check(ctx, descs, mutations=MUTATIONS, mutants_per_case=None):
    """`descs`: mapgen descriptions (generated, i.e. valid by construction).  One driver batch, one real run per request."""
    rng = ctx.rng
    cases = []
    for desc in descs:
        cases.append(("generated", desc))
        kinds = list(mutations)
        if mutants_per_case is not None:
            rng.shuffle(kinds)
            kinds = kinds[:mutants_per_case]
        for kind in kinds:
            m = mutate(desc, kind, rng)
            if m is None:
                ctx.count(f"total:{kind}:not-applicable")
                continue
            cases.append((kind, m))
    if not cases:
        return
    outs = ctx.lean([{"m": "conforms", "a": mapgen.model_request(d)} for _, d in cases], driver=DRIVER)
    for (kind, desc), resp in zip(cases, outs):
        r = resp["r"]
        conforms, model_ok = bool(r["conforms"]), bool(r["ok"])
        ok, err, where = run_real(desc)
        case = {"desc": desc, "storage": "dict", "mutation": kind}
        ctx.count(f"total:{kind}:conforms={'yes' if conforms else 'no'}:real={'answered' if ok else 'refused'}")
        if not conforms:
            for c in r["failed"]:
                ctx.count(f"total:{kind}:fails:{c}")
            if model_ok != ok:
                ctx.count(f"total:{kind}:not-conforming:model-{'answers' if model_ok else 'refuses'}-real-{'answers' if ok else 'refuses'}")
        if conforms and not model_ok:
            ctx.violation(case, "Conforms holds but the model of map refuses the request (contradicts C01_never_refused)",
                          found_input=False, item="theorem:C01_never_refused", impl=None, model=r)
            continue
        if kind == "generated" and not conforms:
            ctx.violation(case, f"a request that is valid by construction does not satisfy Conforms (fails {r['failed']})",
                          found_input=False, item="correspondence:conforms-on-generated", impl={"ok": ok, "err": err}, model=r)
            continue
        if conforms and not ok:
            ctx.violation(case, f"valid request (Conforms) refused at {where} with {err}", impl={"err": err, "at": where}, model=r)
