import PfModel.Model.HashableCalls
import PfModel.Lemmas.HashableKeys
/-! Helper lemmas for `bindSig` (`Model/HashableCalls.lean`). -/
namespace PF.Hashable

/-- two bindings: both calls are rejected, or both bind the same parameters to the same values, pass the same surplus
    positionals and the same surplus keywords -/
def BindSameSig : Option Bound → Option Bound → Prop
  | none, none => True
  | some b, some b' => All2 (fun p q => p.1 = q.1 ∧ Equiv p.2 q.2) b.params b'.params ∧ All2 Equiv b.star b'.star ∧ KwSame b.kw b'.kw
  | _, _ => False

theorem BindSameSig.map_cons {o o' : Option Bound} (h : BindSameSig o o') {n : Name} {a a' : PV} (ha : Equiv a a') :
    BindSameSig (o.map (fun b => { b with params := (n, a) :: b.params })) (o'.map (fun b => { b with params := (n, a') :: b.params })) := by
  match o, o', h with
  | none, none, _ => trivial
  | some b, some b', h => exact ⟨.cons ⟨rfl, ha⟩ h.1, h.2.1, h.2.2⟩

theorem All2.isEmpty_eq {α β : Type} {R : α → β → Prop} {xs : List α} {ys : List β} (h : All2 R xs ys) : xs.isEmpty = ys.isEmpty := by
  cases h <;> rfl

theorem bindSig_congr (vp vk : Bool) : ∀ (ps : List Param) {args args' : List PV} {kw kw' : List (Name × PV)},
    All2 Equiv args args' → KwSame kw kw' → BindSameSig (bindSig vp vk ps args kw) (bindSig vp vk ps args' kw')
  | [], _, _, kw, kw', ha, hk => by
    simp only [bindSig, hk.isEmpty, ha.isEmpty_eq]
    split
    · exact ⟨.nil, ha, hk⟩
    · trivial
  | p :: ps, _, _, kw, kw', ha, hk => by
    cases ha with
    | cons h1 h2 =>
      simp only [bindSig]
      have hp := hk p.name
      cases h : lookupKw p.name kw <;> cases h' : lookupKw p.name kw' <;> rw [h, h'] at hp <;>
        simp only [OptEquiv] at hp <;> simp only [Option.isSome, if_true, if_false, Bool.false_eq_true]
      · exact (bindSig_congr vp vk ps h2 hk).map_cons h1
      · trivial
    | nil =>
      simp only [bindSig]
      have hp := hk p.name
      cases h : lookupKw p.name kw <;> cases h' : lookupKw p.name kw' <;> rw [h, h'] at hp <;>
        simp only [OptEquiv] at hp
      · cases p.default with
        | none => trivial
        | some d => exact (bindSig_congr vp vk ps .nil hk).map_cons (Equiv.refl d)
      · exact (bindSig_congr vp vk ps .nil (hk.erase p.name)).map_cons hp

end PF.Hashable
