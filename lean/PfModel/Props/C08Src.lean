import PfModel.Generated.C08Facts
import PfModel.Props.C08Regex
/-!
C08, secondary tie: facts regenerated from `/repo/pipefunc/map/_mapspec.py` on every run (`harness/c08_extract.py`) agree with
the hand-written model.  The regular expression of `_parse_indexed_arrays` is parsed by Python's own `re._parser.parse` and
arrives here as a term of `PF.MS.Re`; the separators of the parser and of the printers arrive as string literals.  If the source's
pattern or one of the literals changes, these `decide` proofs break; the check then searches for a concrete failing input with
the correspondence harness and reports `no-failing-input-found` otherwise.
-/
namespace PF.C08
open PF.MS

/-- the pattern in the source is the one `C08_regex_step` / `C08_regex_findall` are about; `re.findall` is called without
    flags and the pattern sets none inline -/
theorem C08_src_regex :
    PF.Generated.C08.arrayPattern = arrayRe ∧
    PF.Generated.C08.findallExtraArgs = 0 ∧ PF.Generated.C08.inlineFlags = 0 ∧
    PF.Generated.C08.arrayPatternSrc = "(\\w+(?:\\.\\w+)?\\w*)\\[(.+?)\\]" := by decide

/-- hence: what `re.findall` computes with the pattern *in the source* is the scanner the model runs, on every text -/
theorem C08_src_findall (fuel : Nat) (xs : List Char) :
    (reFindAll PF.Generated.C08.arrayPattern fuel xs).map toSpec = findAll fuel xs := by
  rw [C08_src_regex.1]; exact (C08_regex_findall fuel xs).symm

/-- the separators of the parser are the ones the model's `splitArrow` (`"->"`, no maxsplit), `splitComma` (`","`),
    `parseIdx` (`":"` ↦ `None`, `strip()` without argument) and `parseSide` (`"..."`, `"["`, `"]"`) implement -/
theorem C08_src_separators :
    PF.Generated.C08.arrow = "->" ∧ PF.Generated.C08.arrowExtraArgs = 0 ∧
    PF.Generated.C08.comma = "," ∧ PF.Generated.C08.indexLiterals = [":"] ∧ PF.Generated.C08.stripArgs = [0] ∧
    PF.Generated.C08.sideLiterals = ["...", "[", "]"] := by decide

/-- the printers use the separators `specChars` / `toChars` implement: `name[` … `, ` … `]`, `:` for `None`, ` -> `, `...` -/
theorem C08_src_printers :
    PF.Generated.C08.arraySpecStrLiterals = [", ", ":", "{}[{}]"] ∧
    PF.Generated.C08.mapSpecStrLiterals = [", ", "...", "{} -> {}"] := by decide

end PF.C08
