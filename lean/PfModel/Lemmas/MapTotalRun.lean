import PfModel.Lemmas.MapTotal
/-!
Second half of "a valid request is never refused": the generation loop of `run_map` succeeds on a request whose values and
functions are typed by the declared shape table.  Type-soundness style: an invariant on the store (every stored array has the
recorded shape; every output of a finished function is stored) is preserved generation by generation.
-/
namespace PF.C01
open PF PF.Map

/-- `v` is an array of shape `sh` with exactly `prod sh` elements -/
def WellShaped (v : Val) (sh : List Nat) : Prop := ∃ es, v = .arr sh es ∧ es.length = prod sh

theorem wellShaped_of_arrHasShape (v : Val) (sh : List Nat) (h : arrHasShape v sh = true) : WellShaped v sh := by
  unfold arrHasShape at h
  split at h
  · next s es =>
    simp only [Bool.and_eq_true, beq_iff_eq] at h
    exact ⟨es, by rw [h.1], h.2⟩
  · cases h

theorem length_allIdx (s : List Nat) : (allIdx s).length = prod s := by
  rw [← map_key_range s]; simp

/-- the value conforms to what the table records for the name (nothing is demanded of unrecorded names) -/
def ValOK (Γ : Tbl) (p : String) (v : Val) : Prop := ∀ e, alookup Γ p = some e → WellShaped v e.1

theorem valOK_of_typed (Γ : Tbl) (kvs : List (String × Val)) (h : valuesTyped Γ kvs = true) (p : String) (v : Val)
    (hm : (p, v) ∈ kvs) : ValOK Γ p v := by
  intro e he
  have := List.all_eq_true.mp h (p, v) hm
  simp only [he] at this
  exact wellShaped_of_arrHasShape v e.1 this

theorem mapM_ok_of_forall {α β : Type} (g : α → M β) (l : List α) (h : ∀ a ∈ l, ∃ b, g a = .ok b) : ∃ r, l.mapM g = .ok r := by
  induction l with
  | nil => exact ⟨[], by simp [List.mapM_nil, pure, Except.pure]⟩
  | cons a as ih =>
    obtain ⟨b, hb⟩ := h a List.mem_cons_self
    obtain ⟨bs, hbs⟩ := ih (fun x hx => h x (List.mem_cons_of_mem _ hx))
    exact ⟨b :: bs, by rw [List.mapM_cons, hb, hbs]; rfl⟩

/-! ### names -/

theorem nodupB_inj (fs : List MFunc) (h : nodupB (fs.map (·.name)) = true) :
    ∀ f ∈ fs, ∀ g ∈ fs, f.name = g.name → f = g := by
  induction fs with
  | nil => intro f hf; cases hf
  | cons a as ih =>
    simp only [List.map_cons, nodupB, Bool.and_eq_true, Bool.not_eq_eq_eq_not, Bool.not_true] at h
    obtain ⟨h1, h2⟩ := h
    have hnot : ∀ x ∈ as, x.name ≠ a.name := by
      intro x hx e
      have : (List.map (·.name) as).contains a.name = true := by
        rw [List.contains_iff_mem]; exact List.mem_map.mpr ⟨x, hx, e⟩
      rw [this] at h1; cases h1
    intro f hf g hg e
    rcases List.mem_cons.mp hf with rfl | hf' <;> rcases List.mem_cons.mp hg with rfl | hg'
    · rfl
    · exact absurd e.symm (hnot g hg')
    · exact absurd e (hnot f hf')
    · exact ih h2 f hf' g hg' e

theorem producer_some (fs : List MFunc) (p : String) (g : MFunc) (h : producer fs p = some g) : g ∈ fs ∧ p ∈ g.outputs := by
  unfold producer at h
  have h1 := List.mem_of_find?_eq_some h
  have h2 := List.find?_some h
  exact ⟨h1, by simpa using h2⟩

theorem mem_rootArgs (fs : List MFunc) (f : MFunc) (hf : f ∈ fs) (p orig : String) (hp : (p, orig) ∈ f.params)
    (hb : alookup f.bound p = none) (hpr : producer fs p = none) : p ∈ rootArgs fs := by
  unfold rootArgs
  rw [List.mem_eraseDups, List.mem_flatMap]
  refine ⟨f, hf, ?_⟩
  rw [List.mem_filterMap]
  exact ⟨(p, orig), hp, by simp [hb, hpr]⟩

theorem alookup_isSome_of_mem_keys {β : Type} (l : List (String × β)) (x : String) (h : x ∈ akeys l) : (alookup l x).isSome = true := by
  cases hl : alookup l x with
  | none => exact absurd h ((alookup_none_iff l x).mp hl)
  | some v => rfl

/-! ### the store invariant -/

structure Inv (Γ : Tbl) (fs : List MFunc) (inputs : List (String × Val)) (env : Env) (done : List String) : Prop where
  inp : env.inputs = inputs
  typed : ∀ o s, alookup env.store o = some s → ValOK Γ o s.toVal
  stored : ∀ g ∈ fs, g.name ∈ done → ∀ o ∈ g.outputs, (alookup env.store o).isSome = true

/-- the static facts `Conforms` provides to the run phase -/
structure Static (Γ : Tbl) (fs : List MFunc) (inputs : List (String × Val)) : Prop where
  complete : inputsComplete fs inputs = true
  vin : valuesTyped Γ inputs = true
  vdef : valuesTyped Γ (pdefaults fs) = true
  funcs : ∀ f ∈ fs, funcTyped Γ f = true
  names : nodupB (fs.map (·.name)) = true

/-- every producer of a non-bound parameter of `f` has finished -/
def Ready (fs : List MFunc) (done : List String) (f : MFunc) : Prop :=
  ∀ p orig g, (p, orig) ∈ f.params → alookup f.bound p = none → producer fs p = some g → g.name ∈ done

theorem ready_of_upstream (fs : List MFunc) (done : List String) (f : MFunc)
    (h : ((upstream fs f).all fun g => done.contains g) = true) : Ready fs done f := by
  intro p orig g hp hb hg
  have hm : g.name ∈ upstream fs f := by
    unfold upstream
    rw [List.mem_filterMap]
    exact ⟨(p, orig), hp, by simp [hb, hg]⟩
  have := List.all_eq_true.mp h g.name hm
  simpa using this

/-- `_func_kwargs` finds every parameter, and what it finds conforms to the table -/
theorem argWhole_ok (Γ : Tbl) (fs : List MFunc) (inputs : List (String × Val)) (env : Env) (done : List String)
    (S : Static Γ fs inputs) (I : Inv Γ fs inputs env done) (f : MFunc) (hf : f ∈ fs) (hr : Ready fs done f)
    (p orig : String) (hp : (p, orig) ∈ f.params) :
    ∃ v, argWhole fs env f p = .ok v ∧ (alookup f.bound p = none → ValOK Γ p v) := by
  unfold argWhole
  cases hb : alookup f.bound p with
  | some v => exact ⟨v, rfl, fun h => by cases h⟩
  | none =>
    simp only []
    cases hi : alookup env.inputs p with
    | some v =>
      refine ⟨v, rfl, fun _ => ?_⟩
      rw [I.inp] at hi
      exact valOK_of_typed Γ inputs S.vin p v (alookup_some_mem _ _ _ hi)
    | none =>
      simp only []
      cases hs : alookup env.store p with
      | some s => exact ⟨s.toVal, rfl, fun _ => I.typed p s hs⟩
      | none =>
        simp only []
        cases hd : pdefault fs p with
        | some v =>
          refine ⟨v, rfl, fun _ => ?_⟩
          unfold pdefault at hd
          have := alookup_some_mem _ _ _ hd
          exact valOK_of_typed Γ _ S.vdef p v (List.mem_reverse.mp this)
        | none =>
          exfalso
          cases hpr : producer fs p with
          | some g =>
            obtain ⟨hg, hpo⟩ := producer_some fs p g hpr
            have := I.stored g hg (hr p orig g hp hb hpr) p hpo
            rw [hs] at this; cases this
          | none =>
            have hroot := mem_rootArgs fs f hf p orig hp hb hpr
            have := List.all_eq_true.mp S.complete p hroot
            rw [List.contains_iff_mem, List.mem_append] at this
            rcases this with h | h
            · have := alookup_isSome_of_mem_keys inputs p h
              rw [← I.inp, hi] at this; cases this
            · unfold pdefault at hd
              have hk : p ∈ akeys (pdefaults fs).reverse := by
                simp only [akeys, List.map_reverse, List.mem_reverse]; exact h
              have := alookup_isSome_of_mem_keys _ p hk
              rw [hd] at this; cases this

/-! ### indexing a MapSpec input at an external key -/

theorem getD_lt_of_inRange : ∀ (es E : List Nat) (q : Nat), InRange es E → q < es.length → E.getD q 0 < es.getD q 0
  | [], _, q, _, h => by simp at h
  | _ :: _, [], _, hr, _ => by simp [InRange] at hr
  | d :: ds, k :: ks, 0, hr, _ => by simpa using hr.1
  | d :: ds, k :: ks, q + 1, hr, h => by
      have := getD_lt_of_inRange ds ks q hr.2 (by simpa using h)
      simpa using this

/-- one component of `MapSpec.input_keys` -/
def keyf (ms : MSpec) (E : List Nat) (ax : Option String) : Option Nat :=
  match ax with
  | none => none
  | some n => match ms.externalIndices.findIdx? (· = n) with
    | some q => some (E.getD q 0)
    | none => some 0

theorem inputKey_eq (ms : MSpec) (a : ASpec) (E : List Nat) : inputKey ms a E = a.axes.map (keyf ms E) := by
  unfold inputKey
  apply List.map_congr_left
  intro ax _
  unfold keyf
  rfl

theorem axesOK_length (ms : MSpec) (es : List Nat) : ∀ (axes : List (Option String)) (shp : List Nat),
    axesOK ms es axes shp = true → axes.length = shp.length
  | [], [], _ => rfl
  | [], _ :: _, h => by simp [axesOK] at h
  | _ :: _, [], h => by simp [axesOK] at h
  | none :: axs, _ :: shp, h => by
      simp only [axesOK] at h
      simp [axesOK_length ms es axs shp h]
  | some n :: axs, d :: shp, h => by
      simp only [axesOK, Bool.and_eq_true] at h
      simp [axesOK_length ms es axs shp h.2]

theorem key_inRange (ms : MSpec) (es E : List Nat) (hE : InRange es E) : ∀ (axes : List (Option String)) (shp : List Nat),
    axesOK ms es axes shp = true → (axes.map (keyf ms E)).all Option.isSome = true →
    InRange shp (fillKey (axes.map (keyf ms E)) [])
  | [], [], _, _ => by simp [fillKey, InRange]
  | [], _ :: _, h, _ => by simp [axesOK] at h
  | _ :: _, [], h, _ => by simp [axesOK] at h
  | none :: axs, _ :: shp, _, hs => by simp [keyf] at hs
  | some n :: axs, d :: shp, h, hs => by
      simp only [axesOK, Bool.and_eq_true] at h
      obtain ⟨h1, h2⟩ := h
      simp only [List.map_cons, List.all_cons, Bool.and_eq_true] at hs
      have ih := key_inRange ms es E hE axs shp h2 hs.2
      cases hq : ms.externalIndices.findIdx? (· = n) with
      | none => simp [hq] at h1
      | some q =>
        simp only [hq, Bool.and_eq_true, decide_eq_true_eq, beq_iff_eq] at h1
        have hlt := getD_lt_of_inRange es E q hE h1.1
        simp only [List.map_cons, keyf, hq, fillKey, InRange]
        exact ⟨by rw [← h1.2]; exact hlt, ih⟩

theorem indexVal_ok (ms : MSpec) (es E : List Nat) (hE : InRange es E) (a : ASpec) (shp : List Nat) (v : Val)
    (hax : axesOK ms es a.axes shp = true) (hv : WellShaped v shp) : ∃ r, indexVal v (inputKey ms a E) = some r := by
  obtain ⟨elems, rfl, hlen⟩ := hv
  rw [inputKey_eq]
  unfold indexVal
  have hl := axesOK_length ms es a.axes shp hax
  simp only [List.length_map, hl, ne_eq, not_true_eq_false, ↓reduceIte]
  split
  · next hall =>
    have hr := key_inRange ms es E hE a.axes shp hax hall
    have hlt := ravel_lt _ _ hr
    rw [← hlen] at hlt
    exact ⟨_, List.getElem?_eq_getElem hlt⟩
  · exact ⟨_, rfl⟩

/-! ### one function -/

/-- what a finished function leaves in the store: a slot per output, each conforming to the table -/
def Post (Γ : Tbl) (f : MFunc) (r : FuncResult) : Prop :=
  akeys r.slots = f.outputs ∧ ∀ o s, (o, s) ∈ r.slots → ValOK Γ o s.toVal

theorem runSingle_ok (Γ : Tbl) (fs : List MFunc) (inputs : List (String × Val)) (env : Env) (done : List String)
    (S : Static Γ fs inputs) (I : Inv Γ fs inputs env done) (f : MFunc) (hf : f ∈ fs) (hr : Ready fs done f)
    (ht : singleTyped Γ f = true) : ∃ r, runSingle fs env f = .ok r ∧ Post Γ f r := by
  unfold runSingle
  obtain ⟨args, hargs⟩ := mapM_ok_of_forall (fun (x : String × String) => (do return (x.2, ← argWhole fs env f x.1) : M _)) f.params (by
    intro ⟨p, orig⟩ hp
    obtain ⟨v, hv, _⟩ := argWhole_ok Γ fs inputs env done S I f hf hr p orig hp
    exact ⟨(orig, v), by simp only [hv, bind, Except.bind, pure, Except.pure]⟩)
  refine ⟨_, by rw [hargs]; rfl, ?_, ?_⟩
  · simp [akeys, Function.comp_def]
  · intro o s hm
    simp only [List.map_map, List.mem_map, Function.comp_apply, Prod.mk.injEq] at hm
    obtain ⟨o', ho', rfl, rfl⟩ := hm
    intro e he
    have := List.all_eq_true.mp ht o' ho'
    simp only [he, decide_eq_true_eq] at this
    simp only [Slot.toVal, outVal, this]
    exact ⟨_, rfl, by simp [length_allIdx]⟩

theorem selectArgs_ok (Γ : Tbl) (fs : List MFunc) (inputs : List (String × Val)) (env : Env) (done : List String)
    (S : Static Γ fs inputs) (I : Inv Γ fs inputs env done) (f : MFunc) (hf : f ∈ fs) (hr : Ready fs done f)
    (ms : MSpec) (es E : List Nat) (hE : InRange es E)
    (hin : ∀ a ∈ ms.inputs, alookup f.bound a.name = none ∧ ∃ ea, alookup Γ a.name = some ea ∧ axesOK ms es a.axes ea.1 = true) :
    ∃ args, selectArgs fs env f ms E = .ok args := by
  unfold selectArgs
  apply mapM_ok_of_forall
  intro ⟨p, orig⟩ hp
  obtain ⟨v, hv, hok⟩ := argWhole_ok Γ fs inputs env done S I f hf hr p orig hp
  simp only [hv, bind, Except.bind]
  cases hs : ms.inputSpec p with
  | none => exact ⟨_, rfl⟩
  | some a =>
    unfold MSpec.inputSpec at hs
    have ha := List.mem_of_find?_eq_some hs
    have hn : a.name = p := by simpa using List.find?_some hs
    obtain ⟨hb, ea, hea, hax⟩ := hin a ha
    rw [hn] at hb hea
    obtain ⟨r, hr'⟩ := indexVal_ok ms es E hE a ea.1 v hax (hok hb ea hea)
    simp only [hr']
    exact ⟨_, rfl⟩

theorem runMapped_ok (Γ : Tbl) (fs : List MFunc) (inputs : List (String × Val)) (env : Env) (done : List String)
    (S : Static Γ fs inputs) (I : Inv Γ fs inputs env done) (f : MFunc) (hf : f ∈ fs) (hr : Ready fs done f)
    (arr : MFunc → List Nat → List Bool → (Nat → List (String × Val)) → String → Val)
    (ms : MSpec) (sh : List Nat) (mk : List Bool)
    (hin : ∀ a ∈ ms.inputs, alookup f.bound a.name = none ∧
      ∃ ea, alookup Γ a.name = some ea ∧ axesOK ms (extOf mk sh) a.axes ea.1 = true)
    (hout : ∀ o ∈ f.outputs, ∀ e, alookup Γ o = some e → e.1 = sh) :
    ∃ r, runMappedWith arr fs env f ms sh mk = .ok r ∧ Post Γ f r := by
  unfold runMappedWith
  obtain ⟨argsAt, hargs⟩ := mapM_ok_of_forall (fun li => selectArgs fs env f ms (shapeToKey (extOf mk sh) li))
      (List.range (prod (extOf mk sh))) (by
    intro li hli
    have hE := (ravel_key (extOf mk sh) li (List.mem_range.mp hli)).2
    exact selectArgs_ok Γ fs inputs env done S I f hf hr ms _ _ hE hin)
  refine ⟨_, by simp only [hargs, bind, Except.bind]; rfl, ?_, ?_⟩
  · simp [akeys, Function.comp_def]
  · intro o s hm
    simp only [List.mem_map, Prod.mk.injEq] at hm
    obtain ⟨o', ho', rfl, rfl⟩ := hm
    intro e he
    rw [hout o' ho' e he]
    simp only [Slot.toVal]
    exact ⟨_, rfl, by simp [length_allIdx]⟩

theorem runFunc_ok (Γ : Tbl) (fs : List MFunc) (inputs : List (String × Val)) (env : Env) (done : List String)
    (S : Static Γ fs inputs) (I : Inv Γ fs inputs env done) (f : MFunc) (hf : f ∈ fs) (hr : Ready fs done f)
    (arr : MFunc → List Nat → List Bool → (Nat → List (String × Val)) → String → Val) :
    ∃ r, runFuncWith arr fs (shapesOf Γ) (masksOf Γ) env f = .ok r ∧ Post Γ f r := by
  have ht := S.funcs f hf
  unfold funcTyped runsMapped at ht
  unfold runFuncWith
  cases hm : f.mapspec with
  | none =>
    simp only [hm] at ht
    exact runSingle_ok Γ fs inputs env done S I f hf hr ht
  | some ms =>
    simp only [hm] at ht ⊢
    by_cases he : ms.inputs.isEmpty = true
    · simp only [he, ↓reduceIte] at ht ⊢
      exact runSingle_ok Γ fs inputs env done S I f hf hr ht
    · simp only [he, Bool.false_eq_true, ↓reduceIte] at ht ⊢
      unfold mappedTyped at ht
      cases ho : f.outputs.head? with
      | none => simp [ho] at ht
      | some o =>
        simp only [ho] at ht ⊢
        cases hg : alookup Γ o with
        | none => simp [hg] at ht
        | some e =>
          simp only [hg, Bool.and_eq_true, beq_iff_eq] at ht
          obtain ⟨⟨hlen, hins⟩, houts⟩ := ht
          simp only [alookup_shapesOf, alookup_masksOf, hg, Option.map_some, hlen, ne_eq, not_true_eq_false, ↓reduceIte]
          apply runMapped_ok Γ fs inputs env done S I f hf hr arr ms e.1 e.2
          · intro a ha
            have := List.all_eq_true.mp hins a ha
            simp only [Bool.and_eq_true, Option.isNone_iff_eq_none] at this
            refine ⟨this.1, ?_⟩
            cases hl : alookup Γ a.name with
            | none => simp [hl] at this
            | some ea => exact ⟨ea, rfl, by simpa [hl] using this.2⟩
          · intro o' ho' e' he'
            have := List.all_eq_true.mp houts o' ho'
            simp only [he', Option.map_some, beq_iff_eq, Option.some.injEq] at this
            exact this

/-! ### one generation, all generations -/

theorem runGen_ok (R : Env → MFunc → M FuncResult) (env : Env) (P : MFunc → FuncResult → Prop) :
    ∀ (gen : List MFunc), (∀ f ∈ gen, ∃ r, R env f = .ok r ∧ P f r) →
      ∃ rs, runGenWith R env gen = .ok rs ∧ (∀ f ∈ gen, ∃ r ∈ rs, P f r) ∧ (∀ r ∈ rs, ∃ f ∈ gen, P f r) := by
  intro gen
  induction gen with
  | nil =>
    intro _
    refine ⟨[], rfl, ?_, ?_⟩ <;> intro _ h <;> cases h
  | cons f rest ih =>
    intro h
    obtain ⟨r, hr, hp⟩ := h f List.mem_cons_self
    obtain ⟨rs, hrs, h1, h2⟩ := ih (fun g hg => h g (List.mem_cons_of_mem _ hg))
    refine ⟨r :: rs, by simp only [runGenWith, hr, hrs, bind, Except.bind]; rfl, ?_, ?_⟩
    · intro g hg
      rcases List.mem_cons.mp hg with rfl | hg
      · exact ⟨r, List.mem_cons_self, hp⟩
      · obtain ⟨r', hr', hp'⟩ := h1 g hg
        exact ⟨r', List.mem_cons_of_mem _ hr', hp'⟩
    · intro r' hr'
      rcases List.mem_cons.mp hr' with rfl | hr'
      · exact ⟨f, List.mem_cons_self, hp⟩
      · obtain ⟨g, hg, hp'⟩ := h2 r' hr'
        exact ⟨g, List.mem_cons_of_mem _ hg, hp'⟩

/-- the invariant survives a generation -/
theorem inv_step (Γ : Tbl) (fs : List MFunc) (inputs : List (String × Val)) (env : Env) (done : List String)
    (S : Static Γ fs inputs) (I : Inv Γ fs inputs env done) (ready : List MFunc) (hsub : ∀ f ∈ ready, f ∈ fs)
    (rs : List FuncResult) (h1 : ∀ f ∈ ready, ∃ r ∈ rs, Post Γ f r) (h2 : ∀ r ∈ rs, ∃ f ∈ ready, Post Γ f r) :
    Inv Γ fs inputs { env with store := env.store ++ rs.flatMap (·.slots) } (done ++ ready.map (·.name)) := by
  refine ⟨I.inp, ?_, ?_⟩
  · intro o s hs
    simp only [alookup_append] at hs
    cases ho : alookup env.store o with
    | some s' =>
      simp only [ho, Option.some.injEq] at hs
      subst hs
      exact I.typed o s' ho
    | none =>
      simp only [ho] at hs
      have hm := alookup_some_mem _ _ _ hs
      rw [List.mem_flatMap] at hm
      obtain ⟨r, hr, hmr⟩ := hm
      obtain ⟨f, _, hp⟩ := h2 r hr
      exact hp.2 o s hmr
  · intro g hg hd o ho
    simp only [alookup_append]
    rcases List.mem_append.mp hd with hd | hd
    · have := I.stored g hg hd o ho
      cases hl : alookup env.store o with
      | none => rw [hl] at this; cases this
      | some s => rfl
    · cases hl : alookup env.store o with
      | some s => rfl
      | none =>
        simp only
        obtain ⟨f, hf, hn⟩ := List.mem_map.mp hd
        have hfg : f = g := nodupB_inj fs S.names f (hsub f hf) g hg hn
        subst hfg
        obtain ⟨r, hr, hp⟩ := h1 f hf
        apply alookup_isSome_of_mem_keys
        simp only [akeys, List.map_flatMap, List.mem_flatMap]
        refine ⟨r, hr, ?_⟩
        have := hp.1
        simp only [akeys] at this
        rw [this]; exact ho

theorem runGens_ok (Γ : Tbl) (fs : List MFunc) (inputs : List (String × Val)) (S : Static Γ fs inputs)
    (arr : MFunc → List Nat → List Bool → (Nat → List (String × Val)) → String → Val) :
    ∀ (fuel : Nat) (done : List String) (rest : List MFunc) (env : Env), (∀ f ∈ rest, f ∈ fs) → Inv Γ fs inputs env done →
      ∃ res, runGensWith (runFuncWith arr fs (shapesOf Γ) (masksOf Γ)) (layers fs fuel done rest) env = .ok res := by
  intro fuel
  induction fuel with
  | zero => intro done rest env _ _; exact ⟨_, rfl⟩
  | succ fuel ih =>
    intro done rest env hsub I
    unfold layers
    by_cases h1 : rest.isEmpty = true
    · simp only [h1, ↓reduceIte]; exact ⟨_, rfl⟩
    · simp only [h1, Bool.false_eq_true, ↓reduceIte]
      by_cases h2 : (rest.filter fun f => (upstream fs f).all fun g => done.contains g).isEmpty = true
      · simp only [h2, ↓reduceIte]; exact ⟨_, rfl⟩
      · simp only [h2, Bool.false_eq_true, ↓reduceIte]
        generalize hready : (rest.filter fun f => (upstream fs f).all fun g => done.contains g) = ready
        have hrsub : ∀ f ∈ ready, f ∈ fs := by
          intro f hf; rw [← hready] at hf; exact hsub f (List.mem_filter.mp hf).1
        have hrr : ∀ f ∈ ready, Ready fs done f := by
          intro f hf; rw [← hready] at hf
          exact ready_of_upstream fs done f (List.mem_filter.mp hf).2
        obtain ⟨rs, hrs, p1, p2⟩ := runGen_ok (runFuncWith arr fs (shapesOf Γ) (masksOf Γ)) env (Post Γ) ready
          (fun f hf => runFunc_ok Γ fs inputs env done S I f (hrsub f hf) (hrr f hf) arr)
        have I' := inv_step Γ fs inputs env done S I ready hrsub rs p1 p2
        obtain ⟨res, hres⟩ := ih (done ++ ready.map (·.name)) (rest.filter fun f => !(ready.any (·.name = f.name))) _
          (fun f hf => hsub f (List.mem_filter.mp hf).1) I'
        simp only [runGensWith, hrs, bind, Except.bind, hres]
        exact ⟨_, rfl⟩

/-! ### the whole run -/

theorem conforms_static (fs : List MFunc) (inputs : List (String × Val)) (ui : List (String × List Nat))
    (h : Conforms fs inputs ui = true) :
    inputsComplete fs inputs = true ∧ noSurplus fs inputs = true ∧ acyclic fs = true ∧ rootArrays fs inputs = true ∧
    shapesOK (constructInternal fs ui) (generations fs).flatten (rootTbl fs inputs) = true ∧
    Static (declTbl fs inputs ui) fs inputs := by
  unfold Conforms at h
  simp only [Bool.and_eq_true] at h
  obtain ⟨⟨⟨⟨⟨⟨⟨⟨⟨a, b⟩, c⟩, d⟩, e⟩, f⟩, g⟩, i⟩, j⟩, _⟩ := h
  exact ⟨a, b, c, e, f, ⟨a, g, i, fun x hx => List.all_eq_true.mp j x hx, d⟩⟩

theorem never_refused_with (arr : MFunc → List Nat → List Bool → (Nat → List (String × Val)) → String → Val)
    (fs : List MFunc) (inputs : List (String × Val)) (ui : List (String × List Nat))
    (h : Conforms fs inputs ui = true) : ∃ r, runMapWith arr fs inputs ui = .ok r := by
  obtain ⟨h1, h2, h3, h4, h5, S⟩ := conforms_static fs inputs ui h
  unfold runMapWith
  rw [validate_ok fs inputs h1 h2]
  have hac : (generations fs).flatten.length = fs.length := by simpa [acyclic] using h3
  simp only [bind, Except.bind, hac, ne_eq, not_true_eq_false, ↓reduceIte]
  rw [mapShapes_ok fs inputs _ h4 h5]
  simp only []
  obtain ⟨res, hres⟩ := runGens_ok (declTbl fs inputs ui) fs inputs S arr (fs.length + 1) [] fs
    { inputs := inputs, store := [] } (fun f hf => hf)
    ⟨rfl, fun o s hs => by simp [alookup] at hs, fun g _ hd => by cases hd⟩
  unfold declTbl at hres
  unfold generations at hres ⊢
  rw [hres]
  exact ⟨_, rfl⟩

end PF.C01
