import PfModel.Model.ValidateCtor
import PfModel.Lemmas.Validate
/-! Helper lemmas for the constructor stream of C12: a table of checks is refused iff some row fires. -/
namespace PF.ValidateCtor
open PF PF.Map PF.Validate

/-- some row of the table fires -/
def anyFires (T : List Row) : Bool := T.any (·.2.2)

/-- the verdict of one row -/
def verdict (n : String) (e : Exc) (c : Bool) : V Unit := if c then .error ⟨e, n⟩ else .ok ()

theorem toStep_eq (t : Row) : toStep t = .check t.1 (verdict t.1 t.2.1 t.2.2) := rfl

theorem verdict_refused (n : String) (e : Exc) (c : Bool) : Refused (verdict n e c) ↔ c = true := by
  cases c <;> simp [verdict, Refused]

/-- membership in a table of rows -/
theorem check_mem_rows (T : List Row) (n : String) (r : V Unit) :
    Step.check n r ∈ T.map toStep ↔ ∃ e c, (n, e, c) ∈ T ∧ r = verdict n e c := by
  simp only [List.mem_map, toStep_eq, Step.check.injEq]
  constructor
  · rintro ⟨⟨n', e, c⟩, hm, rfl, rfl⟩
    exact ⟨e, c, hm, rfl⟩
  · rintro ⟨e, c, hm, rfl⟩
    exact ⟨(n, e, c), hm, rfl, rfl⟩

/-- a check is in the list iff it is a row of `table` -/
theorem check_mem_pipeFuncInit (a : CtorArgs) (n : String) (r : V Unit) :
    Step.check n r ∈ pipeFuncInit a ↔ ∃ e c, (n, e, c) ∈ table a ∧ r = verdict n e c := check_mem_rows (table a) n r

/-- the rows of `table`, spelled out -/
theorem mem_table (a : CtorArgs) (t : Row) :
    t ∈ table a ↔ t = ("mapspec-malformed", .value, mapspecBad a) ∨ t ∈ scopeRows a ∨ t ∈ validateTable (effective a) := by
  simp only [table, List.mem_cons, List.mem_append]

theorem eff_not_mem_rows (T : List Row) (x : Effect) : Step.eff x ∉ T.map toStep := by
  simp [List.mem_map, toStep_eq]

theorem exec_rows_effects (T : List Row) : (exec (T.map toStep)).1 = [] := by
  induction T with
  | nil => rfl
  | cons t T ih =>
    rw [List.map_cons, toStep_eq, exec_check]
    cases verdict t.1 t.2.1 t.2.2 with
    | error e => rfl
    | ok u => exact ih

theorem refused_rows (T : List Row) : Refused (exec (T.map toStep)).2 ↔ anyFires T = true := by
  rw [refused_exec_iff]
  simp only [anyFires, List.any_eq_true]
  constructor
  · rintro ⟨n, res, hm, hr⟩
    obtain ⟨e, c, hmem, rfl⟩ := (check_mem_rows T n res).mp hm
    exact ⟨(n, e, c), hmem, (verdict_refused n e c).mp hr⟩
  · rintro ⟨⟨n, e, c⟩, hm, hc⟩
    exact ⟨n, verdict n e c, (check_mem_rows T n _).mpr ⟨e, c, hm, rfl⟩, (verdict_refused n e c).mpr hc⟩

theorem anyFires_append (S T : List Row) : anyFires (S ++ T) = (anyFires S || anyFires T) := by
  simp [anyFires, List.any_append]

theorem anyFires_cons (t : Row) (T : List Row) : anyFires (t :: T) = (t.2.2 || anyFires T) := by
  simp [anyFires]

/-- the first firing row decides the exception -/
theorem exec_rows_first (T : List Row) (e : VErr) (h : (exec (T.map toStep)).2 = .error e) :
    ∃ pre t post, T = pre ++ t :: post ∧ anyFires pre = false ∧ t.2.2 = true ∧ e = ⟨t.2.1, t.1⟩ := by
  induction T with
  | nil => simp [exec] at h
  | cons t T ih =>
    rw [List.map_cons, toStep_eq, exec_check] at h
    cases hc : t.2.2 with
    | true =>
      simp only [verdict, hc, ↓reduceIte] at h
      exact ⟨[], t, T, rfl, rfl, hc, by cases h; rfl⟩
    | false =>
      simp only [verdict, hc, Bool.false_eq_true, ↓reduceIte] at h
      obtain ⟨pre, t', post, rfl, hpre, ht, he⟩ := ih h
      exact ⟨t :: pre, t', post, rfl, by rw [anyFires_cons, hc, hpre]; rfl, ht, he⟩

theorem effective_of_none (a : CtorArgs) (h : a.scope = none) : effective a = a := by
  simp [effective, h]

theorem scopeRows_of_none (a : CtorArgs) (h : a.scope = none) : scopeRows a = [] := by
  simp [scopeRows, h]

theorem mem_contains {l : List String} {x : String} (h : x ∈ l) : l.contains x = true := by
  simpa [List.contains_iff_mem] using h

theorem not_mem_contains {l : List String} {x : String} (h : x ∉ l) : l.contains x = false := by
  simpa [List.contains_iff_mem] using h

theorem hasDup_of (l : List String) (i j : Nat) (hij : i < j) (hj : j < l.length) (h : l[i]'(by omega) = l[j]) : hasDup l = true := by
  induction l generalizing i j with
  | nil => simp at hj
  | cons x r ih =>
    simp only [hasDup, Bool.or_eq_true]
    cases i with
    | zero =>
      left
      cases j with
      | zero => omega
      | succ j =>
        simp only [List.getElem_cons_zero, List.getElem_cons_succ] at h
        rw [h]
        exact mem_contains (List.getElem_mem _)
    | succ i =>
      right
      cases j with
      | zero => omega
      | succ j =>
        simp only [List.getElem_cons_succ] at h
        exact ih i j (by omega) (by simpa using hj) h

theorem hasDup_false_iff (l : List String) : hasDup l = false ↔ l.Nodup := by
  induction l with
  | nil => simp [hasDup]
  | cons x r ih =>
    simp only [hasDup, Bool.or_eq_false_iff, ih, List.nodup_cons]
    constructor
    · rintro ⟨h1, h2⟩
      exact ⟨by simpa [List.contains_iff_mem] using h1, h2⟩
    · rintro ⟨h1, h2⟩
      exact ⟨not_mem_contains h1, h2⟩

/-- the model's MapSpec test is `PF.Validate.mapspecMalformed` -/
theorem msMalformed_eq (f : MFunc) (ms : MSpec) (h : f.mapspec = some ms) : mapspecMalformed f = msMalformed ms := by
  simp [mapspecMalformed, msMalformed, h]

/-! ### what each test says -/

theorem defaultsAndBound_iff (a : CtorArgs) : defaultsAndBound a = true ↔ ∃ k ∈ a.defaults, k ∈ a.bound := by
  simp [defaultsAndBound, List.any_eq_true, List.contains_iff_mem]

theorem outputTypeBad_iff (a : CtorArgs) : outputTypeBad a = true ↔ (∃ l, a.outputName = .lst l) ∨ a.outputName = .bad := by
  unfold outputTypeBad
  cases a.outputName <;> simp

theorem resourcesVariableMissing_iff (a : CtorArgs) : resourcesVariableMissing a = true ↔ ∃ r, a.resourcesVariable = some r ∧ r ∉ a.sig := by
  unfold resourcesVariableMissing
  cases a.resourcesVariable <;> simp [List.contains_iff_mem]

theorem outputIsParameter_iff (a : CtorArgs) : outputIsParameter a = true ↔ ∃ p ∈ parameters a, p ∈ outNames a := by
  simp [outputIsParameter, List.any_eq_true, List.contains_iff_mem]

theorem renamesNotInjective_iff (a : CtorArgs) : renamesNotInjective a = true ↔ ¬ (a.renames.map (·.2)).Nodup := by
  rw [← hasDup_false_iff, renamesNotInjective]
  cases hasDup (a.renames.map (·.2)) <;> simp

theorem renamesUnknownKey_iff (a : CtorArgs) :
    renamesUnknownKey a = true ↔ ∃ kv ∈ a.renames, kv.1 ∉ origParams a ∧ kv.1 ∉ a.outputName.names := by
  simp [renamesUnknownKey, List.any_eq_true, List.contains_iff_mem]

theorem renamesNotIdentifier_iff (a : CtorArgs) :
    renamesNotIdentifier a = true ↔ ∃ kv ∈ a.renames, validIdent kv.1 = false ∨ validIdent kv.2 = false := by
  simp [renamesNotIdentifier, List.any_eq_true]

theorem defaultsUnknown_iff (a : CtorArgs) : defaultsUnknown a = true ↔ ∃ k ∈ a.defaults, k ∉ parameters a := by
  simp [defaultsUnknown, List.any_eq_true, List.contains_iff_mem]

theorem defaultsNotIdentifier_iff (a : CtorArgs) : defaultsNotIdentifier a = true ↔ ∃ k ∈ a.defaults, validIdent k = false := by
  simp [defaultsNotIdentifier, List.any_eq_true]

theorem boundUnknown_iff (a : CtorArgs) : boundUnknown a = true ↔ ∃ k ∈ a.bound, k ∉ parameters a := by
  simp [boundUnknown, List.any_eq_true, List.contains_iff_mem]

theorem boundNotIdentifier_iff (a : CtorArgs) : boundNotIdentifier a = true ↔ ∃ k ∈ a.bound, validIdent k = false := by
  simp [boundNotIdentifier, List.any_eq_true]

theorem outputNotIdentifier_iff (a : CtorArgs) : outputNotIdentifier a = true ↔ ∃ o ∈ outNames a, validIdent o = false := by
  simp [outputNotIdentifier, List.any_eq_true]

theorem msInputNotParam_iff (a : CtorArgs) :
    msInputNotParam a = true ↔ ∃ ms, a.mapspec = some ms ∧ ∃ x ∈ ms.inputs, x.name ∉ parameters a := by
  unfold msInputNotParam
  cases a.mapspec <;> simp [List.any_eq_true, List.contains_iff_mem]

theorem msInputBound_iff (a : CtorArgs) : msInputBound a = true ↔ ∃ ms, a.mapspec = some ms ∧ ∃ x ∈ ms.inputs, x.name ∈ a.bound := by
  unfold msInputBound
  cases a.mapspec <;> simp [List.any_eq_true, List.contains_iff_mem]

theorem msOutputsDiffer_iff (a : CtorArgs) :
    msOutputsDiffer a = true ↔ ∃ ms, a.mapspec = some ms ∧
      ((∃ x ∈ ms.outputs, x.name ∉ outNames a) ∨ ∃ o ∈ outNames a, o ∉ ms.outputs.map (·.name)) := by
  unfold msOutputsDiffer
  cases a.mapspec with
  | none => simp
  | some ms =>
    simp only [Option.some.injEq, exists_eq_left', Bool.not_eq_true', Bool.and_eq_false_iff, List.all_eq_false, List.contains_iff_mem,
      Bool.not_eq_true]

theorem mapspecBad_iff (a : CtorArgs) : mapspecBad a = true ↔ ∃ ms, a.mapspec = some ms ∧ msMalformed ms = true := by
  unfold mapspecBad
  cases a.mapspec <;> simp

theorem scopeIsParameter_iff (a : CtorArgs) (s : String) : scopeIsParameter a s = true ↔ ∃ p ∈ parameters a, unscope p = s := by
  simp [scopeIsParameter, List.contains_iff_mem]

theorem scopeIsOutput_iff (a : CtorArgs) (s : String) : scopeIsOutput a s = true ↔ s ∈ outNames a := by
  simp [scopeIsOutput, List.contains_iff_mem]

theorem scopeOutputNotIterable_iff (a : CtorArgs) : scopeOutputNotIterable a = true ↔ a.outputName = .bad := by
  unfold scopeOutputNotIterable
  cases a.outputName <;> simp

theorem scopeNotIdentifier_iff (a : CtorArgs) (s : String) :
    scopeNotIdentifier a s = true ↔ ∃ k ∈ parameters a ++ outNames a, validIdent k = false ∨ validIdent (prependScope k s) = false := by
  simp only [scopeNotIdentifier, List.any_eq_true, Bool.or_eq_true, Bool.not_eq_true']

/-! ### ill-formed constructor calls -/

/-- `_validate_names` or `_validate_mapspec` raises on these (effective) arguments -/
def NamesFault (b : CtorArgs) : Prop :=
  (∃ k ∈ b.defaults, k ∈ b.bound) ∨
  ((∃ l, b.outputName = .lst l) ∨ b.outputName = .bad) ∨
  (∃ r, b.resourcesVariable = some r ∧ r ∉ b.sig) ∨
  (∃ p ∈ parameters b, p ∈ outNames b) ∨
  (¬ (b.renames.map (·.2)).Nodup) ∨
  (∃ kv ∈ b.renames, kv.1 ∉ origParams b ∧ kv.1 ∉ b.outputName.names) ∨
  (∃ kv ∈ b.renames, validIdent kv.1 = false ∨ validIdent kv.2 = false) ∨
  (∃ k ∈ b.defaults, k ∉ parameters b) ∨
  (∃ k ∈ b.defaults, validIdent k = false) ∨
  (∃ k ∈ b.bound, k ∉ parameters b) ∨
  (∃ k ∈ b.bound, validIdent k = false) ∨
  (∃ o ∈ outNames b, validIdent o = false) ∨
  (∃ ms, b.mapspec = some ms ∧ ∃ x ∈ ms.inputs, x.name ∉ parameters b) ∨
  (∃ ms, b.mapspec = some ms ∧ ∃ x ∈ ms.inputs, x.name ∈ b.bound) ∨
  (∃ ms, b.mapspec = some ms ∧ ((∃ x ∈ ms.outputs, x.name ∉ outNames b) ∨ ∃ o ∈ outNames b, o ∉ ms.outputs.map (·.name)))

/-- `update_scope(scope, "*", "*")` raises before `_validate` is reached -/
def ScopeFault (a : CtorArgs) (s : String) : Prop :=
  (∃ r, a.resourcesVariable = some r ∧ r ∉ a.sig) ∨
  (∃ p ∈ parameters a, unscope p = s) ∨
  a.outputName = .bad ∨
  s ∈ outNames a ∨
  (parameters a ++ outNames a = []) ∨
  (∃ k ∈ parameters a ++ outNames a, validIdent k = false ∨ validIdent (prependScope k s) = false) ∨
  scopeMapspecName a s = true

/-- the constructor call is ill-formed -/
def CtorFault (a : CtorArgs) : Prop :=
  (∃ ms, a.mapspec = some ms ∧ msMalformed ms = true) ∨ (∃ s, a.scope = some s ∧ ScopeFault a s) ∨ NamesFault (effective a)

theorem anyFires_validateTable (b : CtorArgs) : anyFires (validateTable b) = true ↔ NamesFault b := by
  simp only [validateTable, anyFires, List.any_cons, List.any_nil, Bool.or_false, Bool.or_eq_true, NamesFault,
    defaultsAndBound_iff, outputTypeBad_iff, resourcesVariableMissing_iff, outputIsParameter_iff, renamesNotInjective_iff,
    renamesUnknownKey_iff, renamesNotIdentifier_iff, defaultsUnknown_iff, defaultsNotIdentifier_iff, boundUnknown_iff,
    boundNotIdentifier_iff, outputNotIdentifier_iff, msInputNotParam_iff, msInputBound_iff, msOutputsDiffer_iff]

theorem anyFires_scopeTable (a : CtorArgs) (s : String) : anyFires (scopeTable a s) = true ↔ ScopeFault a s := by
  simp only [scopeTable, anyFires, List.any_cons, List.any_nil, Bool.or_false, Bool.or_eq_true, ScopeFault,
    resourcesVariableMissing_iff, scopeIsParameter_iff, scopeOutputNotIterable_iff, scopeIsOutput_iff, scopeNotIdentifier_iff,
    scopeNothing, List.isEmpty_iff]

theorem anyFires_scopeRows (a : CtorArgs) : anyFires (scopeRows a) = true ↔ ∃ s, a.scope = some s ∧ ScopeFault a s := by
  unfold scopeRows
  cases h : a.scope with
  | none => simp [anyFires]
  | some s => simp [anyFires_scopeTable]

theorem anyFires_table (a : CtorArgs) : anyFires (table a) = true ↔ CtorFault a := by
  rw [table, anyFires_cons, anyFires_append, Bool.or_eq_true, Bool.or_eq_true, anyFires_scopeRows, anyFires_validateTable, mapspecBad_iff]
  rfl

/-! ### from a firing row to a refusal -/

theorem refused_ctor_iff (a : CtorArgs) : Refused (ctorResult a) ↔ CtorFault a := by
  rw [ctorResult, pipeFuncInit, refused_rows, anyFires_table]

theorem refused_of_row (a : CtorArgs) (t : Row) (hm : t ∈ table a) (hf : t.2.2 = true) : Refused (ctorResult a) := by
  rw [ctorResult, pipeFuncInit, refused_rows]
  exact List.any_eq_true.mpr ⟨t, hm, hf⟩

theorem refused_of_names (a : CtorArgs) (h : NamesFault (effective a)) : Refused (ctorResult a) :=
  (refused_ctor_iff a).mpr (Or.inr (Or.inr h))

theorem refused_of_scope (a : CtorArgs) (s : String) (hs : a.scope = some s) (h : ScopeFault a s) : Refused (ctorResult a) :=
  (refused_ctor_iff a).mpr (Or.inr (Or.inl ⟨s, hs, h⟩))

theorem effective_outputName (a : CtorArgs) : (effective a).outputName = a.outputName := by
  unfold effective
  cases a.scope <;> rfl

theorem effective_sig (a : CtorArgs) : (effective a).sig = a.sig := by
  unfold effective
  cases a.scope <;> rfl

theorem effective_resourcesVariable (a : CtorArgs) : (effective a).resourcesVariable = a.resourcesVariable := by
  unfold effective
  cases a.scope <;> rfl

/-- rows that raise `TypeError` -/
theorem type_row (a : CtorArgs) (t : Row) (hm : t ∈ table a) (ht : t.2.1 = Exc.type) (hf : t.2.2 = true) :
    (∃ l, a.outputName = .lst l) ∨ a.outputName = .bad := by
  rcases (mem_table a t).mp hm with rfl | hs | hv
  · cases ht
  · unfold scopeRows at hs
    cases hsc : a.scope with
    | none => simp [hsc] at hs
    | some s =>
      simp only [hsc, scopeTable, List.mem_cons, List.not_mem_nil, or_false] at hs
      rcases hs with rfl | rfl | rfl | rfl | rfl | rfl | rfl <;> first | cases ht | skip
      exact Or.inr ((scopeOutputNotIterable_iff a).mp hf)
  · simp only [validateTable, List.mem_cons, List.not_mem_nil, or_false] at hv
    rcases hv with rfl | rfl | rfl | rfl | rfl | rfl | rfl | rfl | rfl | rfl | rfl | rfl | rfl | rfl | rfl <;> first | cases ht | skip
    have := (outputTypeBad_iff _).mp hf
    rwa [effective_outputName] at this

/-- a constructor call with the common defaults (helper for examples) -/
def call (sig : List String) (out : OutName) (renames : List (String × String)) (defaults bound : List String)
    (mapspec : Option MSpec) (rv scope : Option String) : CtorArgs :=
  { sig := sig, sigDefaults := [], outputName := out, renames := renames, defaults := defaults, bound := bound, mapspec := mapspec,
    internal := none, resourcesVariable := rv, scope := scope }

def ms1 (i o : String) (ax : String) : MSpec := { inputs := [{ name := i, axes := [some ax] }], outputs := [{ name := o, axes := [some "i"] }] }

end PF.ValidateCtor
