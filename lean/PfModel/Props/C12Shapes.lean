import PfModel.Props.C12
import PfModel.Lemmas.ValidateShapes
/-!
C12, clause "array inputs whose rank or zipped dimensions contradict the MapSpecs" at full strength.

`C12_reject_shapes` (Props/C12.lean) says: whenever the shape computation `PF.Map.mapShapes` refuses, the start of `map` refuses.
Here: *when* it refuses.  `C12_mapShapes_refused_iff` — `mapShapes` refuses **iff** `ShapeFault`: an explicit list of faults
(root array missing / not an array; for some function in execution order, against the shapes recorded so far: a MapSpec input
without a recorded shape, a rank mismatch, unequal zipped dimensions, a missing internal size).  `C12_reject_rank`,
`C12_reject_zipped`, `C12_reject_not_array`: the faults the property statement names, stated on the request itself, for every
pipeline that passed construction (acyclic) — no size bound.
-/
namespace PF.C12
open PF PF.Map PF.Validate PF.C01

/-- what makes `map_shapes` refuse: (1) a root argument that a MapSpec names has no value or its value is not an array;
    (2) going through the functions in execution order, for a function with MapSpec `ms` and the table `S` of the shapes recorded
    before it: (a) a MapSpec input has no recorded shape, (b) **rank mismatch**: its recorded shape has not the rank its ArraySpec
    names, (c) for some output index: **unequal zipped dimensions** — the inputs carrying it disagree on its size — or no input
    carries it and the internal shape of the output is missing / too short (`IndexFault`) -/
def ShapeFault (fs : List MFunc) (inputs : List (String × Val)) (internal : List (String × List Nat)) : Prop :=
  (∃ p ∈ rootArgs fs, p ∈ mapspecNames fs ∧ (alookup (inputs ++ pdefaults fs) p).bind shapeOf = none) ∨
  ∃ pre f post ms, (generations fs).flatten = pre ++ f :: post ∧ f.mapspec = some ms ∧
    ((∃ a ∈ ms.inputs, alookup (C01.shapesOf (tblFrom internal pre (rootTbl fs inputs))) a.name = none) ∨
     (∃ a ∈ ms.inputs, ∃ sh, alookup (C01.shapesOf (tblFrom internal pre (rootTbl fs inputs))) a.name = some sh ∧
        sh.length ≠ a.axes.length) ∨
     (∃ pre' ix post', ms.outputIndices = pre' ++ ix :: post' ∧
        IndexFault ms (C01.shapesOf (tblFrom internal pre (rootTbl fs inputs))) (ishOf ms internal) ix
          (internalBefore ms (C01.shapesOf (tblFrom internal pre (rootTbl fs inputs))) pre')))

theorem rootArrays_false_iff (fs : List MFunc) (inputs : List (String × Val)) :
    rootArrays fs inputs = false ↔
      ∃ p ∈ rootArgs fs, p ∈ mapspecNames fs ∧ (alookup (inputs ++ pdefaults fs) p).bind shapeOf = none := by
  unfold rootArrays
  simp only [List.all_eq_false, Bool.not_eq_true, Bool.or_eq_false_iff, Bool.not_eq_false', List.contains_iff_mem,
    Option.isSome_eq_false_iff, Option.isNone_iff_eq_none]

theorem inputs_all_false_iff (T : List (String × List Nat)) (l : List ASpec) :
    l.all (inputOK T) = false ↔
      (∃ a ∈ l, alookup T a.name = none) ∨ (∃ a ∈ l, ∃ sh, alookup T a.name = some sh ∧ sh.length ≠ a.axes.length) := by
  simp only [List.all_eq_false, Bool.not_eq_true]
  constructor
  · rintro ⟨a, ha, h⟩
    unfold inputOK at h
    cases hl : alookup T a.name with
    | none => exact Or.inl ⟨a, ha, hl⟩
    | some sh =>
      simp only [hl, beq_eq_false_iff_ne] at h
      exact Or.inr ⟨a, ha, sh, hl, h⟩
  · rintro (⟨a, ha, h⟩ | ⟨a, ha, sh, h, hne⟩)
    · exact ⟨a, ha, by simp [inputOK, h]⟩
    · exact ⟨a, ha, by simp [inputOK, h, hne]⟩

/-- **`map_shapes` refuses exactly the requests with a shape fault** (the converse of `C01.mapShapes_ok`, and the meaning of
    each failing check). -/
theorem C12_mapShapes_refused_iff (fs : List MFunc) (inputs : List (String × Val)) (internal : List (String × List Nat)) :
    Refused (mapShapes fs inputs internal) ↔ ShapeFault fs inputs internal := by
  rw [mapShapes_refused_iff, rootArrays_false_iff, shapesOK_false_iff]
  unfold ShapeFault
  apply or_congr Iff.rfl
  constructor
  · rintro ⟨pre, f, post, hs, hst⟩
    rw [stepOK_eq] at hst
    cases hm : f.mapspec with
    | none => simp [hm] at hst
    | some ms =>
      simp only [hm, Bool.and_eq_false_iff] at hst
      refine ⟨pre, f, post, ms, hs, hm, ?_⟩
      rcases hst with h | h
      · rcases (inputs_all_false_iff _ _).mp h with h | h
        · exact Or.inl h
        · exact Or.inr (Or.inl h)
      · obtain ⟨pre', ix, post', h1, h2⟩ := (goOK_false_iff ms _ _ _ 0).mp h
        rw [Nat.zero_add] at h2
        exact Or.inr (Or.inr ⟨pre', ix, post', h1, h2⟩)
  · rintro ⟨pre, f, post, ms, hs, hm, h⟩
    refine ⟨pre, f, post, hs, ?_⟩
    rw [stepOK_eq]
    simp only [hm, Bool.and_eq_false_iff]
    rcases h with h | h | ⟨pre', ix, post', h1, h2⟩
    · exact Or.inl ((inputs_all_false_iff _ _).mpr (Or.inl h))
    · exact Or.inl ((inputs_all_false_iff _ _).mpr (Or.inr h))
    · right
      apply (goOK_false_iff ms _ _ _ 0).mpr
      rw [← Nat.zero_add (internalBefore _ _ _)] at h2
      exact ⟨pre', ix, post', h1, h2⟩

/-- the same for a request: the shape check of the start of `map` fails iff the request (lists read as 1-D arrays, the
    caller's `internal_shapes` merged with the `PipeFunc`-level ones) has a shape fault -/
theorem C12_shapes_refused_iff (fs : List MFunc) (r : Req) :
    Refused (Validate.shapesOf fs r.inputs r.internal) ↔ ShapeFault fs (normInputs r.inputs) (constructInternal fs r.internal) :=
  C12_mapShapes_refused_iff fs _ _

/-- a function of an acyclic pipeline, against the table recorded before it, passes `stepOK` when `map_shapes` succeeds -/
theorem stepOK_of_not_refused (fs : List MFunc) (inputs : List (String × Val)) (internal : List (String × List Nat))
    (hnr : ¬ Refused (mapShapes fs inputs internal)) (hac : Validate.acyclic fs = true) (f : MFunc) (hf : f ∈ fs) :
    rootArrays fs inputs = true ∧
    ∃ pre post, (generations fs).flatten = pre ++ f :: post ∧ stepOK internal (tblFrom internal pre (rootTbl fs inputs)) f = true := by
  rw [mapShapes_refused_iff, not_or, Bool.not_eq_false, Bool.not_eq_false] at hnr
  obtain ⟨pre, post, hs⟩ := List.append_of_mem (mem_flatten_of_acyclic fs hac f hf)
  exact ⟨hnr.1, pre, post, hs, (shapesOK_true_iff _ _ _).mp hnr.2 pre f post hs⟩

theorem mem_mapspecNames_input (fs : List MFunc) (f : MFunc) (hf : f ∈ fs) (ms : MSpec) (hms : f.mapspec = some ms) (a : ASpec)
    (ha : a ∈ ms.inputs) : (mapspecNames fs).contains a.name = true := by
  rw [List.contains_iff_mem]
  unfold mapspecNames
  rw [List.mem_flatMap]
  refine ⟨f, hf, ?_⟩
  rw [hms]
  exact List.mem_append.mpr (Or.inl (List.mem_map.mpr ⟨a, ha, rfl⟩))

/-- the shape recorded for a root array when a consumer's MapSpec is checked -/
theorem recorded_root (fs : List MFunc) (inputs : List (String × Val)) (internal : List (String × List Nat)) (pre : List MFunc)
    (f : MFunc) (hf : f ∈ fs) (ms : MSpec) (hms : f.mapspec = some ms) (a : ASpec) (ha : a ∈ ms.inputs)
    (hroot : a.name ∈ rootArgs fs) (sh : List Nat) (hv : (alookup (inputs ++ pdefaults fs) a.name).bind shapeOf = some sh) :
    alookup (C01.shapesOf (tblFrom internal pre (rootTbl fs inputs))) a.name = some sh := by
  rw [alookup_shapesOf, tblFrom_preserved internal pre _ a.name _
    (rootTbl_lookup fs inputs a.name sh hroot (mem_mapspecNames_input fs f hf ms hms a ha) hv)]
  rfl

/-- **Rank mismatch, on `map_shapes`**: an array given for a root argument whose rank is not the number of axes a MapSpec of
    the (acyclic) pipeline lists for it. -/
theorem mapShapes_refuses_rank (fs : List MFunc) (inputs : List (String × Val)) (internal : List (String × List Nat))
    (hac : Validate.acyclic fs = true) (f : MFunc) (hf : f ∈ fs) (ms : MSpec) (hms : f.mapspec = some ms) (a : ASpec)
    (ha : a ∈ ms.inputs) (hroot : a.name ∈ rootArgs fs) (sh : List Nat)
    (hv : (alookup (inputs ++ pdefaults fs) a.name).bind shapeOf = some sh) (hrank : sh.length ≠ a.axes.length) :
    Refused (mapShapes fs inputs internal) := by
  apply Classical.byContradiction
  intro hnr
  obtain ⟨_, pre, post, _, hst⟩ := stepOK_of_not_refused fs inputs internal hnr hac f hf
  rw [stepOK_eq] at hst
  simp only [hms, Bool.and_eq_true] at hst
  have := List.all_eq_true.mp hst.1 a ha
  unfold inputOK at this
  rw [recorded_root fs inputs internal pre f hf ms hms a ha hroot sh hv] at this
  simp only [beq_iff_eq] at this
  exact hrank this

/-- **Unequal zipped dimensions, on `map_shapes`**: two root arrays that one MapSpec indexes with the same (output) index `ix`
    have different sizes along it. -/
theorem mapShapes_refuses_zipped (fs : List MFunc) (inputs : List (String × Val)) (internal : List (String × List Nat))
    (hac : Validate.acyclic fs = true) (f : MFunc) (hf : f ∈ fs) (ms : MSpec) (hms : f.mapspec = some ms) (a b : ASpec)
    (ha : a ∈ ms.inputs) (hb : b ∈ ms.inputs) (hra : a.name ∈ rootArgs fs) (hrb : b.name ∈ rootArgs fs) (sa sb : List Nat)
    (hva : (alookup (inputs ++ pdefaults fs) a.name).bind shapeOf = some sa)
    (hvb : (alookup (inputs ++ pdefaults fs) b.name).bind shapeOf = some sb)
    (ix : String) (hix : ix ∈ ms.outputIndices) (i j : Nat) (hi : idxOf a.axes ix = some i) (hj : idxOf b.axes ix = some j)
    (hne : sa.getD i 0 ≠ sb.getD j 0) : Refused (mapShapes fs inputs internal) := by
  apply Classical.byContradiction
  intro hnr
  obtain ⟨_, pre, post, _, hst⟩ := stepOK_of_not_refused fs inputs internal hnr hac f hf
  rw [stepOK_eq] at hst
  simp only [hms, Bool.and_eq_true] at hst
  have hz := goOK_zipped ms _ _ _ 0 hst.2 ix hix
  apply hne
  apply hz
  · unfold outDims
    rw [List.mem_filterMap]
    refine ⟨a, ha, ?_⟩
    rw [hi, recorded_root fs inputs internal pre f hf ms hms a ha hra sa hva]
    rfl
  · unfold outDims
    rw [List.mem_filterMap]
    refine ⟨b, hb, ?_⟩
    rw [hj, recorded_root fs inputs internal pre f hf ms hms b hb hrb sb hvb]
    rfl

/-- **Array inputs whose rank contradicts the MapSpecs.**  For every constructed (acyclic) pipeline and every request: if the
    value given for a root argument (a list counts as a 1-D array) is an array whose rank differs from the number of axes some
    function's MapSpec lists for it, the start of `map` refuses — whatever else is wrong, whichever check fires first. -/
theorem C12_reject_rank (fs : List MFunc) (r : Req) (hac : Validate.acyclic fs = true) (f : MFunc) (hf : f ∈ fs) (ms : MSpec)
    (hms : f.mapspec = some ms) (a : ASpec) (ha : a ∈ ms.inputs) (hroot : a.name ∈ rootArgs fs) (sh : List Nat)
    (hv : (alookup (normInputs r.inputs ++ pdefaults fs) a.name).bind shapeOf = some sh) (hrank : sh.length ≠ a.axes.length) :
    Refused (startMap fs r).2 :=
  C12_reject_shapes fs r (mapShapes_refuses_rank fs _ _ hac f hf ms hms a ha hroot sh hv hrank)

/-- **Array inputs whose zipped dimensions contradict the MapSpecs.**  Two root arrays that a function's MapSpec indexes with
    the same index have different sizes along it ⇒ the start of `map` refuses. -/
theorem C12_reject_zipped (fs : List MFunc) (r : Req) (hac : Validate.acyclic fs = true) (f : MFunc) (hf : f ∈ fs) (ms : MSpec)
    (hms : f.mapspec = some ms) (a b : ASpec) (ha : a ∈ ms.inputs) (hb : b ∈ ms.inputs) (hra : a.name ∈ rootArgs fs)
    (hrb : b.name ∈ rootArgs fs) (sa sb : List Nat)
    (hva : (alookup (normInputs r.inputs ++ pdefaults fs) a.name).bind shapeOf = some sa)
    (hvb : (alookup (normInputs r.inputs ++ pdefaults fs) b.name).bind shapeOf = some sb)
    (ix : String) (hix : ix ∈ ms.outputIndices) (i j : Nat) (hi : idxOf a.axes ix = some i) (hj : idxOf b.axes ix = some j)
    (hne : sa.getD i 0 ≠ sb.getD j 0) : Refused (startMap fs r).2 :=
  C12_reject_shapes fs r (mapShapes_refuses_zipped fs _ _ hac f hf ms hms a b ha hb hra hrb sa sb hva hvb ix hix i j hi hj hne)

/-- **A mapped root argument that is not given as an array** (a scalar, or nothing at all — the latter is also a missing input). -/
theorem C12_reject_not_array (fs : List MFunc) (r : Req) (p : String) (hp : p ∈ rootArgs fs) (hm : p ∈ mapspecNames fs)
    (hv : (alookup (normInputs r.inputs ++ pdefaults fs) p).bind shapeOf = none) : Refused (startMap fs r).2 :=
  C12_reject_shapes fs r ((C12_mapShapes_refused_iff fs _ _).mpr (Or.inl ⟨p, hp, hm, hv⟩))

/-- **Complete, for shapes**: without a shape fault the shape check passes (so `C12_complete`'s hypothesis `¬ MapFault` can be
    discharged clause by clause with explicit predicates). -/
theorem C12_shapes_complete (fs : List MFunc) (r : Req) (h : ¬ ShapeFault fs (normInputs r.inputs) (constructInternal fs r.internal)) :
    ¬ Refused (Validate.shapesOf fs r.inputs r.internal) := fun hr => h ((C12_shapes_refused_iff fs r).mp hr)

/-! ### non-vacuity -/

private def fn (n : String) (ps : List String) (o : String) (ms : Option MSpec) : MFunc :=
  { name := n, params := ps.map fun p => (p, p), outputs := [o], mapspec := ms, ret := none, internal := none, defaults := [], bound := [] }
private def sp (n : String) (ax : List (Option String)) : ASpec := ⟨n, ax⟩
private def zipMS : MSpec := MSpec.mk [sp "x" [some "i"], sp "w" [some "i"]] [sp "y" [some "i"]]
private def zipped : MFunc := fn "g" ["x", "w"] "y" (some zipMS)
private def rq (inputs : List (String × Val)) : Req :=
  { inputs := inputs, internal := [], storage := "dict", folder := true, cleanup := false, executor := false, parallel := false,
    order := [], prev := none }
private def ints (n : Nat) : List Val := (List.range n).map fun i => .int (Int.ofNat i)

/-- `x[i], w[i] -> y[i]` with `x` of rank 2: the hypotheses of `C12_reject_rank` hold, and the refusal is real -/
example : Refused (startMap [zipped] (rq [("x", .arr [2, 1] (ints 2)), ("w", .tup (ints 2))])).2 :=
  C12_reject_rank [zipped] _ (by decide) zipped List.mem_cons_self zipMS rfl (sp "x" [some "i"]) (by decide) (by decide) [2, 1] (by decide)
    (by decide)
example : startMap [zipped] (rq [("x", .arr [2, 1] (ints 2)), ("w", .tup (ints 2))]) = ([], .error ⟨.value, "map-shapes"⟩) := by decide
/-- zipped `x` (2 elements, as a list) and `w` (3 elements) -/
example : Refused (startMap [zipped] (rq [("x", .tup (ints 2)), ("w", .arr [3] (ints 3))])).2 :=
  C12_reject_zipped [zipped] _ (by decide) zipped List.mem_cons_self zipMS rfl (sp "x" [some "i"]) (sp "w" [some "i"]) (by decide) (by decide)
    (by decide) (by decide) [2] [3] (by decide) (by decide) "i" (by decide) 0 0 (by decide) (by decide) (by decide)
/-- a scalar for a mapped input -/
example : Refused (startMap [zipped] (rq [("x", .int 1), ("w", .arr [3] (ints 3))])).2 :=
  C12_reject_not_array [zipped] _ "x" (by decide) (by decide) (by decide)
/-- a well-formed request has no shape fault (the right-hand side of the iff is not trivially true) -/
example : ¬ ShapeFault [zipped] (normInputs [("x", .tup (ints 2)), ("w", .arr [2] (ints 2))]) (constructInternal [zipped] []) := by
  rw [← C12_mapShapes_refused_iff]
  intro ⟨e, h⟩
  have : (mapShapes [zipped] (normInputs [("x", .tup (ints 2)), ("w", .arr [2] (ints 2))]) (constructInternal [zipped] [])).toOption.isSome
      = true := by decide
  rw [h] at this
  cases this
/-- a missing internal size is a shape fault: `c -> v[j]` without `internal_shapes` -/
example : ShapeFault [fn "gen" ["c"] "v" (some ⟨[], [sp "v" [some "j"]]⟩)] [("c", .int 7)] [] :=
  Or.inr ⟨[], _, [], _, rfl, rfl, Or.inr (Or.inr ⟨[], "j", [], rfl, by intro l hl; cases hl⟩)⟩

end PF.C12
