import PfModel.Model.StorageSess
import PfModel.Lemmas.StorageExt
/-! Lemmas for `Props/C07Sess.lean`: per-step refinement of the session models, lifting to histories. -/
namespace PF.St
variable {V : Type}

/-- a dict session represents a volatile reference: the live mapping represents the current array and the pickle
    (an absent pickle loads as the empty mapping) represents the snapshot -/
def RepDS (g : Geom) (s : DSess V) (a : ASess V) : Prop :=
  RepD g s.mem a.cur ∧ RepD g (s.disk.getD []) a.saved

theorem isPR_eq (o : Op V) (h : o.isPR = true) : o = .persistReopen := by
  cases o <;> first | rfl | (simp [Op.isPR] at h)

theorem dsStep_refines (g : Geom) (hg : g.WF) (s : DSess V) (a : ASess V) (h : RepDS g s a) (o : SOp V) :
    (dsStep g s o).2 = (avStep g a o).2 ∧ RepDS g (dsStep g s o).1 (avStep g a o).1 := by
  cases o with
  | persist => exact ⟨rfl, h.1, h.1⟩
  | reopen => exact ⟨rfl, h.2, h.2⟩
  | op o =>
    simp only [dsStep, avStep]
    split
    · exact ⟨rfl, h.1, h.1⟩
    · obtain ⟨h1, h2⟩ := dStep_refines_all g hg s.mem a.cur h.1 o
      exact ⟨h1, h2, h.2⟩

theorem fsStep_refines (g : Geom) (hg : g.WF) (f : Files V) (a : MArr V) (h : RepF g f a) (o : SOp V) :
    (fsStep g f o).2 = (adStep g a o).2 ∧ RepF g (fsStep g f o).1 (adStep g a o).1 := by
  cases o with
  | persist => exact ⟨rfl, h⟩
  | reopen => exact ⟨rfl, h⟩
  | op o => exact fStep_refines_all g hg f a h o

/-- a per-step refinement lifts to every history -/
theorem runS_refines {S A O} (step : S → O → S × Obs V) (astep : A → O → A × Obs V) (R : S → A → Prop)
    (hstep : ∀ s a o, R s a → (step s o).2 = (astep a o).2 ∧ R (step s o).1 (astep a o).1) :
    ∀ (os : List O) (s : S) (a : A), R s a →
      (runS step s os).2 = (runS astep a os).2 ∧ R (runS step s os).1 (runS astep a os).1
  | [], _, _, h => ⟨rfl, h⟩
  | o :: os, s, a, h => by
    obtain ⟨h1, h2⟩ := hstep s a o h
    obtain ⟨h3, h4⟩ := runS_refines step astep R hstep os _ _ h2
    simp only [runS]
    exact ⟨by rw [h1, h3], h4⟩

theorem runS_append {S O} (step : S → O → S × Obs V) : ∀ (xs ys : List O) (s : S),
    runS step s (xs ++ ys) = ((runS step (runS step s xs).1 ys).1, (runS step s xs).2 ++ (runS step (runS step s xs).1 ys).2)
  | [], _, _ => rfl
  | x :: xs, ys, s => by
    simp only [List.cons_append, runS, runS_append step xs ys]

/-- a step that writes no element leaves the reference array as it was -/
theorem aStep_clean (g : Geom) (a : MArr V) (o : Op V) (h : (SOp.op o).dirties g = false) : (aStep g a o).1 = a := by
  cases o with
  | dump key v =>
    simp only [SOp.dirties] at h
    simp only [aStep]
    cases hts : dumpTargets g key with
    | error e => rfl
    | ok ts =>
      cases ts with
      | nil => simp
      | cons t ts => simp [hts] at h
  | get key => rfl
  | toArray s => rfl
  | mask => rfl
  | maskLinear => rfl
  | has i => simp only [aStep]; split <;> rfl
  | «at» i => simp only [aStep]; split <;> (try split) <;> rfl
  | persistReopen => rfl

/-- on a history whose re-openings all happen with nothing unpersisted, the volatile reference observes what the
    durable one observes -/
theorem safe_volatile_eq_durable (g : Geom) : ∀ (os : List (SOp V)) (dirty : Bool) (a : ASess V),
    (dirty = false → a.saved = a.cur) → safeFrom g dirty os = true →
    (runS (avStep g) a os).2 = (runS (adStep g) a.cur os).2 ∧
    (runS (avStep g) a os).1.cur = (runS (adStep g) a.cur os).1
  | [], _, _, _, _ => ⟨rfl, rfl⟩
  | .persist :: r, dirty, a, _, hs => by
    simp only [safeFrom] at hs
    have ih := safe_volatile_eq_durable g r false ⟨a.cur, a.cur⟩ (fun _ => rfl) hs
    simp only [runS, avStep, adStep]
    exact ⟨by rw [ih.1], ih.2⟩
  | .reopen :: r, dirty, a, hd, hs => by
    simp only [safeFrom, Bool.and_eq_true, Bool.not_eq_true'] at hs
    have hsc := hd hs.1
    have ih := safe_volatile_eq_durable g r false ⟨a.saved, a.saved⟩ (fun _ => rfl) hs.2
    simp only [runS, avStep, adStep]
    rw [hsc] at ih ⊢
    exact ⟨by rw [ih.1], ih.2⟩
  | .op o :: r, dirty, a, hd, hs => by
    simp only [safeFrom] at hs
    by_cases hpr : o.isPR = true
    · rw [if_pos hpr] at hs
      have ho := isPR_eq o hpr
      subst ho
      have ih := safe_volatile_eq_durable g r false ⟨a.cur, a.cur⟩ (fun _ => rfl) hs
      simp only [runS, avStep, adStep, Op.isPR, if_true, aStep]
      exact ⟨by rw [ih.1], ih.2⟩
    · rw [if_neg hpr] at hs
      have ih := safe_volatile_eq_durable g r (dirty || (SOp.op o).dirties g) ⟨(aStep g a.cur o).1, a.saved⟩
        (by
          intro hf
          simp only [Bool.or_eq_false_iff] at hf
          show a.saved = (aStep g a.cur o).1
          rw [aStep_clean g a.cur o hf.2, hd hf.1]) hs
      simp only [runS, avStep, adStep, if_neg hpr]
      exact ⟨by rw [ih.1], ih.2⟩

/-- only `persist` (alone or as the first half of `persistReopen`) touches the pickle -/
def SOp.noPersist : SOp V → Bool
  | .persist => false
  | .reopen => true
  | .op o => !o.isPR

theorem dsStep_disk (g : Geom) (s : DSess V) (o : SOp V) (h : o.noPersist = true) : (dsStep g s o).1.disk = s.disk := by
  cases o with
  | persist => simp [SOp.noPersist] at h
  | reopen => rfl
  | op o =>
    simp only [SOp.noPersist, Bool.not_eq_true'] at h
    simp only [dsStep, h, Bool.false_eq_true, if_false]

theorem runS_disk (g : Geom) : ∀ (os : List (SOp V)) (s : DSess V), (∀ o ∈ os, o.noPersist = true) →
    (runS (dsStep g) s os).1.disk = s.disk
  | [], _, _ => rfl
  | o :: os, s, h => by
    simp only [runS]
    rw [runS_disk g os _ (fun x hx => h x (List.mem_cons_of_mem _ hx)), dsStep_disk g s o (h o List.mem_cons_self)]

/-! ### data of the non-vacuity examples of `Props/C07Sess.lean` -/

def gS : Geom := ⟨[2], [2], [true, false]⟩
def hSafe : List (SOp Nat) :=
  [.op (.dump [.int 1] [3, 4]), .persist, .op (.dump [.int 5] [0, 0]), .op (.dump [.slice (some 1) (some 1) none] [9, 9]),
   .reopen, .op (.get [.int 1, .int 1]), .op .persistReopen, .op (.dump [.int 0] [5, 6]), .op .persistReopen, .reopen, .op .maskLinear]

end PF.St
