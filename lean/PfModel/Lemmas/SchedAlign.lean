/-
C03 (proof round 7): the execution-order call log of a generation, entry by entry: the i-th logged call is the call of the i-th
body that ran, with the arguments that body selects from the store of the EARLIER generations alone.
Core Lean only.
-/
import PfModel.Lemmas.SchedCount
namespace PF.SchedA
open PF PF.Map PF.Sched PF.SchedC

theorem idsFrom_length : ∀ (pg : List (MFunc × Plan)) (j0 : Nat), (idsFrom j0 pg).length = (pg.map fun fp => nFut fp.2).sum := by
  intro pg
  induction pg with
  | nil => intro j0; simp [idsFrom]
  | cons fp rest ih => intro j0; simp [idsFrom, ih (j0 + 1)]

theorem processGen_calls_length (dumpSub : String → Bool) (st : GState) :
    ∀ (pg : List (MFunc × Plan)) (j0 : Nat) (rs : List FuncResult), processGen dumpSub st j0 pg = .ok rs →
      (rs.flatMap (·.calls)).length = (pg.map fun fp => nFut fp.2).sum := by
  intro pg
  induction pg with
  | nil =>
    intro j0 rs h
    simp only [processGen, pure, Except.pure, Except.ok.injEq] at h
    subst h; simp
  | cons fp rest ih =>
    intro j0 rs h
    simp only [processGen, bind, Except.bind] at h
    split at h
    · cases h
    · next r hr =>
      split at h
      · cases h
      · next rs' hrs =>
        simp only [pure, Except.pure, Except.ok.injEq] at h
        subst h
        simp [(processFunc_calls_shape dumpSub st j0 fp.1 fp.2 r hr).1, ih (j0 + 1) rs' hrs]

theorem filterMap_all_some {α β} (g : α → Option β) : ∀ (l : List α), (l.filterMap g).length = l.length → ∀ x ∈ l, (g x).isSome := by
  intro l
  induction l with
  | nil => intro _ x hx; cases hx
  | cons a rest ih =>
    intro h x hx
    have hle := List.length_filterMap_le g rest
    cases ha : g a with
    | none =>
      simp only [List.filterMap_cons, ha, List.length_cons] at h
      omega
    | some b =>
      simp only [List.filterMap_cons, ha, List.length_cons, Nat.add_right_cancel_iff] at h
      rcases List.mem_cons.mp hx with rfl | hx'
      · simp [ha]
      · exact ih h x hx'

theorem filterMap_getElem?_of_all_some {α β} (g : α → Option β) : ∀ (l : List α), (∀ x ∈ l, (g x).isSome) →
    ∀ (i : Nat) (x : α), l[i]? = some x → (l.filterMap g)[i]? = g x := by
  intro l
  induction l with
  | nil => intro _ i x h; simp at h
  | cons a rest ih =>
    intro hall i x h
    obtain ⟨b, hb⟩ := Option.isSome_iff_exists.mp (hall a List.mem_cons_self)
    simp only [List.filterMap_cons, hb]
    cases i with
    | zero =>
      simp only [List.getElem?_cons_zero, Option.some.injEq] at h
      subst h; simp [hb]
    | succ i =>
      simp only [List.getElem?_cons_succ] at h ⊢
      exact ih (fun y hy => hall y (List.mem_cons_of_mem _ hy)) i x h

/-- in a successful generation every body that ran resolved, and the call log lists the calls of the bodies in the order they ran -/
theorem runGenSched_calls_aligned (fs : List MFunc) (shapes : List (String × List Nat)) (masks : List (String × List Bool))
    (dumpSub : String → Bool) (env : Env) (gen : List MFunc) (order : List TaskId)
    (hperm : order.Perm (idsFrom 0 (planned shapes masks gen))) (hind : GenIndep gen)
    (rs : List FuncResult) (tr : GenTrace) (h : runGenSched fs shapes masks dumpSub env gen order = .ok (rs, tr)) :
    tr.ran = order ∧ tr.calls.length = order.length ∧
    ∀ (i : Nat) (id : TaskId), order[i]? = some id → tr.calls[i]? = callOf fs env (planned shapes masks gen) id ∧
      (callOf fs env (planned shapes masks gen) id).isSome := by
  obtain ⟨_, hran, _, hc⟩ := runGenSched_trace fs shapes masks dumpSub env gen order hperm hind rs tr h
  have hpg : ∀ (j : Nat) (fp : MFunc × Plan), (planned shapes masks gen)[j]? = some fp → fp.1 ∈ gen := by
    intro j fp h
    simp only [planned, List.getElem?_map, Option.map_eq_some_iff] at h
    obtain ⟨f, hf, rfl⟩ := h
    exact List.mem_of_getElem? hf
  have hval : ∀ id ∈ order, validId (planned shapes masks gen) id := fun id h =>
    (mem_ids_iff_valid _ id).mp (hperm.mem_iff.mp h)
  have hmem : ∀ id, validId (planned shapes masks gen) id → id ∈ order := fun id h =>
    hperm.mem_iff.mpr ((mem_ids_iff_valid _ id).mpr h)
  have hcl := runBodies_closed fs shapes masks dumpSub env gen (planned shapes masks gen) hpg hind order {} hval
  rw [callsOf_graph] at hc
  have hlen : (order.filterMap (callOf fs env (planned shapes masks gen))).length = order.length := by
    unfold runGenSched at h
    simp only [bind, Except.bind] at h
    split at h
    · cases h
    · next rs0 hrs =>
      have h1 := processGen_calls dumpSub fs env (planned shapes masks gen) order
        (runBodies fs shapes masks dumpSub env gen (planned shapes masks gen) order {}) (by rw [hcl]; simp) hmem
        (planned shapes masks gen) 0 rs0 (by intro i; simp) (by simpa [planned] using hrs)
      have h2 := processGen_calls_length dumpSub _ (planned shapes masks gen) 0 rs0 (by simpa [planned] using hrs)
      rw [(hperm.filterMap _).length_eq, h1, h2, ← idsFrom_length _ 0, hperm.length_eq]
  have hall := filterMap_all_some _ order hlen
  refine ⟨hran, by rw [hc, hlen], ?_⟩
  intro i id hi
  exact ⟨by rw [hc]; exact filterMap_getElem?_of_all_some _ order hall i id hi, hall id (List.mem_of_getElem? hi)⟩

/-! ### the store a generation's bodies read: inputs + exactly the outputs of the earlier generations -/

theorem processFunc_slot_keys (dumpSub : String → Bool) (st : GState) (j : Nat) (f : MFunc) (plan : Plan) (r : FuncResult)
    (h : processFunc dumpSub st j f plan = .ok r) : r.slots.map (·.1) = f.outputs := by
  cases plan with
  | bad e => simp [processFunc] at h
  | single =>
    simp only [processFunc, bind, Except.bind] at h
    split at h
    · cases h
    · simp only [pure, Except.pure, Except.ok.injEq] at h
      subst h
      simp [Function.comp_def]
  | mapped ms sh mk =>
    simp only [processFunc, bind, Except.bind] at h
    split at h
    · cases h
    · simp only [pure, Except.pure, Except.ok.injEq] at h
      subst h
      simp [Function.comp_def]

theorem processGen_slot_keys (dumpSub : String → Bool) (st : GState) :
    ∀ (pg : List (MFunc × Plan)) (j0 : Nat) (rs : List FuncResult), processGen dumpSub st j0 pg = .ok rs →
      (rs.flatMap (·.slots)).map (·.1) = pg.flatMap (·.1.outputs) := by
  intro pg
  induction pg with
  | nil =>
    intro j0 rs h
    simp only [processGen, pure, Except.pure, Except.ok.injEq] at h
    subst h; simp
  | cons fp rest ih =>
    intro j0 rs h
    simp only [processGen, bind, Except.bind] at h
    split at h
    · cases h
    · next r hr =>
      split at h
      · cases h
      · next rs' hrs =>
        simp only [pure, Except.pure, Except.ok.injEq] at h
        subst h
        simp only [List.flatMap_cons, List.map_append, processFunc_slot_keys dumpSub st j0 fp.1 fp.2 r hr, ih (j0 + 1) rs' hrs]

theorem runGenSched_slot_keys (fs : List MFunc) (shapes : List (String × List Nat)) (masks : List (String × List Bool))
    (dumpSub : String → Bool) (env : Env) (gen : List MFunc) (order : List TaskId) (rs : List FuncResult) (tr : GenTrace)
    (h : runGenSched fs shapes masks dumpSub env gen order = .ok (rs, tr)) :
    (rs.flatMap (·.slots)).map (·.1) = gen.flatMap (·.outputs) := by
  unfold runGenSched at h
  simp only [bind, Except.bind] at h
  split at h
  · cases h
  · next rs0 hrs =>
    simp only [pure, Except.pure, Except.ok.injEq, Prod.mk.injEq] at h
    obtain ⟨rfl, _⟩ := h
    rw [processGen_slot_keys dumpSub _ _ 0 rs0 hrs, List.flatMap_map]

/-- the i-th trace of a successful run is the trace of the i-th generation run on a store that holds, besides what was there,
    exactly the outputs of the generations before it -/
theorem runGensSched_gen_at (fs : List MFunc) (shapes : List (String × List Nat)) (masks : List (String × List Bool))
    (dumpSub : String → Bool) (sched : Scheds) :
    ∀ (gens : List (List MFunc)) (g : Nat) (env : Env) (r : List FuncResult × Env × List GenTrace),
      runGensSched fs shapes masks dumpSub sched g gens env = .ok r →
      ∀ (i : Nat) (gen : List MFunc) (tr : GenTrace), gens[i]? = some gen → r.2.2[i]? = some tr →
        ∃ env' rs', env'.inputs = env.inputs ∧
          env'.store.map (·.1) = env.store.map (·.1) ++ (gens.take i).flatten.flatMap (·.outputs) ∧
          runGenSched fs shapes masks dumpSub env' gen (sched (g + i) (idsFrom 0 (planned shapes masks gen))) = .ok (rs', tr) := by
  intro gens
  induction gens with
  | nil => intro g env r _ i gen tr h; simp at h
  | cons gen0 rest ih =>
    intro g env r h i gen tr hg htr
    simp only [runGensSched, bind, Except.bind] at h
    split at h
    · cases h
    · next v hv =>
      obtain ⟨rs, tr0⟩ := v
      simp only at h
      split at h
      · cases h
      · next w hw =>
        obtain ⟨more, envF, trs⟩ := w
        simp only [pure, Except.pure, Except.ok.injEq] at h
        subst h
        cases i with
        | zero =>
          simp only [List.getElem?_cons_zero, Option.some.injEq] at hg htr
          subst hg; subst htr
          exact ⟨env, rs, rfl, by simp, by simpa [planned] using hv⟩
        | succ i =>
          simp only [List.getElem?_cons_succ] at hg htr
          obtain ⟨env', rs', h1, h2, h3⟩ := ih (g + 1) _ _ hw i gen tr hg htr
          refine ⟨env', rs', h1, ?_, ?_⟩
          · rw [h2]
            simp only [List.map_append, List.take_succ_cons, List.flatten_cons, List.flatMap_append, List.append_assoc,
              runGenSched_slot_keys fs shapes masks dumpSub env gen0 _ rs tr0 hv]
          · have e : g + 1 + i = g + (i + 1) := by omega
            rw [e] at h3; exact h3

end PF.SchedA
