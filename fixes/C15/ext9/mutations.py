"""Round 9 hand mutations of pipefunc/cache.py (scratch worktree of /repo; nothing is committed).
usage: /venv/bin/python fixes/C15/ext9/mutations.py [M1 M2 ...]   (run from the verif copy; prints the check's verdict lines per mutation)"""
import os
import subprocess
import sys

HERE = os.path.dirname(os.path.abspath(__file__))
VERIF = os.path.abspath(os.path.join(HERE, "..", "..", ".."))
WT = "/tmp/vb/C15r9-mut"
MUT = {
    # a dict subclass tagged with `dict` (the dict analogue of the seeded C15-s4-A)
    "M1": ("        return (m, tp, _hashable_mapping(obj, fallback_to_pickle, sort=True))\n    if isinstance(obj, set | frozenset):",
           "        return (m, dict, _hashable_mapping(obj, fallback_to_pickle, sort=True))\n    if isinstance(obj, set | frozenset):"),
    # a set subclass tagged with `set`
    "M2": ("        return (m, tp, _hashable_iterable(obj, fallback_to_pickle, sort=True))",
           "        return (m, set if isinstance(obj, set) else tp, _hashable_iterable(obj, fallback_to_pickle, sort=True))"),
    # the marker escape only for exact tuples: a marker-headed instance of a tuple subclass is returned as it is
    "M3": ("if not (isinstance(obj, tuple) and obj and isinstance(obj[0], str) and obj[0] == m):",
           "if not (type(obj) is tuple and obj and isinstance(obj[0], str) and obj[0] == m):"),
    # ndarray data through repr: 0.0 and -0.0 are told apart (equal arrays, different keys)
    "M4": ("return (m, tp, (obj.shape, obj.dtype.str, tuple(obj.flatten())))",
           "return (m, tp, (obj.shape, obj.dtype.str, tuple(repr(x) for x in obj.flatten())))"),
    # mappings sorted by str(key): mixed keys no longer raise (a key where the model says `not comparable`), 10 sorts before 2
    "M5": ("    items = sorted(mapping.items()) if sort else mapping.items()",
           "    items = sorted(mapping.items(), key=lambda kv: str(kv[0])) if sort else mapping.items()"),
    # a namedtuple keyed by its field dict only when unhashable ... with the class dropped
    "M6": ("    if isinstance(obj, list | tuple):\n        return (m, tp, _hashable_iterable(obj, fallback_to_pickle))",
           "    if isinstance(obj, list | tuple):\n        return (m, tuple if hasattr(obj, '_fields') else tp, _hashable_iterable(obj, fallback_to_pickle))"),
}


def main():
    names = sys.argv[1:] or sorted(MUT)
    for n in names:
        subprocess.run(["git", "-C", "/repo", "worktree", "add", "-q", "--detach", WT, "HEAD"], check=True)
        try:
            p = os.path.join(WT, "pipefunc", "cache.py")
            src = open(p).read()
            old, new = MUT[n]
            assert src.count(old) == 1, (n, src.count(old))
            open(p, "w").write(src.replace(old, new))
            for seed in ("0", "1"):
                r = subprocess.run(["./check", "C15", "--tier", "quick"], cwd=VERIF, env=dict(os.environ, VERIF_REPO=WT, VERIF_SEED=seed),
                                   capture_output=True, text=True)
                lines = [l[:230] for l in r.stdout.splitlines() if l.startswith(("VIOLATION", "[C15]"))]
                print(n, "seed", seed, "exit", r.returncode)
                for l in lines[:4] + lines[-1:]:
                    print("   ", l)
        finally:
            subprocess.run(["git", "-C", "/repo", "worktree", "remove", "--force", WT], check=False)


if __name__ == "__main__":
    main()
