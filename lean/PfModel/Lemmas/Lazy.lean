import PfModel.Model.Lazy
import PfModel.Lemmas.Pipeline
/-! Helper lemmas for `Props/C18.lean`, part 1: the denotation of a node table is stable under the creation of nodes. -/
namespace PF.Lazy
open PF PF.Pipe

theorem denAcc_append (ns ms : List Node) : ∀ acc, denAcc (ns ++ ms) acc = denAcc ms (denAcc ns acc) := by
  induction ns with
  | nil => intro acc; rfl
  | cons n ns ih => intro acc; simp only [List.cons_append, denAcc]; exact ih _

theorem denAcc_prefix (ns : List Node) : ∀ acc, ∃ ext, denAcc ns acc = acc ++ ext ∧ ext.length = ns.length := by
  induction ns with
  | nil => intro acc; exact ⟨[], by simp [denAcc]⟩
  | cons n ns ih =>
    intro acc
    obtain ⟨ext, h, hl⟩ := ih (acc ++ [nodeVal acc n])
    exact ⟨nodeVal acc n :: ext, by simp only [denAcc, h, List.append_assoc, List.singleton_append], by simp [hl]⟩

theorem denAll_length (ns : List Node) : (denAll ns).length = ns.length := by
  obtain ⟨ext, h, hl⟩ := denAcc_prefix ns []
  unfold denAll; rw [h]; simpa using hl

theorem denAll_append (ns ms : List Node) : ∃ ext, denAll (ns ++ ms) = denAll ns ++ ext := by
  unfold denAll
  rw [denAcc_append]
  obtain ⟨ext, h, _⟩ := denAcc_prefix ms (denAcc ns [])
  exact ⟨ext, h⟩

theorem denAll_snoc (ns : List Node) (nd : Node) : denAll (ns ++ [nd]) = denAll ns ++ [nodeVal (denAll ns) nd] := by
  unfold denAll; rw [denAcc_append]; rfl

theorem denArg_some_lt {vals : List (Option Val)} {i : Nat} {v : Val} (h : denArg vals (.ref i) = some v) : i < vals.length := by
  simp only [denArg] at h
  by_cases hi : i < vals.length
  · exact hi
  · rw [List.getElem?_eq_none (Nat.le_of_not_lt hi)] at h; simp at h

theorem denArg_ext {vals : List (Option Val)} (ext : List (Option Val)) {a : LArg} {v : Val} (h : denArg vals a = some v) :
    denArg (vals ++ ext) a = some v := by
  cases a with
  | val w => simpa [denArg] using h
  | ref i =>
    have hi := denArg_some_lt h
    simp only [denArg] at h ⊢
    rw [List.getElem?_append_left hi]; exact h

theorem denArgs_ext {vals : List (Option Val)} (ext : List (Option Val)) :
    ∀ {args : List (String × LArg)} {vs}, denArgs vals args = some vs → denArgs (vals ++ ext) args = some vs := by
  intro args
  induction args with
  | nil => intro vs h; simpa [denArgs] using h
  | cons e r ih =>
    obtain ⟨k, a⟩ := e
    intro vs h
    simp only [denArgs] at h ⊢
    split at h
    · next v ws hv hws => rw [denArg_ext ext hv, ih hws]; exact h
    · simp at h

/-- a value once denoted stays denoted when nodes are added -/
theorem den_ext {ns : List Node} (ms : List Node) {a : LArg} {v : Val} (h : den ns a = some v) : den (ns ++ ms) a = some v := by
  obtain ⟨ext, he⟩ := denAll_append ns ms
  unfold den at h ⊢; rw [he]; exact denArg_ext ext h

theorem den_some_lt {ns : List Node} {i : Nat} {v : Val} (h : den ns (.ref i) = some v) : i < ns.length := by
  have := denArg_some_lt h; rwa [denAll_length] at this

/-- the node just created denotes what its arguments denote -/
theorem den_new (ns : List Node) (nd : Node) : den (ns ++ [nd]) (.ref ns.length) = nodeVal (denAll ns) nd := by
  unfold den; rw [denAll_snoc]; simp only [denArg]
  rw [List.getElem?_append_right (by rw [denAll_length]; exact Nat.le_refl _)]
  simp [denAll_length]

theorem denArgs_refs_lt {vals : List (Option Val)} : ∀ {args : List (String × LArg)} {vs}, denArgs vals args = some vs →
    ∀ j ∈ argRefs args, j < vals.length := by
  intro args
  induction args with
  | nil => intro vs _ j hj; simp [argRefs] at hj
  | cons e r ih =>
    obtain ⟨k, a⟩ := e
    intro vs h j hj
    simp only [denArgs] at h
    split at h
    · next v ws hv hws =>
      cases a with
      | val w => simp only [argRefs] at hj; exact ih hws j hj
      | ref i =>
        simp only [argRefs, List.mem_cons] at hj
        rcases hj with rfl | hj
        · exact denArg_some_lt hv
        · exact ih hws j hj
    · simp at h

/-! ### the default output picker on the tuple a multi-output function returns -/

theorem alookup_zip_map (g : String → Val) (o : String) : ∀ os : List String,
    alookup (os.zip (os.map g)) o = alookup (os.map fun x => (x, g x)) o := by
  intro os
  induction os with
  | nil => rfl
  | cons x xs ih => simp only [List.map, List.zip_cons_cons, alookup]; split <;> simp_all

theorem alookup_map_mem (g : String → Val) (o : String) : ∀ os : List String, o ∈ os →
    alookup (os.map fun x => (x, g x)) o = some (g o) := by
  intro os
  induction os with
  | nil => intro h; cases h
  | cons x xs ih =>
    intro h
    simp only [List.map, alookup]
    split
    · next e => rw [e]
    · next ne =>
      rcases List.mem_cons.mp h with rfl | h
      · exact absurd rfl ne
      · exact ih h

/-- picking output `o` from what the function returned is the eager model's `outVals` entry -/
theorem pickVal_result (f : Func) (vals : List (String × Val)) (o : String) (hne : ∀ x, f.outputs ≠ [x]) :
    pickVal f.outputs o (result f vals) = alookup (outVals f vals) o := by
  unfold result outVals
  split
  · next x hx => exact absurd hx (hne x)
  · simp only [pickVal]; exact alookup_zip_map _ o f.outputs

theorem outVals_some_of_mem (f : Func) (vals : List (String × Val)) (o : String) (ho : o ∈ f.outputs) :
    ∃ w, alookup (outVals f vals) o = some w := by
  unfold outVals
  split
  · next x hx => rw [hx] at ho; simp at ho; subst ho; exact ⟨Val.app f.name vals, by simp [alookup]⟩
  · exact ⟨_, alookup_map_mem (fun x => Val.pick (.app f.name vals) x) o f.outputs ho⟩

end PF.Lazy
