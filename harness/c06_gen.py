"""C06: generator operators on top of `mapgen.gen_case` (the shared generator is not edited).

`add_whole_consumers` — the operator "a function takes a whole array through a parameter its MapSpec does not name".  In
`mapgen.gen_case` an array reaches a function either through the function's MapSpec (element-wise, or with `:` on some axis) or, when
the function has no MapSpec, whole; a MAPPED function (`w[k] -> z[k]`) that additionally takes a whole array `y` (`g(y, w)`) comes out
of it in about 1 of 1000 pipelines.  That is the third way `_reduced_axes` (`pipefunc/map/_prepare.py`) finds a reduction
(`_is_parameter_reduced_by_function`: `name in func.parameters and (func.mapspec is None or name not in func.mapspec.input_names)`),
and the one the seeded change C06-s3-B dropped.  The operator adds such parameters to functions of a generated pipeline:

  target function   any function; mapped ones (MapSpec with inputs) preferred, generators (`... -> y[j]`) and plain functions too
  array taken whole an output of an EARLIER function that some MapSpec names (element-wise outputs, outputs with an internal axis,
                    generator outputs, one name of a tuple output), or a root input array (mapped over by another function or not)
  parameter         under its own name or renamed (`renames=`), placed before the defaulted parameters

The description stays well-formed: the new edge goes from an earlier function (or a root) to a later one, no MapSpec changes, the
inputs of the map are unchanged (a root array is only taken where it already is an input).  Every named axis of an array taken
whole becomes a reduced axis: requests fixing it must be refused, all other axes keep their partitions.
"""
from __future__ import annotations


def array_axes(desc):
    """array name -> its named axes, from the MapSpecs that name it (outputs first: every axis of an output is named)"""
    out: dict = {}
    for f in desc["funcs"]:
        if f["mapspec"]:
            for a in f["mapspec"]["outputs"]:
                out[a[0]] = [x for x in a[1] if x is not None]
    for f in desc["funcs"]:
        if f["mapspec"]:
            for a in f["mapspec"]["inputs"]:
                cur = out.setdefault(a[0], [])
                for x in a[1]:
                    if x is not None and x not in cur:
                        cur.append(x)
    return out


def whole_consumers(desc):
    """[(function name, array, kind of the function)]: parameters through which a function takes an array some MapSpec names as a
    whole (not named in the function's own MapSpec); kind = "mapped" | "generator" | "plain" """
    arrays = array_axes(desc)
    out = []
    for f in desc["funcs"]:
        ms = f["mapspec"] if (f["mapspec"] and (f["mapspec_str"] or f["autogen"])) else None
        listed = {a[0] for a in ms["inputs"]} if ms else set()
        bound = {b[0] for b in f["bound"]}
        for p, _ in f["params"]:
            if p in arrays and p not in listed and p not in bound:
                out.append((f["name"], p, "plain" if ms is None else "mapped" if ms["inputs"] else "generator"))
    return out


def add_whole_consumers(rng, desc, n=None):
    """Add 1-2 (or `n`) whole-array parameters in place; returns [(function, array, kind)] of what was added (possibly empty: a
    pipeline of one function over scalars has nothing to take)."""
    funcs = desc["funcs"]
    arrays = array_axes(desc)
    root_arrays = [name for name, v in desc["inputs"] if isinstance(v, dict) and "arr" in v]
    cands = []
    for j, f in enumerate(funcs):
        have = {p for p, _ in f["params"]}
        ms = f["mapspec"] if (f["mapspec"] and (f["mapspec_str"] or f["autogen"])) else None
        kind = "plain" if ms is None else "mapped" if ms["inputs"] else "generator"
        if f["autogen"]:
            continue             # its MapSpec is derived from its consumers; leave the producer alone
        weight = {"mapped": 6, "generator": 2, "plain": 1}[kind]
        pool = [o for g in funcs[:j] for o in g["outputs"] if o in arrays] + root_arrays
        for arr in dict.fromkeys(pool):
            if arr not in have:
                cands += [(j, arr, kind)] * weight
    added = []
    for _ in range(n if n is not None else rng.choice([1, 1, 2])):
        cands = [c for c in cands if not any(c[0] == a[0] and c[1] == a[1] for a in added)]
        if not cands:
            break
        j, arr, kind = rng.choice(cands)
        f = funcs[j]
        origs = {o for _, o in f["params"]}
        orig = arr
        if rng.random() < 0.2 or orig in origs:
            q = 0
            while f"w{q}" in origs or f"w{q}" in {p for p, _ in f["params"]}:
                q += 1
            orig = f"w{q}"
        dn = {d[0] for d in f["defaults"]}
        first_default = next((q for q, pr in enumerate(f["params"]) if pr[0] in dn), len(f["params"]))
        f["params"].insert(rng.randint(0, first_default), [arr, orig])
        added.append((j, arr, kind))
    return [(funcs[j]["name"], arr, kind) for j, arr, kind in added]


def axes_by_pos(desc):
    """array name -> axis name per position (None when only ever `:`), as `Pipeline.mapspec_axes` builds it"""
    out: dict = {}
    for f in desc["funcs"]:
        if f["mapspec"]:
            for a in f["mapspec"]["inputs"] + f["mapspec"]["outputs"]:
                cur = out.setdefault(a[0], [None] * len(a[1]))
                for q, x in enumerate(a[1]):
                    if q < len(cur) and cur[q] is None:
                        cur[q] = x
    return out


def reduction_reasons(desc):
    """axis -> the ways `_reduced_axes` finds it reduced: "whole array taken by a function without MapSpec", "whole array taken by a
    MAPPED function (parameter not in its MapSpec)", "whole array taken by a generator", "`:` in a MapSpec" (Python reference, used
    for the coverage counters only: the verdicts come from the model)"""
    pos = axes_by_pos(desc)
    out: dict = {}
    label = {"plain": "whole array taken by a function without MapSpec",
             "mapped": "whole array taken by a MAPPED function (parameter not in its MapSpec)",
             "generator": "whole array taken by a generator (parameter not in its MapSpec)"}
    for _, arr, kind in whole_consumers(desc):
        for x in pos.get(arr, []):
            if x is not None:
                out.setdefault(x, set()).add(label[kind])
    for f in desc["funcs"]:
        if f["mapspec"] and (f["mapspec_str"] or f["autogen"]):
            for a in f["mapspec"]["inputs"]:
                for q, x in enumerate(a[1]):
                    if x is None and q < len(pos.get(a[0], [])) and pos[a[0]][q] is not None:
                        out.setdefault(pos[a[0]][q], set()).add("`:` in a MapSpec")
    return out


def gen_whole_case(rng, mapgen, max_size=3, tries=6):
    """A generated pipeline of >= 2 functions in which (whenever the draw allows it within `tries`) a MAPPED function takes a whole
    array; returns (desc, [(function, array, kind)])"""
    best = None
    for _ in range(tries):
        desc = mapgen.gen_case(rng, max_size=max_size, max_funcs=rng.choice([2, 3, 3, 4]),
                               kinds=rng.choice([None, ["elem", "elem", "outer", "internal", "partial", "gen", "full"]]))
        added = add_whole_consumers(rng, desc)
        if any(k == "mapped" for _, _, k in added):
            return desc, added
        if best is None or (added and not best[1]):
            best = (desc, added)
    return best


def slice_leaf_more(rng, desc):
    """The operator "one more `:`": in a LEAF function (nobody consumes its outputs, so its output axes may change) that is mapped
    over >= 2 axes, one more named position of one input spec becomes `:` — giving specs with two `:` (`y[:, j, :]`), `:` in
    front / in the middle / at the end, `:` next to an element-wise use of the same axis through another input — which
    `mapgen.gen_case` (exactly one `:` per spec, only for kind "partial") never draws.  The output specs lose the axis when no other
    input still carries it (internal axes stay).  Returns (function, array, position) or None."""
    consumed = {p for f in desc["funcs"] for p, _ in f["params"]}
    autogen_out = {o for f in desc["funcs"] if f["autogen"] for o in f["outputs"]}
    cands = []
    for f in desc["funcs"]:
        ms = f["mapspec"]
        if not ms or not ms["inputs"] or not f["mapspec_str"] or f["autogen"] or any(o in consumed for o in f["outputs"]):
            continue
        named = [x for a in ms["inputs"] for x in a[1] if x is not None]
        if len(set(named)) < 2:
            continue
        for a in ms["inputs"]:
            if a[0] in autogen_out:
                continue         # the producer's MapSpec is derived from this spec (axis names, and whether it has one at all)
            for q, x in enumerate(a[1]):
                if x is not None:
                    # prefer specs that already have a `:` (two in one spec) and arrays of rank >= 2
                    cands += [(f, a, q)] * (4 if None in a[1] else 2 if len(a[1]) >= 2 else 1)
    if not cands:
        return None
    f, a, q = rng.choice(cands)
    ms = f["mapspec"]
    before = {x for b in ms["inputs"] for x in b[1] if x is not None}
    x = a[1][q]
    a[1][q] = None
    after = {y for b in ms["inputs"] for y in b[1] if y is not None}
    if x not in after:
        for o in ms["outputs"]:
            o[1] = [y for y in o[1] if not (y == x and x in before)]
    if all(y is None for y in a[1]) and rng.random() < 0.5:
        ms["inputs"].remove(a)          # `y[:]` may also be written by not naming `y` at all
    import mapgen
    f["mapspec_str"] = mapgen.spec_str(ms)
    return f["name"], a[0], q


def autogen_unnamed(desc):
    """[(array, position)]: positions of an autogenerated MapSpec's output that NO consumer names (`y0[:]`, `y0[:, j]` only):
    pipefunc invents the axis name (`unnamed_0`, `_pipeline/_mapspec.py: replace_none_in_axes`) while the description — and with
    it the model request — carries the name `mapgen` drew; requests on that name mean different things on the two sides."""
    out = []
    for f in desc["funcs"]:
        if not f["autogen"] or not f["mapspec"]:
            continue
        rank = len(f["mapspec"]["outputs"][0][1])
        for q in range(rank):
            named = any(a[0] in f["outputs"] and q < len(a[1]) and a[1][q] is not None
                        for g in desc["funcs"] if g["mapspec"] and g["mapspec_str"] for a in g["mapspec"]["inputs"])
            if not named:
                out.append((f["outputs"][0], q))
    return out


def gen_colon_case(rng, mapgen, max_size=3, kinds=None, tries=8):
    """a generated pipeline on which `slice_leaf_more` applies (whenever a draw within `tries` allows it); (desc, hit | None)"""
    desc = None
    for _ in range(tries):
        desc = mapgen.gen_case(rng, max_size=max_size, max_funcs=rng.choice([1, 2, 3, 3, 4]),
                               kinds=kinds or rng.choice([None, ["elem", "outer", "outer", "partial", "partial", "internal", "gen"]]))
        hit = slice_leaf_more(rng, desc)
        if hit:
            return desc, hit
    return desc, None
