/-
Model of what happens to the validations of C12 when a pipeline is edited IN PLACE after construction, and of the part of the
executor argument that `prepare_run` validates (round 3).

* `lazySteps`: what the cached properties re-validate when they are recomputed at the start of `map` / `run` / `__call__`
  (`Pipeline.graph`: `validate_unique_output_names_of`, `validate_consistent_defaults`, `pipefunc/_pipeline/_base.py:383-395`;
  `Pipeline.topological_generations`: `nx.topological_generations` → `NetworkXUnfeasible`, `_base.py:1180-1222`).  `PipeFunc.update_*`
  on a member function validates the FUNCTION only (`PipeFunc._validate`) and clears the caches of its pipelines
  (`PipeFunc._clear_internal_cache`, `pipefunc/_pipefunc.py:521-524`): the pipeline-level checks are these lazy ones.
* `Edit` / `applyEdit`: `PipeFunc.update_defaults / update_bound / update_renames` on a member (`_pipefunc.py:338-428, 501-519`) and
  `Pipeline.update_defaults / update_renames` (`_base.py:933-1004`, which end with `Pipeline._validate`).
* `checkExecutorDict`: `_validate_executor_names` (`pipefunc/map/_prepare.py`, added by the round-3 fix).
* `startMap2`: `prepare_run` with these checks at their place in the code's order, followed by `startSteps` of `Model/Validate.lean`.
Core Lean only.
-/
import PfModel.Model.Validate
namespace PF.Validate
open PF PF.Map

/-! ### what the cached properties re-validate -/

/-- `validate_unique_output_names_of`: no output name of a function is an output name of a function listed after it -/
def uniqueOutputs : List MFunc → Bool
  | [] => true
  | f :: rest => !(f.outputs.any fun o => (allOutputs rest).contains o) && uniqueOutputs rest

def boolStep (name : String) (ok : Bool) (exc : Exc) : Step := .check name (if ok then .ok () else .error ⟨exc, name⟩)

/-- the checks made when `Pipeline.graph` and `Pipeline.topological_generations` are recomputed -/
def lazySteps (gs : List MFunc) : List Step :=
  [ boolStep "duplicate-output" (uniqueOutputs gs) .value,
    boolStep "inconsistent-defaults" (defaultsConsistent gs) .value,
    boolStep "cycle" (acyclic gs) .unfeasible ]

/-! ### the executor argument -/

/-- the `executor=` argument of `map`: absent, one executor, or a dictionary (its keys; a tuple-valued key joined with `,`) -/
inductive ExecArg
  | absent
  | bare
  | dict (keys : List String)
  deriving Repr, DecidableEq, Inhabited

/-- the keys of `pipeline.output_to_func`: every output name, and every element of a tuple-valued one -/
def execKeyNames (fs : List MFunc) : List String := fs.flatMap fun f => outputKey f :: f.outputs

/-- `_validate_executor_names`: every key is `""` or an output name; without a `""` default every function has its own entry -/
def checkExecutorDict (fs : List MFunc) : ExecArg → V Unit
  | .dict keys =>
    if keys.any (fun k => k != "" && !(execKeyNames fs).contains k) then .error ⟨.value, "executor-key"⟩
    else if keys.contains "" then .ok ()
    else if fs.all (fun f => keys.contains (outputKey f)) then .ok ()
    else .error ⟨.value, "executor-dict"⟩
  | _ => .ok ()

/-- the head of `prepare_run` in the code's order: the executor/parallel test, `pipeline.subpipeline` (only with `output_names`;
    it reads `node_mapping`, i.e. recomputes `graph`), `_validate_executor_names`, and the recomputation of
    `topological_generations` at the start of `_validate_complete_inputs` -/
def gateSteps (fs : List MFunc) (r : Req) (ex : ExecArg) : List Step :=
  [Step.check "executor-without-parallel" (checkExecutor r)] ++
  (if r.outputNames.isSome then lazySteps fs ++ [Step.check "output-names" (checkOutputNames fs r)] else []) ++
  [Step.check "executor-dict" (checkExecutorDict fs ex)] ++ lazySteps fs

def startSteps2 (fs : List MFunc) (r : Req) (ex : ExecArg) : List Step := gateSteps fs r ex ++ startSteps fs r

/-- the start of `Pipeline.map` on a pipeline that may have been edited in place -/
def startMap2 (fs : List MFunc) (r : Req) (ex : ExecArg) : List Effect × V Unit := exec (startSteps2 fs r ex)

/-- the start of `Pipeline.run` / `__call__`: `self.func_dependencies(output_name)` recomputes `graph` and the generations before
    `_run` evaluates anything; `calls` is whatever the (lazy, C02) evaluation would then invoke -/
def startRun (fs : List MFunc) (calls : List String) : List Effect × V Unit :=
  exec (lazySteps fs ++ (calls.map Effect.call).map Step.eff)

/-! ### in-place edits -/

/-- a member `PipeFunc` with the private state the update methods consult -/
structure EFunc where
  f : MFunc
  renames : List (String × String)      -- `PipeFunc._renames`: original name ↦ current name (parameters and outputs)
  explicit : List String                -- keys of `PipeFunc._defaults` (defaults set by `update_defaults`, current names)
  deriving Repr

/-- a freshly constructed function (`mapgen.build`): the renames of its parameters, defaults in the signature only -/
def EFunc.ofMFunc (f : MFunc) : EFunc :=
  { f := f, renames := f.params.filterMap (fun p => if p.1 = p.2 then none else some (p.2, p.1)), explicit := [] }

def aset {β} (l : List (String × β)) (k : String) (v : β) : List (String × β) :=
  if (alookup l k).isSome then l.map (fun kv => if kv.1 = k then (k, v) else kv) else l ++ [(k, v)]

/-- `len(self._renames) != len(self._inverse_renames)`: two different original names renamed to the same name -/
def renamesClash : List (String × String) → Bool
  | [] => false
  | kv :: rest => rest.any (fun kw => kw.2 == kv.2 && kw.1 != kv.1) || renamesClash rest

/-- `PipeFunc._validate` after an update (`_validate_names`, then `_validate_mapspec`), in the code's order -/
def memberSteps (e : EFunc) : List Step :=
  [ boolStep "defaults-and-bound" (!(e.explicit.any fun p => (alookup e.f.bound p).isSome)) .value,
    boolStep "output-is-own-parameter" (!selfNamed e.f) .value,
    boolStep "renames-not-one-to-one" (!renamesClash e.renames) .value,
    boolStep "mapspec-input-not-a-parameter" (!mapspecInputNotParam e.f) .value,
    boolStep "mapspec-input-bound" (!mapspecInputBound e.f) .value,
    boolStep "mapspec-outputs-differ" (!mapspecOutputSetDiffers e.f) .value ]

def memberValidate (e : EFunc) : V Unit := (exec (memberSteps e)).2

/-- `_validate_update`: the keys of the update must be (current) names of the function -/
def unknownKey : VErr := ⟨.value, "update-unknown-name"⟩

/-- `PipeFunc.update_defaults({p: v})` -/
def memberDefaults (e : EFunc) (p : String) (v : Val) : V EFunc :=
  if !(paramNames e.f).contains p then .error unknownKey else
  let e' : EFunc := { e with f := { e.f with defaults := aset e.f.defaults p v },
                             explicit := if e.explicit.contains p then e.explicit else e.explicit ++ [p] }
  match memberValidate e' with
  | .error x => .error x
  | .ok _ => .ok e'

/-- `PipeFunc.update_bound({p: v})` (a bound parameter's signature default no longer counts: `pdefaults` skips bound names) -/
def memberBound (e : EFunc) (p : String) (v : Val) : V EFunc :=
  if !(paramNames e.f).contains p then .error unknownKey else
  let e' : EFunc := { e with f := { e.f with bound := aset e.f.bound p v } }
  match memberValidate e' with
  | .error x => .error x
  | .ok _ => .ok e'

def renameName (old new s : String) : String := if s = old then new else s

def renameSpecs (old new : String) (l : List ASpec) : List ASpec := l.map fun a => { a with name := renameName old new a.name }

/-- the function after `update_renames({old: new}, update_from="current")`: parameters, outputs, defaults, bound values and
    the MapSpec follow the rename -/
def renameMFunc (f : MFunc) (old new : String) : MFunc :=
  { f with params := f.params.map (fun p => (renameName old new p.1, p.2)),
           outputs := f.outputs.map (renameName old new),
           mapspec := f.mapspec.map (fun ms => { inputs := renameSpecs old new ms.inputs, outputs := renameSpecs old new ms.outputs }),
           defaults := f.defaults.map (fun kv => (renameName old new kv.1, kv.2)),
           bound := f.bound.map (fun kv => (renameName old new kv.1, kv.2)) }

/-- `self._inverse_renames.get(k, k)` -/
def originalName (renames : List (String × String)) (cur : String) : String :=
  match renames.find? (·.2 = cur) with
  | some kv => kv.1
  | none => cur

/-- `PipeFunc.update_renames({old: new})` -/
def memberRename (e : EFunc) (old new : String) : V EFunc :=
  if !(paramNames e.f ++ e.f.outputs).contains old then .error unknownKey else
  let e' : EFunc := { f := renameMFunc e.f old new, renames := aset e.renames (originalName e.renames old) new,
                      explicit := e.explicit.map (renameName old new) }
  match memberValidate e' with
  | .error x => .error x
  | .ok _ => .ok e'

inductive Edit
  | memberDefaults (fn p : String) (v : Val)      -- `pipeline[fn's output].update_defaults({p: v})`
  | memberBound (fn p : String) (v : Val)         -- `….update_bound({p: v})`
  | memberRename (fn old new : String)            -- `….update_renames({old: new})`
  | pipeDefaults (p : String) (v : Val)           -- `pipeline.update_defaults({p: v})`
  | pipeRename (old new : String)                 -- `pipeline.update_renames({old: new})`
  deriving Repr

/-- apply `g` to the member named `fn` (the first one; names are unique in generated pipelines) -/
def onMember (es : List EFunc) (fn : String) (g : EFunc → V EFunc) : V (List EFunc) :=
  match es with
  | [] => .error ⟨.key, "no-such-function"⟩
  | e :: rest =>
    if e.f.name = fn then (match g e with | .error x => .error x | .ok e' => .ok (e' :: rest))
    else match onMember rest fn g with
      | .error x => .error x
      | .ok rest' => .ok (e :: rest')

/-- apply `g` to every member that `sel` selects, in listing order, stopping at the first refusal -/
def onEach (es : List EFunc) (sel : EFunc → Bool) (g : EFunc → V EFunc) : V (List EFunc) :=
  match es with
  | [] => .ok []
  | e :: rest =>
    match (if sel e then g e else .ok e) with
    | .error x => .error x
    | .ok e' => match onEach rest sel g with
      | .error x => .error x
      | .ok rest' => .ok (e' :: rest')

/-- `Pipeline._validate` (with the round-3 fix: output names are re-checked) -/
def pipeValidate (gs : List MFunc) : V Unit :=
  if !uniqueOutputs gs then .error ⟨.value, "duplicate-output"⟩ else pipelineValidate gs

def funcsOf (es : List EFunc) : List MFunc := es.map (·.f)

/-- the end of `Pipeline.update_defaults / update_renames`: unused keys are refused, then `_validate` -/
def pipeFinish (used : Bool) (es : List EFunc) : V (List EFunc) :=
  if !used then .error ⟨.value, "update-unused"⟩ else
  match pipeValidate (funcsOf es) with
  | .error x => .error x
  | .ok _ => .ok es

def applyEdit (es : List EFunc) : Edit → V (List EFunc)
  | .memberDefaults fn p v => onMember es fn (fun e => memberDefaults e p v)
  | .memberBound fn p v => onMember es fn (fun e => memberBound e p v)
  | .memberRename fn old new => onMember es fn (fun e => memberRename e old new)
  | .pipeDefaults p v =>
    let sel := fun (e : EFunc) => (paramNames e.f).contains p && (alookup e.f.bound p).isNone
    match onEach es sel (fun e => memberDefaults e p v) with
    | .error x => .error x
    | .ok es' => pipeFinish (es.any sel) es'
  | .pipeRename old new =>
    let sel := fun (e : EFunc) => (paramNames e.f ++ e.f.outputs).contains old
    match onEach es sel (fun e => memberRename e old new) with
    | .error x => .error x
    | .ok es' => pipeFinish (es.any sel) es'

/-- the edits in order; the session ends at the first refused edit -/
def applyEdits (es : List EFunc) : List Edit → V (List EFunc)
  | [] => .ok es
  | ed :: rest => match applyEdit es ed with
    | .error x => .error x
    | .ok es' => applyEdits es' rest

/-- build a valid pipeline, edit it in place, then start `map` -/
def sessionMap (base : List MFunc) (edits : List Edit) (r : Req) (ex : ExecArg) : List Effect × V Unit :=
  match applyEdits (base.map EFunc.ofMFunc) edits with
  | .error x => ([], .error x)
  | .ok es => startMap2 (funcsOf es) r ex

/-- …or `run` / `__call__` -/
def sessionRun (base : List MFunc) (edits : List Edit) (calls : List String) : List Effect × V Unit :=
  match applyEdits (base.map EFunc.ofMFunc) edits with
  | .error x => ([], .error x)
  | .ok es => startRun (funcsOf es) calls

/-! ### the tie to the source (round 3): a call list makes the required calls before a barrier -/

/-- every name of `required` occurs in `calls` before the first occurrence of `barrier` (or anywhere when there is no barrier) -/
def requiredBefore (required : List String) (barrier : String) (calls : List String) : Bool :=
  required.all fun v => (calls.takeWhile (· != barrier)).contains v

end PF.Validate
