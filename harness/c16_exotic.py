"""C16 (extension): annotations OUTSIDE the modelled grammar, and spellings of modelled ones.

* Modelled spellings (go through `check_pairs` and the Lean model): `Optional[X]`, string / forward-reference annotations
  (`"int"`, `list["int"]`, `"list[int] | None"`), a raw `None`, TypeVars whose bound / constraints are depth-2 annotations over
  other generics.
* Not modelled (skipped-and-counted for the model; the implementation is still held to what the statement says of EVERY
  annotation): `Literal`, `Callable`, `type[...]`, numpy `NDArray[...]`, `collections.abc` generics, variadic tuples, bare typing
  aliases, user generics, `Annotated` with several metadata items.  For these: `is_type_compatible` must return a `bool` and never
  raise; it is reflexive; `Any` and a missing annotation are compatible with everything; a union target that contains the
  source itself accepts it and a union source needs all members accepted; and a 2-function pipeline whose edge carries the SAME
  annotation at both ends is never rejected (with eager, quoted and `from __future__ import annotations` hints).
"""
from __future__ import annotations

import collections.abc
import contextlib
import io
import typing
import warnings
from typing import Annotated, Any, Callable, Generic, Literal, Optional, TypeVar, Union

import numpy as np
import numpy.typing as npt

import pfimport  # noqa: F401
from pfimport import exc_enum
from pipefunc import PipeFunc, Pipeline
from pipefunc.typing import Array, NoAnnotation, is_type_compatible

B = None
_T = TypeVar("_T")


class UserG(Generic[_T]):
    """a user-defined generic class"""


# source text of the exotic annotations (evaluated in NS); the text is the replay
EXOTIC = [
    "Literal['a']", "Literal['a', 'b']", "Literal[1]", "Literal[1, 2]", "Literal['int']", "Literal[None]", "Literal[True]",
    "Callable[[int], str]", "Callable[[bool], str]", "Callable[..., str]", "Callable[[int, int], str]", "Callable", "collections.abc.Callable[[int], str]",
    "Optional[Callable]", "Optional[Callable[[int], str]]",
    "type[int]", "type[bool]", "type", "type[Any]", "typing.Type[int]", "type[UserA]", "type[UserB]",
    "None", "type(None)", "Optional[int]", "int | None",
    "npt.NDArray[np.float64]", "npt.NDArray[np.int64]", "npt.NDArray[Any]", "np.ndarray", "npt.NDArray[np.floating]", "npt.ArrayLike",
    "collections.abc.Sequence[int]", "typing.Sequence[int]", "collections.abc.Mapping[str, int]", "collections.abc.Iterable[int]", "typing.Sequence",
    "tuple[int, ...]", "tuple[bool, ...]", "tuple[()]", "tuple", "typing.Tuple", "typing.List", "typing.List[int]", "typing.Dict[str, int]", "list", "dict",
    "UserG[int]", "UserG[bool]", "UserG", "UserA", "UserB",
    "Annotated[int, 'a', 'b']", "Annotated[Array[int], 'm']", "Annotated[int, Literal['x']]", "Array[Literal['a']]", "list[Literal['a']]",
    "Union[Literal['a'], None]", "Union[Callable[[int], str], None]", "list[Callable[[int], str]]", "dict[str, type[int]]",
    "frozenset[int]", "complex", "object", "range", "float | int", "list[int] | dict[str, int]",
    "'int'", "'list[int]'", "list['int']", "'list[int] | None'",
]
ORDINARY = ["int", "bool", "str", "float", "Any", "NoAnnotation", "list[int]", "list[bool]", "tuple[int, str]", "dict[str, int]", "Union[int, str]",
            "Optional[str]", "Array[int]", "Annotated[int, Meta]", "set[int]", "bytes"]


def ns():
    return {"Literal": Literal, "Callable": Callable, "collections": collections, "Optional": Optional, "Union": Union, "Any": Any, "typing": typing,
            "np": np, "npt": npt, "UserG": UserG, "UserA": B.UserA, "UserB": B.UserB, "Annotated": Annotated, "Array": Array, "Meta": B.Meta,
            "NoAnnotation": NoAnnotation}


def call(a, b):
    try:
        with warnings.catch_warnings():
            warnings.simplefilter("ignore")
            r = is_type_compatible(a, b)
        return r if isinstance(r, bool) else f"non-bool:{r!r}"
    except Exception as e:  # noqa: BLE001
        return "EXC:" + exc_enum(e)


def check_exotic_pairs(ctx):
    env = ns()
    objs = {s: eval(s, env) for s in EXOTIC + ORDINARY}  # noqa: S307
    for sa in EXOTIC + ORDINARY:
        for sb in EXOTIC + ORDINARY:
            if sa in ORDINARY and sb in ORDINARY:
                continue
            a, b = objs[sa], objs[sb]
            case = {"kind": "exotic-pair", "a": sa, "b": sb}
            r = call(a, b)
            ctx.count("exotic:pair:" + (str(r) if isinstance(r, bool) else "not-a-bool"))
            ctx.count("exotic:not-modelled")
            ctx.record(case, sa != sb)
            if not isinstance(r, bool):
                ctx.violation(case, f"is_type_compatible({sa}, {sb}) did not return a bool: {r}", impl=r, key="exotic:crash:" + str(r)[:20])
                continue
            what = None
            if sa == sb and r is not True:
                what = "not reflexive"
            elif call(a, Any) is not True:
                what = "Any does not accept A"
            elif call(NoAnnotation, b) is not True or call(a, NoAnnotation) is not True:
                what = "a missing annotation is not compatible with everything"
            else:
                try:
                    ub = Union[a if not isinstance(a, str) else typing.ForwardRef(a), bytearray]
                    ua = Union[a if not isinstance(a, str) else typing.ForwardRef(a), b if not isinstance(b, str) else typing.ForwardRef(b)]
                except TypeError:
                    ub = ua = None
                if ub is not None and a is not None and typing.get_origin(a) is not Union and not isinstance(a, (str, type(int | str))):
                    if call(a, ub) is not True:
                        what = "union target: A is not accepted by Union[A, bytearray]"
                if what is None and ua is not None and typing.get_origin(ua) is Union and len(typing.get_args(ua)) == 2 \
                        and typing.get_origin(a) is not Union and typing.get_origin(b) is not Union \
                        and not isinstance(a, (str, type(int | str))) and not isinstance(b, (str, type(int | str))):
                    whole, parts = call(ua, b), [call(a, b), call(b, b)]
                    if whole != all(p is True for p in parts):
                        what = f"union source: Union[A, B] -> B is {whole} but the members give {parts}"
            if what:
                ctx.violation(case, f"clause fails on the implementation for A = {sa}, B = {sb}: {what}", impl=r, key="exotic:law:" + what[:24])


def edge_pipeline(src, mode):
    """`f0() -> X` feeding `f1(y: X)` with the annotation text `src`; mode: eager | quoted | future"""
    ann = repr(src) if mode == "quoted" and not src.startswith("'") else src
    code = ("from __future__ import annotations\n" if mode == "future" else "") + \
        f"def f0(x: int) -> {ann}:\n    return None\ndef f1(y: {ann}) -> int:\n    return 1\n"
    env = ns()
    exec(compile(code, "<c16-exotic>", "exec", flags=0, dont_inherit=True), env)  # noqa: S102
    with contextlib.redirect_stdout(io.StringIO()):
        Pipeline([PipeFunc(env["f0"], "y"), PipeFunc(env["f1"], "z")], validate_type_annotations=True)
        Pipeline([PipeFunc(env["f0"], "y", mapspec="x[i] -> y[i]"), PipeFunc(env["f1"], "z", mapspec="y[i] -> z[i]")], validate_type_annotations=True)


def check_exotic_pipelines(ctx):
    for src in EXOTIC:
        for mode in ("eager", "quoted", "future"):
            case = {"kind": "exotic-pipe", "ann": src, "mode": mode}
            try:
                with warnings.catch_warnings():
                    warnings.simplefilter("ignore")
                    edge_pipeline(src, mode)
                out = "ok"
            except Exception as e:  # noqa: BLE001
                out = ("TypeError" if type(e) is TypeError and "Inconsistent type annotations" in str(e) else "EXC:" + exc_enum(e))
            ctx.count(f"exotic:pipe:{mode}:{out[:12]}")
            ctx.record(case, True)
            if out != "ok":
                ctx.violation(case, f"a pipeline whose only edge has the same annotation `{src}` ({mode}) at both ends is rejected: {out}", impl=out,
                              model="ok", key="exotic:pipe:" + out[:16])


# ------------------------------------------------------------------------------------------------ modelled spellings
def gen_bound2(rng):
    """a TypeVar-free annotation of depth 2 over generics (bounds / constraints that mention other generics)"""
    inner = rng.choice([{"g": "list", "a": [rng.choice(["int", "bool", "str"])]}, {"g": "dict", "a": ["str", rng.choice(["int", "bool"])]},
                        {"g": "tuple", "a": ["int", rng.choice(["str", "bool"])]}, {"arr": rng.choice(["int", "bool"])}, {"u": ["int", "None"]},
                        {"g": "set", "a": ["A"]}, "B"])
    r = rng.random()
    if r < 0.3:
        return {"g": "list", "a": [inner]}
    if r < 0.5:
        return {"g": "dict", "a": ["str", inner]}
    if r < 0.65:
        return {"g": "tuple", "a": [inner, rng.choice(["int", "str"])]}
    if r < 0.8:
        return {"arr": inner} if B.kind(inner) != "arr" else {"g": "set", "a": [inner]}
    if r < 0.9 and B.kind(inner) != "u":
        return {"u": [inner, "None"]}
    return inner


def typevar_pairs(rng, n):
    out = []
    for _ in range(n):
        b0 = gen_bound2(rng)
        if rng.random() < 0.5:
            tv = {"tvb": b0}
        else:
            c1 = gen_bound2(rng)
            if B.key(c1) == B.key(b0):
                c1 = "bytes"
            tv = {"tvc": [b0, c1]}
        r = rng.random()
        src = b0 if r < 0.25 else B.derive(rng, b0, "narrow") if r < 0.55 else B.derive(rng, b0, "perturb") if r < 0.8 else \
            {"u": list(tv["tvc"])} if "tvc" in tv and B.well_formed({"u": list(tv["tvc"])}) else B.gen_ty(rng, 2)
        where = rng.random()
        if where < 0.6:
            a, b = src, tv
        elif where < 0.8:
            a, b = {"g": "list", "a": [src]}, {"g": "list", "a": [tv]}
        else:
            a, b = src, {"u": [tv, "None"]}
        if B.well_formed(a) and B.well_formed(b):
            out.append({"kind": "pair", "a": a, "b": b, "src": "typevar-depth2", "meta": "class"})
    return out


SPELLINGS = [  # (source of A, source of B, JSON of A, JSON of B): spelled differently, same annotation
    ("Optional[int]", "int | None", {"u": ["int", "None"]}, {"u": ["int", "None"]}),
    ("'int'", "int", "int", "int"), ("'list[int]'", "list[int]", {"g": "list", "a": ["int"]}, {"g": "list", "a": ["int"]}),
    ("list['bool']", "list[int]", {"g": "list", "a": ["bool"]}, {"g": "list", "a": ["int"]}),
    ("'list[int] | None'", "Optional[list[bool]]", {"u": [{"g": "list", "a": ["int"]}, "None"]}, {"u": [{"g": "list", "a": ["bool"]}, "None"]}),
    ("None", "Optional[int]", "None", {"u": ["int", "None"]}), ("None", "type(None)", "None", "None"), ("type(None)", "None", "None", "None"),
    ("None", "int", "None", "int"), ("list[None]", "list[Optional[int]]", {"g": "list", "a": ["None"]}, {"g": "list", "a": [{"u": ["int", "None"]}]}),
    ("UserB", "UserA", "B", "A"), ("UserA", "UserB", "A", "B"), ("Optional[UserB]", "Optional[UserA]", {"u": ["B", "None"]}, {"u": ["A", "None"]}),
    ("Annotated[int, 'a', 'b']", "int", {"an": "int"}, "int"), ("bool", "Annotated[int, 'a', 'b']", "bool", {"an": "int"}),
    ("Annotated[Array[bool], 'm']", "Array[int]", {"arr": "bool"}, {"arr": "int"}), ("Array[int]", "Annotated[Array[bool], 'm']", {"arr": "int"}, {"arr": "bool"}),
]


def check_spellings(ctx):
    env = ns()
    reqs, todo = [], []
    for sa, sb, ja, jb in SPELLINGS:
        got = call(eval(sa, env), eval(sb, env))  # noqa: S307
        todo.append((sa, sb, ja, jb, got))
    outs = ctx.lean([{"m": "typing.compat", "a": {"pairs": [[ja, jb] for _, _, ja, jb, _ in todo]}}])[0]["r"]
    for (sa, sb, ja, jb, got), model in zip(todo, outs):
        case = {"kind": "spelling", "a": sa, "b": sb, "ja": ja, "jb": jb}
        want = B.sub_ref(ja, jb)
        ctx.count(f"exotic:spelling:{got}")
        ctx.record(case, True)
        if got != want:
            ctx.violation(case, f"is_type_compatible({sa}, {sb}) = {got} but these spell {ja} -> {jb}, for which the subtype relation gives {want}",
                          impl=got, model=model, key="spelling")
        elif model != want:
            ctx.violation(case, "model and reference disagree on a spelled pair", found_input=False, item="correspondence:sub_ref", impl=got, model=model)


def run(ctx):
    check_spellings(ctx)
    check_exotic_pairs(ctx)
    check_exotic_pipelines(ctx)
    B.check_pairs(ctx, typevar_pairs(ctx.rng, ctx.n(1200, 20000)), laws_every=3)


def replay(ctx, case):
    env = ns()
    if case["kind"] == "exotic-pipe":
        try:
            edge_pipeline(case["ann"], case["mode"])
            print("implementation: both pipelines constructed")
        except Exception as e:  # noqa: BLE001
            print("implementation:", type(e).__name__, str(e)[:300])
        return
    a, b = eval(case["a"], env), eval(case["b"], env)  # noqa: S307
    print("A =", case["a"], "\nB =", case["b"])
    print("implementation: is_type_compatible(A, B) =", call(a, b), "| (A, A) =", call(a, a), "| (A, Any) =", call(a, Any))
    if case["kind"] == "spelling":
        print("model:", ctx.lean([{"m": "typing.compat", "a": {"pairs": [[case["ja"], case["jb"]]]}}])[0].get("r"), "| reference Sub =", B.sub_ref(case["ja"], case["jb"]))
