import PfModel.Model.Storage
/-!
L7, round 9 — sessions over one run folder: `persist()` and re-opening (a NEW object of the same class on the same folder)
as two separate operations with an explicit disk state, and keys as the caller passes them (bare entry or tuple).

`Model/Storage.lean` models `persist(); reopen` as one operation that is the identity (`Op.persistReopen`).  Here the
two halves are modelled after the code:

* `DictArray.persist` (`_dict.py:201-208`) pickles `dict(self._dict.items())` into `<folder>/dict_array.cloudpickle`;
  `DictArray.__init__` (`_dict.py:53-56`) starts from an empty mapping and calls `load()` (`_dict.py:210-216`), which
  REPLACES the mapping by the pickled dict iff the file exists; `SharedMemoryDictArray.__init__` (`_dict.py:248-257`)
  starts from a fresh `manager.dict()` and `load()` (`_dict.py:259-265`) `update`s it with the pickled dict: the same
  content in the same insertion order.  What was dumped after the last `persist()` is lost by re-opening.
* `FileArray` inherits `StorageBase.persist` (`_base.py:110-111`: does nothing) and keeps no state outside the folder
  (`_file.py:42-62`): both halves are the identity.

The specification is a masked array plus (for a volatile store) the snapshot taken by the last `persist()`.
-/
namespace PF.St
variable {V : Type}

/-! ### keys as passed by the caller -/

/-- what a caller hands to `__getitem__` / `dump`: a tuple of entries, or one bare entry (`arr[1]`, `arr[:]`) -/
inductive RawKey
  | bare (k : KE)
  | tuple (ks : List KE)
deriving DecidableEq, Repr

/-- `if not isinstance(key, tuple): key = (key,)` (`_base.py:144-145`) -/
def RawKey.wrap : RawKey → List KE
  | .bare k => [k]
  | .tuple ks => ks

/-! ### session operations -/

/-- one step of a session on a run folder -/
inductive SOp (V : Type)
  | op (o : Op V)     -- an operation on the live object (`Op.persistReopen` = `persist` then `reopen`)
  | persist           -- `arr.persist()`
  | reopen            -- `arr = cls(folder, shape, internal_shape, shape_mask)`: the old object is dropped
deriving Repr

def Op.isPR : Op V → Bool
  | .persistReopen => true
  | _ => false

/-- the live `DictArray` / `SharedMemoryDictArray` and the content of `dict_array.cloudpickle` (`none`: no such file) -/
structure DSess (V : Type) where
  mem : Dict V
  disk : Option (Dict V)

/-- `persist` (`_dict.py:201-208`) -/
def dPersist (s : DSess V) : DSess V := ⟨s.mem, some s.mem⟩

/-- a new object on the folder: empty mapping, then `load()` (`_dict.py:53-56, 210-216, 248-265`) -/
def dReopen (s : DSess V) : DSess V := ⟨s.disk.getD [], s.disk⟩

def dsStep (g : Geom) (s : DSess V) : SOp V → DSess V × Obs V
  | .persist => (dPersist s, .unit)
  | .reopen => (dReopen s, .unit)
  | .op o =>
    if o.isPR then (dReopen (dPersist s), .unit)
    else ((⟨(dStep g s.mem o).1, s.disk⟩ : DSess V), (dStep g s.mem o).2)

/-- `FileArray`: the folder is the only state; `persist` does nothing (`_base.py:110-111`), a new object reads the
    same folder -/
def fsStep (g : Geom) (f : Files V) : SOp V → Files V × Obs V
  | .persist => (f, .unit)
  | .reopen => (f, .unit)
  | .op o => fStep g f o

/-! ### specification -/

/-- a masked array whose content lives in memory, with the snapshot of the last `persist` -/
structure ASess (V : Type) where
  cur : MArr V
  saved : MArr V

/-- reference of a VOLATILE store: `persist` takes a snapshot, re-opening returns to it -/
def avStep (g : Geom) (a : ASess V) : SOp V → ASess V × Obs V
  | .persist => (⟨a.cur, a.cur⟩, .unit)
  | .reopen => (⟨a.saved, a.saved⟩, .unit)
  | .op o =>
    if o.isPR then (⟨a.cur, a.cur⟩, .unit)
    else ((⟨(aStep g a.cur o).1, a.saved⟩ : ASess V), (aStep g a.cur o).2)

/-- reference of a DURABLE store (what the property statement names): `persist` and re-opening change nothing -/
def adStep (g : Geom) (a : MArr V) : SOp V → MArr V × Obs V
  | .persist => (a, .unit)
  | .reopen => (a, .unit)
  | .op o => aStep g a o

/-- does this step leave something in a volatile store that is not persisted?  Exactly the dumps that write at least
    one element (a rejected key and an empty slice write nothing). -/
def SOp.dirties (g : Geom) : SOp V → Bool
  | .op (.dump key _) =>
    match dumpTargets g key with
    | .ok (_ :: _) => true
    | _ => false
  | _ => false

/-- every re-opening happens with nothing unpersisted (`dirty` = something was dumped since the last `persist`):
    the histories the property statement calls "persist-then-reopen" -/
def safeFrom (g : Geom) : Bool → List (SOp V) → Bool
  | _, [] => true
  | _, .persist :: r => safeFrom g false r
  | dirty, .reopen :: r => !dirty && safeFrom g false r
  | dirty, .op o :: r => if o.isPR then safeFrom g false r else safeFrom g (dirty || (SOp.op o).dirties g) r

/-- run a session, collecting the observations (`runOps` for any operation type) -/
def runS {S O} (step : S → O → S × Obs V) : S → List O → S × List (Obs V)
  | s, [] => (s, [])
  | s, o :: os => ((runS step (step s o).1 os).1, (step s o).2 :: (runS step (step s o).1 os).2)

/-- a fresh run folder: empty mapping, no pickle -/
def dFresh : DSess V := ⟨[], none⟩
def aFresh : ASess V := ⟨aEmpty, aEmpty⟩

end PF.St
