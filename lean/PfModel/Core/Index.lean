namespace PF

def prod : List Nat → Nat
  | [] => 1
  | d :: ds => d * prod ds

def strides : List Nat → List Nat
  | [] => []
  | _ :: rest => prod rest :: strides rest

def shapeToKey (shape : List Nat) (i : Nat) : List Nat :=
  (List.zip (strides shape) shape).map fun (s, d) => (i / s) % d

def ravel : List Nat → List Nat → Nat
  | _ :: ds, k :: ks => k * prod ds + ravel ds ks
  | _, _ => 0

def InRange : List Nat → List Nat → Prop
  | [], [] => True
  | d :: ds, k :: ks => k < d ∧ InRange ds ks
  | _, _ => False

theorem shapeToKey_cons (d : Nat) (ds : List Nat) (i : Nat) :
    shapeToKey (d :: ds) i = (i / prod ds) % d :: shapeToKey ds i := by
  simp [shapeToKey, strides]

theorem prod_pos_of_inRange : ∀ (s k : List Nat), InRange s k → 0 < prod s
  | [], [], _ => by simp [prod]
  | d :: ds, k :: ks, h => by
      have h1 : k < d := h.1
      have h2 := prod_pos_of_inRange ds ks h.2
      simp [prod]; exact Nat.mul_pos (by omega) h2
  | [], _ :: _, h => by simp [InRange] at h
  | _ :: _, [], h => by simp [InRange] at h

theorem ravel_lt : ∀ (s k : List Nat), InRange s k → ravel s k < prod s
  | [], [], _ => by simp [ravel, prod]
  | d :: ds, k :: ks, h => by
      have h1 : k < d := h.1
      have ih := ravel_lt ds ks h.2
      simp only [ravel, prod]
      calc k * prod ds + ravel ds ks < k * prod ds + prod ds := by omega
        _ = (k + 1) * prod ds := by rw [Nat.add_mul]; simp
        _ ≤ d * prod ds := Nat.mul_le_mul_right _ (by omega)
  | [], _ :: _, h => by simp [InRange] at h
  | _ :: _, [], h => by simp [InRange] at h

theorem key_ravel : ∀ (s k : List Nat), InRange s k → shapeToKey s (ravel s k) = k
  | [], [], _ => by simp [shapeToKey, strides]
  | d :: ds, k :: ks, h => by
      have h1 : k < d := h.1
      have hlt := ravel_lt ds ks h.2
      have hpos := prod_pos_of_inRange ds ks h.2
      rw [shapeToKey_cons]
      simp only [ravel]
      have e1 : (k * prod ds + ravel ds ks) / prod ds = k := by
        rw [Nat.mul_comm, Nat.mul_add_div hpos, Nat.div_eq_of_lt hlt]; simp
      rw [e1, Nat.mod_eq_of_lt h1]
      congr 1
      -- shapeToKey ds (k * prod ds + r) = shapeToKey ds r
      have : ∀ (s' : List Nat) (m r : Nat), shapeToKey s' (m * prod s' + r) = shapeToKey s' r := by
        intro s'
        induction s' with
        | nil => intro m r; simp [shapeToKey, strides]
        | cons e es ih =>
          intro m r
          rw [shapeToKey_cons, shapeToKey_cons]
          have hh : m * prod (e :: es) + r = (m * e) * prod es + r := by
            simp [prod, Nat.mul_assoc]
          rw [hh, ih (m * e) r]
          congr 1
          by_cases hz : prod es = 0
          · simp [hz]
          · have hp : 0 < prod es := Nat.pos_of_ne_zero hz
            rw [Nat.mul_comm (m*e), Nat.mul_add_div hp, Nat.mul_comm m e]
            rw [Nat.mul_add_mod]
      rw [this ds k (ravel ds ks)]
      exact key_ravel ds ks h.2
  | [], _ :: _, h => by simp [InRange] at h
  | _ :: _, [], h => by simp [InRange] at h

end PF
