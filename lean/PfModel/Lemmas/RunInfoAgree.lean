/-
C04, round 2: `init_store` on the `RunInfo` that `RunInfo.create` records finds, for every slot of the store a run of
`runMapStore` fills, the shape, the mask and the storage class the run used (`agreeSlot`).  Core Lean only.
-/
import PfModel.Lemmas.RunInfoCodec
namespace PF.RIC
open PF PF.Map

/-! ### generic list facts -/

theorem find?_reverse_last {α} (p : α → Bool) (a b : List α) (x : α) (hx : p x = true) (hb : ∀ y ∈ b, p y = false) :
    (a ++ x :: b).reverse.find? p = some x := by
  have hnone : b.reverse.find? p = none := by
    apply List.find?_eq_none.mpr
    intro y hy; simp [hb y (List.mem_reverse.mp hy)]
  simp [List.reverse_append, List.find?_append, hnone, hx]

theorem exists_last_occurrence {α} (x : α) : ∀ l : List α, x ∈ l → ∃ a b, l = a ++ x :: b ∧ x ∉ b := by
  intro l
  induction l with
  | nil => intro h; cases h
  | cons y ys ih =>
    intro h
    by_cases hin : x ∈ ys
    · obtain ⟨a, b, e, hb⟩ := ih hin
      exact ⟨y :: a, b, by rw [e]; rfl, hb⟩
    · rcases List.mem_cons.mp h with e | h'
      · subst e; exact ⟨[], ys, rfl, hin⟩
      · exact absurd h' hin

theorem klookup_of_all {β} (l : List (Key × β)) (k : Key) (v : β) (hex : ∃ kv ∈ l, kv.1 = k)
    (hall : ∀ kv ∈ l, kv.1 = k → kv.2 = v) : klookup l k = some v := by
  induction l with
  | nil => obtain ⟨kv, h, _⟩ := hex; cases h
  | cons kv r ih =>
    obtain ⟨k', v'⟩ := kv
    simp only [klookup]
    split
    · next e => exact congrArg some (hall (k', v') (List.mem_cons_self ..) e)
    · next ne =>
      apply ih
      · obtain ⟨kv, h, e⟩ := hex
        rcases List.mem_cons.mp h with e' | h'
        · subst e'; exact absurd e ne
        · exact ⟨kv, h', e⟩
      · intro kv h; exact hall kv (List.mem_cons_of_mem _ h)

theorem mapOpt_filterMap {α β} (parse : String → Option β) (spec : α → Option β) (pr : β → String) (l : List α)
    (h : ∀ a ∈ l, ∀ b, spec a = some b → parse (pr b) = some b) :
    mapOpt parse (l.filterMap fun a => (spec a).map pr) = some (l.filterMap spec) := by
  induction l with
  | nil => rfl
  | cons a r ih =>
    have ihr := ih (fun a' ha' => h a' (List.mem_cons_of_mem _ ha'))
    cases hs : spec a with
    | none => simp only [List.filterMap_cons, hs, Option.map_none]; exact ihr
    | some b =>
      simp only [List.filterMap_cons, hs, Option.map_some, mapOpt, h a (List.mem_cons_self ..) b hs, ihr]

/-! ### output names are unique -/

theorem outputs_unique : ∀ (fs : List MFunc), (allOutputs fs).Nodup → ∀ f ∈ fs, ∀ g ∈ fs, ∀ o, o ∈ f.outputs → o ∈ g.outputs → f = g := by
  intro fs
  induction fs with
  | nil => intro _ f hf; cases hf
  | cons f0 rest ih =>
    intro hn f hf g hg o hof hog
    simp only [allOutputs, List.flatMap_cons] at hn
    obtain ⟨_, h2, h3⟩ := List.nodup_append.mp hn
    have inrest : ∀ g' ∈ rest, ∀ o', o' ∈ g'.outputs → o' ∈ rest.flatMap (·.outputs) :=
      fun g' hg' o' ho' => List.mem_flatMap.mpr ⟨g', hg', ho'⟩
    rcases List.mem_cons.mp hf with e1 | h1 <;> rcases List.mem_cons.mp hg with e2 | h2'
    · rw [e1, e2]
    · subst e1; exact absurd rfl (h3 o hof o (inrest g h2' o hog))
    · subst e2; exact absurd rfl (h3 o hog o (inrest f h1 o hof))
    · exact ih h2 f h1 g h2' o hof hog

theorem producer_of_mem (fs : List MFunc) (hn : (allOutputs fs).Nodup) (f : MFunc) (hf : f ∈ fs) (o : String) (ho : o ∈ f.outputs) :
    producer fs o = some f := by
  unfold producer
  cases hfind : fs.find? (fun f => decide (o ∈ f.outputs)) with
  | none =>
    have := List.find?_eq_none.mp hfind f hf
    simp [ho] at this
  | some g =>
    have hg := List.mem_of_find?_eq_some hfind
    have hp := List.find?_some hfind
    simp only [decide_eq_true_eq] at hp
    rw [outputs_unique fs hn g hg f hf o hp ho]

theorem rootArgs_not_produced (fs : List MFunc) (p : String) (h : p ∈ rootArgs fs) : producer fs p = none := by
  simp only [rootArgs] at h
  obtain ⟨f, _, hpf⟩ := List.mem_flatMap.mp (List.mem_eraseDups.mp h)
  obtain ⟨q, _, hqq⟩ := List.mem_filterMap.mp hpf
  split at hqq
  · cases hqq
  · next hc =>
    cases hqq
    cases hp : producer fs q.1 with
    | none => rfl
    | some g => simp [hp] at hc

/-! ### the keys `map_shapes` records for one function -/

/-- every key recorded for `f` is non-empty and names outputs of `f` -/
theorem outKeys_names (tupled : List String) (f : MFunc) (hne : f.outputs ≠ []) :
    ∀ k ∈ outKeys tupled f, k.names ≠ [] ∧ ∀ s ∈ k.names, s ∈ f.outputs := by
  intro k hk
  unfold outKeys outKey at hk
  cases hout : f.outputs with
  | nil => exact absurd hout hne
  | cons o rest =>
    cases rest with
    | nil =>
      simp only [hout] at hk
      by_cases ht : f.name ∈ tupled
      · simp only [ht, if_true, List.map_cons, List.map_nil, List.mem_cons, List.not_mem_nil, or_false] at hk
        rcases hk with e | e <;> subst e <;> simp [Key.names]
      · simp only [ht, if_false, List.mem_cons, List.not_mem_nil, or_false] at hk
        subst hk; simp [Key.names]
    | cons o2 r2 =>
      simp only [hout] at hk
      rcases List.mem_cons.mp hk with e | hk'
      · subst e; simp [Key.names]
      · obtain ⟨s, hs, e⟩ := List.mem_map.mp hk'
        subst e
        refine ⟨by simp [Key.names], ?_⟩
        intro s' hs'
        simp only [Key.names, List.mem_singleton] at hs'
        subst hs'
        exact hs

/-- the keys recorded for `f` end — as far as keys naming all of `f`'s outputs go — with the key `init_store` uses -/
theorem outKeys_split (tupled : List String) (f : MFunc) (hne : f.outputs ≠ []) :
    ∃ pre post, outKeys tupled f = pre ++ storeKey f :: post ∧ (storeKey f).names = f.outputs ∧
      ∀ k ∈ post, k.names ≠ f.outputs := by
  unfold outKeys outKey storeKey
  cases hout : f.outputs with
  | nil => exact absurd hout hne
  | cons o rest =>
    cases rest with
    | nil =>
      by_cases ht : f.name ∈ tupled
      · exact ⟨[.many [o]], [], by simp [ht], by simp [Key.names], by simp⟩
      · exact ⟨[], [], by simp [ht], by simp [Key.names], by simp⟩
    | cons o2 r2 =>
      refine ⟨[], (o :: o2 :: r2).map .one, by simp, by simp [Key.names], ?_⟩
      intro k hk
      obtain ⟨s, _, e⟩ := List.mem_map.mp hk
      subst e
      simp [Key.names]

/-- the entries `keyed` records for one function -/
def blockOf {β} (tupled : List String) (vals : List (String × β)) (f : MFunc) : List (Key × β) :=
  match f.mapspec, f.outputs.head? with
  | some _, some o =>
    match alookup vals o with
    | some v => (outKeys tupled f).map fun k => (k, v)
    | none => []
  | _, _ => []

theorem keyed_eq {β} (fs : List MFunc) (tupled : List String) (vals : List (String × β)) :
    keyed fs tupled vals = ((rootArgs fs).filterMap fun p => (alookup vals p).map fun v => (Key.one p, v)) ++
      (generations fs).flatten.flatMap (blockOf tupled vals) := rfl

theorem blockOf_mem {β} (tupled : List String) (vals : List (String × β)) (g : MFunc) (y : Key × β) (hy : y ∈ blockOf tupled vals g) :
    g.outputs ≠ [] ∧ y.1 ∈ outKeys tupled g ∧ ∃ h, g.outputs.head? = some h ∧ alookup vals h = some y.2 := by
  unfold blockOf at hy
  split at hy
  · next ms o hms ho =>
    split at hy
    · next v hv =>
      obtain ⟨k, hk, e⟩ := List.mem_map.mp hy
      subst e
      exact ⟨by intro e; simp [e] at ho, hk, o, ho, hv⟩
    · cases hy
  · cases hy

/-- an entry of `keyed` whose key names exactly the outputs of `f` belongs to `f`'s block -/
theorem keyed_entry {β} (fs : List MFunc) (tupled : List String) (vals : List (String × β)) (hn : (allOutputs fs).Nodup)
    (f : MFunc) (hf : f ∈ fs) (hne : f.outputs ≠ []) (y : Key × β) (hy : y ∈ keyed fs tupled vals) (hnames : y.1.names = f.outputs) :
    y.1 ∈ outKeys tupled f ∧ ∃ h, f.outputs.head? = some h ∧ alookup vals h = some y.2 := by
  rw [keyed_eq] at hy
  rcases List.mem_append.mp hy with hr | hb
  · obtain ⟨p, hp, hv⟩ := List.mem_filterMap.mp hr
    cases hl : alookup vals p with
    | none => simp [hl] at hv
    | some v =>
      simp only [hl, Option.map_some, Option.some.injEq] at hv
      subst hv
      simp only [Key.names] at hnames
      have hpo : p ∈ f.outputs := by rw [← hnames]; simp
      have := producer_of_mem fs hn f hf p hpo
      rw [rootArgs_not_produced fs p hp] at this
      cases this
  · obtain ⟨g, hg, hyg⟩ := List.mem_flatMap.mp hb
    obtain ⟨hgne, hk, h, hh, hv⟩ := blockOf_mem tupled vals g y hyg
    obtain ⟨hkne, hsub⟩ := outKeys_names tupled g hgne y.1 hk
    have hgf : g = f := by
      cases hkn : y.1.names with
      | nil => exact absurd hkn hkne
      | cons s _ =>
        have h1 : s ∈ g.outputs := hsub s (by rw [hkn]; simp)
        have h2 : s ∈ f.outputs := by rw [← hnames, hkn]; simp
        exact outputs_unique fs hn g (generations_mem fs g hg) f hf s h1 h2
    subst hgf
    exact ⟨hk, h, hh, hv⟩

/-- **`name_mapping[mapspec.output_names]`** on the recorded dictionary is the key `init_store` is modelled to use -/
theorem keyFor_keyed {β} (fs : List MFunc) (tupled : List String) (vals : List (String × β)) (hn : (allOutputs fs).Nodup)
    (f : MFunc) (hf : f ∈ (generations fs).flatten) (ms : MSpec) (hms : f.mapspec = some ms) (h : String) (hh : f.outputs.head? = some h)
    (v : β) (hv : alookup vals h = some v) :
    ((keyed fs tupled vals).reverse.find? fun kv => kv.1.names = f.outputs).map (·.1) = some (storeKey f) := by
  have hne : f.outputs ≠ [] := by intro e; simp [e] at hh
  have hfs := generations_mem fs f hf
  obtain ⟨G1, G2, hG, hnot⟩ := exists_last_occurrence f _ hf
  obtain ⟨pre, post, hsplit, hnm, hpost⟩ := outKeys_split tupled f hne
  have hblock : blockOf tupled vals f = pre.map (fun k => (k, v)) ++ (storeKey f, v) :: post.map (fun k => (k, v)) := by
    unfold blockOf; simp only [hms, hh, hv, hsplit, List.map_append, List.map_cons]
  have hlist : keyed fs tupled vals =
      (((rootArgs fs).filterMap fun p => (alookup vals p).map fun v => (Key.one p, v)) ++ G1.flatMap (blockOf tupled vals) ++
        pre.map (fun k => (k, v))) ++ (storeKey f, v) :: (post.map (fun k => (k, v)) ++ G2.flatMap (blockOf tupled vals)) := by
    rw [keyed_eq, hG]
    simp only [List.flatMap_append, List.flatMap_cons, hblock, List.append_assoc, List.cons_append]
  rw [hlist, find?_reverse_last]
  · rfl
  · simp [hnm]
  · intro y hy
    simp only [decide_eq_false_iff_not]
    intro hnames
    rcases List.mem_append.mp hy with h1 | h2
    · obtain ⟨k, hk, e⟩ := List.mem_map.mp h1
      subst e
      exact hpost k hk hnames
    · obtain ⟨g, hg, hyg⟩ := List.mem_flatMap.mp h2
      obtain ⟨hgne, hk, _⟩ := blockOf_mem tupled vals g y hyg
      obtain ⟨hkne, hsub⟩ := outKeys_names tupled g hgne y.1 hk
      have hgG : g ∈ (generations fs).flatten := by rw [hG]; simp [hg]
      cases hkn : y.1.names with
      | nil => exact absurd hkn hkne
      | cons s _ =>
        have h1 : s ∈ g.outputs := hsub s (by rw [hkn]; simp)
        have h2' : s ∈ f.outputs := by rw [← hnames, hkn]; simp
        have := outputs_unique fs hn g (generations_mem fs g hgG) f hfs s h1 h2'
        subst this
        exact hnot hg

/-- the value recorded under the key `init_store` uses is the one `map_shapes` computed for the function's first output -/
theorem klookup_keyed {β} (fs : List MFunc) (tupled : List String) (vals : List (String × β)) (hn : (allOutputs fs).Nodup)
    (f : MFunc) (hf : f ∈ (generations fs).flatten) (ms : MSpec) (hms : f.mapspec = some ms) (h : String) (hh : f.outputs.head? = some h)
    (v : β) (hv : alookup vals h = some v) :
    klookup (keyed fs tupled vals) (storeKey f) = some v := by
  have hne : f.outputs ≠ [] := by intro e; simp [e] at hh
  have hfs := generations_mem fs f hf
  obtain ⟨pre, post, hsplit, hnm, _⟩ := outKeys_split tupled f hne
  apply klookup_of_all
  · refine ⟨(storeKey f, v), ?_, rfl⟩
    rw [keyed_eq]
    apply List.mem_append_right
    apply List.mem_flatMap.mpr
    refine ⟨f, hf, ?_⟩
    unfold blockOf
    simp only [hms, hh, hv, hsplit]
    simp
  · intro y hy hk
    obtain ⟨_, h', hh', hv'⟩ := keyed_entry fs tupled vals hn f hfs hne y hy (by rw [hk, hnm])
    rw [hh] at hh'
    cases hh'
    rw [hv] at hv'
    cases hv'
    rfl

/-! ### the slots a run fills -/

/-- what a slot of function `f` looks like, given the shape tables the run consulted -/
def SlotOf (shapes : List (String × List Nat)) (masks : List (String × List Bool)) (f : MFunc) (os : String × Slot) : Prop :=
  os.1 ∈ f.outputs ∧
  ((∃ v, os.2 = .single v ∧ ∀ ms, f.mapspec = some ms → ms.inputs.isEmpty = true) ∨
   (∃ ms h sh mk cells, f.mapspec = some ms ∧ ms.inputs.isEmpty = false ∧ f.outputs.head? = some h ∧
      alookup shapes h = some sh ∧ alookup masks h = some mk ∧ os.2 = .array sh mk cells))

theorem runSingle_slots (fs : List MFunc) (env : Env) (f : MFunc) (r : FuncResult) (h : runSingle fs env f = .ok r) :
    ∀ os ∈ r.slots, os.1 ∈ f.outputs ∧ ∃ v, os.2 = .single v := by
  unfold runSingle at h
  simp only [bind, Except.bind] at h
  split at h
  · cases h
  · next args _ =>
    simp only [pure, Except.pure, Except.ok.injEq] at h
    subst h
    intro os hos
    simp only [List.map_map, List.mem_map, Function.comp] at hos
    obtain ⟨o, ho, e⟩ := hos
    subst e
    exact ⟨ho, _, rfl⟩

theorem runMappedWith_slots (arr : MFunc → List Nat → List Bool → (Nat → List (String × Val)) → String → Val)
    (fs : List MFunc) (env : Env) (f : MFunc) (ms : MSpec) (sh : List Nat) (mk : List Bool) (r : FuncResult)
    (h : runMappedWith arr fs env f ms sh mk = .ok r) :
    ∀ os ∈ r.slots, os.1 ∈ f.outputs ∧ ∃ cells, os.2 = .array sh mk cells := by
  unfold runMappedWith at h
  simp only [bind, Except.bind] at h
  split at h
  · cases h
  · next argsAt _ =>
    simp only [pure, Except.pure, Except.ok.injEq] at h
    subst h
    intro os hos
    simp only [List.mem_map] at hos
    obtain ⟨o, ho, e⟩ := hos
    subst e
    exact ⟨ho, _, rfl⟩

theorem runFuncWith_slots (arr : MFunc → List Nat → List Bool → (Nat → List (String × Val)) → String → Val)
    (fs : List MFunc) (shapes : List (String × List Nat)) (masks : List (String × List Bool)) (env : Env) (f : MFunc) (r : FuncResult)
    (h : runFuncWith arr fs shapes masks env f = .ok r) : ∀ os ∈ r.slots, SlotOf shapes masks f os := by
  intro os hos
  unfold runFuncWith at h
  cases hms : f.mapspec with
  | none =>
    simp only [hms] at h
    obtain ⟨h1, v, h2⟩ := runSingle_slots fs env f r h os hos
    exact ⟨h1, Or.inl ⟨v, h2, fun ms e => by rw [hms] at e; cases e⟩⟩
  | some ms =>
    simp only [hms] at h
    by_cases hin : ms.inputs.isEmpty = true
    · simp only [hin, if_true] at h
      obtain ⟨h1, v, h2⟩ := runSingle_slots fs env f r h os hos
      exact ⟨h1, Or.inl ⟨v, h2, fun ms' e => by rw [hms] at e; cases e; exact hin⟩⟩
    · simp only [hin, Bool.false_eq_true, if_false] at h
      cases hh : f.outputs.head? with
      | none => simp [hh, throw, throwThe, MonadExceptOf.throw] at h
      | some o =>
        simp only [hh] at h
        cases hs : alookup shapes o with
        | none => simp [hs, throw, throwThe, MonadExceptOf.throw] at h
        | some sh =>
          cases hk : alookup masks o with
          | none => simp [hs, hk, throw, throwThe, MonadExceptOf.throw] at h
          | some mk =>
            simp only [hs, hk] at h
            split at h
            · simp [throw, throwThe, MonadExceptOf.throw] at h
            · obtain ⟨h1, cells, h2⟩ := runMappedWith_slots arr fs env f ms sh mk r h os hos
              exact ⟨h1, Or.inr ⟨ms, o, sh, mk, cells, hms, by simpa using hin, hh, hs, hk, h2⟩⟩

theorem runGen_slots (R : Env → MFunc → M FuncResult) (env : Env) (P : String × Slot → Prop) :
    ∀ (gen : List MFunc) (rs : List FuncResult), runGenWith R env gen = .ok rs →
      (∀ f ∈ gen, ∀ r, R env f = .ok r → ∀ os ∈ r.slots, P os) → ∀ os ∈ rs.flatMap (·.slots), P os := by
  intro gen
  induction gen with
  | nil =>
    intro rs h _ os hos
    simp only [runGenWith, pure, Except.pure, Except.ok.injEq] at h
    subst h; simp at hos
  | cons f rest ih =>
    intro rs h hP os hos
    simp only [runGenWith, bind, Except.bind] at h
    cases hr : R env f with
    | error e => simp [hr] at h
    | ok r =>
      simp only [hr] at h
      cases hrs : runGenWith R env rest with
      | error e => simp [hrs] at h
      | ok rs' =>
        simp only [hrs, pure, Except.pure, Except.ok.injEq] at h
        subst h
        simp only [List.flatMap_cons, List.mem_append] at hos
        rcases hos with h1 | h2
        · exact hP f (List.mem_cons_self ..) r hr os h1
        · exact ih rs' hrs (fun g hg => hP g (List.mem_cons_of_mem _ hg)) os h2

theorem runGens_slots (R : Env → MFunc → M FuncResult) (P : String × Slot → Prop) :
    ∀ (gens : List (List MFunc)) (env : Env) (rs : List FuncResult) (env' : Env), runGensWith R gens env = .ok (rs, env') →
      (∀ f ∈ gens.flatten, ∀ env r, R env f = .ok r → ∀ os ∈ r.slots, P os) → (∀ os ∈ env.store, P os) →
      ∀ os ∈ env'.store, P os := by
  intro gens
  induction gens with
  | nil =>
    intro env rs env' h _ h0
    simp only [runGensWith, pure, Except.pure, Except.ok.injEq, Prod.mk.injEq] at h
    obtain ⟨_, e⟩ := h; subst e; exact h0
  | cons gen rest ih =>
    intro env rs env' h hP h0
    simp only [runGensWith, bind, Except.bind] at h
    cases hg : runGenWith R env gen with
    | error e => simp [hg] at h
    | ok rs1 =>
      simp only [hg] at h
      cases hrest : runGensWith R rest { env with store := env.store ++ rs1.flatMap (·.slots) } with
      | error e => simp [hrest] at h
      | ok p =>
        obtain ⟨more, envF⟩ := p
        simp only [hrest, pure, Except.pure, Except.ok.injEq, Prod.mk.injEq] at h
        obtain ⟨_, e⟩ := h
        subst e
        apply ih _ _ _ hrest
        · intro f hf; exact hP f (by simp only [List.flatten_cons, List.mem_append]; exact Or.inr hf)
        · intro os hos
          rcases List.mem_append.mp hos with h1 | h2
          · exact h0 os h1
          · exact runGen_slots R env P gen rs1 hg
              (fun f hf r hr => hP f (by simp only [List.flatten_cons, List.mem_append]; exact Or.inl hf) env r hr) os h2

/-- every slot of the store of a successful run belongs to a function of the pipeline and has the geometry `map_shapes` computed -/
theorem runMapStore_slots (fs : List MFunc) (inputs : List (String × Val)) (ui : List (String × List Nat))
    (res : MapResult) (store : List (String × Slot)) (h : runMapStore fs inputs ui = .ok (res, store)) :
    ∀ os ∈ store, ∃ f ∈ (generations fs).flatten, SlotOf res.shapes res.masks f os := by
  unfold runMapStore at h
  simp only [bind, Except.bind] at h
  cases hv : validateInputs fs inputs with
  | error e => simp [hv] at h
  | ok u =>
    simp only [hv] at h
    by_cases hc : (generations fs).flatten.length ≠ fs.length
    · rw [if_pos hc] at h
      simp [throw, throwThe, MonadExceptOf.throw] at h
    · simp only [hc, if_false] at h
      cases hsm : mapShapes fs inputs (constructInternal fs ui) with
      | error e => simp [hsm] at h
      | ok sm =>
        simp only [hsm] at h
        cases hre : runGensWith (runFuncWith opArray fs sm.1 sm.2) (generations fs) { inputs := inputs, store := [] } with
        | error e => simp [hre] at h
        | ok re =>
          simp only [hre, pure, Except.pure, Except.ok.injEq, Prod.mk.injEq] at h
          obtain ⟨h1, h2⟩ := h
          subst h1 h2
          exact runGens_slots (runFuncWith opArray fs sm.1 sm.2) (fun os => ∃ f ∈ (generations fs).flatten, SlotOf sm.1 sm.2 f os)
            (generations fs) _ re.1 re.2 (by cases re; exact hre)
            (fun f hf env r hr os hos => ⟨f, hf, runFuncWith_slots opArray fs sm.1 sm.2 env f r hr os hos⟩)
            (fun os hos => by cases hos)

/-! ### `map_shapes` records a shape for every function with a MapSpec -/

theorem forIn_inv {α β : Type} (body : α → β → M (ForInStep β)) (Inv : List α → β → Prop) :
    ∀ (l pre : List α) (init final : β), Inv pre init →
      (∀ pre a c r, Inv pre c → body a c = .ok r → ∃ c', r = .yield c' ∧ Inv (pre ++ [a]) c') →
      forIn l init body = .ok final → Inv (pre ++ l) final := by
  intro l
  induction l with
  | nil =>
    intro pre init final h0 _ h
    simp only [List.forIn_nil, pure, Except.pure, Except.ok.injEq] at h
    subst h; simpa using h0
  | cons a r ih =>
    intro pre init final h0 hstep h
    rw [List.forIn_cons] at h
    simp only [bind, Except.bind] at h
    cases hb : body a init with
    | error e => simp [hb] at h
    | ok s =>
      obtain ⟨c', e, hinv⟩ := hstep pre a init s h0 hb
      subst e
      simp only [hb] at h
      have := ih (pre ++ [a]) c' final hinv hstep h
      simpa using this

theorem alookup_isSome_mem {β : Type} (l : List (String × β)) (x : String) (h : x ∈ akeys l) : (alookup l x).isSome = true := by
  induction l with
  | nil => cases h
  | cons kv r ih =>
    obtain ⟨k, v⟩ := kv
    simp only [alookup]
    split
    · rfl
    · next ne =>
      apply ih
      simp only [akeys, List.map_cons, List.mem_cons] at h
      rcases h with e | h
      · exact absurd e.symm ne
      · exact h

theorem alookup_append_isSome {β : Type} (l m : List (String × β)) (x : String)
    (h : (alookup l x).isSome = true ∨ x ∈ akeys m) : (alookup (l ++ m) x).isSome = true := by
  rw [alookup_append]
  cases hl : alookup l x with
  | some v => rfl
  | none =>
    rcases h with h | h
    · simp [hl] at h
    · simpa using alookup_isSome_mem m x h

theorem inner_loop (outs : List String) (x : List Nat) (y : List Bool) (s : List (String × List Nat) × List (String × List Bool)) :
    forIn outs s (fun o (s : List (String × List Nat) × List (String × List Bool)) =>
      (pure (ForInStep.yield (s.fst ++ [(o, x)], s.snd ++ [(o, y)])) : M _)) =
    .ok (s.1 ++ outs.map (fun o => (o, x)), s.2 ++ outs.map (fun o => (o, y))) := by
  induction outs generalizing s with
  | nil => simp [pure, Except.pure]
  | cons o r ih =>
    rw [List.forIn_cons]
    simp only [pure, Except.pure, bind, Except.bind]
    have := ih (s.fst ++ [(o, x)], s.snd ++ [(o, y)])
    simp only [pure, Except.pure] at this
    rw [this]
    simp

theorem mapShapes_records (fs : List MFunc) (inputs : List (String × Val)) (internal : List (String × List Nat))
    (sm : List (String × List Nat) × List (String × List Bool)) (h : mapShapes fs inputs internal = .ok sm) :
    ∀ f ∈ (generations fs).flatten, ∀ ms, f.mapspec = some ms → ∀ o ∈ f.outputs, (alookup sm.1 o).isSome = true := by
  unfold mapShapes at h
  simp only [bind, Except.bind] at h
  split at h
  · cases h
  · next v1 _ =>
    split at h
    · cases h
    · next v2 hloop =>
      simp only [pure, Except.pure, Except.ok.injEq] at h
      subst h
      have := forIn_inv _ (fun pre (c : List (String × List Nat) × List (String × List Bool)) =>
          ∀ f ∈ pre, ∀ ms, f.mapspec = some ms → ∀ o ∈ f.outputs, (alookup c.1 o).isSome = true)
        (generations fs).flatten [] _ v2 (by intro f hf; cases hf) ?_ hloop
      · simpa using this
      · intro pre a c r hInv hb
        cases hms : a.mapspec with
        | none =>
          simp only [hms, pure, Except.pure, Except.ok.injEq] at hb
          subst hb
          refine ⟨_, rfl, ?_⟩
          intro f hf ms hf' o ho
          rcases List.mem_append.mp hf with h1 | h1
          · exact hInv f h1 ms hf' o ho
          · simp only [List.mem_singleton] at h1; subst h1; rw [hms] at hf'; cases hf'
        | some ms =>
          simp only [hms] at hb
          split at hb
          · cases hb
          · next v _ =>
            rw [inner_loop] at hb
            simp only [pure, Except.pure, Except.ok.injEq] at hb
            subst hb
            refine ⟨_, rfl, ?_⟩
            intro f hf ms' hf' o ho
            apply alookup_append_isSome
            rcases List.mem_append.mp hf with h1 | h1
            · exact Or.inl (hInv f h1 ms' hf' o ho)
            · simp only [List.mem_singleton] at h1; subst h1
              right; simp [akeys, ho]

/-! ### `init_store` on the created record -/

/-- what `RunInfo.create` can rely on, beyond the success of the run (each clause is a check of pipefunc's constructors or of
    `init_store` itself):
    * `parse_print` — `MapSpec.from_string` inverts `str` on the pipeline's MapSpecs (`C08_roundtrip`);
    * `spec_outputs` — the MapSpec of a function names exactly the function's outputs (`PipeFunc.__init__`);
    * `outputs_nodup` — no two functions produce the same name (`Pipeline.add`);
    * `storage_ok` — the storage argument names a class for every function mapped over inputs (`init_store` of the run
      itself raises `ValueError` otherwise). -/
structure Recorded (parse : String → Option MSpec) (fs : List MFunc) (storage : Storage) : Prop where
  parse_print : ∀ f ∈ fs, ∀ ms, f.mapspec = some ms → parse (printSpec ms) = some ms
  spec_outputs : ∀ f ∈ fs, ∀ ms, f.mapspec = some ms → ms.outputs.map (·.name) = f.outputs
  outputs_nodup : (allOutputs fs).Nodup
  storage_ok : ∀ f ∈ fs, ∀ ms, f.mapspec = some ms → ms.inputs.isEmpty = false → (storageClass storage (storeKey f)).isSome = true

theorem any_name_iff (l : List ASpec) (o : String) : (l.any fun a => decide (a.name = o)) = true ↔ o ∈ l.map (·.name) := by
  simp only [List.any_eq_true, decide_eq_true_eq, List.mem_map]

/-- the MapSpec `init_store` finds for output `o` of `f` is `f`'s own (none when `f` has none) -/
theorem find_spec (fs : List MFunc) (H2 : ∀ f ∈ fs, ∀ ms, f.mapspec = some ms → ms.outputs.map (·.name) = f.outputs)
    (hn : (allOutputs fs).Nodup) (f : MFunc) (hf : f ∈ (generations fs).flatten) (o : String) (ho : o ∈ f.outputs) :
    (((generations fs).flatten.filterMap (·.mapspec)).find? fun ms => ms.outputs.any (·.name = o)) = f.mapspec := by
  have hfs := generations_mem fs f hf
  cases hfind : ((generations fs).flatten.filterMap (·.mapspec)).find? fun ms => ms.outputs.any (·.name = o) with
  | none =>
    cases hms : f.mapspec with
    | none => rfl
    | some ms =>
      have hmem : ms ∈ (generations fs).flatten.filterMap (·.mapspec) := List.mem_filterMap.mpr ⟨f, hf, hms⟩
      have := List.find?_eq_none.mp hfind ms hmem
      have hany : (ms.outputs.any fun a => decide (a.name = o)) = true := (any_name_iff _ _).mpr (by rw [H2 f hfs ms hms]; exact ho)
      simp [hany] at this
  | some ms' =>
    obtain ⟨g, hg, hgm⟩ := List.mem_filterMap.mp (List.mem_of_find?_eq_some hfind)
    have hp := List.find?_some hfind
    have hgfs := generations_mem fs g hg
    have hog : o ∈ g.outputs := by rw [← H2 g hgfs ms' hgm]; exact (any_name_iff _ _).mp hp
    have := outputs_unique fs hn g hgfs f hfs o hog ho
    subst this
    exact hgm.symm

/-- **`agreeSlot` holds for every slot of a run**: `init_store` on the record `RunInfo.create` writes finds a file path for
    every output of a function that is called once, and for every output of a function mapped over its inputs a storage
    array of the class the run used with the shape and the mask `map_shapes` computed — the very ones the run built its own
    array with. -/
theorem agreeSlot_of_run (parse : String → Option MSpec) (fs : List MFunc) (tupled intForm : List String)
    (inputs : List (String × Val)) (user : List (String × IShape)) (storage : Storage) (version : String) (res : MapResult)
    (store : List (String × Slot)) (hrun : runMapStore fs inputs (user.map fun kv => (kv.1, kv.2.dims)) = .ok (res, store))
    (H : Recorded parse fs storage) :
    ∀ os ∈ store, agreeSlot parse (createRunInfo fs tupled intForm inputs user storage version res.shapes res.masks)
      (backendFor fs storage) os.1 os.2 = true := by
  intro os hos
  obtain ⟨f, hf, ho, hkind⟩ := runMapStore_slots fs inputs _ res store hrun os hos
  obtain ⟨o, s⟩ := os
  simp only at ho hkind
  have hfs := generations_mem fs f hf
  have hrec : ∀ ms, f.mapspec = some ms → ∀ o' ∈ f.outputs, (alookup res.shapes o').isSome = true := by
    have hsm : mapShapes fs inputs (constructInternal fs (user.map fun kv => (kv.1, kv.2.dims))) = .ok (res.shapes, res.masks) := by
      have h := hrun
      unfold runMapStore at h
      simp only [bind, Except.bind] at h
      cases hv : validateInputs fs inputs with
      | error e => simp [hv] at h
      | ok u =>
        simp only [hv] at h
        by_cases hc : (generations fs).flatten.length ≠ fs.length
        · rw [if_pos hc] at h
          simp [throw, throwThe, MonadExceptOf.throw] at h
        · simp only [hc, if_false] at h
          cases hsm : mapShapes fs inputs (constructInternal fs (user.map fun kv => (kv.1, kv.2.dims))) with
          | error e => simp [hsm] at h
          | ok sm =>
            simp only [hsm] at h
            split at h
            · cases h
            · simp only [pure, Except.pure, Except.ok.injEq, Prod.mk.injEq] at h
              obtain ⟨h1, _⟩ := h
              subst h1
              rfl
    intro ms hms o' ho'
    exact mapShapes_records fs inputs _ _ hsm f hf ms hms o' ho'
  have hspecs : mapOpt parse (createRunInfo fs tupled intForm inputs user storage version res.shapes res.masks).mapspecs =
      some ((generations fs).flatten.filterMap (·.mapspec)) :=
    mapOpt_filterMap parse (fun f : MFunc => f.mapspec) printSpec (generations fs).flatten
      (fun a ha b hb => H.parse_print a (generations_mem fs a ha) b hb)
  have hfind := find_spec fs H.spec_outputs H.outputs_nodup f hf o ho
  have hall : o ∈ (createRunInfo fs tupled intForm inputs user storage version res.shapes res.masks).allOutputNames :=
    List.mem_flatMap.mpr ⟨f, hfs, ho⟩
  have hne : f.outputs ≠ [] := by intro e; rw [e] at ho; cases ho
  rcases hkind with ⟨v, hs, hsingle⟩ | ⟨ms, h, sh, mk, cells, hms, hin, hh, hsh, hmk, hs⟩
  · -- called once: a file
    subst hs
    simp only [agreeSlot, initEntry, hspecs, bind, Option.bind, beq_iff_eq]
    rw [hfind]
    cases hms : f.mapspec with
    | none => simp only [hall, if_true]
    | some ms =>
      obtain ⟨h, hh⟩ : ∃ h, f.outputs.head? = some h := by
        cases hout : f.outputs with
        | nil => exact absurd hout hne
        | cons a _ => exact ⟨a, rfl⟩
      have hhm : h ∈ f.outputs := by
        cases hout : f.outputs with
        | nil => exact absurd hout hne
        | cons a r => rw [hout] at hh; simp only [List.head?_cons, Option.some.injEq] at hh; subst hh; simp
      obtain ⟨sh, hsh⟩ := Option.isSome_iff_exists.mp (hrec ms hms h hhm)
      have hkey := keyFor_keyed fs tupled res.shapes H.outputs_nodup f hf ms hms h hh sh hsh
      simp only [keyFor, createRunInfo, H.spec_outputs f hfs ms hms, hkey, hsingle ms hms, if_true]
      simp only [createRunInfo] at hall
      simp only [hall, if_true]
  · -- mapped over inputs: a storage array with the run's geometry and class
    subst hs
    have hprod : producer fs o = some f := producer_of_mem fs H.outputs_nodup f hfs o ho
    obtain ⟨b, hb⟩ := Option.isSome_iff_exists.mp (H.storage_ok f hfs ms hms hin)
    have hbk : backendFor fs storage o = some b := by simp only [backendFor, hprod, hb]
    have hkey := keyFor_keyed fs tupled res.shapes H.outputs_nodup f hf ms hms h hh sh hsh
    have hks := klookup_keyed fs tupled res.shapes H.outputs_nodup f hf ms hms h hh sh hsh
    have hkm := klookup_keyed fs tupled res.masks H.outputs_nodup f hf ms hms h hh mk hmk
    simp only [agreeSlot, hbk, initEntry, hspecs, bind, Option.bind, beq_iff_eq]
    rw [hfind, hms]
    simp only [keyFor, createRunInfo, H.spec_outputs f hfs ms hms, hkey, hin, Bool.false_eq_true, if_false, hks, hkm, hb]

end PF.RIC
