import PfModel.Model.HashableKeys
/-!
Calls of a memoized function whose signature takes a value positionally AND by keyword: `def f(p1, …, pn, *args, **kwargs)`
(`memoize`'s wrapper is `wrapper(*args, **kwargs)`, `pipefunc/cache.py:596-606`; the key is `to_hashable((args, kwargs))`,
`Model/HashableKeys.lean: memoKey`).

* `bindSig`     — Python's binding (`inspect.Signature.bind` + `apply_defaults`) for positional-or-keyword parameters followed
                  by an optional `*args` and an optional `**kwargs`: the effective arguments are the bound parameters, the
                  surplus positionals and the surplus keywords.
* `flatCallArg` — the layout of the seeded change C15-s3-B (`args + tuple(sorted(kwargs.items()))`, like `functools.lru_cache`
                  without its separator mark): NOT what the code does; it is here so that the collision it causes is a theorem.
-/
namespace PF.Hashable

/-- the effective arguments of a call: `(parameter, value)` in signature order, the `*args` tuple, the `**kwargs` dict in the
    order the keywords were written -/
structure Bound where
  params : List (Name × PV)
  star : List PV
  kw : List (Name × PV)

/-- Python's binding of `f(*args, **kwargs)` to `def f(ps…[, *args][, **kwargs])` (`vp` / `vk`: the signature has `*args` /
    `**kwargs`).  Positional arguments fill the parameters in order (a keyword of the same name: "multiple values", `none`);
    surplus positionals go to `*args` (without it: `none`); the remaining parameters take their keyword, else their default,
    else the call is a `TypeError` (`none`); surplus keywords go to `**kwargs` (without it: `none`). -/
def bindSig (vp vk : Bool) : List Param → List PV → List (Name × PV) → Option Bound
  | [], as, kw => if (as.isEmpty || vp) && (kw.isEmpty || vk) then some ⟨[], as, kw⟩ else none
  | p :: ps, a :: as, kw =>
    if (lookupKw p.name kw).isSome then none
    else (bindSig vp vk ps as kw).map (fun b => { b with params := (p.name, a) :: b.params })
  | p :: ps, [], kw =>
    match lookupKw p.name kw with
    | some v => (bindSig vp vk ps [] (eraseKw p.name kw)).map (fun b => { b with params := (p.name, v) :: b.params })
    | none =>
      match p.default with
      | some d => (bindSig vp vk ps [] kw).map (fun b => { b with params := (p.name, d) :: b.params })
      | none => none

/-- the value a key in the style of `functools.lru_cache` WITHOUT the separator would convert: the positionals followed by
    the keyword items (seeded change C15-s3-B; the keywords are taken in the order given — for one keyword that is the sorted
    order) -/
def flatCallArg (args : List PV) (kw : List (Name × PV)) : PV := tup (args ++ kw.map fun p => tup [strAtom p.1, p.2])

end PF.Hashable
