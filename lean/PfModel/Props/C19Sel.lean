import PfModel.Lemmas.XLabelSel
import PfModel.Props.C19
import PfModel.Props.C19Set
/-!
C19 (round 9) — the `sel` clause on the DATASET both constructors return, for variables of every rank, tied to the map run.
`C19_sel` (Props/C19) speaks about a hand-made 1-D DataArray; here `ds[o]` (`PF.XLabel.dsArray`, until now driver code), the
coordinates the dataset really has (`xarrayDataset`), and the element-by-element content of the selected slice.
-/
namespace PF.C19
open PF PF.Map PF.XLabel

/-- **An element of `v[:, …, p, …, :]` is the element of `v` at the full index** (any rank ≥ 2): the slice at position `p` of
    axis `q` exists, and for every full in-range index `F` with `F[q] = p` its element at `F` without the `q`-th entry is the
    element of `v` at `F`. -/
theorem C19_slice_elem (sh : List Nat) (elems : List Val) (q p : Nat) (h2 : 2 ≤ sh.length) :
    ∃ s, indexVal (.arr sh elems) (keyAt sh.length q p) = some s ∧
      ∀ F e, InRange sh F → F[q]? = some p → indexVal (.arr sh elems) (F.map some) = some e →
        indexVal s ((F.eraseIdx q).map some) = some e := by
  have hex : ∃ s, indexVal (.arr sh elems) (keyAt sh.length q p) = some s := by
    simp [indexVal, keyAt_length, keyAt_not_all sh.length q p h2]
  obtain ⟨s, hs⟩ := hex
  refine ⟨s, hs, ?_⟩
  intro F e hr hq he
  have hl := inRange_length sh F hr
  have hqlt : q < F.length := by
    rcases Nat.lt_or_ge q F.length with h | h
    · exact h
    · rw [List.getElem?_eq_none h] at hq; cases hq
  obtain ⟨s', hs', hel⟩ := indexVal_slice_elem sh elems (keyAt sh.length q p) F (keyAt_length _ _ _)
    (keyAt_not_all _ _ _ h2) hr (by rw [hl]; exact keyAt_agree q F p hq)
  have hss : s' = s := Option.some.inj (hs'.symm.trans hs)
  subst hss
  rw [hl, subOf_keyAt q F p hqlt] at hel
  rw [indexVal_full sh elems F hr] at he
  rw [hel]
  simp [List.getD_eq_getElem?_getD, he]

/-- **`sel` on the dataset.** In the dataset either constructor builds (`xarrayDataset`, any loader, any `load_intermediate`), for a
    variable `var` with named dimensions and a coordinate `c` OF THE DATASET that is a plain 1-D array on a dimension `a` of the
    variable: `ds[var].sel({c: xs[p]})`, for a value that occurs once up to `p`, is the variable's data — what the loader has for
    it — sliced at position `p` along `a`.  (`ds[var]` carries `c` because `c` lives on one of its dimensions; the dataset's
    coordinate names are pairwise different, so `c` is the coordinate found under its name.) -/
theorem C19_sel_dataset (eq : Val → Val → Bool) (mss : List MSpec) (inputs : List (String × Val)) (load : String → Option Val)
    (outputNames : List String) (li : Bool) (ds : Dataset) (h : xarrayDataset mss inputs load outputNames li = .ok ds)
    (var : Var) (hvar : var ∈ ds.vars) (dims : List (Option String)) (hd : var.dims = some dims)
    (c : Coord) (hc : c ∈ ds.coords) (a : String) (sh : List Nat) (xs : List Val) (hcd : c.dims = [a])
    (hcv : c.val = .plain (.arr sh xs)) (q : Nat) (hq : dims.findIdx? (· = some a) = some q)
    (p : Nat) (hp : p < xs.length) (hrefl : eq xs[p] xs[p] = true)
    (hdist : ∀ i (_ : i < xs.length), i < p → eq xs[p] xs[i] = false) :
    ∃ da, dsArray ds var = some da ∧ da.name = var.name ∧ da.dims = dims ∧ da.data = var.data ∧
      load var.name = some var.data ∧ c ∈ da.coords ∧
      sel eq da c.name xs[p] = indexVal var.data (keyAt dims.length q p) := by
  have hload := (C19_vars_sound mss inputs load outputNames li ds h var hvar).2.1
  obtain ⟨das, singles, _, _, hds⟩ := xarrayDataset_ok mss inputs load outputNames li ds h
  have hnd : (ds.coords.map (·.name)).Nodup := by rw [hds]; exact dedupCoords_nodup _ _
  have hmem : (some a) ∈ dims := by
    have := List.findIdx?_eq_some_iff_getElem.mp hq
    obtain ⟨hlt, hpa, _⟩ := this
    have : dims[q] = some a := by simpa using hpa
    exact this ▸ List.getElem_mem hlt
  let P : Coord → Bool := fun c => c.dims.all fun a => dims.contains (some a)
  have hPc : P c = true := by simp [P, hcd, hmem]
  have hcf : c ∈ ds.coords.filter P := List.mem_filter.mpr ⟨hc, hPc⟩
  have hfind := find_of_nodup (ds.coords.filter P) c (nodup_filter_names _ P hnd) hcf
  refine ⟨{ name := var.name, dims := dims, data := var.data, coords := ds.coords.filter P }, ?_, rfl, rfl, rfl, hload, hcf, ?_⟩
  · simp [dsArray, hd, P]
  · have hce : c = { name := c.name, dims := [a], val := .plain (.arr sh xs) } := by
      cases c; simp_all
    rw [hce] at hfind
    exact C19_sel_slice eq _ c.name a sh xs p q hfind hp hrefl hdist hq

/-- **Selecting by coordinate value returns the elements computed from that value — for every run, both constructors, every rank.**
    A run of the map model (`runMap`, equal to its denotation `specMap` by C01), the dataset of `xarray_dataset_from_results` or of
    `load_xarray_dataset` (`viaFolder`), a variable of rank ≥ 2 whose data is an array of that rank, a plain 1-D coordinate `c` of the
    dataset on the variable's `q`-th dimension with a value `xs[p]` that occurs once up to `p`: `ds[var].sel({c: xs[p]})` is an array
    `s`, the variable is the run's output of that name, and for every full in-range index `F` whose `q`-th entry is `p`, the element
    of `s` at `F` without its `q`-th entry is the element of the run's output at `F` — which `C19_elem` / `C01` identify as the
    function applied to the arguments selected at `F`, the argument fed by the coordinate's input being `xs[p]` (`C19_sel_arg`).
    (Rank 1: `C19_sel_dataset` gives `sel = data[p]` directly, since `keyAt 1 0 p = [p]`.) -/
theorem C19_sel_run (eq : Val → Val → Bool) (fs : List MFunc) (inputs : List (String × Val)) (ui : List (String × List Nat))
    (r : MapResult) (hrun : runMap fs inputs ui = .ok r) (viaFolder li : Bool) (ds : Dataset)
    (h : (if viaFolder then fromFolder (pipelineMapspecs fs) (effectiveInputs fs inputs) r li
          else fromResults (pipelineMapspecs fs) (effectiveInputs fs inputs) r li) = .ok ds)
    (var : Var) (hvar : var ∈ ds.vars) (dims : List (Option String)) (hd : var.dims = some dims)
    (dsh : List Nat) (elems : List Val) (hdata : var.data = .arr dsh elems) (hrank : dsh.length = dims.length) (h2 : 2 ≤ dims.length)
    (c : Coord) (hc : c ∈ ds.coords) (a : String) (sh : List Nat) (xs : List Val) (hcd : c.dims = [a])
    (hcv : c.val = .plain (.arr sh xs)) (q : Nat) (hq : dims.findIdx? (· = some a) = some q)
    (p : Nat) (hp : p < xs.length) (hrefl : eq xs[p] xs[p] = true)
    (hdist : ∀ i (_ : i < xs.length), i < p → eq xs[p] xs[i] = false) :
    specMap fs inputs ui = .ok r ∧ alookup r.outputs var.name = some var.data ∧
    ∃ da s, dsArray ds var = some da ∧ sel eq da c.name xs[p] = some s ∧
      ∀ F e, InRange dsh F → F[q]? = some p → indexVal var.data (F.map some) = some e →
        indexVal s ((F.eraseIdx q).map some) = some e := by
  have hres : fromResults (pipelineMapspecs fs) (effectiveInputs fs inputs) r li = .ok ds := by
    cases viaFolder
    · simpa using h
    · have h' : fromFolder (pipelineMapspecs fs) (effectiveInputs fs inputs) r li = .ok ds := by simpa using h
      unfold fromFolder at h'
      rw [runMap_stored_eq_outputs fs inputs ui r hrun] at h'
      exact h'
  unfold fromResults at hres
  obtain ⟨da, hda, _, _, _, hload, _, hsel⟩ := C19_sel_dataset eq _ _ _ _ li ds hres var hvar dims hd c hc a sh xs hcd hcv q hq p hp
    hrefl hdist
  obtain ⟨s, hs, hel⟩ := C19_slice_elem dsh elems q p (by omega)
  refine ⟨C19_values fs inputs ui r hrun, hload, da, s, hda, ?_, ?_⟩
  · rw [hsel, hdata, ← hrank]; exact hs
  · intro F e hr hF he
    rw [hdata] at he
    exact hel F e hr hF he

/-- **The joined coordinate: position selects.** For a joined coordinate (zipped inputs) on dimension `a`, `ds[var].isel({a: p})` is
    the variable's data sliced at `p` along `a` (and `C19_slice_elem` gives its elements); the `p`-th entry of the joined coordinate
    is the tuple of the `p`-th values of its levels (`tupleAt`), level `k` being input `names[k]` (`C19_coords_sound`). -/
theorem C19_isel_dataset (ds : Dataset) (var : Var) (dims : List (Option String)) (hd : var.dims = some dims)
    (a : String) (q p : Nat) (hq : dims.findIdx? (· = some a) = some q) :
    ∃ da, dsArray ds var = some da ∧ isel da a p = indexVal var.data (keyAt dims.length q p) := by
  refine ⟨_, by simp only [dsArray, hd]; rfl, ?_⟩
  simp [isel, hq]

/-- the `k`-th component of the `p`-th tuple of a joined coordinate is the `p`-th value of its `k`-th level -/
theorem C19_tuple_level (arrays : List Val) (p k : Nat) (sh : List Nat) (xs : List Val) (hk : arrays[k]? = some (.arr sh xs))
    (hp : p < xs.length) : ∃ es, tupleAt arrays p = .tup es ∧ es[k]? = some xs[p] := by
  refine ⟨_, rfl, ?_⟩
  rw [List.getElem?_map, hk]
  simp [hp]

/-! ### non-vacuity -/

/-- `x0[i], x1[j] -> y[i, j]` on a 2 × 3 result: the dataset, its `ds["y"]`, and `sel(x1 = 8)` = column 1 -/
def msO : MSpec := ⟨[⟨"x0", [some "i"]⟩, ⟨"x1", [some "j"]⟩], [⟨"y", [some "i", some "j"]⟩]⟩
def yv : Val := .arr [2, 3] [.int 0, .int 1, .int 2, .int 10, .int 11, .int 12]
def insO : List (String × Val) := [("x0", .arr [2] [.int 5, .int 3]), ("x1", .arr [3] [.int 7, .int 8, .int 9])]
def veq (a b : Val) : Bool := match a, b with | .int x, .int y => x == y | _, _ => false

example : (xarrayDataset [msO] insO (alookup [("y", yv)]) ["y"] true).toOption.map
    (fun ds => (ds.coords.map fun c => (c.name, c.dims), (allSel veq ds).map fun s => (s.coord, s.result.isSome))) =
    some ([("x0", ["i"]), ("x1", ["j"])], [("x0", true), ("x0", true), ("x1", true), ("x1", true), ("x1", true)]) := by decide
example : indexVal yv (keyAt 2 1 1) = some (.arr [2] [.int 1, .int 11]) := by rfl
/-- the hypotheses of `C19_slice_elem`'s inner statement: `F = [1, 1]`, `q = 1`, `p = 1` -/
example : InRange [2, 3] [1, 1] ∧ [1, 1][1]? = some 1 ∧ indexVal yv ([1, 1].map some) = some (.int 11) ∧
    indexVal (.arr [2] [.int 1, .int 11]) (([1, 1].eraseIdx 1).map some) = some (.int 11) :=
  ⟨⟨by decide, by decide, trivial⟩, rfl, rfl, rfl⟩
/-- `x0[i], x1[i] -> z[i]`: the joined coordinate, position 1 -/
example : tupleAt [.arr [2] [.int 5, .int 3], .arr [2] [.str "a", .str "b"]] 1 = .tup [.int 3, .str "b"] := by rfl

end PF.C19
