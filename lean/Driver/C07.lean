import PfModel.DriverLib
import PfModel.Model.Storage
/-! Driver for C07 (`storage.run`, `storage.normalize`). Run: `lake env lean --run Driver/C07.lean < requests.jsonl`. -/
open Lean PF PF.Drv PF.St

def getGeom (j : Json) : R Geom := do
  let g : Geom := { shape := ← listF asNat j "shape", internal := ← listF asNat j "internal", mask := ← listF asBool j "mask" }
  if decide g.WF then return g else .error "geometry: mask does not match shape/internal_shape"

def getOI (j : Json) : R (Option Int) := asOpt asInt j

/-- a key entry: an int, or `["s", start|null, stop|null, step|null]` -/
def getKE (j : Json) : R KE :=
  match j with
  | .arr _ => do
    match ← asArr j with
    | [t, a, b, c] =>
      if (← asStr t) = "s" then return .slice (← getOI a) (← getOI b) (← getOI c) else .error "slice tag"
    | _ => .error "slice expected as [\"s\", a, b, c]"
  | _ => do return .int (← asInt j)

def getOp (g : Geom) (j : Json) : R (Op Int) := do
  match ← asArr j with
  | [t, k, v] =>
    if (← asStr t) = "dump" then
      let vs ← asList asInt v
      if vs.length ≠ prod g.internal then .error "dump: the value must have prod(internal_shape) atoms"
      else return .dump (← asList getKE k) vs
    else .error "unknown ternary op"
  | [t, x] =>
    match ← asStr t with
    | "get" => return .get (← asList getKE x)
    | "to_array" => return .toArray (← asOpt asBool x)
    | "has" => return .has (← asInt x)
    | "at" => return .at (← asInt x)
    | o => .error s!"unknown op {o}"
  | [t] =>
    match ← asStr t with
    | "mask" => return .mask
    | "mask_linear" => return .maskLinear
    | "persist_reopen" => return .persistReopen
    | o => .error s!"unknown op {o}"
  | _ => .error "op expected"

def putErr : Err → Json
  | .index => jStr "IndexError"
  | .value => jStr "ValueError"
  | .missing => jStr "Missing"

def putCell (g : Geom) : Cell Int → Json
  | .masked => jStr "masked"
  | .atom v => jInt v
  | .whole el =>
    if g.internal.isEmpty then (match el with | [v] => jInt v | _ => jObj [("ill-formed-element", jList jInt el)])
    else jList jInt el

def putObs (g : Geom) : Obs Int → Json
  | .unit => jStr "ok"
  | .err e => jObj [("err", putErr e)]
  | .scalar c => jObj [("v", putCell g c)]
  | .arr s cs => jObj [("shape", jList jNat s), ("flat", jList (putCell g) cs)]
  | .bools s bs => jObj [("shape", jList jNat s), ("flat", jList jBool bs)]
  | .blist bs => jObj [("list", jList jBool bs)]
  | .bool b => jObj [("b", jBool b)]

def putNK : NK → Json
  | .idx k => jNat k
  | .slc a b c => jArr [jStr "s", jOpt jInt a, jOpt jInt b, jOpt jInt c]

def handle (m : String) (a : Json) : R Json := do
  match m with
  | "storage.run" =>
    let g ← getGeom (← fld a "geom")
    let ops ← (← asArr (← fld a "ops")).mapM (getOp g)
    let d := (runOps (dStep g) ([] : Dict Int) ops).2
    let f := (runOps (fStep g) ([] : Files Int) ops).2
    let s := (runOps (aStep g) (aEmpty : MArr Int) ops).2
    return jObj [("dict", jList (putObs g) d), ("file", jList (putObs g) f), ("spec", jList (putObs g) s)]
  | "storage.normalize" =>
    let g ← getGeom (← fld a "geom")
    let key ← listF getKE a "key"
    let fd ← boolF a "for_dump"
    let put : Except Err (List NK) → Json := fun r =>
      match r with | .ok nk => jObj [("ok", jList putNK nk)] | .error e => jObj [("err", putErr e)]
    return jObj [("fixed", put (normalizeKey g fd key)), ("pinned", put (normalizeKeyPinned g fd key))]
  | _ => .error s!"unknown entry {m}"

def main : IO Unit := loop handle
