/-
C10 (ext5): how a value travels OUT of a `NestedPipeFunc` — the part that `PF.Rw.nestBody` abstracts into "look the requested inner
output up".  The code does three things (`pipefunc/_pipefunc.py`, `pipefunc/_pipeline/_base.py`):

 1. `_PipelineAsFunc.call_full_output` runs the inner pipeline for its unique leaf with `full_output=True` and returns a dictionary
    `name -> value` of everything computed (a multi-output leaf is stored RAW under its tuple name; its single names are added with the
    leaf's own `output_picker`);
 2. `_NestedFuncWrapper.__call__` turns that dictionary into the return value of the nested function: `d[o]` for `output_name = "o"`,
    the tuple `(d[o1], ..., d[on])` for `output_name = (o1, ..., on)`;
 3. the `NestedPipeFunc`, like every `PipeFunc` with a tuple `output_name` and no picker of its own, reads one output out of that return
    value with `_default_output_picker`: `output[output_name.index(name)]`.

Also modelled: what an `output_picker` is applied to.  A primitive multi-output function returns a RAW value; with the default picker
that is a tuple in `output_name` order, with a custom picker it is opaque and only `picker(raw, name)` — `Val.pick raw name` — reads it.
`PF.Rw.outVal` records `pick (app f args) originalName` in both cases; `rawOf/applyPicker` say why that is right.
-/
import PfModel.Model.Rewrite
namespace PF.Rw.Wrap
open PF PF.Pipe PF.Rw

/-- `output_name` of a `PipeFunc`: a string or a tuple of strings (`OUTPUT_TYPE`) -/
inductive OutName
  | single (o : String)
  | tuple (os : List String)
  deriving Repr, DecidableEq

/-- `at_least_tuple(output_name)` -/
def OutName.names : OutName → List String
  | .single o => [o]
  | .tuple os => os

/-- the dictionary `call_full_output` returns, restricted to its string keys -/
abbrev RDict := List (String × Val)

/-- `d[name]` (`KeyError` = `noFunc`) -/
def getItem (rd : RDict) (o : String) : Except Err Val :=
  match alookup rd o with
  | some v => .ok v
  | none => .error (.noFunc o)

/-- `tuple(d[name] for name in names)` -/
def getItems (rd : RDict) : List String → Except Err (List Val)
  | [] => .ok []
  | o :: os =>
    match getItem rd o with
    | .error e => .error e
    | .ok v =>
      match getItems rd os with
      | .error e => .error e
      | .ok vs => .ok (v :: vs)

/-- `_NestedFuncWrapper.__call__` (`_pipefunc.py:1231-1235`): `result_dict[output_name]` for a string,
    `tuple(result_dict[name] for name in output_name)` otherwise -/
def wrapperCall (on : OutName) (rd : RDict) : Except Err Val :=
  match on with
  | .single o => getItem rd o
  | .tuple os =>
    match getItems rd os with
    | .error e => .error e
    | .ok vs => .ok (.tup vs)

/-- `_default_output_picker(output, name, output_name)` (`_pipefunc.py:1418-1420`): `output[output_name.index(name)]`.
    Anything that is not a positional sequence long enough is an error (a dict: `KeyError: 0`, an object: `TypeError`, a name
    that is not listed: `ValueError`). -/
def defaultPicker (output : Val) (name : String) (os : List String) : Except Err Val :=
  match output with
  | .tup vs =>
    match vs[os.idxOf name]? with
    | some v => .ok v
    | none => .error (.noFunc name)
  | _ => .error (.noFunc name)

/-- the value a pipeline stores for output `name` of a function WITHOUT a picker of its own whose call returned `ret`
    (`_update_all_results`, `_base.py:2059-2074`; `_pick_output`, `map/_run.py:429-433`): `ret` itself for a string `output_name`,
    the default picker's choice for a tuple -/
def readOut (on : OutName) (ret : Val) (name : String) : Except Err Val :=
  match on with
  | .single o => if name = o then .ok ret else .error (.noFunc name)
  | .tuple os => defaultPicker ret name os

/-- output `name` of a `NestedPipeFunc` with `_output_name = on` whose inner pipeline returned the dictionary `rd` -/
def nestOut (on : OutName) (rd : RDict) (name : String) : Except Err Val :=
  match wrapperCall on rd with
  | .error e => .error e
  | .ok ret => readOut on ret name

/-- `call_full_output` (`_base.py:1976-2004`): the inner pipeline is run for its leaf; the dictionary holds every inner output that
    was computed (all of them: every nested function is an ancestor of the unique leaf) -/
def fullOutput (S : List RFunc) (leaf : String) (args : List (String × Val)) : Except Err RDict :=
  match eval S args (fuelOf S) leaf with
  | .error e => .error e
  | .ok _ => .ok ((allOutputs S).filterMap fun o =>
      match eval S args (fuelOf S) o with
      | .ok v => some (o, v)
      | .error _ => none)

/-- one output of one call of the nested function, the way the code computes it: run, build the dictionary, pack, pick -/
def nestCall (S : List RFunc) (on : OutName) (leaf : String) (args : List (String × Val)) (name : String) : Except Err Val :=
  match fullOutput S leaf args with
  | .error e => .error e
  | .ok rd => nestOut on rd name

/-! ### what an `output_picker` is applied to -/

/-- does the function have a picker of its own (`PipeFunc(..., output_picker=...)`) -/
inductive Picker
  | default
  | custom
  deriving Repr, DecidableEq

/-- the RAW return value of a primitive function with outputs `os` called with `args`: a single value; with the default picker a tuple
    in `output_name` order (each component is by definition what the picker finds there); with a custom picker an opaque value -/
def rawOf (pk : Picker) (fname : String) (os : List String) (args : List (String × Val)) : Val :=
  match os, pk with
  | [_], _ => .app fname args
  | _, .default => .tup (os.map fun o => .pick (.app fname args) o)
  | _, .custom => .app fname args

/-- `func.output_picker(raw, name)` for a multi-output function, `name` an ORIGINAL output name -/
def applyPicker (pk : Picker) (os : List String) (raw : Val) (name : String) : Except Err Val :=
  match pk with
  | .default => defaultPicker raw name os
  | .custom => .ok (.pick raw name)

/-- the seeded variant C10-s3-A of `_NestedFuncWrapper.__call__`: "if the output name is itself a key of the dictionary, return that
    entry" — for a tuple name the entry is the RAW return value `raw` of the leaf whose `output_name` is `leafOut` -/
def wrapperCallSeeded (on : OutName) (rd : RDict) (leafOut : OutName) (raw : Val) : Except Err Val :=
  match on with
  | .single o => getItem rd o
  | .tuple os => if leafOut = .tuple os then .ok raw else wrapperCall on rd

end PF.Rw.Wrap

namespace PF.Rw.Wrap
open PF PF.Pipe PF.Rw

/-- output `c` (a CURRENT name) of a `NestedPipeFunc` whose outputs were renamed afterwards (`update_renames`, `update_scope`):
    the wrapper still packs by the inner names `orig` (`_output_name`), the default picker reads positionally by the current
    names `cur` (`output_name`, renamed position by position: `_rename_output_name`) -/
def nestOutCur (cur orig : List String) (rd : RDict) (c : String) : Except Err Val :=
  match wrapperCall (.tuple orig) rd with
  | .error e => .error e
  | .ok ret => defaultPicker ret c cur

end PF.Rw.Wrap
