import PfModel.Lemmas.MapWhole
import PfModel.Lemmas.XLabel
/-!
C01 at the level of a WHOLE run — the clauses "returns (and stores) for each output exactly the array that the MapSpec index notation
denotes: output element [idx] is the function applied to each mapped input sliced at idx … and functions without a MapSpec are called
once on whole arrays", stated about the result `r` of `runMap` itself.

Until now the denotation was carried per function with ABSTRACT argument lists (`C01_func`, `C01_stored`: `opArray f sh mk args o =
denoteArray f sh mk args o` for any `args`) and for the run only as `runMap = specMap` (`C01_map_eq_denotation`), where `specMap` is "the
same plumbing with `denoteArray`"; returned vs stored was proved for the NAMES only (`C01_returned_names`: `akeys r.stored = akeys
r.outputs`).  Here the plumbing is opened:

* `C01_stored_eq_returned` — what `load_outputs` reads back IS the returned dictionary (`r.stored = r.outputs`), no hypothesis: the rank
  hypothesis of `C01_stored` is discharged by the check `run_map` itself makes;
* `C01_run_denotes` — every function of the pipeline is described by `FuncDenotes` in an environment made of the given inputs and a
  prefix of the returned outputs;
* `C01_element` — the element of a mapped output at every full index, read with NumPy indexing out of the RETURNED (= stored) array;
* `C01_unmapped_whole` — the other functions.
No definition is new except the predicate `FuncDenotes` (Lemmas/MapWhole.lean), which only packages existing model functions.
-/
namespace PF.C01
open PF PF.Map

/-- **Returned = stored, for the whole run.**  Whenever the model of `Pipeline.map` answers, the arrays read back from the store
    (`load_outputs`, `StorageBase.to_array()`) are, name by name and in the same order, the arrays of the returned dictionary.
    No hypothesis on the request. -/
theorem C01_stored_eq_returned (fs : List MFunc) (inputs : List (String × Val)) (ui : List (String × List Nat)) (r : MapResult)
    (h : runMap fs inputs ui = .ok r) : r.stored = r.outputs :=
  (runMapWith_whole opArray faithful_op fs inputs ui r h).1

/-- the same for the specification -/
theorem C01_stored_eq_returned_spec (fs : List MFunc) (inputs : List (String × Val)) (ui : List (String × List Nat)) (r : MapResult)
    (h : specMap fs inputs ui = .ok r) : r.stored = r.outputs :=
  (runMapWith_whole denoteArray faithful_denote fs inputs ui r h).1

/-- **Every function of an answered run is denoted.**  For every function `f` of the pipeline there is the environment it ran in —
    the inputs of the request and a store that reads back as a PREFIX of the returned dictionary (the outputs of earlier generations) —
    such that `FuncDenotes` holds: a function whose MapSpec has inputs gets, per external linear index, the arguments `_select_kwargs`
    selects from that environment, and each of its outputs is the denoted array over them (shape and mask from `RunInfo`, of equal
    rank); every other function is called once with every parameter whole.  Those outputs are entries of the returned dictionary
    and of the store.  No hypothesis on the request. -/
theorem C01_run_denotes (fs : List MFunc) (inputs : List (String × Val)) (ui : List (String × List Nat)) (r : MapResult)
    (h : runMap fs inputs ui = .ok r) :
    ∀ f ∈ fs, ∃ env outs, env.inputs = inputs ∧ (∃ suf, r.outputs = slotVals env.store ++ suf) ∧
      FuncDenotes fs r.shapes r.masks env f outs ∧ ∀ p ∈ outs, p ∈ r.outputs ∧ p ∈ r.stored := by
  obtain ⟨hst, hall⟩ := runMapWith_whole opArray faithful_op fs inputs ui r h
  intro f hf
  obtain ⟨env, outs, a, b, c, d⟩ := hall f hf
  exact ⟨env, outs, a, b, c, fun p hp => ⟨d p hp, by rw [hst]; exact d p hp⟩⟩

/-- **Output element [idx] is the function applied to each mapped input sliced at idx** — about the returned and stored arrays of a
    whole run.  For a function `f` of the pipeline whose MapSpec `ms` has inputs: there are the environment it ran in, the shape `sh`
    and mask `mk` that `RunInfo` records for it (equal rank), and one argument list `args li` per external linear index `li`, namely
    what `_select_kwargs` selects at the key of `li` (what that is parameter by parameter: `C01_select`, `C01_input_key`), such that
    for EVERY output `o` of `f` the run returns and stores an array `v` of shape `sh` whose element at every full index `F` inside the
    shape is `f` applied to the arguments of the external part of `F`, projected at the internal part of `F`
    (`elemAt`: the value itself when there is no internal axis).  Nothing permuted, nothing missing, no other shape. -/
theorem C01_element (fs : List MFunc) (inputs : List (String × Val)) (ui : List (String × List Nat)) (r : MapResult)
    (h : runMap fs inputs ui = .ok r) (f : MFunc) (hf : f ∈ fs) (ms : MSpec) (hms : f.mapspec = some ms)
    (hin : ms.inputs.isEmpty = false) :
    ∃ env o0 sh mk, ∃ args : Nat → List (String × Val),
      env.inputs = inputs ∧ (∃ suf, r.outputs = slotVals env.store ++ suf) ∧
      f.outputs.head? = some o0 ∧ alookup r.shapes o0 = some sh ∧ alookup r.masks o0 = some mk ∧ sh.length = mk.length ∧
      (∀ li, li < prod (extOf mk sh) → selectArgs fs env f ms (shapeToKey (extOf mk sh) li) = .ok (args li)) ∧
      ∀ o ∈ f.outputs, ∃ v, (o, v) ∈ r.outputs ∧ (o, v) ∈ r.stored ∧ shapeOf v = some sh ∧
        ∀ F, InRange sh F → indexVal v (F.map some) =
          some (elemAt mk (outVal f (args (ravel (extOf mk sh) (extOf mk F))) o) (intOf mk F)) := by
  obtain ⟨env, outs, a, b, c, d⟩ := C01_run_denotes fs inputs ui r h f hf
  rcases c with ⟨ms', hms', _, o0, sh, mk, ho0, hsh, hmk, hrank, args, hargs, houts⟩ | ⟨hno, _⟩
  · rw [hms] at hms'; cases hms'
    refine ⟨env, o0, sh, mk, args, a, b, ho0, hsh, hmk, hrank, hargs, ?_⟩
    intro o ho
    have hmem : (o, denoteArray f sh mk args o) ∈ outs := by
      rw [houts]; exact List.mem_map.mpr ⟨o, ho, rfl⟩
    refine ⟨_, (d _ hmem).1, (d _ hmem).2, rfl, ?_⟩
    intro F hF
    exact XLabel.denote_at f sh mk args o F hF
  · rw [hno ms hms] at hin; cases hin

/-- **Functions without a MapSpec (or with an input-free one) in a whole run**: called on whole values of the environment, every
    output returned and stored as the function's value. -/
theorem C01_unmapped_whole (fs : List MFunc) (inputs : List (String × Val)) (ui : List (String × List Nat)) (r : MapResult)
    (h : runMap fs inputs ui = .ok r) (f : MFunc) (hf : f ∈ fs) (hno : ∀ ms, f.mapspec = some ms → ms.inputs.isEmpty = true) :
    ∃ env args, env.inputs = inputs ∧ (∃ suf, r.outputs = slotVals env.store ++ suf) ∧
      (f.params.mapM fun (p, orig) => do return (orig, ← argWhole fs env f p)) = .ok args ∧
      ∀ o ∈ f.outputs, (o, outVal f args o) ∈ r.outputs ∧ (o, outVal f args o) ∈ r.stored := by
  obtain ⟨env, outs, a, b, c, d⟩ := C01_run_denotes fs inputs ui r h f hf
  rcases c with ⟨ms', hms', hne, _⟩ | ⟨_, args, hargs, houts⟩
  · rw [hno ms' hms'] at hne; cases hne
  · refine ⟨env, args, a, b, hargs, ?_⟩
    intro o ho
    exact d _ (by rw [houts]; exact List.mem_map.mpr ⟨o, ho, rfl⟩)

/-! ### non-vacuity: `x[i], u[i], w[j] -> y[j, k, i]`, `y[j, :, :] -> z[j]`, `z -> s` on 3 / 3 / 2 elements -/

section Examples
open WholeEx

/-- the request is answered … -/
example : ∃ r, runMap p1 in1 [] = .ok r := never_refused_with opArray p1 in1 [] (by decide)
/-- … with a non-trivial shape table (internal axis in the middle) and three stored arrays -/
example : (runMap p1 in1 []).toOption.map (fun r => (r.shapes, r.masks, akeys r.stored)) =
    some ([("x", [3]), ("u", [3]), ("w", [2]), ("y", [2, 2, 3]), ("z", [2])],
          [("x", [true]), ("u", [true]), ("w", [true]), ("y", [true, false, true]), ("z", [true])], ["y", "z", "s"]) := by decide

example : ∃ r, runMap p1 in1 [] = .ok r ∧ r.stored = r.outputs := by
  obtain ⟨r, h⟩ := never_refused_with opArray p1 in1 [] (by decide)
  exact ⟨r, h, C01_stored_eq_returned _ _ _ r h⟩

example : ∃ r, specMap p1 in1 [] = .ok r ∧ r.stored = r.outputs := by
  obtain ⟨r, h⟩ := never_refused_with denoteArray p1 in1 [] (by decide)
  exact ⟨r, h, C01_stored_eq_returned_spec _ _ _ r h⟩

/-- the hypotheses of `C01_element` hold for the mapped function `f` (12 elements, 6 calls) … -/
example : ∃ r, runMap p1 in1 [] = .ok r ∧ fY ∈ p1 ∧ fY.mapspec = some msY ∧ msY.inputs.isEmpty = false := by
  obtain ⟨r, h⟩ := never_refused_with opArray p1 in1 [] (by decide)
  exact ⟨r, h, List.Mem.tail _ (List.Mem.head _), rfl, rfl⟩

/-- … and of `C01_unmapped_whole` for `h` (no MapSpec) -/
example : ∃ r, runMap p1 in1 [] = .ok r ∧ fS ∈ p1 ∧ ∀ ms, fS.mapspec = some ms → ms.inputs.isEmpty = true := by
  obtain ⟨r, h⟩ := never_refused_with opArray p1 in1 [] (by decide)
  exact ⟨r, h, List.Mem.head _, fun ms hms => by cases hms⟩

end Examples

end PF.C01
