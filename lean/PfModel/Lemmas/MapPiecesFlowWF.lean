import PfModel.Lemmas.MapPiecesFlowTbl
import PfModel.Lemmas.MapPiecesInternal
/-!
C06, round 3 (item 2) — ingredients for deriving `flowWF` (Model/MapPiecesFlow.lean) from the validity of the request:
the mask `MapSpec.shape` records (`goTot_mask`), `posOK` from position-wise facts (`posOK_intro`), what C01's `axesOK` says
position by position (`axesOK_elim`), and the positional axis names `Pipeline.mapspec_axes` (`mapspecAxes`) gives an array whose
producer names every axis, on a pipeline with consistent axes (`axisAt_producer`, `mapspecAxes_getElem`), hence which axes
`_reduced_axes` (`reducedAxes`) contains (`reduced_whole`, `reduced_partial`).
-/
namespace PF.Pieces
open PF PF.Map PF.C01

/-! ### masks -/

theorem idxOf_eq_none_iff (l : List (Option String)) (n : String) : idxOf l n = none ↔ n ∉ l.filterMap id := by
  constructor
  · intro h hm
    unfold idxOf at h
    rw [List.findIdx?_eq_none_iff] at h
    obtain ⟨x, hx, hxe⟩ := List.mem_filterMap.mp hm
    simp only [id] at hxe
    subst hxe
    have := h _ hx
    simp at this
  · exact idxOf_none l n

theorem outDims_nil_iff (ms : MSpec) (S : List (String × List Nat)) (ix : String) : outDims ms S ix = [] ↔ ix ∉ ms.inputIndices := by
  unfold outDims MSpec.inputIndices
  rw [List.filterMap_eq_nil_iff]
  constructor
  · intro h hm
    obtain ⟨a, ha, hm⟩ := List.mem_flatMap.mp hm
    have := h a ha
    cases hi : idxOf a.axes ix with
    | none => exact (idxOf_eq_none_iff a.axes ix).mp hi hm
    | some q => simp [hi] at this
  · intro h a ha
    have : ix ∉ a.axes.filterMap id := fun hm => h (List.mem_flatMap.mpr ⟨a, ha, hm⟩)
    rw [(idxOf_eq_none_iff a.axes ix).mpr this]

/-- the mask `MapSpec.shape` gives: `true` exactly at the output indices some input carries; shape and mask have the rank of
    the output -/
theorem goTot_mask (ms : MSpec) (S : List (String × List Nat)) (ish : List Nat) : ∀ (axes : List String) (k : Nat),
    (goTot ms S ish axes k).2 = axes.map (fun ix => ms.inputIndices.contains ix) ∧ (goTot ms S ish axes k).1.length = axes.length := by
  intro axes
  induction axes with
  | nil => intro k; simp [goTot]
  | cons ix rest ih =>
    intro k
    simp only [goTot]
    cases hd : outDims ms S ix with
    | nil =>
      have hn := (outDims_nil_iff ms S ix).mp hd
      simp only [List.map_cons, List.length_cons, (ih (k + 1)).1, (ih (k + 1)).2, List.contains_eq_mem, hn, decide_false, and_self]
    | cons d ds =>
      have hn : ix ∈ ms.inputIndices := by
        apply Classical.byContradiction
        intro h
        rw [(outDims_nil_iff ms S ix).mpr h] at hd
        cases hd
      simp only [List.map_cons, List.length_cons, (ih k).1, (ih k).2, List.contains_eq_mem, hn, decide_true, and_self]

theorem extOf_map_filter {α} (p : α → Bool) : ∀ l : List α, extOf (l.map p) l = l.filter p := by
  intro l
  induction l with
  | nil => rfl
  | cons a l ih =>
    simp only [List.map_cons, List.filter_cons]
    cases h : p a <;> simp [extOf, ih]

theorem mem_extOf {α} : ∀ (m : List Bool) (l : List α) (x : α), x ∈ extOf m l → x ∈ l
  | [], _, _, h => by simp [extOf] at h
  | _ :: _, [], _, h => by simp [extOf] at h
  | true :: m, a :: l, x, h => by
    simp only [extOf, List.mem_cons] at h ⊢
    rcases h with h | h
    · exact Or.inl h
    · exact Or.inr (mem_extOf m l x h)
  | false :: m, a :: l, x, h => by
    simp only [extOf] at h
    exact List.mem_cons_of_mem _ (mem_extOf m l x h)

/-! ### `posOK`, position by position -/

theorem posOK_intro (fx : List (String × Sel)) (ext : List String) (es : List Nat) :
    ∀ (m : List Bool) (ns : List String) (ax : List (Option String)) (sh : List Nat),
      m.length = ns.length → ns.length = ax.length → ax.length = sh.length →
      (∀ (i : Nat) x, ns[i]? = some x → ax[i]? = some none → isFixed fx x = false) →
      (∀ (i : Nat) x n d, ns[i]? = some x → ax[i]? = some (some n) → sh[i]? = some d →
        (∃ r, ext.findIdx? (· = n) = some r ∧ es[r]? = some d) ∧ n = x) →
      posOK fx ext es m ns ax sh = true := by
  intro m
  induction m with
  | nil =>
    intro ns ax sh h1 h2 h3 _ _
    cases ns with
    | cons _ _ => simp at h1
    | nil =>
      cases ax with
      | cons _ _ => simp at h2
      | nil =>
        cases sh with
        | cons _ _ => simp at h3
        | nil => rfl
  | cons b m ih =>
    intro ns ax sh h1 h2 h3 hn hs
    cases ns with
    | nil => simp at h1
    | cons x ns =>
      cases ax with
      | nil => simp at h2
      | cons a ax =>
        cases sh with
        | nil => simp at h3
        | cons d sh =>
          have htail : posOK fx ext es m ns ax sh = true := by
            apply ih ns ax sh (by simpa using h1) (by simpa using h2) (by simpa using h3)
            · intro i y hy ha
              exact hn (i + 1) y (by simpa using hy) (by simpa using ha)
            · intro i y n d' hy ha hd
              exact hs (i + 1) y n d' (by simpa using hy) (by simpa using ha) (by simpa using hd)
          cases a with
          | none =>
            simp only [posOK, htail, Bool.and_true, Bool.or_eq_true, Bool.not_eq_eq_eq_not, Bool.not_true]
            exact Or.inr (hn 0 x rfl rfl)
          | some n =>
            obtain ⟨⟨r, hr, her⟩, hnx⟩ := hs 0 x n d rfl rfl rfl
            simp only [posOK, htail, Bool.and_true, hr]
            have hext : ext[r]? = some n := by
              obtain ⟨hlt, hp, _⟩ := List.findIdx?_eq_some_iff_getElem.mp hr
              rw [List.getElem?_eq_getElem hlt]
              simp only [decide_eq_true_eq] at hp
              rw [hp]
            simp [hext, her, hnx]

/-- what C01's `axesOK` (clause 8 of `Conforms`) says, position by position -/
theorem axesOK_elim (ms : MSpec) (es : List Nat) : ∀ (ax : List (Option String)) (shp : List Nat), axesOK ms es ax shp = true →
    ax.length = shp.length ∧ ∀ (i : Nat) n d, ax[i]? = some (some n) → shp[i]? = some d →
      ∃ q, ms.externalIndices.findIdx? (· = n) = some q ∧ es[q]? = some d := by
  intro ax
  induction ax with
  | nil =>
    intro shp h
    cases shp with
    | nil => exact ⟨rfl, fun i n d h' => by simp at h'⟩
    | cons _ _ => simp [axesOK] at h
  | cons a ax ih =>
    intro shp h
    cases shp with
    | nil => cases a <;> simp [axesOK] at h
    | cons d shp =>
      cases a with
      | none =>
        simp only [axesOK] at h
        obtain ⟨h1, h2⟩ := ih shp h
        refine ⟨by simp [h1], ?_⟩
        intro i n d' ha hd
        cases i with
        | zero => simp at ha
        | succ i => exact h2 i n d' (by simpa using ha) (by simpa using hd)
      | some n0 =>
        simp only [axesOK, Bool.and_eq_true] at h
        obtain ⟨hh, ht⟩ := h
        obtain ⟨h1, h2⟩ := ih shp ht
        refine ⟨by simp [h1], ?_⟩
        intro i n d' ha hd
        cases i with
        | zero =>
          simp only [List.getElem?_cons_zero, Option.some.injEq] at ha hd
          subst ha; subst hd
          cases hq : ms.externalIndices.findIdx? (· = n0) with
          | none => simp [hq] at hh
          | some q =>
            simp only [hq, Bool.and_eq_true, decide_eq_true_eq, beq_iff_eq] at hh
            refine ⟨q, rfl, ?_⟩
            rw [List.getElem?_eq_getElem hh.1]
            have := hh.2
            simp only [List.getD, List.getElem?_eq_getElem hh.1, Option.getD_some] at this
            rw [this]
        | succ i => exact h2 i n d' (by simpa using ha) (by simpa using hd)

/-! ### `mapspec_axes` of an array whose producer names every axis -/

theorem findSome_const {α β} (F : α → Option β) (v : β) : ∀ l : List α, (∀ b ∈ l, F b = none ∨ F b = some v) →
    (∃ b ∈ l, F b = some v) → l.findSome? F = some v := by
  intro l
  induction l with
  | nil => intro _ h; obtain ⟨b, hb, _⟩ := h; cases hb
  | cons a l ih =>
    intro hall hex
    rw [List.findSome?_cons]
    rcases hall a List.mem_cons_self with h | h
    · rw [h]
      apply ih (fun b hb => hall b (List.mem_cons_of_mem _ hb))
      obtain ⟨b, hb, hbv⟩ := hex
      rcases List.mem_cons.mp hb with rfl | hb'
      · rw [h] at hbv; cases hbv
      · exact ⟨b, hb', hbv⟩
    · rw [h]

theorem axesAgree_elim (a b : List (Option String)) (h : axesAgree a b = true) :
    a.length = b.length ∧ ∀ (i : Nat) (x y : String), a[i]? = some (some x) → b[i]? = some (some y) → x = y := by
  unfold axesAgree at h
  simp only [Bool.and_eq_true, beq_iff_eq, List.all_eq_true] at h
  refine ⟨h.1, ?_⟩
  intro i x y ha hb
  have hmem : (some x, some y) ∈ a.zip b := by
    rw [List.mem_iff_getElem?]
    exact ⟨i, by rw [List.getElem?_zip_eq_some]; exact ⟨ha, hb⟩⟩
  have := h.2 _ hmem
  simpa using this

theorem specsOf_sub_allSpecs (fs : List MFunc) (a : ASpec) (h : a ∈ specsOf fs) : a ∈ allSpecs fs := by
  unfold specsOf at h
  obtain ⟨f, hf, ha⟩ := List.mem_flatMap.mp h
  exact List.mem_flatMap.mpr ⟨f, flow_mem_layers_flatten fs _ _ _ f hf, ha⟩

/-- on a pipeline with consistent axes the positional name `mapspec_axes` finds for an axis of an array is the name its
    producer (which names every output axis) gives it -/
theorem axisAt_producer (fs : List MFunc) (hac : acyclic fs = true) (hca : consistentAxes fs = true) (f : MFunc) (hf : f ∈ fs)
    (ms : MSpec) (hms : f.mapspec = some ms) (op : ASpec) (hop : op ∈ ms.outputs) (i : Nat) (x : String)
    (hx : op.axes[i]? = some (some x)) : axisAt (specsOf fs) op.name i = some x := by
  unfold axisAt
  have hopS : op ∈ specsOf fs := by
    unfold specsOf
    refine List.mem_flatMap.mpr ⟨f, PF.Validate.mem_flatten_of_acyclic fs hac f hf, ?_⟩
    rw [hms]
    exact List.mem_append_right _ hop
  have hopA := specsOf_sub_allSpecs fs op hopS
  apply findSome_const
  · intro b hb
    obtain ⟨hbS, hbn⟩ := List.mem_filter.mp hb
    simp only [decide_eq_true_eq] at hbn
    have hbA := specsOf_sub_allSpecs fs b hbS
    have hag := List.all_eq_true.mp (List.all_eq_true.mp hca b hbA) op hopA
    simp only [Bool.or_eq_true, bne_iff_ne, ne_eq] at hag
    have hag := hag.resolve_left (fun h => h hbn)
    obtain ⟨_, hpt⟩ := axesAgree_elim _ _ hag
    cases hbi : b.axes[i]? with
    | none => left; simp [List.getD, hbi]
    | some ob =>
      cases ob with
      | none => left; simp [List.getD, hbi]
      | some y => right; simp [List.getD, hbi, hpt i y x hbi hx]
  · exact ⟨op, List.mem_filter.mpr ⟨hopS, by simp⟩, by simp [List.getD, hx]⟩

theorem alookup_dep_map {β} (F : String → β) (l : List String) (p : String) :
    alookup (l.map fun n => (n, F n)) p = if p ∈ l then some (F p) else none := by
  induction l with
  | nil => simp [alookup]
  | cons a l ih =>
    simp only [List.map_cons, alookup, List.mem_cons]
    by_cases h : a = p
    · simp [h]
    · rw [if_neg h, ih]
      have : (p = a ∨ p ∈ l) ↔ p ∈ l := ⟨fun h' => h'.resolve_left (fun e => h e.symm), Or.inr⟩
      simp only [this]

theorem le_foldl_max : ∀ (l : List Nat) (a x : Nat), (x ≤ a ∨ x ∈ l) → x ≤ l.foldl max a := by
  intro l
  induction l with
  | nil => intro a x h; rcases h with h | h; exact h; cases h
  | cons y l ih =>
    intro a x h
    rw [List.foldl_cons]
    apply ih
    rcases h with h | h
    · exact Or.inl (by omega)
    · rcases List.mem_cons.mp h with rfl | h
      · exact Or.inl (by omega)
      · exact Or.inr h

/-- … so the entry of `mapspec_axes` for that array carries the producer's name at every position -/
theorem mapspecAxes_getElem (fs : List MFunc) (hac : acyclic fs = true) (hca : consistentAxes fs = true) (f : MFunc) (hf : f ∈ fs)
    (ms : MSpec) (hms : f.mapspec = some ms) (op : ASpec) (hop : op ∈ ms.outputs) (i : Nat) (x : String)
    (hx : op.axes[i]? = some (some x)) : ((alookup (mapspecAxes fs) op.name).getD [])[i]? = some (some x) := by
  have hopS : op ∈ specsOf fs := by
    unfold specsOf
    refine List.mem_flatMap.mpr ⟨f, PF.Validate.mem_flatten_of_acyclic fs hac f hf, ?_⟩
    rw [hms]
    exact List.mem_append_right _ hop
  unfold mapspecAxes
  simp only []
  rw [alookup_dep_map (fun n => (List.range (rankOf (specsOf fs) n)).map (axisAt (specsOf fs) n))]
  have hmem : op.name ∈ ((specsOf fs).map (·.name)).eraseDups := by
    rw [List.mem_eraseDups]
    exact List.mem_map.mpr ⟨op, hopS, rfl⟩
  rw [if_pos hmem]
  simp only [Option.getD_some]
  have hi : i < op.axes.length := by
    apply Classical.byContradiction
    intro h
    rw [List.getElem?_eq_none (by omega)] at hx
    cases hx
  have hrank : i < rankOf (specsOf fs) op.name := by
    unfold rankOf
    have : op.axes.length ≤ (((specsOf fs).filter (·.name = op.name)).map (·.axes.length)).foldl max 0 := by
      apply le_foldl_max
      right
      exact List.mem_map.mpr ⟨op, List.mem_filter.mpr ⟨hopS, by simp⟩, rfl⟩
    omega
  rw [List.getElem?_map, List.getElem?_range hrank]
  simp only [Option.map_some]
  rw [axisAt_producer fs hac hca f hf ms hms op hop i x hx]

/-! ### which axes `_reduced_axes` contains -/

theorem mem_zip_of_getElem? {α β} : ∀ (l1 : List α) (l2 : List β) (i : Nat) (a : α) (b : β),
    l1[i]? = some a → l2[i]? = some b → (a, b) ∈ l1.zip l2 := by
  intro l1 l2 i a b h1 h2
  rw [List.mem_iff_getElem?]
  exact ⟨i, by rw [List.getElem?_zip_eq_some]; exact ⟨h1, h2⟩⟩

/-- a consumer that takes the array whole reduces every named axis of it -/
theorem reduced_whole (g : MFunc) (p : String) (ax : List (Option String)) (hp : g.params.any (·.1 = p) = true)
    (hw : g.mapspec = none ∨ ∃ ms, g.mapspec = some ms ∧ ms.inputSpec p = none) (i : Nat) (x : String) (hx : ax[i]? = some (some x)) :
    x ∈ reducedBy g p ax := by
  unfold reducedBy
  rw [if_pos hp]
  have hm : x ∈ ax.filterMap id := List.mem_filterMap.mpr ⟨some x, List.mem_of_getElem? hx, rfl⟩
  rcases hw with h | ⟨ms, h, hs⟩
  · rw [h]; exact hm
  · rw [h]; simp only [hs]; exact hm

/-- a consumer whose MapSpec slices the array with `:` at position `i` reduces the axis at that position -/
theorem reduced_partial (g : MFunc) (p : String) (ax : List (Option String)) (hp : g.params.any (·.1 = p) = true) (ms : MSpec)
    (hms : g.mapspec = some ms) (a : ASpec) (ha : ms.inputSpec p = some a) (i : Nat) (x : String) (hx : ax[i]? = some (some x))
    (hn : a.axes[i]? = some none) : x ∈ reducedBy g p ax := by
  unfold reducedBy
  rw [if_pos hp, hms]
  simp only [ha]
  exact List.mem_filterMap.mpr ⟨(some x, none), mem_zip_of_getElem? _ _ i _ _ hx hn, by simp⟩

theorem mem_reducedAxes (fs : List MFunc) (axes : List (String × List (Option String))) (p : String) (hp : p ∈ mapspecNames fs)
    (g : MFunc) (hg : g ∈ fs) (x : String) (hx : x ∈ reducedBy g p ((alookup axes p).getD [])) : x ∈ reducedAxes fs axes := by
  unfold reducedAxes
  exact List.mem_flatMap.mpr ⟨p, hp, List.mem_flatMap.mpr ⟨g, hg, hx⟩⟩

theorem isFixed_mem (fx : List (String × Sel)) (x : String) (h : isFixed fx x = true) : ∃ kv ∈ fx, kv.1 = x := by
  unfold isFixed at h
  induction fx with
  | nil => simp [alookup] at h
  | cons kv r ih =>
    obtain ⟨k, v⟩ := kv
    simp only [alookup] at h
    by_cases hk : k = x
    · exact ⟨(k, v), List.mem_cons_self, hk⟩
    · rw [if_neg hk] at h
      obtain ⟨kv, hkv, e⟩ := ih h
      exact ⟨kv, List.mem_cons_of_mem _ hkv, e⟩

end PF.Pieces
