import PfModel.Props.C05Par
import PfModel.Lemmas.ResumeHist
import PfModel.Lemmas.ResumeAdditive
/-!
C05 over a *sequence* of interruptions: "elements whose results were completely stored before the interruption are not
recomputed" has to hold for what was stored before ANY of the interruptions, not only for what the folder holds when the last
run starts.  `C05_resume` alone does not say that: its invariant `Good` lets a file be absent at any time, so a resumed run that
first removed a stored file (and was killed before it put it back) would keep `Good` — and make the next run redo stored work.
The missing fact is monotonicity (`C05_resume_keeps`: nothing stored is ever lost at any crash point); this file draws the
consequences for histories.
-/
namespace PF.C05
open PF PF.Map PF.ResumeFS

/-- **A stored result survives every crash point of every resumed run** (repaired protocol, any storage mix, any raising
    call): a non-temporary file that exists in a folder satisfying the invariant exists after any prefix of the events of the
    run started on that folder, is complete, and holds a right value (what the uninterrupted run stores there) — never absent,
    never partial, never stale. -/
theorem C05_stored_kept (cfg : Cfg) (hl : cfg.legacy = false)
    (fsd : List MFunc) (inputs : List (String × Val)) (ui : List (String × List Nat)) (r0 : MapResult)
    (h0 : runMap fsd inputs ui = .ok r0) (hnd : ((freshSlots fsd inputs ui).map (·.1)).Nodup)
    (fs : FS) (hg : Good fsd inputs ui fs) (k : Nat) (p : Path) (hp : p.isTmp = false) (hs : (fs.files p).isSome) :
    ∃ v, (crashAt fs (runOn cfg fs fsd inputs ui).evs k).files p = some (.complete v) ∧ rightW (freshSlots fsd inputs ui) p v := by
  obtain ⟨a, _, _⟩ := C05_resume_keeps cfg hl fsd inputs ui r0 h0 hnd fs hg
  obtain ⟨⟨hinv, _⟩, hmono⟩ := a k
  have hsome := hmono p hp hs
  rcases hinv p hp with hnone | ⟨v, hv, hw⟩
  · rw [hnone] at hsome; cases hsome
  · exact ⟨v, hv, hw⟩

/-- the same for whole elements: what counts as stored (`doneInC`, for any storage configuration `c'`) when the run starts
    counts as stored at every crash point of the run -/
theorem C05_done_kept (cfg : Cfg) (hl : cfg.legacy = false)
    (fsd : List MFunc) (inputs : List (String × Val)) (ui : List (String × List Nat)) (r0 : MapResult)
    (h0 : runMap fsd inputs ui = .ok r0) (hnd : ((freshSlots fsd inputs ui).map (·.1)).Nodup)
    (fs : FS) (hg : Good fsd inputs ui fs) (k : Nat) (c' : Cfg) (f : MFunc) (li : Nat) (hd : doneInC c' fs f li = true) :
    doneInC c' (crashAt fs (runOn cfg fs fsd inputs ui).evs k) f li = true := by
  obtain ⟨a, _, _⟩ := C05_resume_keeps cfg hl fsd inputs ui r0 h0 hnd fs hg
  cases hc : doneInC c' (crashAt fs (runOn cfg fs fsd inputs ui).evs k) f li with
  | true => rfl
  | false => rw [doneInC_mono c' fs _ f li (a k).2 hc] at hd; cases hd

/-- `Later fs0 fs`: the folder `fs` is what is left of `fs0` after any number of further runs, each killed after any prefix of
    its events: sequential runs (`runOn`) and pool runs under any body-order schedule (`runOnP`), any configuration of the
    repaired protocol (storage mix, raising call) -/
inductive Later (fsd : List MFunc) (inputs : List (String × Val)) (ui : List (String × List Nat)) (fs0 : FS) : FS → Prop
  | here : Later fsd inputs ui fs0 fs0
  | crash (cfg : Cfg) (hl : cfg.legacy = false) (fs : FS) (k : Nat) :
      Later fsd inputs ui fs0 fs → Later fsd inputs ui fs0 (crashAt fs (runOn cfg fs fsd inputs ui).evs k)
  | crashP (cfg : Cfg) (hl : cfg.legacy = false) (sched : Sched) (hs : PermSched sched) (fs : FS) (k : Nat) :
      Later fsd inputs ui fs0 fs → Later fsd inputs ui fs0 (crashAt fs (runOnP cfg sched fs fsd inputs ui).evs k)

/-- along any history of interrupted runs (sequential or pool) that starts in a folder satisfying the invariant, the invariant
    holds and the set of stored files only grows -/
theorem C05_history_mono (fsd : List MFunc) (inputs : List (String × Val)) (ui : List (String × List Nat)) (r0 : MapResult)
    (h0 : runMap fsd inputs ui = .ok r0) (hnd : ((freshSlots fsd inputs ui).map (·.1)).Nodup) (fs0 fs : FS)
    (hg : Good fsd inputs ui fs0) (h : Later fsd inputs ui fs0 fs) : Good fsd inputs ui fs ∧ Mono fs0 fs := by
  induction h with
  | here => exact ⟨hg, mono_refl fs0⟩
  | crash cfg hl fs k _ ih =>
    have := (C05_resume_keeps cfg hl fsd inputs ui r0 h0 hnd fs ih.1).1 k
    exact ⟨this.1, mono_trans ih.2 this.2⟩
  | crashP cfg hl sched hs fs k _ ih =>
    have := (C05_par_resume_keeps cfg hl sched hs fsd inputs ui r0 h0 hnd fs ih.1).1 k
    exact ⟨this.1, mono_trans ih.2 this.2⟩

/-- **No stored work is redone, over any sequence of interruptions.**  Let `fs0` be the folder at ANY point of a history of
    interrupted runs (any folder satisfying the invariant; by `C05_reach_good` every folder reachable from the empty one) and
    `fs` the folder any number of further interrupted runs — sequential or pool — later.  A run started on `fs` (the final
    resume, or one of the runs that will be killed: the calls of a killed run are among the calls of its event list) calls a
    user function only for elements that were not completely stored in `fs0` already; and if no call is told to raise it
    completes with exactly the outputs of the uninterrupted run. -/
theorem C05_history_no_recompute (cfg : Cfg) (hl : cfg.legacy = false)
    (fsd : List MFunc) (inputs : List (String × Val)) (ui : List (String × List Nat)) (r0 : MapResult)
    (h0 : runMap fsd inputs ui = .ok r0) (hnd : ((freshSlots fsd inputs ui).map (·.1)).Nodup) (fs0 fs : FS)
    (hg : Good fsd inputs ui fs0) (h : Later fsd inputs ui fs0 fs) :
    (∀ c ∈ (runOn cfg fs fsd inputs ui).calls, ∃ f ∈ (generations fsd).flatten, c.fn = f.name ∧ doneInC cfg fs0 f c.li = false) ∧
    (cfg.failAt = none → ∃ x, (runOn cfg fs fsd inputs ui).res = .ok x ∧ x.outputs = r0.outputs) := by
  obtain ⟨hgf, hm⟩ := C05_history_mono fsd inputs ui r0 h0 hnd fs0 fs hg h
  obtain ⟨_, b, c⟩ := C05_resume cfg hl fsd inputs ui r0 h0 hnd fs hgf
  refine ⟨fun x hx => ?_, fun hf => ?_⟩
  · obtain ⟨f, hf, hn, hd⟩ := b x hx
    exact ⟨f, hf, hn, doneInC_mono cfg fs0 fs f x.li hm hd⟩
  · rcases c with c | ⟨hne, _⟩
    · exact c
    · exact absurd hf hne

/-- the same when the run on `fs` is a pool run under any body-order schedule -/
theorem C05_par_history_no_recompute (cfg : Cfg) (hl : cfg.legacy = false) (sched : Sched) (hs : PermSched sched)
    (fsd : List MFunc) (inputs : List (String × Val)) (ui : List (String × List Nat)) (r0 : MapResult)
    (h0 : runMap fsd inputs ui = .ok r0) (hnd : ((freshSlots fsd inputs ui).map (·.1)).Nodup) (fs0 fs : FS)
    (hg : Good fsd inputs ui fs0) (h : Later fsd inputs ui fs0 fs) :
    (∀ c ∈ (runOnP cfg sched fs fsd inputs ui).calls, ∃ f ∈ (generations fsd).flatten, c.fn = f.name ∧ doneInC cfg fs0 f c.li = false) ∧
    (cfg.failAt = none → ∃ x, (runOnP cfg sched fs fsd inputs ui).res = .ok x ∧ x.outputs = r0.outputs) := by
  obtain ⟨hgf, hm⟩ := C05_history_mono fsd inputs ui r0 h0 hnd fs0 fs hg h
  obtain ⟨_, b, c⟩ := C05_par_resume cfg hl sched hs fsd inputs ui r0 h0 hnd fs hgf
  refine ⟨fun x hx => ?_, fun hf => ?_⟩
  · obtain ⟨f, hf, hn, hd⟩ := b x hx
    exact ⟨f, hf, hn, doneInC_mono cfg fs0 fs f x.li hm hd⟩
  · rcases c with c | ⟨hne, _⟩
    · exact c
    · exact absurd hf hne

/-- **Within one run nothing that is stored is lost — unconditionally.**  For EVERY pipeline, inputs and starting folder (no
    invariant, no hypothesis that the run succeeds: also a run that is refused, fails, or whose user function raises at any
    call) the event list of the repaired protocol consists of `mkdir`s, user calls and whole `dump` blocks (temporary file,
    then `os.replace`) only (`additive_runOn`), hence: a non-temporary file that exists after `j` events of the run exists after
    any `k ≥ j` events.  In particular a result the run itself stored before it was interrupted (killed after `k` events, or
    stopped by a raising call) is still stored when it stops — no error handler tidies it away, no rewrite unlinks first. -/
theorem C05_prefix_mono (cfg : Cfg) (hl : cfg.legacy = false) (fs : FS)
    (fsd : List MFunc) (inputs : List (String × Val)) (ui : List (String × List Nat)) (j k : Nat) (hjk : j ≤ k) :
    Mono (crashAt fs (runOn cfg fs fsd inputs ui).evs j) (crashAt fs (runOn cfg fs fsd inputs ui).evs k) :=
  additive_prefix_mono (additive_runOn cfg hl fs fsd inputs ui) fs j k hjk

/-- the same for whole elements: stored (`doneInC`, any storage configuration `c'`) after `j` events ⇒ stored after `k ≥ j` events -/
theorem C05_prefix_done_kept (cfg : Cfg) (hl : cfg.legacy = false) (fs : FS)
    (fsd : List MFunc) (inputs : List (String × Val)) (ui : List (String × List Nat)) (j k : Nat) (hjk : j ≤ k)
    (c' : Cfg) (f : MFunc) (li : Nat) (hd : doneInC c' (crashAt fs (runOn cfg fs fsd inputs ui).evs j) f li = true) :
    doneInC c' (crashAt fs (runOn cfg fs fsd inputs ui).evs k) f li = true := by
  cases hc : doneInC c' (crashAt fs (runOn cfg fs fsd inputs ui).evs k) f li with
  | true => rfl
  | false => rw [doneInC_mono c' _ _ f li (C05_prefix_mono cfg hl fs fsd inputs ui j k hjk) hc] at hd; cases hd

/-! ### non-vacuity, and why monotonicity is needed -/

/-- the complete `dict` folder of the reference pipeline -/
def doneDict : FS := applyAll FS.empty (runFresh { dict := true } [fY, gZ] inp []).evs

/-- two interruptions of the reference pipeline (storage `dict`): the first run dies after its last event, the resumed run
    after 18 of its 21 events (inside its re-persist of `y`, the temporary snapshot opened): the hypotheses of `C05_history_no_recompute` hold, `f` is stored at both
    points and the third run calls nothing -/
example : Later [fY, gZ] inp [] doneDict (crashAt doneDict (runOn { dict := true } doneDict [fY, gZ] inp []).evs 18) :=
  .crash { dict := true } rfl doneDict 18 .here

/-- `doneDict` is reachable, hence satisfies the invariant (whenever the run-map hypotheses hold: they do, by `decide` in Props/C05) -/
example : Reach [fY, gZ] inp [] doneDict := by
  have := Reach.crash (fsd := [fY, gZ]) (inputs := inp) (ui := []) { dict := true } rfl FS.empty
    (runFresh { dict := true } [fY, gZ] inp []).evs.length .empty
  rwa [show runOn { dict := true } FS.empty [fY, gZ] inp [] = runFresh { dict := true } [fY, gZ] inp [] from rfl,
    crashAt_all _ _ _ (Nat.le_refl _)] at this

example : doneInC { dict := true } doneDict fY 0 = true ∧
    doneInC { dict := true } (crashAt doneDict (runOn { dict := true } doneDict [fY, gZ] inp []).evs 18) fY 0 = true ∧
    (runOn { dict := true } (crashAt doneDict (runOn { dict := true } doneDict [fY, gZ] inp []).evs 18) [fY, gZ] inp []).calls.length = 0 := by
  decide

/-- `C05_prefix_done_kept` on the reference pipeline: `f[0]` is stored after 26 events of the fresh run, hence after 30 -/
example : doneInC {} (crashAt FS.empty (runFresh {} [fY, gZ] inp []).evs 30) fY 0 = true :=
  C05_prefix_done_kept {} rfl FS.empty [fY, gZ] inp [] 26 30 (by decide) {} fY 0 (by decide)

namespace Legacy
/-- **Why `Good` alone is not enough (the protocol "drop the old snapshot, then dump the new one").**  On the complete `dict`
    folder of the reference pipeline a resumed run whose `persist` first unlinks `outputs/y/dict_array.cloudpickle` and is
    killed right there leaves a folder in which every remaining file is still complete and right — yet `f` is no longer stored,
    and the next run calls `f` for both elements again although both were completely stored after the first interruption.
    The same for a resumed run that unlinks `run_info.json` before rewriting inputs and defaults when the comparison with
    the previous run treats a folder without `run_info.json` as garbage (`rmtree`): everything is recomputed.  The repaired
    protocol performs neither event (`C05_stored_kept`). -/
theorem C05_unlink_window :
    doneInC { dict := true } doneDict fY 0 = true ∧ doneInC { dict := true } doneDict fY 1 = true ∧
    ((runOn { dict := true } (apply doneDict (.unlink (.dictArr "y"))) [fY, gZ] inp []).calls.map fun c => (c.fn, c.li)) = [("f", 0), ("f", 1)] ∧
    resErr (runOn { dict := true } (apply doneDict (.unlink (.dictArr "y"))) [fY, gZ] inp []) = none ∧
    ((runOn {} (applyAll doneFS [.unlink .runInfo, .rmtree]) [fY, gZ] inp []).calls.map fun c => (c.fn, c.li)) = [("f", 0), ("f", 1), ("g", 0)] ∧
    ((runOn {} (apply doneFS (.unlink .runInfo)) [fY, gZ] inp []).calls.map fun c => (c.fn, c.li)) = [] := by decide
end Legacy

end PF.C05
