/- Lemmas for `Model/PipelineView.lean`: de-duplication keeps every lookup. Core Lean only. -/
import PfModel.Model.PipelineView
namespace PF.Pipe
open PF

theorem alookup_filter_ne (l : List (String × Val)) (k' k : String) (h : k' ≠ k) :
    alookup (l.filter (fun kv => kv.1 ≠ k')) k = alookup l k := by
  induction l with
  | nil => rfl
  | cons e es ih =>
    obtain ⟨a, v⟩ := e
    by_cases ha : a = k'
    · subst ha
      simp only [List.filter, ne_eq, not_true_eq_false, decide_false, alookup, if_neg h]
      exact ih
    · simp only [List.filter, ne_eq, ha, not_false_eq_true, decide_true, alookup]
      split
      · rfl
      · exact ih

theorem alookup_adedup (l : List (String × Val)) (k : String) : alookup (adedup l) k = alookup l k := by
  induction l with
  | nil => rfl
  | cons e es ih =>
    obtain ⟨a, v⟩ := e
    simp only [adedup, alookup]
    split
    · rfl
    · next hne => rw [alookup_filter_ne _ _ _ hne, ih]

theorem akeys_filter_not_mem (l : List (String × Val)) (a : String) : a ∉ akeys (l.filter (fun kv => kv.1 ≠ a)) := by
  simp only [akeys, List.mem_map, List.mem_filter, not_exists, not_and]
  intro x hx he
  simp [he] at hx

theorem nodup_filter_keys (l : List (String × Val)) (a : String) (h : (akeys l).Nodup) : (akeys (l.filter (fun kv => kv.1 ≠ a))).Nodup := by
  induction l with
  | nil => exact List.nodup_nil
  | cons e es ih =>
    simp only [akeys, List.map_cons, List.nodup_cons] at h
    by_cases hc : e.1 = a
    · simp only [List.filter, ne_eq, hc, not_true_eq_false, decide_false]; exact ih h.2
    · simp only [List.filter, ne_eq, hc, not_false_eq_true, decide_true, akeys, List.map_cons, List.nodup_cons]
      refine ⟨?_, ih h.2⟩
      intro hm
      apply h.1
      simp only [List.mem_map, List.mem_filter] at hm ⊢
      obtain ⟨x, ⟨hx, _⟩, he⟩ := hm
      exact ⟨x, hx, he⟩

theorem adedup_nodup (l : List (String × Val)) : (akeys (adedup l)).Nodup := by
  induction l with
  | nil => exact List.nodup_nil
  | cons e es ih =>
    obtain ⟨a, v⟩ := e
    simp only [adedup, akeys, List.map_cons, List.nodup_cons]
    exact ⟨akeys_filter_not_mem _ a, nodup_filter_keys _ a ih⟩

theorem asetDefault_keeps (l : List (String × Val)) (k' : String) (v' : Val) (k : String) (v : Val) (h : alookup l k = some v) :
    alookup (asetDefault l k' v') k = some v := by
  unfold asetDefault
  split
  · exact h
  · rw [alookup_append, h]

theorem asetDefault_new (l : List (String × Val)) (k : String) (v : Val) (h : alookup l k = none) :
    alookup (asetDefault l k v) k = some v := by
  unfold asetDefault
  simp only [h, Option.isSome_none, Bool.false_eq_true, if_false]
  rw [alookup_append, h]
  simp [alookup]

theorem foldl_asetDefault_keeps (nvs : List (String × Val)) (l : List (String × Val)) (k : String) (v : Val) (h : alookup l k = some v) :
    alookup (nvs.foldl (fun acc nv => asetDefault acc nv.1 nv.2) l) k = some v := by
  induction nvs generalizing l with
  | nil => exact h
  | cons e es ih => exact ih _ (asetDefault_keeps l e.1 e.2 k v h)

end PF.Pipe
