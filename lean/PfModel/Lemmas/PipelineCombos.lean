import PfModel.Lemmas.PipelineTotal
/-!
`arg_combinations`: every listed combination is a *cut* — there is a set `E` of expanded functions, connected to the
producer of the requested output by consumer edges inside `E`, such that every listed name is an unbound parameter of a
function of `E` and is not an output of a function of `E`.  A call that supplies exactly a cut is accepted.
(Helper lemmas for `Props/C02Needed.lean`.)
-/
namespace PF.Pipe
open PF

variable (fs : List Func) (kw : List (String × Val)) (rank : String → Nat)

/-! ### `insertSorted` / `uniqueSorted` only ever keep what they were given -/

theorem mem_insertSorted {α} (key : α → String) (x y : α) : ∀ l, y ∈ insertSorted key x l → y = x ∨ y ∈ l := by
  intro l
  induction l with
  | nil => intro h; simp [insertSorted] at h; exact Or.inl h
  | cons a as ih =>
    intro h
    simp only [insertSorted] at h
    split at h
    · rcases List.mem_cons.mp h with h | h
      · exact Or.inl h
      · exact Or.inr h
    · split at h
      · exact Or.inr h
      · rcases List.mem_cons.mp h with h | h
        · exact Or.inr (h ▸ List.mem_cons_self)
        · rcases ih h with h | h
          · exact Or.inl h
          · exact Or.inr (List.mem_cons_of_mem _ h)

theorem mem_uniqueSorted {α} (key : α → String) (y : α) (l : List α) (h : y ∈ uniqueSorted key l) : y ∈ l := by
  have gen : ∀ (l : List α) acc, y ∈ l.foldl (fun acc x => insertSorted key x acc) acc → y ∈ acc ∨ y ∈ l := by
    intro l
    induction l with
    | nil => intro acc h; exact Or.inl h
    | cons a as ih =>
      intro acc h
      simp only [List.foldl] at h
      rcases ih _ h with h | h
      · rcases mem_insertSorted key a y acc h with h | h
        · exact Or.inr (h ▸ List.mem_cons_self)
        · exact Or.inl h
      · exact Or.inr (List.mem_cons_of_mem _ h)
  rcases gen l [] h with h | h
  · cases h
  · exact h

/-! ### positions and producers -/

theorem funcAt_eq (i : Nat) (h : i < fs.length) : funcAt fs i = fs[i] := by
  simp [funcAt, List.getD, h]

theorem producerIdx_iff (q : String) (j : Nat) :
    producerIdx fs q = some j ↔ ∃ h : j < fs.length, q ∈ fs[j].outputs ∧ ∀ j' (h' : j' < j), q ∉ fs[j'].outputs := by
  unfold producerIdx
  rw [List.findIdx?_eq_some_iff_getElem]
  simp

theorem producerIdx_some (hu : UniqueOut fs) (q : String) (j : Nat) (h : producerIdx fs q = some j) :
    j < fs.length ∧ funcAt fs j ∈ fs ∧ q ∈ (funcAt fs j).outputs ∧ producer fs q = some (funcAt fs j) := by
  obtain ⟨hj, hq, _⟩ := (producerIdx_iff fs q j).mp h
  rw [funcAt_eq fs j hj]
  have hm : fs[j] ∈ fs := List.getElem_mem hj
  exact ⟨hj, hm, hq, (producer_some_iff fs hu q _).mpr ⟨hm, hq⟩⟩

/-- positions returned by `producerIdx` are canonical: the same position is returned for every output of that function -/
theorem producerIdx_canon (hu : UniqueOut fs) (q n : String) (e : Nat) (h : producerIdx fs q = some e)
    (hn : n ∈ (funcAt fs e).outputs) : producerIdx fs n = some e := by
  obtain ⟨he, hq, hmin⟩ := (producerIdx_iff fs q e).mp h
  rw [funcAt_eq fs e he] at hn
  refine (producerIdx_iff fs n e).mpr ⟨he, hn, ?_⟩
  intro j' h' hn'
  have hj' : j' < fs.length := by omega
  have : fs[j'] = fs[e] := hu _ (List.getElem_mem hj') _ (List.getElem_mem he) n hn' hn
  exact hmin j' h' (this ▸ hq)

/-- the graph edge `j → c` labelled `p`: `p` is an unbound parameter of `c` produced by `j` -/
def EdgeTo (j c : Nat) (p : String) : Prop :=
  ∃ orig, (p, orig) ∈ (funcAt fs c).params ∧ alookup (funcAt fs c).bound p = none ∧ producerIdx fs p = some j

theorem mem_edgeArgs (j c : Nat) (p : String) (h : p ∈ edgeArgs fs j c) : EdgeTo fs j c p := by
  unfold edgeArgs at h
  obtain ⟨⟨q, orig⟩, hq, hf⟩ := List.mem_filterMap.mp h
  simp only at hf
  split at hf
  · cases hf
  · next hb =>
    split at hf
    · next hj => cases hf; exact ⟨orig, hq, by simpa using hb, hj⟩
    · cases hf

theorem mem_preds (i : Nat) (d : Node) (h : d ∈ preds fs i) :
    ∃ p orig, (p, orig) ∈ (funcAt fs i).params ∧ alookup (funcAt fs i).bound p = none ∧
      ((∃ j, producerIdx fs p = some j ∧ d = .fn j) ∨ (producerIdx fs p = none ∧ d = .root p)) := by
  unfold preds at h
  obtain ⟨⟨q, orig⟩, hq, hf⟩ := List.mem_filterMap.mp h
  simp only at hf
  split at hf
  · cases hf
  · next hb =>
    refine ⟨q, orig, hq, by simpa using hb, ?_⟩
    split at hf
    · next j hj => cases hf; exact Or.inl ⟨j, hj, rfl⟩
    · next hj => cases hf; exact Or.inr ⟨hj, rfl⟩

/-! ### the invariant of `_compute_arg_mapping` -/

/-- the expanded functions, in expansion order: each one after the first feeds an earlier one -/
inductive Chain (i0 : Nat) : List Nat → Prop
  | base : Chain i0 [i0]
  | snoc {E j c p} : Chain i0 E → c ∈ E → EdgeTo fs j c p → Chain i0 (E ++ [j])

theorem Chain.head_mem {i0 E} (h : Chain fs i0 E) : i0 ∈ E := by
  induction h with
  | base => simp
  | snoc _ _ _ ih => exact List.mem_append_left _ ih

theorem Chain.canon {i0 E} (h : Chain fs i0 E) (h0 : ∃ q, producerIdx fs q = some i0) :
    ∀ e ∈ E, ∃ q, producerIdx fs q = some e := by
  induction h with
  | base => intro e he; simp at he; subst he; exact h0
  | snoc _ _ hedge ih =>
    intro e he
    rcases List.mem_append.mp he with he | he
    · exact ih e he
    · simp at he; subst he
      obtain ⟨_, _, _, hp⟩ := hedge
      exact ⟨_, hp⟩

/-- what a frontier node is: a function not yet expanded that feeds an expanded one, or a root argument of an expanded one -/
def Front (E : List Nat) : Node → Prop
  | .fn j => j ∉ E ∧ ∃ c ∈ E, ∃ p, EdgeTo fs j c p
  | .root p => producerIdx fs p = none ∧
      ∃ c ∈ E, ∃ orig, (p, orig) ∈ (funcAt fs c).params ∧ alookup (funcAt fs c).bound p = none

theorem Front.mono (E : List Nat) (j : Nat) (d : Node) (h : Front fs E d) (hne : d ≠ .fn j) : Front fs (E ++ [j]) d := by
  cases d with
  | fn j' =>
    obtain ⟨hn, c, hc, hp⟩ := h
    refine ⟨?_, c, List.mem_append_left _ hc, hp⟩
    intro hm
    rcases List.mem_append.mp hm with hm | hm
    · exact hn hm
    · simp at hm; subst hm; exact hne rfl
  | root p =>
    obtain ⟨hn, c, hc, hp⟩ := h
    exact ⟨hn, c, List.mem_append_left _ hc, hp⟩

/-- `c` is a cut below the function at position `i0` -/
def Cut (i0 : Nat) (c : List String) : Prop :=
  ∃ E, Chain fs i0 E ∧ ∀ n ∈ c,
    (∃ e ∈ E, ∃ orig, (n, orig) ∈ (funcAt fs e).params ∧ alookup (funcAt fs e).bound n = none) ∧
    (∀ e ∈ E, n ∉ (funcAt fs e).outputs)

theorem names_cut (hu : UniqueOut fs) (i0 : Nat) (h0 : ∃ q, producerIdx fs q = some i0) (E : List Nat)
    (hch : Chain fs i0 E) (deps : List Node) (hfr : ∀ d ∈ deps, Front fs E d) : Cut fs i0 (namesOf fs deps E) := by
  refine ⟨E, hch, ?_⟩
  intro n hn
  have hn := mem_uniqueSorted id n _ hn
  obtain ⟨d, hd, hnd⟩ := List.mem_flatMap.mp hn
  have hf := hfr d hd
  cases d with
  | fn i =>
    simp only at hnd
    obtain ⟨c, hc, hnc⟩ := List.mem_flatMap.mp hnd
    have hedge := mem_edgeArgs fs i c n hnc
    obtain ⟨orig, hp, hb, hidx⟩ := hedge
    refine ⟨⟨c, hc, orig, hp, hb⟩, ?_⟩
    intro e he hout
    obtain ⟨q, hq⟩ := hch.canon fs h0 e he
    have := producerIdx_canon fs hu q n e hq hout
    rw [hidx] at this; cases this
    exact hf.1 he
  | root p =>
    simp only [List.mem_singleton] at hnd
    subst hnd
    obtain ⟨hnone, c, hc, orig, hp, hb⟩ := hf
    refine ⟨⟨c, hc, orig, hp, hb⟩, ?_⟩
    intro e he hout
    obtain ⟨q, hq⟩ := hch.canon fs h0 e he
    have := producerIdx_canon fs hu q n e hq hout
    rw [hnone] at this; cases this

theorem foldl_inv {α β} (P : β → Prop) (F : β → α → β) (l : List α)
    (h : ∀ acc, P acc → ∀ d ∈ l, P (F acc d)) : ∀ acc, P acc → P (l.foldl F acc) := by
  induction l with
  | nil => intro acc h; exact h
  | cons a as ih =>
    intro acc hacc
    simp only [List.foldl]
    exact ih (fun acc' h' d hd => h acc' h' d (List.mem_cons_of_mem _ hd)) _ (h acc hacc a List.mem_cons_self)

theorem argMapping_succ (fuel node : Nat) (args : List Node) (replaced : List Nat) (acc : List (List String)) :
    argMapping fs (fuel+1) node args replaced acc =
      if acc.contains (namesOf fs (uniqueSorted (sortKey fs) (args ++ (preds fs node).filter fun n =>
          match n with | .fn j => !(replaced.contains j) | .root _ => true)) (replaced ++ [node])) then acc else
      (uniqueSorted (sortKey fs) (args ++ (preds fs node).filter fun n =>
          match n with | .fn j => !(replaced.contains j) | .root _ => true)).foldl (fun acc d =>
        match d with
        | .fn j => argMapping fs fuel j ((uniqueSorted (sortKey fs) (args ++ (preds fs node).filter fun n =>
            match n with | .fn j => !(replaced.contains j) | .root _ => true)).filter (· ≠ d)) (replaced ++ [node]) acc
        | .root _ => acc)
        (acc ++ [namesOf fs (uniqueSorted (sortKey fs) (args ++ (preds fs node).filter fun n =>
          match n with | .fn j => !(replaced.contains j) | .root _ => true)) (replaced ++ [node])]) := by
  rw [argMapping]; rfl

theorem edge_irrefl (hw : WFp fs rank) (j c : Nat) (p : String) (hc : funcAt fs c ∈ fs) (h : EdgeTo fs j c p) : j ≠ c := by
  obtain ⟨orig, hp, hb, hidx⟩ := h
  obtain ⟨_, _, _, hprod⟩ := producerIdx_some fs hw.uniq p j hidx
  have := hw.acyc _ hc (p, orig) hp _ hprod hb
  intro e; subst e; omega

theorem argMapping_cut (hw : WFp fs rank) (i0 : Nat) (h0 : ∃ q, producerIdx fs q = some i0) :
    ∀ fuel node args replaced acc, Chain fs i0 (replaced ++ [node]) →
      (∀ d ∈ args, Front fs (replaced ++ [node]) d) → (∀ c ∈ acc, Cut fs i0 c) →
      ∀ c ∈ argMapping fs fuel node args replaced acc, Cut fs i0 c := by
  intro fuel
  induction fuel with
  | zero => intro node args replaced acc _ _ hacc c hc; simp only [argMapping] at hc; exact hacc c hc
  | succ fuel ih =>
    intro node args replaced acc hch hfr hacc c hc
    rw [argMapping_succ] at hc
    -- every node of the new frontier is a frontier node of `replaced ++ [node]`
    have hnode : funcAt fs node ∈ fs := by
      obtain ⟨q, hq⟩ := hch.canon fs h0 node (by simp)
      exact (producerIdx_some fs hw.uniq q node hq).2.1
    have key : ∀ d ∈ uniqueSorted (sortKey fs) (args ++ (preds fs node).filter fun n =>
          match n with | .fn j => !(replaced.contains j) | .root _ => true), Front fs (replaced ++ [node]) d := by
      intro d hd
      have hd := mem_uniqueSorted _ d _ hd
      rcases List.mem_append.mp hd with hd | hd
      · exact hfr d hd
      · obtain ⟨hpred, hcond⟩ := List.mem_filter.mp hd
        obtain ⟨p, orig, hp, hb, hcase⟩ := mem_preds fs node d hpred
        rcases hcase with ⟨j, hj, rfl⟩ | ⟨hnone, rfl⟩
        · have hedge : EdgeTo fs j node p := ⟨orig, hp, hb, hj⟩
          refine ⟨?_, node, by simp, p, hedge⟩
          intro hm
          rcases List.mem_append.mp hm with hm | hm
          · simp at hcond; exact hcond hm
          · simp at hm; exact edge_irrefl fs rank hw j node p hnode hedge hm
        · exact ⟨hnone, node, by simp, orig, hp, hb⟩
    split at hc
    · exact hacc c hc
    · refine foldl_inv (fun acc => ∀ c ∈ acc, Cut fs i0 c) _ _ ?_ _ ?_ c hc
      · intro acc' hacc' d hd
        cases d with
        | root p => exact hacc'
        | fn j =>
          have hf := key _ hd
          obtain ⟨hn, c', hc', p, hedge⟩ := hf
          simp only
          apply ih j _ (replaced ++ [node]) acc' (Chain.snoc hch hc' hedge) ?_ hacc'
          intro d' hd'
          obtain ⟨hd1, hd2⟩ := List.mem_filter.mp hd'
          exact Front.mono fs _ j d' (key d' hd1) (by simpa using hd2)
      · intro c' hc'
        rcases List.mem_append.mp hc' with hc' | hc'
        · exact hacc c' hc'
        · simp only [List.mem_singleton] at hc'
          subst hc'
          exact names_cut fs hw.uniq i0 h0 _ hch _ key

theorem argCombinations_cut (hw : WFp fs rank) (o : String) (cs : List (List String))
    (h : argCombinations fs o = some cs) :
    ∃ i0, producerIdx fs o = some i0 ∧ ∀ c ∈ cs, Cut fs i0 c := by
  unfold argCombinations at h
  split at h
  · cases h
  · next i0 hi0 =>
    cases h
    refine ⟨i0, hi0, ?_⟩
    exact argMapping_cut fs rank hw i0 ⟨o, hi0⟩ _ i0 [] [] [] (by simpa using Chain.base) (by simp) (by simp)

/-! ### a call that supplies exactly a cut -/

theorem cut_reach (hu : UniqueOut fs) (o : String) (i0 : Nat) (hi0 : producerIdx fs o = some i0) (E : List Nat)
    (hch : Chain fs i0 E) (hout : ∀ e ∈ E, ∀ n ∈ akeys kw, n ∉ (funcAt fs e).outputs) :
    ∀ e ∈ E, Reach fs kw o (funcAt fs e) := by
  induction hch with
  | base =>
    intro e he; simp at he; subst he
    exact .root (producerIdx_some fs hu o e hi0).2.2.2
  | @snoc E j c p _ hc hedge ih =>
    have ih := ih (fun e he => hout e (List.mem_append_left _ he))
    intro e he
    rcases List.mem_append.mp he with he | he
    · exact ih e he
    · simp at he; subst he
      obtain ⟨orig, hp, hb, hidx⟩ := hedge
      obtain ⟨_, _, hpo, hprod⟩ := producerIdx_some fs hu p e hidx
      have hk : alookup kw p = none := by
        rw [alookup_none_iff]
        intro hm
        exact hout e (by simp) p hm hpo
      have hup : IsUp (resolve fs kw (funcAt fs c) p) := by
        simp [resolve, hb, hk, hprod, IsUp]
      exact .step (ih c hc) hp hup hprod

theorem resolve_not_missing (f : Func) (p : String)
    (h : (alookup f.bound p).isSome ∨ (alookup kw p).isSome ∨ (producer fs p).isSome ∨ (pdefault fs p).isSome) :
    ¬ IsMissing (resolve fs kw f p) := by
  unfold resolve
  cases hb : alookup f.bound p with
  | some v => simp [IsMissing]
  | none =>
    cases hk : alookup kw p with
    | some v => simp [IsMissing]
    | none =>
      cases hp : producer fs p with
      | some g => simp [IsMissing]
      | none =>
        cases hd : pdefault fs p with
        | some v => simp [IsMissing]
        | none => simp [hb, hk, hp, hd] at h

theorem alookup_isSome_of_key {β} (l : List (String × β)) (k : String) (h : k ∈ akeys l) : (alookup l k).isSome := by
  cases hk : alookup l k with
  | some v => simp
  | none => exact absurd h ((alookup_none_iff l k).mp hk)

theorem unique_of_uniqueOut (hu : UniqueOut fs) : Unique fs := by
  intro f q hf q' hq'
  obtain ⟨hm, _⟩ := (producer_some_iff fs hu q f).mp hf
  exact (producer_some_iff fs hu q' f).mpr ⟨hm, hq'⟩

/-- a call whose keywords are exactly a cut below the producer of `o` is accepted, provided every other parameter of a
    needed function has a bound value, a producer or a default -/
theorem cut_accepted (hw : WFp fs rank) (o : String) (i0 : Nat) (hi0 : producerIdx fs o = some i0) (c : List String)
    (hcut : Cut fs i0 c) (hkeys : ∀ k, k ∈ akeys kw ↔ k ∈ c)
    (hres : ∀ f, NeededF fs kw o f → ∀ p ∈ f.params, p.1 ∉ c →
      (alookup f.bound p.1).isSome ∨ (producer fs p.1).isSome ∨ (pdefault fs p.1).isSome) :
    ∃ out, runTop fs kw (.name o) = .ok out ∧ (∃ k, compose fs kw k o = .ok out.value) ∧
      (∀ nm, nm ∈ out.calls ↔ Needed fs kw o nm) := by
  obtain ⟨E, hch, hE⟩ := hcut
  obtain ⟨_, _, hoo, hprod⟩ := producerIdx_some fs hw.uniq o i0 hi0
  have hout : ∀ e ∈ E, ∀ n ∈ akeys kw, n ∉ (funcAt fs e).outputs :=
    fun e he n hn => (hE n ((hkeys n).mp hn)).2 e he
  have hko : alookup kw o = none := by
    rw [alookup_none_iff]; intro hm; exact hout i0 (hch.head_mem fs) o hm hoo
  have hreach := cut_reach fs kw hw.uniq o i0 hi0 E hch hout
  have hresv : Resolvable fs kw o := by
    intro f hf p hp
    apply resolve_not_missing
    by_cases hpc : p.1 ∈ c
    · exact Or.inr (Or.inl (alookup_isSome_of_key kw p.1 ((hkeys _).mpr hpc)))
    · rcases hres f ⟨hko, hf⟩ p hp hpc with h | h | h
      · exact Or.inl h
      · exact Or.inr (Or.inr (Or.inl h))
      · exact Or.inr (Or.inr (Or.inr h))
  obtain ⟨v, s, hrun⟩ := run_total_fuelFor fs kw rank hw o ⟨kw, [], []⟩ hresv (by simp [hprod])
  have hused := run_used_iff fs kw rank hw _ o v s hrun
  have hcalls := run_calls_iff fs kw rank hw _ o v s hrun
  have hall : (akeys kw).filter (fun k => !(s.used.contains k)) = [] := by
    rw [List.filter_eq_nil_iff]
    intro k hk
    obtain ⟨⟨e, he, orig, hp, _⟩, _⟩ := hE k ((hkeys k).mp hk)
    have : k ∈ s.used := (hused k).mpr ⟨funcAt fs e, ⟨hko, hreach e he⟩, orig, hp⟩
    simp [this]
  refine ⟨⟨v, s.memo, s.calls⟩, ?_, ?_, hcalls⟩
  · simp only [runTop, hko, hrun, hall]
    simp
  · have hg : Good fs kw ⟨kw, [], []⟩ := by
      intro p w hk hp; simp only [] at hp; rw [hk] at hp; exact absurd hp (by simp)
    exact ((run_sound fs kw (unique_of_uniqueOut fs hw.uniq) _) o _ v s hg hrun).1 hko

end PF.Pipe
