"""C10 round 4 — generated MapSpec pipelines in which a GROUP of functions is (or just fails to be) combinable into a NestedPipeFunc.

`gen_env(rng)` returns a mapgen-format description (so `mapgen.build` / `mapgen.model_request` work unchanged) together with the
group (`sel`: the first output name of each group function) and the shape category.  The group is an element-wise chain, a zip,
an outer product or a partial slice; its functions take scalars (plain, defaulted, bound), have tuple outputs, and feed functions
outside the group (element-wise consumers, reductions across the nest boundary, consumers of an intermediate).  With some
probability ONE perturbation makes the inner MapSpecs non-combinable for a specific reason (the refusals are counted by reason).
"""
from __future__ import annotations

import itertools

import c10_picker as PK
import pipegen

# (an intermediate consumed with transposed axes, `y[i, j]` produced and `y[j, i]` consumed, is already refused by `Pipeline._validate_mapspec`)
PERTURB = ["whole-root", "whole-inner", "axes-partial", "axes-partial", "outputs-transposed", "inputs-differ", "reduction-inside",
           "internal-axis", "no-mapspec-member"]


def spec_str(ms):
    def arr(a):
        return f"{a[0]}[{', '.join(':' if x is None else x for x in a[1])}]"
    ins = ", ".join(arr(a) for a in ms["inputs"]) if ms["inputs"] else "..."
    return f"{ins} -> {', '.join(arr(a) for a in ms['outputs'])}"


def func(name, params, outputs, ms=None, ret=None, internal=None):
    return {"name": name, "params": [[p, p] for p in params], "outputs": list(outputs), "mapspec": ms, "mapspec_str": spec_str(ms) if ms else None,
            "autogen": False, "ret": ret, "internal": internal, "defaults": [], "bound": []}


def gen_env(rng):
    perturb = rng.choice(PERTURB) if rng.random() < 0.4 else None
    shape_kind = rng.choice(["chain", "chain", "zip", "zip", "outer", "outer", "partial"])
    if perturb == "axes-partial":
        shape_kind = "partial"
    elif perturb == "outputs-transposed":
        shape_kind = "outer"
    elif perturb == "inputs-differ":
        shape_kind = rng.choice(["chain", "zip"])
    n = rng.randint(1, 3)
    sizes = {"i": n, "j": n if perturb == "axes-partial" else rng.randint(1, 3), "k": rng.randint(1, 2)}
    arrays = {}          # array name -> axes as it is to be listed (root arrays and produced arrays)
    root_axes = {}       # root array name -> its real axes (every axis named; gives the shape)
    scalars = []
    funcs = []
    if shape_kind in ("chain", "zip"):
        out_axes = ["i"]
        roots = ["x0"] if shape_kind == "chain" else ["x0", "x1"]
        for r in roots:
            arrays[r] = ["i"]; root_axes[r] = ["i"]
    elif shape_kind == "outer":
        out_axes = ["i", "j"]
        arrays["x0"] = ["i"]; root_axes["x0"] = ["i"]
        arrays["x1"] = ["j"]; root_axes["x1"] = ["j"]
    else:
        out_axes = ["i"]
        arrays["x0"] = ["i", None]; root_axes["x0"] = ["i", "j"]
        if rng.random() < 0.5:
            arrays["x1"] = ["i"]; root_axes["x1"] = ["i"]
    # an upstream function outside the group that produces one more mapped array for it
    fi = 0
    if rng.random() < 0.3 and any(None not in arrays[r] for r in root_axes):
        src = rng.choice([r for r in root_axes if None not in arrays[r]])
        up = func(f"f{fi}", [src], [f"u{fi}"], {"inputs": [[src, arrays[src]]], "outputs": [[f"u{fi}", list(arrays[src])]]})
        funcs.append(up); arrays[f"u{fi}"] = list(arrays[src]); fi += 1
    group = []
    n_group = rng.choice([2, 2, 2, 3])
    produced = []        # outputs of the group so far (arrays with out_axes)
    avail_roots = [a for a in arrays]
    for gi in range(n_group):
        name = f"f{fi}"; fi += 1
        outs = [f"y{gi}"] if rng.random() > 0.25 else [f"y{gi}a", f"y{gi}b"]
        mapped = []
        if gi == 0:
            # the first group function carries every index of the group
            need = list(out_axes)
            cands = list(avail_roots)
            rng.shuffle(cands)
            for a in sorted(cands, key=lambda a: -len([x for x in arrays[a] if x])):
                if any(x in need for x in arrays[a] if x):
                    mapped.append(a)
                    need = [x for x in need if x not in arrays[a]]
                if not need:
                    break
            for a in cands:
                if a not in mapped and rng.random() < 0.3:
                    mapped.append(a)
        else:
            mapped.append(rng.choice(group[-1]["outputs"]))        # consumes the previous group function: one leaf
            if len(produced) > 1 and rng.random() < 0.4:
                other = rng.choice([q for q in produced if q not in mapped])
                mapped.append(other)
            for a in avail_roots:
                if rng.random() < 0.3:
                    mapped.append(a)
        params = list(dict.fromkeys(mapped))
        # scalars: a fresh root scalar, a shared one
        if rng.random() < 0.5:
            if scalars and rng.random() < 0.4:
                params.append(rng.choice(scalars))
            else:
                c = f"c{len(scalars)}"
                scalars.append(c); params.append(c)
        params = list(dict.fromkeys(params))
        ms = {"inputs": [[a, list(arrays[a])] for a in params if a in arrays], "outputs": [[o, list(out_axes)] for o in outs]}
        f = func(name, params, outs, ms)
        funcs.append(f); group.append(f)
        for o in outs:
            arrays[o] = list(out_axes)
            produced.append(o)
    # --- one perturbation that makes the group non-combinable (or combinable only by mistake)
    applied = None
    g_last = group[-1]
    if perturb == "whole-root":
        cands = [a for a in root_axes if any(a in [x[0] for x in g["mapspec"]["inputs"]] for g in group)]
        tgt = [g for g in group[1:]]
        if cands and tgt:
            a, g = rng.choice(cands), rng.choice(tgt)
            left = [x for x in g["mapspec"]["inputs"] if x[0] != a]
            if left and set(out_axes) <= {ax for x in left for ax in x[1] if ax}:      # the function still carries every index
                g["mapspec"]["inputs"] = left
                if not any(p[0] == a for p in g["params"]):
                    g["params"].append([a, a])
                applied = perturb
    elif perturb == "whole-inner" and len(group) >= 2:
        g = group[-1]
        inner = [x for x in g["mapspec"]["inputs"] if x[0] in produced]
        others = [x for x in g["mapspec"]["inputs"] if x[0] not in produced]
        if inner and others and set(out_axes) <= {a for x in others for a in x[1] if a}:
            g["mapspec"]["inputs"] = others     # the intermediate is now taken whole (a reduction inside the nest)
            applied = perturb
    elif perturb == "axes-partial" and shape_kind == "partial":
        g = group[-1]
        if not any(x[0] == "x0" for x in g["mapspec"]["inputs"]):
            g["mapspec"]["inputs"].append(["x0", [None, "i"]])
            if not any(p[0] == "x0" for p in g["params"]):
                g["params"].append(["x0", "x0"])
        else:
            for x in g["mapspec"]["inputs"]:
                if x[0] == "x0":
                    x[1] = [None, "i"]
        applied = perturb
    elif perturb == "outputs-transposed" and shape_kind == "outer":
        for x in g_last["mapspec"]["outputs"]:
            x[1] = list(reversed(x[1]))
        applied = perturb
    elif perturb == "inputs-differ" and shape_kind in ("chain", "zip"):
        # the last function maps over one more index: y[i], w[j] -> z[i, j]
        root_axes["w9"] = ["j"]; arrays["w9"] = ["j"]
        g_last["params"].append(["w9", "w9"])
        g_last["mapspec"]["inputs"].append(["w9", ["j"]])
        for x in g_last["mapspec"]["outputs"]:
            x[1] = ["i", "j"]
        applied = perturb
    elif perturb == "reduction-inside":
        name = f"f{fi}"; fi += 1
        f = func(name, [produced[-1]], ["s9"], None)
        funcs.append(f); group.append(f); scalars.append("s9")
        applied = perturb
    elif perturb == "internal-axis":
        for x in g_last["mapspec"]["outputs"]:
            x[1] = x[1] + ["k"]
        g_last["ret"] = [sizes["k"]]
        g_last["internal"] = [sizes["k"]]
        applied = perturb
    elif perturb == "no-mapspec-member":
        # a scalar function inside the group (consumed by the last function as a constant)
        name = f"f{fi}"; fi += 1
        c = f"c{len(scalars)}"; scalars.append(c)
        f = func(name, [c], ["s8"], None)
        funcs.insert(funcs.index(group[0]), f); group.insert(0, f)
        g_last["params"].append(["s8", "s8"])
        applied = perturb
    for g in group:
        if g["mapspec"]:
            g["mapspec_str"] = spec_str(g["mapspec"])
    last_axes = list(g_last["mapspec"]["outputs"][0][1]) if g_last["mapspec"] else None
    # --- consumers outside the group
    group_outs = [o for g in group for o in g["outputs"]]
    arr_outs = [o for g in group if g["mapspec"] for o in g["outputs"]]
    for _ in range(rng.choice([0, 1, 1, 2])):
        name = f"f{fi}"
        o = rng.choice(group_outs)
        r = rng.random()
        prod = next(g for g in group if o in g["outputs"])
        if prod["mapspec"] is None or r < 0.45:
            f = func(name, [o], [f"t{fi}"], None)                                  # a reduction across the nest boundary / a plain consumer
        else:
            ax = list(prod["mapspec"]["outputs"][0][1])
            f = func(name, [o], [f"t{fi}"], {"inputs": [[o, ax]], "outputs": [[f"t{fi}", list(ax)]]})     # element-wise consumer
        funcs.append(f); fi += 1
    # --- scalars: defaults and bound values on scalar ROOT parameters of any function
    produced_all = {o for f in funcs for o in f["outputs"]}
    for f in funcs:
        for p, _ in f["params"]:
            if p in scalars and p not in produced_all:
                r = rng.random()
                if r < 0.25 and not any(d[0] == p for g in funcs for d in g["defaults"]):
                    f["defaults"].append([p, {"s": f"dflt:{p}"}])
                elif r < 0.4:
                    f["bound"].append([p, {"s": f"bound:{p}:{f['name']}"}])
        dn = {d[0] for d in f["defaults"]}
        f["params"] = [q for q in f["params"] if q[0] not in dn] + [q for q in f["params"] if q[0] in dn]
    # --- inputs
    inputs, kinds = [], {}
    used = {p for f in funcs for p, _ in f["params"]}
    for p in sorted(used - produced_all):
        users = [f for f in funcs if any(q == p for q, _ in f["params"])]
        if all(any(b[0] == p for b in f["bound"]) for f in users):
            continue
        if p in root_axes:
            shape = [sizes[a] for a in root_axes[p]]
            elems = [{"f": "in", "k": [["n", {"s": p}], ["at", {"arr": [[len(ix)], list(ix)]}]]} for ix in itertools.product(*map(range, shape))]
            inputs.append([p, {"arr": [shape, elems]}])
            kinds[p] = "list" if len(shape) == 1 and rng.random() < 0.4 else "array"
        else:
            if any(any(d[0] == p for d in f["defaults"]) for f in users) and rng.random() < 0.5:
                continue
            inputs.append([p, {"s": f"in:{p}"}])
    pipegen.assign_consts(rng, funcs)
    PK.assign(rng, funcs)        # ext5: custom output_picker styles on the tuple-output functions (inside and outside the group)
    desc = {"funcs": funcs, "inputs": inputs, "input_kinds": kinds, "internal": [], "sizes": sizes}
    info = {"sel": [g["outputs"][0] for g in group], "shape": shape_kind, "perturb": applied, "group_outs": group_outs,
            "consumed": sorted({p for f in funcs if f not in group for p, _ in f["params"] if p in group_outs}),
            "leaf_outs": list(g_last["outputs"]) if applied not in ("reduction-inside",) else ["s9"]}
    return desc, info


def nest_op(rng, info, src, dst):
    """The nest op for the generated group: all outputs, a valid subset, or a permutation (output_name need not be sorted)."""
    op = {"op": "nest", "src": src, "dst": dst, "sel": list(info["sel"]), "out": None}
    r = rng.random()
    inner = list(info["group_outs"])
    if r < 0.25:
        keep = set(info["consumed"]) | set(info["leaf_outs"]) | {o for o in inner if rng.random() < 0.3}
        op["out"] = sorted(keep)
    elif r < 0.45:
        keep = sorted(set(info["consumed"]) | set(info["leaf_outs"]) | {o for o in inner if rng.random() < 0.5})
        rng.shuffle(keep)
        op["out"] = keep
    elif r < 0.6 and len(info["leaf_outs"]) > 1 and set(info["consumed"]) <= set(info["leaf_outs"]):
        op["out"] = list(info["leaf_outs"])        # ext5: EXACTLY the tuple of the multi-output leaf (the inner result dict has that key)
    if rng.random() < 0.12:
        op["via"] = "ctor"                          # ext5: NestedPipeFunc(...) built by hand instead of nest_funcs
    return op
