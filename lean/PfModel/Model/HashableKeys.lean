import PfModel.Model.Hashable
/-!
The cache keys pipefunc builds *around* `to_hashable` (`Model/Hashable.lean: key true`):

* `memoKey`   — `memoize`: `try_to_hashable((args, kwargs), …)` (`pipefunc/cache.py:582`);
* `pipeKey`   — `compute_cache_key(output_name, kwargs, root_args)` (`pipefunc/_pipeline/_cache.py:52-95`), the key of the
                pipeline cache for a call `pipeline(output_name, **kwargs)`;
* `mapKey`    — `_get_or_set_cache` (`pipefunc/map/_run.py:436-455`): `(func.output_name, to_hashable(kwargs))`, the key of
                the cache used by `pipeline.map`;
* `bindArgs`  — Python's binding of a call `f(*args, **kwargs)` to a signature of positional-or-keyword parameters with
                defaults (`inspect.Signature.bind` + `apply_defaults`): the *effective arguments* of the call.

Names (parameter names, keyword names) are code-point lists; `kwargs` is an association list in the order the keywords
were written (a Python `dict`: names are pairwise different).
-/
namespace PF.Hashable

abbrev Name := List Nat

instance {α : Type} [DecidableEq α] : DecidableEq (Except Err α)
  | .ok a, .ok b => if h : a = b then isTrue (h ▸ rfl) else isFalse (fun e => h (Except.ok.inj e))
  | .error a, .error b => if h : a = b then isTrue (h ▸ rfl) else isFalse (fun e => h (Except.error.inj e))
  | .ok _, .error _ => isFalse (fun e => nomatch e)
  | .error _, .ok _ => isFalse (fun e => nomatch e)

def strAtom (s : Name) : PV := .atom (.str s)

/-- `kwargs[n]` (first occurrence; a real `dict` has one) -/
def lookupKw (n : Name) : List (Name × PV) → Option PV
  | [] => none
  | (m, v) :: kw => if m = n then some v else lookupKw n kw

/-- `kwargs` without `n` (all occurrences) -/
def eraseKw (n : Name) : List (Name × PV) → List (Name × PV)
  | [] => []
  | (m, v) :: kw => if m = n then eraseKw n kw else (m, v) :: eraseKw n kw

/-- the `kwargs` dict as a value: the item tuples `(name, value)` in insertion order -/
def kwDict (kw : List (Name × PV)) : PV := .node .dict (kw.map fun p => tup [strAtom p.1, p.2])

/-- the object `memoize` converts: `(args, kwargs)` -/
def callArg (args : List PV) (kw : List (Name × PV)) : PV := tup [tup args, kwDict kw]

/-- `memoize`'s key (`cache.py:582`): `to_hashable((args, kwargs))` -/
def memoKey (args : List PV) (kw : List (Name × PV)) : Except Err PV := key true (callArg args kw)

/-! ### the pipeline cache -/

/-- the loop of `compute_cache_key` (`_cache.py:85-93`): for each root argument in order — not supplied: no key
    (`none`); otherwise `(name, to_hashable(kwargs[name]))`, an exception of `to_hashable` propagates -/
def pipeItems : List Name → List (Name × PV) → Except Err (Option (List PV))
  | [], _ => .ok (some [])
  | r :: rs, kw =>
    match lookupKw r kw with
    | none => .ok none
    | some v =>
      match key true v with
      | .error e => .error e
      | .ok k =>
        match pipeItems rs kw with
        | .ok (some l) => .ok (some (tup [strAtom r, k] :: l))
        | .ok none => .ok none
        | .error e => .error e

/-- `compute_cache_key` (`_cache.py:95`): `(output_name, tuple(cache_key_items))` -/
def pipeKey (out : PV) (roots : List Name) (kw : List (Name × PV)) : Except Err (Option PV) :=
  match pipeItems roots kw with
  | .ok (some l) => .ok (some (tup [out, tup l]))
  | .ok none => .ok none
  | .error e => .error e

/-- `_get_or_set_cache` (`map/_run.py:444`): `(func.output_name, to_hashable(kwargs))` -/
def mapKey (out : PV) (kw : List (Name × PV)) : Except Err PV :=
  match key true (kwDict kw) with
  | .ok k => .ok (tup [out, k])
  | .error e => .error e

/-! ### effective arguments -/
structure Param where
  name : Name
  default : Option PV

/-- Python's binding of `f(*args, **kwargs)` for positional-or-keyword parameters: positional arguments fill the
    parameters in order (a keyword of the same name: "multiple values", `none`; too many: `none`), the remaining
    parameters take their keyword, else their default, else the call is a `TypeError` (`none`); a keyword that names no
    parameter is a `TypeError`.  The result lists `(parameter, value)` in signature order. -/
def bindArgs : List Param → List PV → List (Name × PV) → Option (List (Name × PV))
  | [], [], kw => if kw.isEmpty then some [] else none
  | [], _ :: _, _ => none
  | p :: ps, a :: as, kw =>
    if (lookupKw p.name kw).isSome then none
    else (bindArgs ps as kw).map (fun l => (p.name, a) :: l)
  | p :: ps, [], kw =>
    match lookupKw p.name kw with
    | some v => (bindArgs ps [] (eraseKw p.name kw)).map (fun l => (p.name, v) :: l)
    | none =>
      match p.default with
      | some d => (bindArgs ps [] kw).map (fun l => (p.name, d) :: l)
      | none => none

/-! ### a cache keyed by `pipeKey` (`_run` in `_pipeline/_base.py:541-592` for one cached function) -/
structure PCache where
  /-- `(key, (output name, root arguments, kwargs) of the call that produced the entry, stored result)` -/
  entries : List (PV × (PV × List Name × List (Name × PV)) × Nat) := []
  /-- number of real calls so far; the result of the n-th real call is `n` (a fresh term) -/
  calls : Nat := 0

def PCache.lookup (k : PV) : List (PV × (PV × List Name × List (Name × PV)) × Nat) →
    Option ((PV × List Name × List (Name × PV)) × Nat)
  | [] => none
  | (k', a, r) :: es => if k' = k then some (a, r) else PCache.lookup k es

/-- one call `pipeline(out, **kw)` of a cached function with root arguments `roots`: no key (`compute_cache_key`
    returned `None`) → computed, not stored; hit → the stored result; miss → computed and stored -/
def PCache.call (c : PCache) (out : PV) (roots : List Name) (kw : List (Name × PV)) : Except Err (Nat × Bool × PCache) :=
  match pipeKey out roots kw with
  | .error e => .error e
  | .ok none => .ok (c.calls, false, { c with calls := c.calls + 1 })
  | .ok (some k) =>
    match PCache.lookup k c.entries with
    | some (_, r) => .ok (r, true, c)
    | none => .ok (c.calls, false, { entries := (k, (out, roots, kw), c.calls) :: c.entries, calls := c.calls + 1 })

/-- a sequence of calls: `(result, hit)` per call, `none` where the key raises -/
def PCache.run : PCache → List (PV × List Name × List (Name × PV)) → List (Option (Nat × Bool))
  | _, [] => []
  | c, (out, roots, kw) :: as =>
    match c.call out roots kw with
    | .ok (r, hit, c') => some (r, hit) :: PCache.run c' as
    | .error _ => none :: PCache.run c as

end PF.Hashable
