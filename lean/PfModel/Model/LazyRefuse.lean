/-
The state a REFUSED lazy request leaves behind.

`PF.Lazy.largs/lrun/lrunTop` (`Model/Lazy.lean`) return `Except Err (… × LSt)`: when the request is refused the state is lost.  The
real code raises in the middle of `Pipeline.run` and what was done up to the raise stays done: `_LazyFunction._counter` has advanced
(`lazy.py:38-39`), the nodes created so far are registered in `_TASK_GRAPH` (`lazy.py:41-58`: graph node, one edge per lazy argument),
`update_cache` has put the nodes of the finished sub-requests into the block's cache / the pipeline's own cache
(`_base.py:592-594`, `_cache.py:98-109`).  The variants below mirror `largs/lrun/lrunTop` line by line but thread the state through
the raise: they return `(state reached, outcome)`.

What persists per error kind (observed on the real code, see `harness/c18_refuse.py`):
* `ValueError` "output_name in kwargs" (`_base.py:631-633`) and `KeyError` unknown output (`func_dependencies`, `_base.py:623`, at the
  latest `output_to_func[...]` in `_run`, `_base.py:544`): raised before anything is created — nothing.
* `ValueError` "Missing value for argument" (`_get_func_args`, `_base.py:504-506`): the arguments BEFORE the missing one have been
  resolved, so every node of their sub-requests exists (counter, graph nodes and edges, cache entries); the node of the function whose
  argument is missing does not.
* `UnusedParametersError` (`_base.py:648-654`): raised at the END of `run`, after `_run` returned — every node of the request, the
  requested one included, exists and the caches are updated.
`all_results` and `used_parameters` are locals of `run`; what is left of them in the state returned here is of no consequence (the
next request resets them).  Core Lean only.
-/
import PfModel.Model.Lazy
namespace PF.Lazy
open PF PF.Pipe

/-- forget the state of a refused request: the outcome in the shape of `largs/lrun/lrunTop` -/
def forget {α : Type} : LSt × Except Err α → Except Err (α × LSt)
  | (s, .ok a) => .ok (a, s)
  | (_, .error e) => .error e

/-- `_get_func_args` (`_base.py:479-509`) with lazy upstream results; a raise (`:504-506`, or one propagating out of `self._run`,
    `:494-500`) leaves the state the loop had reached -/
def largsR (rec : String → LSt → LSt × Except Err LArg) (fs : List Func) (kw : List (String × Val)) (f : Func) :
    List (String × String) → LSt → LSt × Except Err (List (String × LArg))
  | [], s => (s, .ok [])
  | (p, orig) :: ps, s =>
    match resolve fs kw f p with
    | .missing => (s, .error (.missing p))
    | .val v =>
      match largsR rec fs kw f ps { s with used := s.used ++ [p] } with
      | (s2, .error e) => (s2, .error e)
      | (s2, .ok rest) => (s2, .ok ((orig, .val v) :: rest))
    | .upstream =>
      match rec p s with
      | (s1, .error e) => (s1, .error e)
      | (s1, .ok a) =>
        match largsR rec fs kw f ps { s1 with used := s1.used ++ [p] } with
        | (s2, .error e) => (s2, .error e)
        | (s2, .ok rest) => (s2, .ok ((orig, a) :: rest))

/-- `Pipeline._run` with `lazy=True` (`_base.py:533-596`); a raise out of `_get_func_args` (`:578-584`) happens before
    `_execute_func` (`:591`): the function's own node is not created, nothing is put into the cache for it.
    (`all_results[output_name]` after `_update_all_results` cannot fail; those branches keep the state reached.) -/
def lrunR (fs : List Func) (kw : List (String × Val)) : Nat → String → LSt → LSt × Except Err LArg
  | 0, _, s => (s, .error .fuel)
  | n+1, o, s =>
    match alookup s.memo o with
    | some a => (s, .ok a)
    | none =>
      match producer fs o with
      | none => (s, .error (.noFunc o))
      | some f =>
        match cacheLookup s (activeKey fs kw f o s) with
        | some r =>
          let s1 := updateAll f r { s with usedNone := true }
          match alookup s1.memo o with
          | some a => (s1, .ok a)
          | none => (s1, .error (.noFunc o))
        | none =>
          match largsR (lrunR fs kw n) fs kw f f.params s with
          | (s1, .error e) => (s1, .error e)
          | (s1, .ok args) =>
            let (id, s2) := mkNode (.call f args) s1
            let s3 := updateAll f (.ref id) (cachePut (activeKey fs kw f o s) (.ref id) s2)
            match alookup s3.memo o with
            | some a => (s3, .ok a)
            | none => (s3, .error (.noFunc o))

/-- the end of `Pipeline.run` (`_base.py:648-656`): the surplus-keyword check, skipped after a cache hit; a raise here comes after
    everything was created -/
def finishR (kw : List (String × Val)) (a : LArg) (s : LSt) : LSt × Except Err LArg :=
  if s.usedNone || ((akeys kw).filter (fun k => !(s.used.contains k))).isEmpty then (s, .ok a)
  else (s, .error (.unused ((akeys kw).filter (fun k => !(s.used.contains k)))))

/-- `Pipeline.run(output_name, kwargs=kw)` of a lazy pipeline (`_base.py:598-656`), returning the session state also when the
    request is refused -/
def lrunTopR (fs : List Func) (kw : List (String × Val)) (req : Req) (s : LSt) : LSt × Except Err LArg :=
  let s0 : LSt := { s with memo := kw.map fun (k, v) => (k, .val v), used := [], usedNone := false }
  match req with
  | .name o =>
    if (alookup kw o).isSome then (s, .error .outputInKwargs) else
    match lrunR fs kw (fuelFor fs) o s0 with
    | (s1, .error e) => (s1, .error e)
    | (s1, .ok a) => finishR kw a s1
  | .whole os =>
    match fs.find? (fun f => f.outputs = os) with
    | none => (s, .error (.noFunc (",".intercalate os)))
    | some f =>
      let key := match os with | o :: _ => activeKey fs kw f o s0 | [] => none
      match cacheLookup s0 key with
      | some r => finishR kw r { s0 with usedNone := true }
      | none =>
        match largsR (lrunR fs kw (fuelFor fs)) fs kw f f.params s0 with
        | (s1, .error e) => (s1, .error e)
        | (s1, .ok args) =>
          let (id, s2) := mkNode (.call f args) s1
          finishR kw (.ref id) (cachePut key (.ref id) s2)

end PF.Lazy
