import PfModel.Core.Mask
namespace PF

/-- the other direction of L1: unravel then ravel -/
theorem ravel_key : ∀ (s : List Nat) (i : Nat), i < prod s → ravel s (shapeToKey s i) = i ∧ InRange s (shapeToKey s i)
  | [], i, h => by simp [prod] at h; subst h; simp [shapeToKey, strides, ravel, InRange]
  | d :: ds, i, h => by
      rw [shapeToKey_cons]
      have hp : 0 < prod ds := by
        rcases Nat.eq_zero_or_pos (prod ds) with h0 | h0
        · simp [prod, h0] at h
        · exact h0
      have hdiv : i / prod ds < d := by
        rw [Nat.div_lt_iff_lt_mul hp]; simpa [prod, Nat.mul_comm] using h
      have hmod : (i / prod ds) % d = i / prod ds := Nat.mod_eq_of_lt hdiv
      -- shapeToKey ds i = shapeToKey ds (i % prod ds)
      have hsk : shapeToKey ds i = shapeToKey ds (i % prod ds) := by
        have : ∀ (s' : List Nat) (m r : Nat), shapeToKey s' (m * prod s' + r) = shapeToKey s' r := by
          intro s'
          induction s' with
          | nil => intro m r; simp [shapeToKey, strides]
          | cons e es ih =>
            intro m r
            rw [shapeToKey_cons, shapeToKey_cons]
            have hh : m * prod (e :: es) + r = (m * e) * prod es + r := by simp [prod, Nat.mul_assoc]
            rw [hh, ih (m * e) r]; congr 1
            by_cases hz : prod es = 0
            · simp [hz]
            · have hp : 0 < prod es := Nat.pos_of_ne_zero hz
              rw [Nat.mul_comm (m*e), Nat.mul_add_div hp, Nat.mul_comm m e, Nat.mul_add_mod]
        have e := this ds (i / prod ds) (i % prod ds)
        rw [Nat.mul_comm, Nat.div_add_mod] at e
        exact e
      have ih := ravel_key ds (i % prod ds) (Nat.mod_lt _ hp)
      rw [hsk, hmod]
      refine ⟨?_, ?_⟩
      · simp only [ravel]; rw [ih.1]; exact Nat.div_add_mod' i (prod ds)
      · exact ⟨hdiv, ih.2⟩

theorem ravel_inj (s k k' : List Nat) (h : InRange s k) (h' : InRange s k') (e : ravel s k = ravel s k') : k = k' := by
  have a := key_ravel s k h; have b := key_ravel s k' h'; rw [e] at a; rw [← a, b]

abbrev Flat (V : Type) := Nat → Option V
def upd {V} (a : Flat V) (k : Nat) (v : V) : Flat V := fun j => if j = k then some v else a j

/-- all keys of a shape, row-major (`iterate_shape_indices`) -/
def allIdx : List Nat → List (List Nat)
  | [] => [[]]
  | d :: ds => (List.range d).flatMap (fun k => (allIdx ds).map (k :: ·))

theorem mem_allIdx : ∀ (s k : List Nat), k ∈ allIdx s ↔ InRange s k
  | [], [] => by simp [allIdx, InRange]
  | [], _ :: _ => by simp [allIdx, InRange]
  | d :: ds, [] => by simp [allIdx, InRange]
  | d :: ds, k :: ks => by
      simp only [allIdx, List.mem_flatMap, List.mem_range, List.mem_map, InRange]
      constructor
      · rintro ⟨a, ha, b, hb, e⟩
        injection e with e1 e2; subst e1; subst e2
        exact ⟨ha, (mem_allIdx ds b).mp hb⟩
      · rintro ⟨h1, h2⟩; exact ⟨k, h1, ks, (mem_allIdx ds ks).mpr h2, rfl⟩

/-- L5: a fold of point updates: untouched positions keep their value … -/
theorem foldl_upd_other {V ι} (l : List ι) (key : ι → Nat) (val : ι → V) (a : Flat V) (j : Nat)
    (h : ∀ x ∈ l, key x ≠ j) : (l.foldl (fun a x => upd a (key x) (val x)) a) j = a j := by
  induction l generalizing a with
  | nil => rfl
  | cons x xs ih =>
    simp only [List.foldl]
    rw [ih _ (fun y hy => h y (List.mem_cons_of_mem _ hy))]
    simp only [upd]; split
    · next e => exact absurd e.symm (h x (List.mem_cons_self))
    · rfl

/-- … and a position hit by some element holds the (common) value of the elements that hit it. -/
theorem foldl_upd_hit {V ι} (l : List ι) (key : ι → Nat) (val : ι → V) (a : Flat V) (j : Nat) (v : V)
    (hex : ∃ x ∈ l, key x = j) (hval : ∀ y ∈ l, key y = j → val y = v) :
    (l.foldl (fun a x => upd a (key x) (val x)) a) j = some v := by
  induction l generalizing a with
  | nil => obtain ⟨x, hx, _⟩ := hex; simp at hx
  | cons y ys ih =>
    simp only [List.foldl]
    by_cases hk : ∃ z ∈ ys, key z = j
    · exact ih _ hk (fun w hw e => hval w (List.mem_cons_of_mem _ hw) e)
    · have hne : ∀ z ∈ ys, key z ≠ j := fun z hz e => hk ⟨z, hz, e⟩
      rw [foldl_upd_other ys key val _ _ hne]
      obtain ⟨x, hx, hxj⟩ := hex
      have hxy : x = y := by
        rcases List.mem_cons.mp hx with e | e
        · exact e
        · exact absurd hxj (hne x e)
      subst hxy
      simp [upd, hxj, hval x List.mem_cons_self hxj]

variable {V : Type}

def flatIdx (m : List Bool) (es is E I : List Nat) : Nat :=
  ravel (selectByMask m es is) (selectByMask m E I)

/-- `_set_output` (`_run.py:540-559`) on a flat result array modelled as a function. -/
def setOutput (m : List Bool) (es is : List Nat) (out : List Nat → V) (li : Nat) (arr : Flat V) : Flat V :=
  (allIdx is).foldl (fun a I => upd a (flatIdx m es is (shapeToKey es li) I) (out I)) arr

/-- the loop of `_output_from_mapspec_task` over all linear indices -/
def fill (m : List Bool) (es is : List Nat) (f : List Nat → List Nat → V) : Flat V :=
  (List.range (prod es)).foldl (fun a li => setOutput m es is (f (shapeToKey es li)) li a) (fun _ => none)

end PF

namespace PF

theorem inRange_select : ∀ (m : List Bool) (es is E I : List Nat), InRange es E → InRange is I →
    es.length = nTrue m → is.length = nFalse m → InRange (selectByMask m es is) (selectByMask m E I)
  | [], es, is, E, I, _, _, _, _ => by simp [selectByMask, InRange]
  | true :: m, [], _, _, _, _, _, h, _ => by simp [nTrue] at h
  | true :: m, d :: ds, is, [], I, hE, _, _, _ => by simp [InRange] at hE
  | true :: m, d :: ds, is, k :: ks, I, hE, hI, h1, h2 => by
      simp only [selectByMask, InRange]
      exact ⟨hE.1, inRange_select m ds is ks I hE.2 hI (by simpa [nTrue] using h1) (by simpa [nFalse] using h2)⟩
  | false :: m, _, [], _, _, _, _, _, h => by simp [nFalse] at h
  | false :: m, es, d :: ds, E, [], _, hI, _, _ => by simp [InRange] at hI
  | false :: m, es, d :: ds, E, k :: ks, hE, hI, h1, h2 => by
      have ih := inRange_select m es ds E ks hE hI.2 (by simpa [nTrue] using h1) (by simpa [nFalse] using h2)
      cases es <;> cases E <;> simp only [selectByMask, InRange] <;> first | exact ⟨hI.1, ih⟩ | (simp [InRange] at hE)

theorem length_select {α} : ∀ (m : List Bool) (e i : List α), e.length = nTrue m → i.length = nFalse m →
    (selectByMask m e i).length = m.length
  | [], _, _, _, _ => by simp [selectByMask]
  | true :: m, [], _, h, _ => by simp [nTrue] at h
  | true :: m, a :: as, i, h1, h2 => by
      simp [selectByMask, length_select m as i (by simpa [nTrue] using h1) (by simpa [nFalse] using h2)]
  | false :: m, _, [], _, h => by simp [nFalse] at h
  | false :: m, e, b :: bs, h1, h2 => by
      have ih := length_select m e bs (by simpa [nTrue] using h1) (by simpa [nFalse] using h2)
      cases e <;> simp [selectByMask, ih]

/-- `flat_injective` of the design: distinct (external, internal) pairs land on distinct flat positions. -/
theorem flat_inj (m : List Bool) (es is E I E' I' : List Nat)
    (h1 : es.length = nTrue m) (h2 : is.length = nFalse m)
    (hE : InRange es E) (hI : InRange is I) (hE' : InRange es E') (hI' : InRange is I')
    (e : flatIdx m es is E I = flatIdx m es is E' I') : E = E' ∧ I = I' := by
  have r := inRange_select m es is E I hE hI h1 h2
  have r' := inRange_select m es is E' I' hE' hI' h1 h2
  have hs := ravel_inj _ _ _ r r' e
  have lE := (inRange_length _ _ hE).symm.trans h1
  have lI := (inRange_length _ _ hI).symm.trans h2
  have lE' := (inRange_length _ _ hE').symm.trans h1
  have lI' := (inRange_length _ _ hI').symm.trans h2
  constructor
  · have := congrArg (extOf m) hs; rwa [ext_select m E I lE lI, ext_select m E' I' lE' lI'] at this
  · have := congrArg (intOf m) hs; rwa [int_select m E I lE lI, int_select m E' I' lE' lI'] at this

theorem foldl_preserve {V ι} (l : List ι) (T : ι → Flat V → Flat V) (j : Nat) (a : Flat V)
    (h : ∀ x ∈ l, ∀ b, T x b j = b j) : (l.foldl (fun b x => T x b) a) j = a j := by
  induction l generalizing a with
  | nil => rfl
  | cons y ys ih =>
    simp only [List.foldl]
    rw [ih _ (fun x hx => h x (List.mem_cons_of_mem _ hx)), h y List.mem_cons_self]

theorem foldl_set_once {V ι} (l : List ι) (T : ι → Flat V → Flat V) (j : Nat) (v : V) (a : Flat V) (x0 : ι)
    (hx : x0 ∈ l) (hset : ∀ b, T x0 b j = some v) (hother : ∀ x ∈ l, x ≠ x0 → ∀ b, T x b j = b j) :
    (l.foldl (fun b x => T x b) a) j = some v := by
  induction l generalizing a with
  | nil => simp at hx
  | cons y ys ih =>
    simp only [List.foldl]
    by_cases hmem : x0 ∈ ys
    · exact ih _ hmem (fun x hx' => hother x (List.mem_cons_of_mem _ hx'))
    · have hy : x0 = y := by
        rcases List.mem_cons.mp hx with e | e
        · exact e
        · exact absurd e hmem
      subst hy
      rw [foldl_preserve ys T j _ (fun x hx' => hother x (List.mem_cons_of_mem _ hx') (fun e => hmem (e ▸ hx')))]
      exact hset a

/-- **C01 core (prototype of `C01_func`, result-array half).** After the double loop, the flat result array
holds at the row-major position of every in-range full index `F` the value computed for the external part of `F`,
projected at the internal part of `F` — for every mask, i.e. every interleaving of external and internal axes. -/
theorem fill_correct {V : Type} (m : List Bool) (es is : List Nat) (f : List Nat → List Nat → V) (F : List Nat)
    (h1 : es.length = nTrue m) (h2 : is.length = nFalse m)
    (hF : InRange (selectByMask m es is) F) :
    fill m es is f (ravel (selectByMask m es is) F) = some (f (extOf m F) (intOf m F)) := by
  have hlen : (selectByMask m es is).length = m.length := length_select m es is h1 h2
  have hFlen : F.length = m.length := (inRange_length _ _ hF).symm.trans hlen
  have hE0 : InRange es (extOf m F) := by
    have := inRange_ext m _ F hF hlen; rwa [ext_select m es is h1 h2] at this
  have hI0 : InRange is (intOf m F) := by
    have := inRange_int m _ F hF hlen; rwa [int_select m es is h1 h2] at this
  have hsel : selectByMask m (extOf m F) (intOf m F) = F := select_ext_int m F hFlen
  have hli : ravel es (extOf m F) < prod es := ravel_lt es _ hE0
  have hkey : shapeToKey es (ravel es (extOf m F)) = extOf m F := key_ravel es _ hE0
  have hj : ravel (selectByMask m es is) F = flatIdx m es is (extOf m F) (intOf m F) := by
    simp [flatIdx, hsel]
  rw [hj]
  unfold fill
  refine foldl_set_once (List.range (prod es))
    (fun li a => setOutput m es is (f (shapeToKey es li)) li a) _ _ _ (ravel es (extOf m F))
    (List.mem_range.mpr hli) ?_ ?_
  · -- the iteration li0 writes the value
    intro b
    simp only [setOutput, hkey]
    refine foldl_upd_hit (allIdx is) _ _ b _ _ ⟨intOf m F, (mem_allIdx _ _).mpr hI0, rfl⟩ ?_
    intro I hI e
    have hI' := (mem_allIdx _ _).mp hI
    have := (flat_inj m es is _ _ _ _ h1 h2 hE0 hI' hE0 hI0 e).2
    rw [this]
  · -- every other iteration leaves the position alone
    intro li hli' hne b
    have hlt := List.mem_range.mp hli'
    obtain ⟨hr, hin⟩ := ravel_key es li hlt
    simp only [setOutput]
    refine foldl_upd_other (allIdx is) _ _ b _ ?_
    intro I hI e
    have hI' := (mem_allIdx _ _).mp hI
    have := (flat_inj m es is _ _ _ _ h1 h2 hin hI' hE0 hI0 e).1
    apply hne
    rw [← hr, this]

end PF
