import PfModel.Lemmas.ResourcesHeap
/-!
C20 — "update and all other combinators return new objects leaving their operands unchanged", on the object model with a heap
(`Model/ResourcesHeap.lean`): instances and `extra_args` dict objects are references, every combinator is the heap program that mirrors
the Python statements.  For every combinator, from ANY well-formed heap (any number of other instances, operands that share one dict
object, an operand used twice, …):

 (i)   `Ext h h'`: every instance (`__dict__`) and every dict object that existed before the call has the same content afterwards;
 (ii)  `FreshRes h h' o`: the result is an instance that did not exist, holding an `extra_args` object that did not exist — hence
       (`C20_heap_no_show_through`) a later `d[k] = v` on the result's dict is invisible through every operand and vice versa;
 (iii) what Python sees of the result (`view`) is what the functional model of `Model/Resources.lean` computes, and the call raises
       exactly when the functional model does.

The two places where the code deliberately hands out an EXISTING object are stated as such, not hidden:
`with_defaults(None)` / `maybe_with_defaults` with one side `None` return the other object itself (`C20_heap_with_defaults_none`,
`C20_heap_maybe_with_defaults`), and the dataclass constructor / `from_dict` store the dict object they are given
(`C20_heap_from_dict_alias`).
-/
namespace PF.C20
open PF.Res PF.ResH

/-- (i) in the words of the property: if a call only extended the heap, every operand (indeed every instance that existed) has the same
    fields, refers to the same dict object, shows the same `extra_args` content, and every dict object that existed has the same content. -/
theorem C20_heap_operands_unchanged (h h' : Heap) (x : Ext h h') (wf : WF h) :
    (∀ o, o < h.recs.length → h'.obj o = h.obj o ∧ view h' o = view h o) ∧
    (∀ r, r < h.dicts.length → h'.dict r = h.dict r) :=
  ⟨fun o ho => ⟨x.obj o ho, view_ext x wf o ho⟩, x.dict⟩

/-- (ii) consequences of freshness: the result is none of the operands, its dict object is none of theirs (nor any dict object that
    existed), a later in-place write `result.extra_args[k] = v` changes nothing any operand can see, and a later in-place write into ANY
    dict object that existed before the call (an operand's `extra_args`) changes nothing the result shows. -/
theorem C20_heap_no_show_through (h h' : Heap) (x : Ext h h') (wf : WF h) (o : Nat) (fr : FreshRes h h' o) :
    (∀ p, p < h.recs.length → p ≠ o ∧ (h'.obj p).ex ≠ (h'.obj o).ex) ∧
    (∀ (k : String) (v : Int) (p : Nat), p < h.recs.length → view (setItem h' (h'.obj o).ex k v) p = view h p) ∧
    (∀ (k : String) (v : Int) (r : Nat), r < h.dicts.length → (setItem h' (h'.obj o).ex k v).dict r = h.dict r) ∧
    (∀ (k : String) (v : Int) (r : Nat), r < h.dicts.length → view (setItem h' r k v) o = view h' o) := by
  have hne : ∀ r : Nat, r < h.dicts.length → (h'.obj o).ex ≠ r := fun r hr => Nat.ne_of_gt (Nat.lt_of_lt_of_le hr fr.exNew)
  refine ⟨?_, ?_, ?_, ?_⟩
  · intro p hp
    refine ⟨Nat.ne_of_lt (Nat.lt_of_lt_of_le hp fr.objNew), ?_⟩
    exact Ne.symm (hne _ (wf_ext_old x wf p hp))
  · intro k v p hp
    have e := wf_ext_old x wf p hp
    simp only [view, obj_setItem, dict_setItem_ne h' _ _ k v (hne _ e)]
    exact view_ext x wf p hp
  · intro k v r hr
    rw [dict_setItem_ne h' _ _ k v (hne r hr)]; exact x.dict r hr
  · intro k v r hr
    simp only [view, obj_setItem, dict_setItem_ne h' _ _ k v (Ne.symm (hne r hr))]

/-- `update(**kwargs)` as a heap program (copy of `__dict__`, `dict(...)` of the extra args, `{**a, **b}` for `extra_args=`, in-place
    `data["extra_args"][key] = value` for unknown keys, constructor): (i) only extends the heap, (ii) the result is fresh,
    (iii) it raises exactly when the functional `update` does and otherwise shows exactly its result.  `UpdOK`: a dict object passed as
    `extra_args=` exists (it may be the receiver's own, or shared with anything). -/
theorem C20_heap_update (h : Heap) (self : Nat) (kw : List HUpd)
    (ok : ∀ u ∈ kw, UpdOK h u) :
    ∃ o, Ext h (updateH h self kw).2 ∧
      (updateH h self kw).1 = (update (view h self) (kw.map (toUpd h))).1.map (fun _ => o) ∧
      FreshRes h (updateH h self kw).2 o ∧
      (∀ w, (update (view h self) (kw.map (toUpd h))).1 = some w → view (updateH h self kw).2 o = w) :=
  updateH_spec h self kw ok

/-- `combine_max(resources_list)` as a heap program (one new `{}` filled in place by the loop, constructor): (i), (ii), (iii) for ANY list
    of existing instances — repeated operands and operands sharing a dict object included. -/
theorem C20_heap_combine_max (h : Heap) (wf : WF h) (l : List Nat) (hl : ∀ o ∈ l, o < h.recs.length) :
    Ext h (combineMaxH h l).2 ∧
    (combineMaxH h l).1 = (mk? (combineMax (l.map (view h)))).map (fun _ => h.recs.length) ∧
    FreshRes h (combineMaxH h l).2 h.recs.length ∧
    view (combineMaxH h l).2 h.recs.length = combineMax (l.map (view h)) :=
  combineMaxH_spec h wf l hl

/-- `self.with_defaults(d)` with an instance `d` (two `asdict` deep copies, the receiver's entries win, constructor): (i), (ii), (iii). -/
theorem C20_heap_with_defaults (h : Heap) (wf : WF h) (self d : Nat) (hs : self < h.recs.length) (hd : d < h.recs.length) :
    Ext h (withDefaultsH h self (some d)).2 ∧
    (withDefaultsH h self (some d)).1 = (withDefaults? (view h self) (some (view h d))).map (fun _ => h.recs.length) ∧
    FreshRes h (withDefaultsH h self (some d)).2 h.recs.length ∧
    (∀ w, withDefaults? (view h self) (some (view h d)) = some w →
      view (withDefaultsH h self (some d)).2 h.recs.length = w) :=
  withDefaultsH_spec h wf self d hs hd

/-- `self.with_defaults(None)` does nothing at all and returns THE RECEIVER ITSELF (`return self`): not a new object — the one
    combinator path where result and operand are the same instance (there is no second `Resources` operand on this path). -/
theorem C20_heap_with_defaults_none (h : Heap) (self : Nat) : withDefaultsH h self none = (some self, h) := rfl

/-- `maybe_with_defaults(r, d)`: with both present it is `r.with_defaults(d)` (fresh, as above); with one side `None` the OTHER OBJECT
    ITSELF comes back and the heap is untouched; with both `None`, `None`. -/
theorem C20_heap_maybe_with_defaults (h : Heap) (r d : Nat) :
    maybeWithDefaultsH h none none = (some none, h) ∧
    maybeWithDefaultsH h none (some d) = (some (some d), h) ∧
    maybeWithDefaultsH h (some r) none = (some (some r), h) ∧
    (maybeWithDefaultsH h (some r) (some d)).2 = (withDefaultsH h r (some d)).2 ∧
    (maybeWithDefaultsH h (some r) (some d)).1 = (withDefaultsH h r (some d)).1.map some :=
  ⟨rfl, rfl, rfl, rfl, rfl⟩

/-- `r.dict()` only extends the heap and its `extra_args` entry is a NEW dict object with the receiver's content (`asdict` copies
    deeply); the entries are those of the functional `toDict`. -/
theorem C20_heap_dict (h : Heap) (o : Nat) :
    Ext h (dictH h o).2 ∧ (dictH h o).1.map Prod.fst = toDict (view h o) ∧
    (∀ fr ∈ (dictH h o).1, ∀ e, fr.2 = some e → e = h.dicts.length ∧ (dictH h o).2.dict e = (view h o).extra) := by
  refine ⟨ext_newDict _ _, ?_, ?_⟩
  · simp only [dictH, List.map_map]
    have : (Prod.fst ∘ tagField (newDict h (h.dict (h.obj o).ex)).1) = id := by funext f; rfl
    rw [this, List.map_id]; rfl
  · intro fr hfr e he
    simp only [dictH, List.mem_map] at hfr
    obtain ⟨f, _, rfl⟩ := hfr
    have : e = h.dicts.length := by
      cases f <;> simp [tagField] at he
      exact he.symm
    subst this
    exact ⟨rfl, dict_newDict_new h _⟩

/-- `Resources.from_dict(r.dict())` on the heap: only extends it, the result is a fresh instance with a fresh dict object, and (for a
    valid `r`) it shows exactly what `r` shows: `from_dict(r.dict()) == r` without sharing anything with `r`. -/
theorem C20_heap_dict_roundtrip (h : Heap) (wf : WF h) (o : Nat) (ho : o < h.recs.length) (hv : Valid (view h o) = true) :
    Ext h (fromDictH (dictH h o).2 (dictH h o).1).2 ∧
    (fromDictH (dictH h o).2 (dictH h o).1).1 = some h.recs.length ∧
    FreshRes h (fromDictH (dictH h o).2 (dictH h o).1).2 h.recs.length ∧
    view (fromDictH (dictH h o).2 (dictH h o).1).2 h.recs.length = view h o := by
  have hfold : (dictH h o).1.foldl setFieldH ({}, none) = (view h o, some h.dicts.length) := by
    have a1 : (dictH h o).1 = (toDict (view h o)).map (tagField h.dicts.length) := rfl
    rw [a1, foldl_setFieldH_tag, overlay_init]
  have out : fromDictH (dictH h o).2 (dictH h o).1 = construct (dictH h o).2 (view h o) (some h.dicts.length) := by
    simp only [fromDictH, hfold]
  obtain ⟨c1, c2, c3, c4, c5⟩ := construct_some (dictH h o).2 (view h o) h.dicts.length
  have hrecs : (dictH h o).2.recs = h.recs := rfl
  rw [hrecs] at c2 c4 c5
  have hd : (construct (dictH h o).2 (view h o) (some h.dicts.length)).2.dict h.dicts.length = (view h o).extra := by
    rw [Heap.dict, c3]; exact dict_newDict_new h _
  have _ := wf o ho
  rw [out]
  refine ⟨(ext_newDict _ _).trans c1, by rw [c4, hv]; rfl, ⟨Nat.le_refl _, by omega, ?_, ?_⟩, ?_⟩
  · rw [c5]; exact Nat.le_refl _
  · rw [c5, c3]; simp [dictH]
  · rw [view_of_obj c5 hd]

/-- The constructor keeps the dict OBJECT it is given: `Resources.from_dict(data)` (= `Resources(**data)`) holds the object of the last
    `extra_args` entry of `data` — aliased with the caller's dict by construction of the dataclass — and a new empty one when `data` has
    none.  It never writes to any existing object. -/
theorem C20_heap_from_dict_alias (h : Heap) (data : KwDict) :
    ((fromDictH h data).2.obj h.recs.length).ex =
      (match (data.foldl setFieldH ({}, none)).2 with | some r => r | none => h.dicts.length) ∧
    (fromDictH h data).1 = (if Valid (data.foldl setFieldH ({}, none)).1 then some h.recs.length else none) ∧
    Ext h (fromDictH h data).2 :=
  fromDictH_ex h data

/-! ### non-vacuity: two operands SHARING one dict object, a third with its own -/

theorem C20_heap_example_wf : WF exHeap := by
  intro o ho
  have : o = 0 ∨ o = 1 ∨ o = 2 := by simp [exHeap] at ho; omega
  rcases this with rfl | rfl | rfl <;> decide

/-- the hypotheses of `C20_heap_combine_max` / `C20_heap_update` / `C20_heap_with_defaults` hold for it, and the programs really run:
    `combine_max([r0, r1, r2])` is the new instance 3 holding the new dict object 2 = `{x: 1, y: 2}`; `r0.update(extra_args=<r0's own
    dict>, z=7)` is instance 4 (3 is the `__dict__` copy) holding object 3 = `{x: 1, z: 7}` while object 0 is still `{x: 1}`. -/
example :
    (∀ o ∈ [0, 1, 2], o < exHeap.recs.length) ∧
    (combineMaxH exHeap [0, 1, 2]).1 = some 3 ∧ ((combineMaxH exHeap [0, 1, 2]).2.obj 3).ex = 2 ∧
    (view (combineMaxH exHeap [0, 1, 2]).2 3).extra = [("x", 1), ("y", 2)] ∧
    (view (combineMaxH exHeap [0, 1, 2]).2 3).cpus = some 3 ∧
    (∀ u ∈ [HUpd.extraObj 0, HUpd.plain (.unknown "z" 7)], UpdOK exHeap u) ∧
    (updateH exHeap 0 [.extraObj 0, .plain (.unknown "z" 7)]).1 = some 4 ∧
    (view (updateH exHeap 0 [.extraObj 0, .plain (.unknown "z" 7)]).2 4).extra = [("x", 1), ("z", 7)] ∧
    (updateH exHeap 0 [.extraObj 0, .plain (.unknown "z" 7)]).2.dict 0 = [("x", 1)] ∧
    (withDefaultsH exHeap 0 (some 1)).1 = some 3 ∧ (view (withDefaultsH exHeap 0 (some 1)).2 3).gpus = some 2 ∧
    Valid (view exHeap 1) = true := by
  refine ⟨by decide, by decide, by decide, by decide, by decide, ?_, by decide, by decide, by decide, by decide, by decide,
    by decide⟩
  intro u hu
  simp only [List.mem_cons, List.mem_nil_iff, or_false] at hu
  rcases hu with rfl | rfl
  · show 0 < exHeap.dicts.length; decide
  · trivial

/-- so the hypotheses of `C20_heap_operands_unchanged` / `C20_heap_no_show_through` (`Ext`, `WF`, `FreshRes`) are met by an actual run -/
example : Ext exHeap (combineMaxH exHeap [0, 1, 2]).2 ∧ FreshRes exHeap (combineMaxH exHeap [0, 1, 2]).2 3 :=
  have h := C20_heap_combine_max exHeap C20_heap_example_wf [0, 1, 2] (by decide)
  ⟨h.1, h.2.2.1⟩

/-- why freshness matters (the shape of seeded change C20-s2-A): a `combine_max` that ADOPTS the first operand's dict object instead of
    filling a new one writes `y` into the shared object 0, so instances 0 and 1 both change. -/
theorem C20_heap_adopting_shows_through :
    let bad := insMissing exHeap (exHeap.obj 0).ex (exHeap.dict (exHeap.obj 2).ex)
    view bad 0 ≠ view exHeap 0 ∧ view bad 1 ≠ view exHeap 1 := by decide

end PF.C20
