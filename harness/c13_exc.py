"""Exception classes injected by the C13 harness.  Importable (so picklable by reference) in every worker process."""
from __future__ import annotations


class CustomError(Exception):
    """A custom picklable exception with two required constructor arguments."""

    def __init__(self, code, detail):
        super().__init__(code, detail)
        self.code = code
        self.detail = detail


class SubValueError(ValueError):
    """A subclass of a builtin: 'same type' must mean this class, not its base."""


class QuietError(Exception):
    """A custom class whose constructor takes no argument at all: an exception "without args" that cannot be rebuilt from
    rewritten args (`QuietError("text")` is a TypeError) — what pickling across a process pool does."""

    def __init__(self):
        super().__init__()


class UnpicklableArgsError(Exception):
    """An exception whose args hold an object that cannot be pickled (a lock).  OUTSIDE the property's quantifier
    ("custom picklable classes"): in-process it behaves like any exception; across a process pool the type is lost."""


class UserAbort(BaseException):
    """A BaseException that is not an Exception (like KeyboardInterrupt / SystemExit).  OUTSIDE the property's quantifier:
    pipefunc's `except Exception` sites do not see it — it surfaces unchanged, without note and without snapshot."""


class Unpicklable:
    """args element of `UnpicklableArgsError`: equal to every other instance, refuses to be pickled"""

    def __reduce__(self):
        raise TypeError("cannot pickle 'Unpicklable' object")

    def __repr__(self):
        return "Unpicklable()"


# the kinds of the property's quantifier (with / without args, custom picklable classes) …
KINDS = ["value", "noargs", "custom", "subclass", "quiet"]
# … and kinds outside it, whose observed behaviour is modelled / counted (see the module docstring of props/c13.py)
OUTSIDE_KINDS = ["base", "unpicklable"]


# ------------------------------------------------------------------------------------------------ protocol classes (ext3)
# "Several exception types" includes the types to which the Python runtime, the standard library or pipefunc's own code attach a
# MEANING: `StopIteration` ends `list(map(f, xs))`, `zip`, `next()`, a `for` loop over a hand-written iterator; `StopAsyncIteration`
# ends `async for`; `AttributeError` is what `getattr(x, n, default)` / `hasattr` swallow; `KeyError` / `IndexError` / `LookupError` are
# what `dict.get`-like fallbacks and the legacy `__getitem__` iteration protocol swallow; `FileNotFoundError` / `OSError` mean "not
# stored yet" to storage code; `ImportError` means "optional dependency missing"; `TimeoutError`, `CancelledError`, `BrokenExecutor`,
# `InvalidStateError` are what an executor itself reports; `TypeError` / `ValueError` / `NotImplementedError` are typical
# `try … except` fallbacks; `pickle.PicklingError`, `EOFError` are what transport reports.  A user function may raise any of them
# and the property promises the same for all.  A protocol kind is the string `x:<module>.<qualname>:<shape>`, shape `n` = no args,
# `a` = ("boom", tag), `v` = (tag,), `s` = the class's own constructor signature (fixed special arguments).
def _walk_builtin(root):
    seen, out = set(), []

    def walk(c):
        for s in c.__subclasses__():
            if s.__module__ == "builtins" and s not in seen:
                seen.add(s)
                out.append(s)
                walk(s)
    walk(root)
    return sorted(out, key=lambda c: c.__name__)


def _special_args(cls, tag):
    """constructor arguments of classes that refuse ("boom", tag)"""
    n = cls.__name__
    if n == "UnicodeDecodeError":
        return ("utf-8", b"\xff", 0, 1, f"boom{tag}")
    if n == "UnicodeEncodeError":
        return ("ascii", "\xe9", 0, 1, f"boom{tag}")
    if n == "UnicodeTranslateError":
        return ("\xe9", 0, 1, f"boom{tag}")
    if n in ("ExceptionGroup", "BaseExceptionGroup"):
        return ("boom", [ValueError("inner", tag)])
    if n in ("SyntaxError", "IndentationError", "TabError"):
        return ("boom", ("file.py", tag, 1, "x = (", tag, 2))
    if n == "JSONDecodeError":
        return ("boom", "{}", 0)
    if n == "CalledProcessError":
        return (tag, "cmd")
    if n == "IncompleteReadError":
        return (b"", tag)
    return None


SPECIAL_ONLY = {"UnicodeDecodeError", "UnicodeEncodeError", "UnicodeTranslateError", "ExceptionGroup", "BaseExceptionGroup",
                "JSONDecodeError", "CalledProcessError", "IncompleteReadError"}
NO_A_SHAPE = {"SyntaxError", "IndentationError", "TabError"}          # a second argument must be the details tuple


def _stdlib_classes():
    import asyncio
    import concurrent.futures as cf
    import concurrent.futures.process
    import concurrent.futures.thread
    import json
    import multiprocessing
    import pickle
    import queue
    import subprocess
    return [cf.CancelledError, cf.TimeoutError, cf.BrokenExecutor, cf.InvalidStateError, concurrent.futures.process.BrokenProcessPool,
            concurrent.futures.thread.BrokenThreadPool, asyncio.CancelledError, asyncio.TimeoutError, asyncio.InvalidStateError,
            asyncio.IncompleteReadError, asyncio.QueueEmpty, queue.Empty, queue.Full, pickle.PicklingError, pickle.UnpicklingError,
            pickle.PickleError, multiprocessing.ProcessError, multiprocessing.TimeoutError, multiprocessing.AuthenticationError,
            json.JSONDecodeError, subprocess.CalledProcessError, subprocess.TimeoutExpired]


def qualified(cls):
    return f"{cls.__module__}.{cls.__qualname__}"


def resolve_class(qual):
    import importlib
    mod, _, name = qual.rpartition(".")
    obj = importlib.import_module(mod)
    for part in name.split("."):
        obj = getattr(obj, part)
    return obj


def _shapes_of(cls):
    if cls.__name__ in SPECIAL_ONLY:
        return ["s"]
    if cls.__name__ in NO_A_SHAPE:
        return ["n", "v", "s"]
    if cls.__name__ == "TimeoutExpired":
        return ["a"]
    return ["n", "a", "v"]


def proto_kind(cls, shape):
    return f"x:{qualified(cls)}:{shape}"


def is_proto(kind):
    return kind.startswith("x:")


# classes whose meaning to the runtime / the executors / pipefunc's own code makes them likely to be swallowed or rewritten
HEAVY_NAMES = ["StopIteration", "StopIteration", "StopIteration", "StopAsyncIteration", "KeyError", "IndexError", "LookupError", "AttributeError",
               "TypeError", "ValueError", "NameError", "ImportError", "ModuleNotFoundError", "FileNotFoundError", "FileExistsError",
               "PermissionError", "OSError", "TimeoutError", "NotImplementedError", "RuntimeError", "RecursionError", "AssertionError",
               "EOFError", "MemoryError", "ZeroDivisionError", "Exception", "ExceptionGroup", "UnicodeDecodeError"]


def proto_pool():
    """(heavy, light, base): protocol kinds of `Exception` subclasses — the ones with a meaning to the machinery first, then every other
    builtin / stdlib class — and the `BaseException`-only ones (outside the text, like `base`)."""
    builtin = _walk_builtin(BaseException)
    by_name = {c.__name__: c for c in builtin}
    by_name["Exception"] = Exception
    std = _stdlib_classes()
    heavy_cls = [by_name[n] for n in HEAVY_NAMES] + [c for c in std if issubclass(c, Exception)][:9]
    heavy, light, base = [], [], []
    for c in heavy_cls:
        heavy.extend(proto_kind(c, s) for s in _shapes_of(c))
    seen = set(heavy)
    for c in builtin + std:
        for s in _shapes_of(c):
            k = proto_kind(c, s)
            if not issubclass(c, Exception):
                if k not in base:
                    base.append(k)
            elif k not in seen:
                seen.add(k)
                light.append(k)
    return heavy, light, base


def pick_proto(rng, base_ok=False):
    """one protocol kind: 70 % from the heavy pool (StopIteration three times as likely), else any other builtin / stdlib class"""
    heavy, light, base = proto_pool()
    if base_ok:
        return rng.choice(base)
    return rng.choice(heavy) if rng.random() < 0.7 else rng.choice(light)


_KEEPS = {}


def pickle_keeps_notes(kind):
    """Does the class's own pickling keep the instance `__dict__` (where `__notes__` lives)?  `asyncio.IncompleteReadError` and
    `json.JSONDecodeError` define a `__reduce__` that rebuilds the exception from its constructor arguments only: across a process
    pool (the pool pickles the exception, not pipefunc) their note cannot arrive.  OUTSIDE the text ("custom picklable classes")."""
    if kind not in _KEEPS:
        import pickle
        try:
            e = make(kind, 0)
            e.add_note("n")
            _KEEPS[kind] = getattr(pickle.loads(pickle.dumps(e)), "__notes__", None) == ["n"]
        except Exception:  # noqa: BLE001
            _KEEPS[kind] = True
    return _KEEPS[kind]


def is_outside(kind):
    """outside the property's quantifier: BaseException-only classes and unpicklable args"""
    if kind in OUTSIDE_KINDS:
        return True
    if is_proto(kind):
        return not issubclass(resolve_class(kind.split(":")[1]), Exception)
    return False


def make_proto(kind, tag):
    _, qual, shape = kind.split(":")
    cls = resolve_class(qual)
    if shape == "n":
        return cls()
    if shape == "v":
        return cls(tag)
    if shape == "a":
        return cls("boom", tag)
    return cls(*_special_args(cls, tag))


def make(kind: str, tag: int) -> Exception:
    if is_proto(kind):
        return make_proto(kind, tag)
    if kind == "value":
        return ValueError("boom", tag)
    if kind == "noargs":
        return RuntimeError()
    if kind == "custom":
        return CustomError(tag, "detail")
    if kind == "subclass":
        return SubValueError("sub", tag)
    if kind == "quiet":
        return QuietError()
    if kind == "base":
        return UserAbort("abort", tag)
    if kind == "unpicklable":
        return UnpicklableArgsError("lock", tag, Unpicklable())
    raise AssertionError(kind)


def clsname(e: BaseException) -> str:
    t = type(e)
    return f"{t.__module__}.{t.__qualname__}"


def model_exn(kind: str, tag: int) -> dict:
    """The same exception as the Lean driver's `Exn` JSON."""
    e = make(kind, tag)
    x = {"cls": clsname(e), "args": [a if isinstance(a, int) else {"s": a} if isinstance(a, str) else {"s": "$opaque:" + type(a).__name__} for a in e.args]}
    if not isinstance(e, Exception):
        x["base"] = True          # not caught by `except Exception`: the model erases note and snapshot
    if isinstance(e, StopIteration):
        x["stop"] = True          # no coroutine can raise it (PEP 479): `awaitExn` wraps it (`map_async`)
    return x


def standin_exn(tag: int) -> dict:
    """the stand-in a protocol exception is listed as in the oracle handed to the model; the request's `rename` table maps it to
    the protocol exception (`mapOracle`, `C13_class_parametric`)"""
    return {"cls": "c13.Standin", "args": [tag]}


def enc_arg(a):
    """encoding of one `e.args` element on the implementation side (agrees with `model_exn`): ints and strings as themselves, other
    scalars as `terms.enc` has them, containers and foreign objects as `$opaque:<type name>`"""
    import terms
    try:
        j = terms.enc(a)
    except Exception:  # noqa: BLE001
        j = {"opaque": type(a).__name__}
    if isinstance(j, dict) and ("opaque" in j or "arr" in j):
        return {"s": "$opaque:" + type(a).__name__}
    return j


class RaisingPicker:
    """An `output_picker` (user code that is NOT the wrapped function) that raises for the outputs of the invocations a hook
    names; otherwise picks the output by position.  Picklable by reference."""

    def __init__(self, outputs, hook):
        self.outputs = list(outputs)
        self.hook = hook

    def __call__(self, out, name):
        exc = self.hook.for_picker(out, name)
        if exc is not None:
            raise exc
        return out[self.outputs.index(name)]
