import PfModel.Lemmas.RewriteAxisStruct
/-!
`add_mapspec_axis` on pipelines that ALREADY have MapSpecs: what happens to a prior MapSpec.  Every array keeps its old
axes in their old positions; the new axis is only ever appended LAST to an array; arrays that are added to the inputs
are delivered whole except for the new (last) axis.  So an element-wise function stays element-wise over its old index
space (`x[i] -> y[i]` becomes `x[i, w] -> y[i, w]` or `x[i], c[w] -> y[i, w]`), and a reduction keeps reducing over the
old axes (`y[:, w] -> z[w]`).  Proved with the generic invariant lemma `addAxisGo_inv`.
-/
namespace PF.Rw
open PF PF.Map

/-- an array delivered whole except for the new, last axis: `q[:, …, :, axis]` -/
def IsWhole (axis : String) (e : ASpec) : Prop := ∃ k, e.axes = List.replicate k none ++ [some axis]

/-- the same array, with its old axes in place and possibly the new axis appended last -/
def AExt (axis : String) (a b : ASpec) : Prop := b.name = a.name ∧ (b.axes = a.axes ∨ b.axes = a.axes ++ [some axis])

/-- position by position -/
def PExt (axis : String) : List ASpec → List ASpec → Prop
  | [], [] => True
  | a :: as, b :: bs => AExt axis a b ∧ PExt axis as bs
  | _, _ => False

/-- the old inputs position by position, then whole arrays carrying the new axis -/
def IExt (axis : String) (old new : List ASpec) : Prop :=
  ∃ pre extra, new = pre ++ extra ∧ PExt axis old pre ∧ ∀ e ∈ extra, IsWhole axis e

/-- how the MapSpec of a function with outputs `outs` may differ from its MapSpec `old` before `add_mapspec_axis(_, axis)` -/
def SpecExt (axis : String) (outs : List String) (old : Option MSpec) : Option MSpec → Prop
  | none => old = none
  | some new =>
    match old with
    | none => (∀ e ∈ new.inputs, IsWhole axis e) ∧ new.outputs = outs.map (fun o => (⟨o, [some axis]⟩ : ASpec))
    | some o => IExt axis o.inputs new.inputs ∧ PExt axis o.outputs new.outputs

theorem AExt_refl (axis : String) (a : ASpec) : AExt axis a a := ⟨rfl, Or.inl rfl⟩

theorem PExt_refl (axis : String) : ∀ l, PExt axis l l
  | [] => trivial
  | a :: l => ⟨AExt_refl axis a, PExt_refl axis l⟩

theorem PExt_map (axis : String) (g : ASpec → ASpec) (hg : ∀ a b, AExt axis a b → AExt axis a (g b)) :
    ∀ old cur, PExt axis old cur → PExt axis old (cur.map g)
  | [], [], _ => trivial
  | [], _ :: _, h => by cases h
  | _ :: _, [], h => by cases h
  | a :: as, b :: bs, h => ⟨hg a b h.1, PExt_map axis g hg as bs h.2⟩

theorem SpecExt_refl (axis : String) (outs : List String) : ∀ old, SpecExt axis outs old old
  | none => rfl
  | some o => ⟨⟨o.inputs, [], by simp, PExt_refl axis _, fun e h => by cases h⟩, PExt_refl axis _⟩

theorem isWhole_contains (axis : String) (e : ASpec) (h : IsWhole axis e) : e.axes.contains (some axis) = true := by
  obtain ⟨k, hk⟩ := h
  rw [hk]; simp

theorem isWhole_axesFromDims (q axis : String) (dims : List (String × Nat)) : IsWhole axis ⟨q, axesFromDims q dims axis⟩ :=
  ⟨_, rfl⟩

/-- appending the axis unless it is there keeps `AExt` -/
theorem AExt_append (axis : String) (c : ASpec → Bool) (a b : ASpec) (h : AExt axis a b) :
    AExt axis a (if c b && !(b.axes.contains (some axis)) then { b with axes := b.axes ++ [some axis] } else b) := by
  by_cases hc : (c b && !(b.axes.contains (some axis))) = true
  · simp only [hc, ↓reduceIte]
    refine ⟨h.1, ?_⟩
    rcases h.2 with e | e
    · right; simp only [e]
    · exfalso
      simp only [Bool.and_eq_true, Bool.not_eq_true', e] at hc
      simp at hc
  · simp only [hc]
    exact h

theorem AExt_append' (axis : String) (a b : ASpec) (h : AExt axis a b) :
    AExt axis a (if b.axes.contains (some axis) then b else { b with axes := b.axes ++ [some axis] }) := by
  by_cases hc : b.axes.contains (some axis) = true
  · simp only [hc, ↓reduceIte]; exact h
  · simp only [hc, Bool.false_eq_true, ↓reduceIte]
    refine ⟨h.1, ?_⟩
    rcases h.2 with e | e
    · right; simp only [e]
    · exfalso; rw [e] at hc; simp at hc

/-- one step of the recursion keeps a function's MapSpec an extension of what it was before the call -/
theorem SpecExt_newSpec (axis q : String) (dims : List (String × Nat)) (f : RFunc) (old : Option MSpec)
    (h : SpecExt axis f.core.outputs old f.mapspec) :
    SpecExt axis f.core.outputs old (some ⟨(newSpec axis q dims f).1, (newSpec axis q dims f).2⟩) := by
  unfold newSpec
  cases hm : f.mapspec with
  | none =>
    rw [hm] at h
    simp only [SpecExt] at h
    subst h
    show _ ∧ _
    refine And.intro ?_ rfl
    intro e he
    simp only [List.mem_singleton] at he
    subst he
    exact isWhole_axesFromDims q axis dims
  | some ms =>
    rw [hm] at h
    have hout_whole : ∀ (l : List ASpec), (∀ e ∈ l, IsWhole axis e) →
        l.map (fun s => if s.name = q && !(s.axes.contains (some axis)) then { s with axes := s.axes ++ [some axis] } else s) = l := by
      intro l hl
      conv => rhs; rw [← List.map_id l]
      apply List.map_congr_left
      intro e he
      have hc := isWhole_contains axis e (hl e he)
      simp only [hc, Bool.not_true, Bool.and_false, Bool.false_eq_true, ↓reduceIte, id]
    cases old with
    | none =>
      simp only [SpecExt] at h ⊢
      obtain ⟨hin, hout⟩ := h
      refine ⟨?_, ?_⟩
      · by_cases hany : ms.inputs.any (·.name = q) = true
        · simp only [hany, ↓reduceIte, hout_whole ms.inputs hin]; exact hin
        · simp only [hany, Bool.false_eq_true, ↓reduceIte, List.mem_append, List.mem_singleton]
          intro e he
          rcases he with he | rfl
          · exact hin e he
          · exact isWhole_axesFromDims q axis dims
      · rw [hout, List.map_map]
        apply List.map_congr_left
        intro o _
        simp
    | some o =>
      simp only [SpecExt] at h ⊢
      obtain ⟨⟨pre, extra, hsplit, hpre, hextra⟩, hout⟩ := h
      refine ⟨?_, ?_⟩
      · by_cases hany : ms.inputs.any (·.name = q) = true
        · simp only [hany, ↓reduceIte]
          rw [hsplit, List.map_append]
          refine ⟨_, _, rfl, ?_, ?_⟩
          · exact PExt_map axis _ (fun a b hab => AExt_append axis (fun s => decide (s.name = q)) a b hab) _ _ hpre
          · rw [hout_whole extra hextra]; exact hextra
        · simp only [hany, Bool.false_eq_true, ↓reduceIte]
          rw [hsplit, List.append_assoc]
          refine ⟨pre, extra ++ [⟨q, axesFromDims q dims axis⟩], rfl, hpre, ?_⟩
          intro e he
          rcases List.mem_append.mp he with he | he
          · exact hextra e he
          · simp only [List.mem_singleton] at he; subst he; exact isWhole_axesFromDims q axis dims
      · exact PExt_map axis _ (fun a b hab => AExt_append' axis a b hab) _ _ hout

/-- **a prior MapSpec is only ever extended**: after `add_mapspec_axis(p, axis)` every function is one of the original
    functions with nothing but its MapSpec changed, and that MapSpec is an extension (`SpecExt`) of the old one.
    `hU`: output names identify a function (`validate_unique_output_names`). -/
theorem addAxis_prior (p axis : String) (fs : List RFunc)
    (hU : ∀ a ∈ fs, ∀ b ∈ fs, a.core.outputs = b.core.outputs → a = b) :
    ∀ g ∈ addAxis p axis fs, ∃ f ∈ fs, stripSpec g = stripSpec f ∧ SpecExt axis f.core.outputs f.mapspec g.mapspec := by
  unfold addAxis
  simp only []
  refine addAxisGo_inv axis (topoOrder fs (fs.length + 1) [] fs)
    (fun cur => ∀ g ∈ cur, ∃ f ∈ fs, stripSpec g = stripSpec f ∧ SpecExt axis f.core.outputs f.mapspec g.mapspec) ?_
    (fs.length + 2) p (fs, match specRank fs p with | some r => [(p, r + 1)] | none => []) ?_
  · intro cur f q dims hJ hf g' hg'
    obtain ⟨g, hg, rfl⟩ := List.mem_map.mp hg'
    obtain ⟨fg, hfg, hsg, heg⟩ := hJ g hg
    by_cases hs : sameF g f = true
    · simp only [hs, ↓reduceIte]
      obtain ⟨f0, hf0, hsf, hef⟩ := hJ f hf
      have ho : g.core.outputs = f.core.outputs := by simpa [sameF] using hs
      have h1 : fg.core.outputs = g.core.outputs := (congrArg (fun x => x.core.outputs) hsg).symm
      have h2 : f0.core.outputs = f.core.outputs := (congrArg (fun x => x.core.outputs) hsf).symm
      have hfg0 : fg = f0 := hU fg hfg f0 hf0 (by rw [h1, ho, h2])
      refine ⟨f0, hf0, ?_, ?_⟩
      · rw [← hfg0, ← hsg]; rfl
      · have := SpecExt_newSpec axis q dims f f0.mapspec (by rw [← h2]; exact hef)
        rw [h2]; exact this
    · simp only [hs, Bool.false_eq_true, ↓reduceIte]
      exact ⟨fg, hfg, hsg, heg⟩
  · intro g hg
    exact ⟨g, hg, rfl, SpecExt_refl axis _ _⟩

end PF.Rw
