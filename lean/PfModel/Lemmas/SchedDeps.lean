/-
C03 (proof round 7): the bridge between the *generation* barrier (`C03_barrier`: generation `g+1` after generation `g`) and
the clause of the property text "never before all values it consumes are complete":
 * Kahn layering — every producer of a value a function consumes (through a parameter that is not bound) sits, itself, in a
   strictly earlier generation (`PF.Errors.layers_upstream_earlier` gives it by *name*; with the run's own cyclicity check
   `generations.flatten.length = fs.length` and `generations_names_disjoint` it is the producer itself);
 * the execution log is sorted by generation, so an entry of generation `g` comes after every entry of every generation `g' < g`
   (not only `g' + 1 = g`);
 * the traces of a successful run are aligned with the generations (i-th trace ↔ i-th generation, its submitted futures).
Core Lean only.
-/
import PfModel.Lemmas.SchedCount
import PfModel.Lemmas.ErrorsGens
namespace PF.SchedD
open PF PF.Map PF.Sched PF.SchedC

/-! ### the execution log is sorted by generation -/

theorem runLog_mem_ge : ∀ (trs : List GenTrace) (g0 : Nat) (x : Nat × TaskId), x ∈ runLog g0 trs → g0 ≤ x.1 := by
  intro trs
  induction trs with
  | nil => intro g0 x h; simp [runLog] at h
  | cons tr rest ih =>
    intro g0 x h
    simp only [runLog, List.mem_append, List.mem_map] at h
    rcases h with ⟨id, _, rfl⟩ | h
    · exact Nat.le_refl _
    · exact Nat.le_trans (Nat.le_succ _) (ih (g0 + 1) x h)

theorem runLog_mem : ∀ (trs : List GenTrace) (g0 g : Nat) (tr : GenTrace) (id : TaskId), g0 ≤ g → trs[g - g0]? = some tr →
    id ∈ tr.ran → (g, id) ∈ runLog g0 trs := by
  intro trs
  induction trs with
  | nil => intro g0 g tr id _ h; simp at h
  | cons tr0 rest ih =>
    intro g0 g tr id hle htr hid
    simp only [runLog, List.mem_append, List.mem_map]
    by_cases e : g = g0
    · subst e
      simp only [Nat.sub_self, List.getElem?_cons_zero, Option.some.injEq] at htr
      subst htr
      exact Or.inl ⟨id, hid, rfl⟩
    · have : g - g0 = (g - (g0 + 1)) + 1 := by omega
      rw [this, List.getElem?_cons_succ] at htr
      exact Or.inr (ih (g0 + 1) g tr id (by omega) htr hid)

/-- an entry of the log belongs to a trace -/
theorem runLog_mem_inv : ∀ (trs : List GenTrace) (g0 g : Nat) (id : TaskId), (g, id) ∈ runLog g0 trs →
    g0 ≤ g ∧ ∃ tr, trs[g - g0]? = some tr ∧ id ∈ tr.ran := by
  intro trs
  induction trs with
  | nil => intro g0 g id h; simp [runLog] at h
  | cons tr0 rest ih =>
    intro g0 g id h
    simp only [runLog, List.mem_append, List.mem_map] at h
    rcases h with ⟨id', hid', e⟩ | h
    · simp only [Prod.mk.injEq] at e
      obtain ⟨rfl, rfl⟩ := e
      exact ⟨Nat.le_refl _, tr0, by simp, hid'⟩
    · obtain ⟨hle, tr, htr, hid⟩ := ih (g0 + 1) g id h
      refine ⟨by omega, tr, ?_, hid⟩
      have : g - g0 = (g - (g0 + 1)) + 1 := by omega
      rw [this, List.getElem?_cons_succ]; exact htr

theorem runLog_sorted : ∀ (trs : List GenTrace) (g0 : Nat), (runLog g0 trs).Pairwise fun a b => a.1 ≤ b.1 := by
  intro trs
  induction trs with
  | nil => intro g0; simp [runLog]
  | cons tr rest ih =>
    intro g0
    simp only [runLog]
    rw [List.pairwise_append]
    refine ⟨?_, ih (g0 + 1), ?_⟩
    · rw [List.pairwise_map]
      exact List.pairwise_of_forall_mem_list (fun _ _ _ _ => Nat.le_refl _)
    · intro a ha b hb
      obtain ⟨id, _, rfl⟩ := List.mem_map.mp ha
      have := runLog_mem_ge rest (g0 + 1) b hb
      simp only; omega

/-- **the barrier between any two generations**: an entry of generation `g` is preceded by every body of every generation `g' < g` -/
theorem runLog_before (trs : List GenTrace) (g' g : Nat) (id : TaskId) (l1 l2 : List (Nat × TaskId))
    (hlog : runLog 0 trs = l1 ++ (g, id) :: l2) (hlt : g' < g) (tr : GenTrace) (htr : trs[g']? = some tr) :
    ∀ id' ∈ tr.ran, (g', id') ∈ l1 := by
  intro id' hid'
  have hm := runLog_mem trs 0 g' tr id' (Nat.zero_le _) (by simpa using htr) hid'
  have hs := runLog_sorted trs 0
  rw [hlog] at hm hs
  rcases List.mem_append.mp hm with h | h
  · exact h
  · rcases List.mem_cons.mp h with e | h
    · simp only [Prod.mk.injEq] at e; omega
    · have := (List.pairwise_cons.mp (List.pairwise_append.mp hs).2.1).1 _ h
      simp only at this; omega

/-! ### the traces of a successful run are aligned with the generations -/

theorem runGensSched_trace_at (fs : List MFunc) (shapes : List (String × List Nat)) (masks : List (String × List Bool))
    (dumpSub : String → Bool) (sched : Scheds) (hs : ValidScheds sched) :
    ∀ (gens : List (List MFunc)) (g : Nat) (env : Env) (r : List FuncResult × Env × List GenTrace),
      (∀ gen ∈ gens, GenIndep gen) → runGensSched fs shapes masks dumpSub sched g gens env = .ok r →
      r.2.2.length = gens.length ∧
      ∀ (i : Nat) (gen : List MFunc) (tr : GenTrace), gens[i]? = some gen → r.2.2[i]? = some tr →
        tr.ids = idsFrom 0 (planned shapes masks gen) ∧ tr.ran.Perm tr.ids := by
  intro gens
  induction gens with
  | nil =>
    intro g env r _ h
    simp only [runGensSched, pure, Except.pure, Except.ok.injEq] at h
    subst h
    exact ⟨rfl, by intro i gen tr h; simp at h⟩
  | cons gen rest ih =>
    intro g env r hq h
    simp only [runGensSched, bind, Except.bind] at h
    split at h
    · cases h
    · next v hv =>
      obtain ⟨rs, tr0⟩ := v
      simp only at h
      split at h
      · cases h
      · next w hw =>
        obtain ⟨more, envF, trs⟩ := w
        simp only [pure, Except.pure, Except.ok.injEq] at h
        subst h
        obtain ⟨il, ia⟩ := ih (g + 1) _ _ (fun x hx => hq x (List.mem_cons_of_mem _ hx)) hw
        refine ⟨by simp only [List.length_cons]; simp only at il; omega, ?_⟩
        intro i gen' tr hg htr
        cases i with
        | zero =>
          simp only [List.getElem?_cons_zero, Option.some.injEq] at hg htr
          subst hg; subst htr
          obtain ⟨h1, h2, _, _⟩ := runGenSched_trace fs shapes masks dumpSub env gen _ (hs g _) (hq gen List.mem_cons_self) rs tr0
            (by simpa [planned] using hv)
          exact ⟨h1, by rw [h1, h2]; exact hs g _⟩
        | succ i =>
          simp only [List.getElem?_cons_succ] at hg htr
          exact ia i gen' tr hg htr

/-! ### Kahn layers: the producer of a consumed value sits in a strictly earlier generation -/

theorem producer_earlier (fs : List MFunc) (huo : UniqueOutputs fs) (hc : (generations fs).flatten.length = fs.length)
    (g : Nat) (gen : List MFunc) (f : MFunc) (eg : (generations fs)[g]? = some gen) (hf : f ∈ gen)
    (p : String) (hp : p ∈ f.params.map (·.1)) (hb : alookup f.bound p = none)
    (h : MFunc) (hh : h ∈ fs) (hpo : p ∈ h.outputs) :
    ∃ g' gen', g' < g ∧ (generations fs)[g']? = some gen' ∧ h ∈ gen' := by
  have hprod := producer_of_output fs huo h hh p hpo
  obtain ⟨q, hq, rfl⟩ := List.mem_map.mp hp
  have hup : h.name ∈ upstream fs f := by
    unfold upstream
    simp only [List.mem_filterMap]
    refine ⟨q, hq, ?_⟩
    simp [hb, hprod]
  rcases PF.Errors.layers_upstream_earlier fs _ _ _ g gen f h.name eg hf hup with hd | ⟨i, hi, a, ea, f', hf', hfn⟩
  · cases hd
  · obtain ⟨b, hb', hhb⟩ := List.mem_flatten.mp (PF.Sub.generations_complete fs hc h hh)
    obtain ⟨j, ej⟩ := List.getElem?_of_mem hb'
    have ea' : (generations fs)[i]? = some a := ea
    by_cases hij : i = j
    · subst hij
      exact ⟨i, b, hi, ej, hhb⟩
    · exfalso
      by_cases hlt : i < j
      · exact PF.Errors.generations_names_disjoint fs i j a b f' h hlt ea' ej hf' hhb hfn
      · exact PF.Errors.generations_names_disjoint fs j i b a h f' (by omega) ej ea' hhb hf' hfn.symm

end PF.SchedD
