import PfModel.DriverLib
import PfModel.Model.CachePolicy
import PfModel.Model.CachePolicyShared
import PfModel.Model.CachePolicyTies
import PfModel.Model.CachePolicyAccess
/-! Driver for C14 (`cache.run`). Run: `lake env lean --run Driver/C14.lean < requests.jsonl`.

Request `{"kind": "lru"|"hybrid"|"simple"|"disk", "max": n|null, "weights": [wa, wd]?, "lru": n|null?, "keys": [k…],
"ops": [["put", k, v, d] | ["get", k] | ["has", k] | ["len"] | ["clear"] | ["reopen", max|null, lru|null]]}`.
Response: one entry per executed operation with the observation, the keys of `keys` that are present afterwards, the
length afterwards and a description of the abstract state; `err` when the model raises (the run stops there);
`spec_ok`: the abstract recency-list specification, run alongside, agrees with the LRU model after every step.

`cache.interleave` — `{"kind": "lru"|"hybrid", "max": n, "weights": [wa, wd]?, "schedule": [[pid, op] …]}`: runs the schedule on the
process model `PF.Cache.Shared.exec` (lock, critical sections of container accesses; `lruBody` for lru, `Body.ofSem` for hybrid).
Response: `lin` (`[pid, op]` per entered critical section, in order), `log`
(`[ticket, pid, observation]` per returned operation), `lock`, and `seq_ok`: the sequential run of the linearisation gives every
logged result and, when the lock is free, a state with the same length as the shared one (theorem `C14_shared_linearisable`,
re-evaluated on the executable code).

`cache.clear_fresh` — `{"kind", "max", "weights"?, "lru"?, "keys", "H": [op…], "E": [op…]}`: runs `H`, then `clear`, then the
continuation `E` (`after`: one entry per operation of `E`, as `cache.run`), and `E` on a newly constructed container (`fresh`);
`same`: both give the same observations / the same exception (theorems `C14_clear_resets_*`, re-evaluated on the executable code).

`cache.accesses` — `{"max": n, "H": [op…], "P": op}` (LRUCache): the container accesses `P` makes inside the lock when started after
the history `H` (`PF.Cache.Shared.lruAccesses`: the labelled micro-steps of `lruBody`), and `atomic_ok`: running those micro-steps in
one go is `LRU.step` (`Implements lruBody`, re-evaluated).

`cache.run` with `"allow0": true` also runs `max_size = 0` for hybrid (accepted by the constructor; `C14_hybrid_never_raises_iff`). -/
open Lean PF.Drv PF.Cache

def getOp (j : Json) : R Op := do
  match ← asArr j with
  | [.str "put", k, v, d] => return .put (← asNat k) (← asNat v) (← asNat d)
  | [.str "put", k, v] => return .put (← asNat k) (← asNat v) 0
  | [.str "get", k] => return .get (← asNat k)
  | [.str "has", k] => return .has (← asNat k)
  | [.str "len"] => return .len
  | [.str "clear"] => return .clear
  | [.str "reopen", m, l] => return .reopen (← asOpt asNat m) (← asOpt asNat l)
  | _ => .error s!"bad op {j.compress}"

def errJ : Err → Json
  | .keyError => jStr "KeyError"
  | .valueError => jStr "ValueError"
  | .indexError => jStr "IndexError"
  | .zeroDivision => jStr "ZeroDivisionError"
  | .fileNotFound => jStr "FileNotFoundError"

def obsJ : Obs → Json
  | .unit => jStr "unit"
  | .val o => jArr [jStr "val", jOpt jNat o]
  | .bool b => jArr [jStr "bool", jBool b]
  | .nat n => jArr [jStr "nat", jNat n]

/-- run the history through `M.step`, recording after every operation what the harness observes on the implementation -/
def trace {σ} (M : Sem σ) (descr : σ → Json) (keys : List Key) : σ → List Op → List Json × Option Err
  | _, [] => ([], none)
  | s, op :: h =>
    match M.step s op with
    | .error e => ([], some e)
    | .ok (s', o) =>
      let len := match M.step s' .len with | .ok (_, .nat n) => jNat n | _ => Json.null
      let here := jObj [("o", obsJ o), ("present", jList jNat (keys.filter fun k => (M.view s' k).isSome)),
                        ("values", jList (jOpt jNat) (keys.map (M.view s'))), ("len", len), ("state", descr s')]
      let (rest, e) := trace M descr keys s' h
      (here :: rest, e)

/-- the recency-list specification run next to the LRU model -/
def specAgrees : LRU → Recency → List Op → Bool
  | _, _, [] => true
  | s, r, op :: h =>
    match s.step op with
    | .error _ => true
    | .ok (s', _) =>
      let r' := match op with
        | .put k v _ => Recency.put s.max r k v
        | .get k => (Recency.get r k).1
        | .clear => []
        | _ => r
      s'.abs == r' && specAgrees s' r' h

def lruJ (s : LRU) : Json := jObj [("queue", jList jNat s.queue), ("dict", jList jNat (keys s.dict))]
def hybJ (s : Hyb) : Json :=
  jObj [("dict", jList jNat (keys s.dict)), ("ac", jList (jPair jNat jNat) s.ac), ("du", jList (jPair jNat jNat) s.du),
        ("scores", jList (jPair jNat jNat) (Hyb.scores s)),
        -- decided in Lean (Model/CachePolicyTies.lean, theorems in Props/C14Ties.lean): the next put's eviction hinges on float rounding;
        -- the entries sharing the minimal exact score
        ("amb", jBool s.floatAmbiguous), ("min_keys", jList jNat s.minKeys)]
def simpleJ (s : Simple) : Json := jObj [("dict", jList jNat (keys s.dict))]
def diskJ (s : Disk) : Json :=
  jObj [("files", jList (jPair jNat jNat) (stamps s.files)), ("lru", jOpt lruJ s.lru)]

def finishJ (p : List Json × Option Err) (specOk : Bool) : Json :=
  jObj [("steps", jArr p.1), ("err", jOpt errJ p.2), ("spec_ok", jBool specOk)]

def opJ : Op → Json
  | .put k v d => jArr [jStr "put", jNat k, jNat v, jNat d]
  | .get k => jArr [jStr "get", jNat k]
  | .has k => jArr [jStr "has", jNat k]
  | .len => jArr [jStr "len"]
  | .clear => jArr [jStr "clear"]
  | .reopen m l => jArr [jStr "reopen", jOpt jNat m, jOpt jNat l]

def getEv (j : Json) : R (Nat × Op) := do
  match ← asArr j with
  | [p, op] => return (← asNat p, ← getOp op)
  | _ => .error s!"bad schedule event {j.compress}"

/-- run a schedule on the process model and re-evaluate the linearisability theorem on the outcome -/
def interleaveJ {σ L : Type} (B : PF.Cache.Shared.Body σ L) (M : Sem σ) (s0 : σ) (sch : List (Nat × Op)) : Json :=
  let c := PF.Cache.Shared.exec B (PF.Cache.Shared.Config.init s0) sch
  let lenOf : σ → Option Nat := fun s => match M.step s .len with | .ok (_, .nat n) => some n | _ => none
  let seqOk := match M.run s0 (c.lin.map (·.2)) with
    | .error _ => false
    | .ok (s, os) => c.log.all (fun e => os[e.1]? == some e.2.2.2) && (c.lock.isSome || lenOf s == lenOf c.shared)
  jObj [("lin", jList (fun e => jArr [jNat e.1, opJ e.2]) c.lin), ("log", jList (fun e => jArr [jNat e.1, jNat e.2.1, obsJ e.2.2.2]) c.log),
        ("lock", jOpt jNat c.lock), ("len", jOpt jNat (lenOf c.shared)), ("seq_ok", jBool seqOk)]

/-- `H; clear; E` against `E` on a new container -/
def clearFreshJ {σ} (M : Sem σ) (descr : σ → Json) (ks : List Key) (s0 : σ) (hist cont : List Op) : Json :=
  match M.run s0 (hist ++ [.clear]) with
  | .error e => jObj [("err", errJ e), ("after", jArr []), ("fresh", jArr []), ("same", jBool false)]
  | .ok (s, _) =>
    let a := trace M descr ks s cont
    let f := trace M descr ks s0 cont
    let obs : σ → Option (List Obs) := fun st => match M.run st cont with | .ok (_, os) => some os | .error _ => none
    let errOf : σ → Option Err := fun st => match M.run st cont with | .ok _ => none | .error e => some e
    let views : σ → List (Option Val) := fun st => match M.run st cont with | .ok (t, _) => ks.map (M.view t) | .error _ => []
    jObj [("err", Json.null), ("after", jArr a.1), ("after_err", jOpt errJ a.2), ("fresh", jArr f.1), ("fresh_err", jOpt errJ f.2),
          ("same", jBool (obs s == obs s0 && errOf s == errOf s0 && views s == views s0))]

def handle (m : String) (a : Json) : R Json := do
  match m with
  | "cache.accesses" =>
    let hist ← listF getOp a "H"
    let p ← getOp (← fld a "P")
    let n ← natF a "max"
    if n = 0 then .error "lru: max_size 0 is rejected by the constructor"
    match lruSem.run (LRU.empty n) hist with
    | .error e => return jObj [("err", errJ e)]
    | .ok (s, _) =>
      let atm := PF.Cache.Shared.lruBody.atomic s p
      let ok := match s.step p with
        | .ok (s', o) => o == atm.2 && s'.queue == atm.1.queue && keys s'.dict == keys atm.1.dict
        | .error _ => false
      return jObj [("err", Json.null), ("accesses", jList jStr (PF.Cache.Shared.lruAccesses s p)), ("atomic_ok", jBool ok),
                   ("state", lruJ s)]
  | "cache.clear_fresh" =>
    let kind ← strF a "kind"
    let hist ← listF getOp a "H"
    let cont ← listF getOp a "E"
    let ks ← listF asNat a "keys"
    let max ← optF asNat a "max"
    let isReopen : Op → Bool := fun | .reopen _ _ => true | _ => false
    if kind != "disk" && (hist ++ cont).any isReopen then .error "reopen is a DiskCache operation"
    match kind with
    | "lru" =>
      let some n := max | .error "lru: max required"
      if n = 0 then .error "lru: max_size 0 is rejected by the constructor"
      return clearFreshJ lruSem lruJ ks (LRU.empty n) hist cont
    | "hybrid" =>
      let some n := max | .error "hybrid: max required"
      if n = 0 then .error "hybrid: max_size 0 is outside the property"
      let (wa, wd) ← asPair asNat asNat (← fld a "weights")
      return clearFreshJ hybSem hybJ ks (Hyb.empty n wa wd) hist cont
    | "simple" => return clearFreshJ simpleSem simpleJ ks ⟨[]⟩ hist cont
    | "disk" =>
      let lru ← optF asNat a "lru"
      if lru = some 0 then .error "disk: lru_cache_size 0 is rejected by the LRUCache constructor"
      -- the new container of the theorem: same max_size / LRU size as the cleared one has at that moment (reopens in H change them)
      match diskSem.run (Disk.empty max lru) hist with
      | .error e => return jObj [("err", errJ e), ("after", jArr []), ("fresh", jArr []), ("same", jBool false)]
      | .ok (s, _) =>
        let j := clearFreshJ diskSem diskJ ks (Disk.empty max lru) hist cont
        let f := trace diskSem diskJ ks (Disk.empty s.max (s.lru.map (·.max))) cont
        let obs : Disk → Option (List Obs) := fun st => match diskSem.run st cont with | .ok (_, os) => some os | .error _ => none
        return j.setObjVal! "fresh" (jArr f.1) |>.setObjVal! "fresh_err" (jOpt errJ f.2)
          |>.setObjVal! "same" (jBool (obs s.clear == obs (Disk.empty s.max (s.lru.map (·.max)))))
          |>.setObjVal! "fresh_cfg" (jArr [jOpt jNat s.max, jOpt jNat (s.lru.map (·.max))])
    | _ => .error s!"unknown cache kind {kind}"
  | "cache.interleave" =>
    let kind ← strF a "kind"
    let sch ← listF getEv a "schedule"
    let some n ← optF asNat a "max" | .error "interleave: max required"
    if n = 0 then .error "interleave: max_size 0 is outside the property"
    let isReopen : Op → Bool := fun | .reopen _ _ => true | _ => false
    if sch.any (fun e => isReopen e.2) then .error "reopen is a DiskCache operation"
    match kind with
    | "lru" => return interleaveJ PF.Cache.Shared.lruBody lruSem (LRU.empty n) sch
    | "hybrid" =>
      let (wa, wd) ← asPair asNat asNat (← fld a "weights")
      return interleaveJ (PF.Cache.Shared.Body.ofSem hybSem) hybSem (Hyb.empty n wa wd) sch
    | _ => .error s!"interleave: unknown shared cache kind {kind}"
  | "cache.run" =>
    let kind ← strF a "kind"
    let ops ← listF getOp a "ops"
    let ks ← listF asNat a "keys"
    let max ← optF asNat a "max"
    let isReopen : Op → Bool := fun | .reopen _ _ => true | _ => false
    if kind != "disk" && ops.any isReopen then .error "reopen is a DiskCache operation"
    match kind with
    | "lru" =>
      let some n := max | .error "lru: max required"
      if n = 0 then .error "lru: max_size 0 is rejected by the constructor"
      return finishJ (trace lruSem lruJ ks (LRU.empty n) ops) (specAgrees (LRU.empty n) [] ops)
    | "hybrid" =>
      let some n := max | .error "hybrid: max required"
      let allow0 := match fld? a "allow0" with | some (.bool true) => true | _ => false
      if n = 0 && !allow0 then .error "hybrid: max_size 0 is outside the property"
      let (wa, wd) ← asPair asNat asNat (← fld a "weights")
      return finishJ (trace hybSem hybJ ks (Hyb.empty n wa wd) ops) true
    | "simple" => return finishJ (trace simpleSem simpleJ ks ⟨[]⟩ ops) true
    | "disk" =>
      let lru ← optF asNat a "lru"
      if lru = some 0 then .error "disk: lru_cache_size 0 is rejected by the LRUCache constructor"
      return finishJ (trace diskSem diskJ ks (Disk.empty max lru) ops) true
    | _ => .error s!"unknown cache kind {kind}"
  | _ => .error s!"unknown entry {m}"

def main : IO Unit := loop handle
