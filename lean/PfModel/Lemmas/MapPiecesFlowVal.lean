import PfModel.Lemmas.MapPiecesFlow
/-!
Data flow of a run in pieces, part 2: what a consumer reads from a stored array depends only on the cells its key projects to.
-/
namespace PF.Pieces
open PF PF.Map

/-- the element `StorageBase.to_array()` shows at full index `F` -/
def cellG (mask : List Bool) (shape : List Nat) (cells : List (Nat × Val)) (F : List Nat) : Val :=
  match cellLookup cells (ravel (extOf mask shape) (extOf mask F)) with
  | none => .masked
  | some v => if mask.all id then v else (indexVal v ((intOf mask F).map some)).getD .none

theorem toVal_array (sh : List Nat) (mk : List Bool) (c : List (Nat × Val)) :
    (Slot.array sh mk c).toVal = .arr sh ((allIdx sh).map (cellG mk sh c)) := rfl

theorem cellG_congr (mk : List Bool) (sh : List Nat) (c c' : List (Nat × Val)) (F : List Nat)
    (h : cellLookup c (ravel (extOf mk sh) (extOf mk F)) = cellLookup c' (ravel (extOf mk sh) (extOf mk F))) :
    cellG mk sh c F = cellG mk sh c' F := by
  unfold cellG; rw [h]

/-- the row-major list of all elements, read at the flat position of an index inside the shape -/
theorem allIdx_map_get {β} (G : List Nat → β) (sh F : List Nat) (h : InRange sh F) :
    ((allIdx sh).map G)[ravel sh F]? = some (G F) := by
  rw [← map_key_range sh, List.map_map, List.getElem?_map, List.getElem?_range (ravel_lt sh F h)]
  simp only [Option.map_some, Function.comp, key_ravel sh F h]

theorem slicedShape_allSome : ∀ (key : List (Option Nat)) (sh : List Nat), key.all Option.isSome = true → slicedShape key sh = [] := by
  intro key
  induction key with
  | nil => intro sh _; cases sh <;> rfl
  | cons k ks ih =>
    intro sh h
    simp only [List.all_cons, Bool.and_eq_true] at h
    cases k with
    | none => simp at h
    | some k =>
      cases sh with
      | nil => rfl
      | cons d sh => simp only [slicedShape]; exact ih sh h.2

/-- **reading through a key**: two stored arrays of the same shape whose cells agree wherever the key projects to give the
    same value under NumPy basic indexing -/
theorem indexVal_agree (sh : List Nat) (mk : List Bool) (cP cF : List (Nat × Val)) (key : List (Option Nat))
    (hr : ∀ s, InRange (slicedShape key sh) s → InRange sh (fillKey key s) ∧
      cellLookup cP (ravel (extOf mk sh) (extOf mk (fillKey key s))) = cellLookup cF (ravel (extOf mk sh) (extOf mk (fillKey key s)))) :
    indexVal (Slot.array sh mk cP).toVal key = indexVal (Slot.array sh mk cF).toVal key := by
  rw [toVal_array, toVal_array]
  unfold indexVal
  simp only []
  split
  · rfl
  · split
    · next hall =>
      have h0 := hr [] (by rw [slicedShape_allSome key sh hall]; trivial)
      rw [allIdx_map_get _ sh _ h0.1, allIdx_map_get _ sh _ h0.1, cellG_congr mk sh cP cF _ h0.2]
    · congr 2
      apply List.map_congr_left
      intro s hs
      have h0 := hr s ((mem_allIdx _ s).mp hs)
      simp only [List.getD_eq_getElem?_getD, allIdx_map_get _ sh _ h0.1, cellG_congr mk sh cP cF _ h0.2]

/-- **reading whole**: arrays whose cells agree everywhere inside the shape read back equal -/
theorem toVal_agree (sh : List Nat) (mk : List Bool) (cP cF : List (Nat × Val))
    (hr : ∀ F, InRange sh F → cellLookup cP (ravel (extOf mk sh) (extOf mk F)) = cellLookup cF (ravel (extOf mk sh) (extOf mk F))) :
    (Slot.array sh mk cP).toVal = (Slot.array sh mk cF).toVal := by
  rw [toVal_array, toVal_array]
  congr 1
  apply List.map_congr_left
  intro F hF
  exact cellG_congr mk sh cP cF F (hr F ((mem_allIdx _ F).mp hF))

end PF.Pieces
