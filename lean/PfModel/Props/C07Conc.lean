import PfModel.Lemmas.StorageExt
import PfModel.Props.C07
/-!
C07, extension (round 2) — several processes dumping into one `FileArray` folder.

A trace is any list of completed dumps tagged with the writer that made them: every interleaving of the writers'
programs is such a list, and its per-writer subsequences `projW t w` are the programs. What the theorems assume (and the
harness observes on the real file system): one `dump` of one element is ONE atomic event on the folder — `_utils.dump`
writes a private temporary file completely and `os.replace`s it onto `__<cell>__.pickle`.
-/
namespace PF.C07
open PF PF.St
variable {V : Type}

/-- after any interleaving, a cell holds the value of the globally last dump to it (a complete value — never a mixture),
    and a cell nobody dumped to is what it was -/
theorem C07_conc_last_writer_wins (f : Files V) (t : List (WEv V)) (c : Nat) :
    alook (runW f t) c = (match lastTo t c with | some v => some v | none => alook f c) ∧
    ((∃ e ∈ t, e.cell = c) → ∃ e ∈ t, e.cell = c ∧ alook (runW f t) c = some e.val) ∧
    ((∀ e ∈ t, e.cell ≠ c) → alook (runW f t) c = alook f c) := by
  have h1 := alook_runW t f c
  refine ⟨h1, ?_, ?_⟩
  · intro hex
    have hs := lastTo_isSome t c hex
    cases hl : lastTo t c with
    | none => rw [hl] at hs; cases hs
    | some v =>
      obtain ⟨e, he, hc, hv⟩ := lastTo_mem t c v hl
      exact ⟨e, he, hc, by rw [h1, hl, hv]⟩
  · intro hno
    cases hl : lastTo t c with
    | none => rw [h1, hl]
    | some v =>
      obtain ⟨e, he, hc, _⟩ := lastTo_mem t c v hl
      exact (hno e he hc).elim

/-- same cell, several writers: the final content is the LAST value that one of the writers dumped to that cell in its
    own program — one of at most `#writers` candidates, whatever the interleaving -/
theorem C07_conc_same_cell (f : Files V) (t : List (WEv V)) (c : Nat) (h : ∃ e ∈ t, e.cell = c) :
    ∃ w v, lastTo (projW t w) c = some v ∧ alook (runW f t) c = some v := by
  have hs := lastTo_isSome t c h
  cases hl : lastTo t c with
  | none => rw [hl] at hs; cases hs
  | some v =>
    obtain ⟨w, hw⟩ := lastTo_some_proj t c v hl
    exact ⟨w, v, hw, by rw [alook_runW, hl]⟩

/-- distinct cells: a cell that only writer `w` dumps to ends with the last value of `w`'s own program — so two
    interleavings of the same programs leave the same content in it (the result does not depend on the schedule), and it
    is readable afterwards -/
theorem C07_conc_distinct_cells (f : Files V) (t t' : List (WEv V)) (c w : Nat)
    (ho : ∀ e ∈ t, e.cell = c → e.w = w) (ho' : ∀ e ∈ t', e.cell = c → e.w = w) (hp : projW t w = projW t' w) :
    alook (runW f t) c = alook (runW f t') c ∧
    alook (runW f t) c = (match lastTo (projW t w) c with | some v => some v | none => alook f c) ∧
    ((∃ e ∈ t, e.cell = c) → (alook (runW f t) c).isSome = true) := by
  have h1 := lastTo_owner w c t ho
  have h2 := lastTo_owner w c t' ho'
  refine ⟨?_, ?_, ?_⟩
  · rw [alook_runW, alook_runW, ← h1, ← h2, hp]
  · rw [alook_runW, h1]; cases lastTo t c <;> rfl
  · intro hex
    have hs := lastTo_isSome t c hex
    rw [alook_runW]
    cases hl : lastTo t c with
    | none => rw [hl] at hs; cases hs
    | some v => rfl

/-- the events of the trace are the `dump`s of the operational model: dumping the integer key of an in-range external
    index `E` is one atomic write of file `ravel shape E` -/
theorem C07_conc_event_is_dump (g : Geom) (hg : g.WF) (f : Files V) (E : List Nat) (hE : InRange g.shape E) (w : Nat)
    (v : List V) : (fStep g f (.dump (intKey E) v)).1 = applyW f ⟨w, ravel g.shape E, v⟩ := by
  simp only [fStep, dumpTargets_ints g hg E hE, List.foldl_cons, List.foldl_nil, applyW, keyToFile_eq_ravel]

/-! ### non-vacuity -/

def tr3 : List (WEv Nat) := [⟨0, 1, [10]⟩, ⟨1, 1, [20]⟩, ⟨0, 2, [11]⟩, ⟨1, 1, [21]⟩, ⟨0, 1, [12]⟩]

example : (alook (runW [] tr3) 1, alook (runW [] tr3) 2, alook (runW [] tr3) 0) = (some [12], some [11], none) := by decide
example : lastTo (projW tr3 0) 1 = some [12] ∧ lastTo (projW tr3 1) 1 = some [21] := by decide
example : ∃ e ∈ tr3, e.cell = 1 := ⟨_, List.mem_cons_self, rfl⟩
example : ∀ e ∈ tr3, e.cell = 2 → e.w = 0 := by decide
example : InRange g23.shape [2] := by decide

/-- another interleaving of the same two programs -/
def tr3' : List (WEv Nat) := [⟨1, 1, [20]⟩, ⟨1, 1, [21]⟩, ⟨0, 1, [10]⟩, ⟨0, 2, [11]⟩, ⟨0, 1, [12]⟩]

example : projW tr3 0 = projW tr3' 0 ∧ projW tr3 1 = projW tr3' 1 ∧ tr3.map (·.w) ≠ tr3'.map (·.w) := ⟨rfl, rfl, by decide⟩
example : ∀ e ∈ tr3', e.cell = 2 → e.w = 0 := by decide
example : alook (runW [] tr3) 2 = alook (runW [] tr3') 2 := by decide

end PF.C07
