import PfModel.Lemmas.RewriteAxis
/-!
`add_mapspec_axis` on a pipeline without prior MapSpecs (part 2): `LiftOK` — what the MapSpecs `τ` must look like to be the
lifting of parameter `p` along a fresh axis — and `map_shapes` of the lifted pipeline: every lifted output is recorded with
shape `[K]` and mask `[true]` when `p` is given as an array of `K` variants.
-/
namespace PF.Rw.Ax
open PF PF.Map PF.C01

variable (τ : List String → Option MSpec)

/-- `x` is an output of a function that carries a MapSpec -/
def isL (gs : List MFunc) (x : String) : Bool := gs.any fun g => (τ g.outputs).isSome && g.outputs.contains x

/-- `x` is the lifted parameter or a lifted output -/
def LN (gs : List MFunc) (p x : String) : Prop := x = p ∨ isL τ gs x = true

/-- **`τ` lifts `p` along `axis`** (a local, decidable condition on the MapSpecs; `liftOKb` in `Lemmas/RewriteAxisTop.lean`
    is its Boolean form on `RFunc`s): the original functions have no MapSpec; a function keeps having none iff none of its
    non-bound parameters is `p` or a lifted output; otherwise its MapSpec maps exactly those parameters and all its outputs
    along `axis` and nothing else. -/
structure LiftOK (gs : List MFunc) (p axis : String) : Prop where
  nospec : ∀ g ∈ gs, g.mapspec = none
  outs : ∀ g ∈ gs, g.outputs ≠ []
  uniq : ∀ g ∈ gs, ∀ h ∈ gs, ∀ x, x ∈ g.outputs → x ∈ h.outputs → h.outputs = g.outputs
  names : nodupB (gs.map (·.name)) = true
  root : producer gs p = none
  plain : ∀ g ∈ gs, τ g.outputs = none → ∀ q ∈ mfree g, ¬ LN τ gs p q
  lifted : ∀ g ∈ gs, ∀ ms, τ g.outputs = some ms →
    ms.outputs = g.outputs.map (fun o => (⟨o, [some axis]⟩ : ASpec)) ∧ ms.inputs ≠ [] ∧
    (∀ a ∈ ms.inputs, a.axes = [some axis] ∧ a.name ∈ mfree g ∧ LN τ gs p a.name) ∧
    (∀ q ∈ mfree g, LN τ gs p q → ∃ a ∈ ms.inputs, a.name = q)

theorem producer_isSome_of_mem (gs : List MFunc) (g : MFunc) (hg : g ∈ gs) (x : String) (hx : x ∈ g.outputs) :
    ∃ h, producer gs x = some h := by
  cases hp : producer gs x with
  | some h => exact ⟨h, rfl⟩
  | none =>
    unfold producer at hp
    rw [List.find?_eq_none] at hp
    exact absurd (by simpa using hx) (hp g hg)

theorem mem_rootArgs_producer (gs : List MFunc) (r : String) (h : r ∈ rootArgs gs) : producer gs r = none := by
  unfold rootArgs at h
  rw [List.mem_eraseDups, List.mem_flatMap] at h
  obtain ⟨f, _, hf⟩ := h
  rw [List.mem_filterMap] at hf
  obtain ⟨q, _, hq⟩ := hf
  cases hb : alookup f.bound q.1 <;> cases hp : producer gs q.1 <;> simp [hb, hp] at hq
  subst hq; exact hp

theorem isL_produced (gs : List MFunc) (x : String) (h : isL τ gs x = true) :
    ∃ g ∈ gs, (τ g.outputs).isSome = true ∧ x ∈ g.outputs := by
  unfold isL at h
  obtain ⟨g, hg, hh⟩ := List.any_eq_true.mp h
  simp only [Bool.and_eq_true, List.contains_eq_mem, decide_eq_true_eq] at hh
  exact ⟨g, hg, hh.1, hh.2⟩

variable {τ}
variable {gs : List MFunc} {p axis : String}

/-- the producer of a lifted output is lifted -/
theorem LiftOK.producer_lifted (ok : LiftOK τ gs p axis) (x : String) (hx : isL τ gs x = true) (h : MFunc)
    (hp : producer gs x = some h) : (τ h.outputs).isSome = true := by
  obtain ⟨g, hg, hs, hxg⟩ := isL_produced τ gs x hx
  obtain ⟨hh, hxh⟩ := producer_some gs x h hp
  rw [ok.uniq g hg h hh x hxg hxh]; exact hs

theorem LiftOK.isL_iff (ok : LiftOK τ gs p axis) (g : MFunc) (hg : g ∈ gs) (x : String) (hx : x ∈ g.outputs) :
    isL τ gs x = (τ g.outputs).isSome := by
  cases hs : (τ g.outputs).isSome with
  | true =>
    unfold isL
    exact List.any_eq_true.mpr ⟨g, hg, by simp [hs, hx]⟩
  | false =>
    cases hl : isL τ gs x with
    | false => rfl
    | true =>
      obtain ⟨h, hh, hsh, hxh⟩ := isL_produced τ gs x hl
      rw [ok.uniq h hh g hg x hxh hx] at hs
      rw [hs] at hsh; cases hsh

/-- a name of a MapSpec of the lifted pipeline is `p` or produced -/
theorem LiftOK.specNames (ok : LiftOK τ gs p axis) (x : String) (h : x ∈ mapspecNames (gs.map (withSpec τ))) :
    x = p ∨ ∃ g, producer gs x = some g := by
  unfold PF.Map.mapspecNames at h
  rw [List.mem_flatMap] at h
  obtain ⟨g', hg', hx⟩ := h
  obtain ⟨g, hg, rfl⟩ := List.mem_map.mp hg'
  simp only [withSpec] at hx
  cases hm : τ g.outputs with
  | none => simp [hm] at hx
  | some ms =>
    simp only [hm, List.mem_append, List.mem_map] at hx
    obtain ⟨ho, _, hin, _⟩ := ok.lifted g hg ms hm
    rcases hx with ⟨a, ha, rfl⟩ | ⟨a, ha, rfl⟩
    · rcases (hin a ha).2.2 with e | e
      · exact Or.inl e
      · obtain ⟨h, hh, _, hxh⟩ := isL_produced τ gs a.name e
        exact Or.inr (producer_isSome_of_mem gs h hh _ hxh)
    · rw [ho, List.mem_map] at ha
      obtain ⟨o, hoo, rfl⟩ := ha
      exact Or.inr (producer_isSome_of_mem gs g hg _ hoo)

/-! ### the shape table -/

/-- every entry of the table is an array of `K` elements along one external axis -/
def TI (K : Nat) (t : Tbl) : Prop := ∀ e ∈ t, e.2 = ([K], [true])

theorem TI.lookup {K : Nat} {t : Tbl} (h : TI K t) (x : String) (hx : (alookup t x).isSome = true) : alookup t x = some ([K], [true]) := by
  cases hl : alookup t x with
  | none => rw [hl] at hx; cases hx
  | some e =>
    have := h _ (alookup_some_mem t x e hl)
    simp only at this
    rw [this]

theorem alookup_append_isSome {β} (a b : List (String × β)) (x : String) (h : (alookup a x).isSome = true) :
    (alookup (a ++ b) x).isSome = true := by
  rw [alookup_append]
  cases hl : alookup a x with
  | none => rw [hl] at h; cases h
  | some v => rfl

theorem alookup_append_right_isSome {β} (a b : List (String × β)) (x : String) (h : (alookup b x).isSome = true) :
    (alookup (a ++ b) x).isSome = true := by
  rw [alookup_append]
  cases hl : alookup a x with
  | none => exact h
  | some v => rfl

theorem alookup_map_const_isSome {β : Type} (os : List String) (v : β) (x : String) (h : x ∈ os) :
    (alookup (os.map fun o => (o, v)) x).isSome = true := by
  apply alookup_isSome_of_mem_keys
  simp only [akeys, List.map_map]
  exact List.mem_map.mpr ⟨x, h, rfl⟩

section shapes
variable (K : Nat) (vs : List Val) (rest : List (String × Val))

/-- the table of the root arguments of the lifted pipeline: at most `p`, with shape `[K]` -/
theorem rootTbl_lift (ok : LiftOK τ gs p axis) :
    TI K (rootTbl (gs.map (withSpec τ)) ((p, .arr [K] vs) :: rest)) ∧
    (p ∈ rootArgs gs → (mapspecNames (gs.map (withSpec τ))).contains p = true →
      (alookup (rootTbl (gs.map (withSpec τ)) ((p, .arr [K] vs) :: rest)) p).isSome = true) := by
  unfold rootTbl
  rw [rootArgs_withSpec]
  have step : ∀ (l : List String), (∀ r ∈ l, r ∈ rootArgs gs) → ∀ t : Tbl, TI K t →
      TI K (l.foldl (rootStep (gs.map (withSpec τ)) ((p, .arr [K] vs) :: rest)) t) ∧
      ((p ∈ l ∨ (alookup t p).isSome = true) → (mapspecNames (gs.map (withSpec τ))).contains p = true →
        (alookup (l.foldl (rootStep (gs.map (withSpec τ)) ((p, .arr [K] vs) :: rest)) t) p).isSome = true) := by
    intro l
    induction l with
    | nil => intro _ t ht; exact ⟨ht, fun h _ => by rcases h with h | h; cases h; exact h⟩
    | cons r rs ih =>
      intro hl t ht
      have hr := hl r List.mem_cons_self
      simp only [List.foldl_cons]
      -- one step
      have hstep : TI K (rootStep (gs.map (withSpec τ)) ((p, .arr [K] vs) :: rest) t r) ∧
          ((r = p ∨ (alookup t p).isSome = true) → (mapspecNames (gs.map (withSpec τ))).contains p = true →
            (alookup (rootStep (gs.map (withSpec τ)) ((p, .arr [K] vs) :: rest) t r) p).isSome = true) := by
        unfold rootStep
        by_cases hc : (mapspecNames (gs.map (withSpec τ))).contains r = true
        · have hrp : r = p := by
            rcases ok.specNames r (by simpa using hc) with e | ⟨g, hg⟩
            · exact e
            · rw [mem_rootArgs_producer gs r hr] at hg; cases hg
          subst hrp
          simp only [hc, ↓reduceIte, List.cons_append, alookup, Option.bind_some, shapeOf, List.map_cons, List.map_nil]
          refine ⟨?_, fun _ _ => alookup_append_right_isSome _ _ _ (by simp [alookup])⟩
          intro e he
          rcases List.mem_append.mp he with he | he
          · exact ht e he
          · simp at he; subst he; rfl
        · simp only [hc]
          refine ⟨ht, ?_⟩
          intro h hcp
          rcases h with h | h
          · subst h; exact absurd hcp hc
          · exact h
      obtain ⟨i1, i2⟩ := ih (fun x hx => hl x (List.mem_cons_of_mem _ hx)) _ hstep.1
      refine ⟨i1, ?_⟩
      intro h hcp
      apply i2 _ hcp
      rcases h with h | h
      · rcases List.mem_cons.mp h with e | e
        · exact Or.inr (hstep.2 (Or.inl e.symm) hcp)
        · exact Or.inl e
      · exact Or.inr (hstep.2 (Or.inr h) hcp)
  obtain ⟨a, b⟩ := step (rootArgs gs) (fun r hr => hr) [] (fun e he => by cases he)
  exact ⟨a, fun hp hc => b (Or.inl hp) hc⟩

theorem shapesOK_append (internal : List (String × List Nat)) : ∀ (a b : List MFunc) (t : Tbl),
    shapesOK internal (a ++ b) t = (shapesOK internal a t && shapesOK internal b (tblFrom internal a t)) := by
  intro a
  induction a with
  | nil => intro b t; simp [shapesOK, tblFrom]
  | cons f fs ih =>
    intro b t
    simp only [List.cons_append, shapesOK, ih, tblFrom, List.foldl_cons, Bool.and_assoc]

theorem tblFrom_append (internal : List (String × List Nat)) (a b : List MFunc) (t : Tbl) :
    tblFrom internal (a ++ b) t = tblFrom internal b (tblFrom internal a t) := by
  unfold tblFrom; rw [List.foldl_append]

/-- the invariant of the table while the functions are processed: entries are `[K]`; `p` is recorded if a MapSpec names it;
    the outputs of the lifted functions that are done are recorded -/
structure TInv (t : Tbl) (done : List String) : Prop where
  ti : TI K t
  hp : (mapspecNames (gs.map (withSpec τ))).contains p = true → (alookup t p).isSome = true
  hd : ∀ h ∈ gs, (τ h.outputs).isSome = true → h.name ∈ done → ∀ o ∈ h.outputs, (alookup t o).isSome = true

/-- the outputs of a lifted function are recorded -/
def Rec (t : Tbl) (f : MFunc) : Prop := (τ f.outputs).isSome = true → ∀ o ∈ f.outputs, (alookup t o).isSome = true

theorem outDims_lift (ms : MSpec) (t : Tbl) (hin : ∀ a ∈ ms.inputs, a.axes = [some axis] ∧ alookup t a.name = some ([K], [true])) :
    outDims ms (shapesOf t) axis = ms.inputs.map fun _ => K := by
  unfold outDims
  have : ∀ l : List ASpec, (∀ a ∈ l, a.axes = [some axis] ∧ alookup t a.name = some ([K], [true])) →
      (l.filterMap fun a => match idxOf a.axes axis with
        | none => none
        | some ax => some (((alookup (shapesOf t) a.name).getD []).getD ax 0)) = l.map fun _ => K := by
    intro l
    induction l with
    | nil => intro _; rfl
    | cons a as ih =>
      intro hl
      obtain ⟨h1, h2⟩ := hl a List.mem_cons_self
      have hd : (match idxOf a.axes axis with
        | none => none
        | some ax => some (((alookup (shapesOf t) a.name).getD []).getD ax 0)) = some K := by
        rw [h1, alookup_shapesOf, h2]
        simp [idxOf]
      rw [List.filterMap_cons, hd, List.map_cons, ih (fun x hx => hl x (List.mem_cons_of_mem _ hx))]
  exact this ms.inputs hin

/-- one function of the lifted pipeline against a table that records its MapSpec inputs -/
theorem step_lift (ok : LiftOK τ gs p axis) (internal : List (String × List Nat)) (t : Tbl) (done : List String)
    (I : TInv (τ := τ) (gs := gs) (p := p) K t done) (f : MFunc) (hf : f ∈ gs) (hr : Ready gs done f) :
    stepOK internal t (withSpec τ f) = true ∧
    stepTbl internal t (withSpec τ f) = t ++ (match τ f.outputs with | none => [] | some _ => f.outputs.map fun o => (o, ([K], [true]))) := by
  unfold stepOK stepTbl
  simp only [withSpec]
  cases hm : τ f.outputs with
  | none => simp
  | some ms =>
    obtain ⟨ho, hne, hin, _⟩ := ok.lifted f hf ms hm
    have hrec : ∀ a ∈ ms.inputs, a.axes = [some axis] ∧ alookup t a.name = some ([K], [true]) := by
      intro a ha
      obtain ⟨h1, h2, h3⟩ := hin a ha
      refine ⟨h1, I.ti.lookup _ ?_⟩
      rcases h3 with e | e
      · rw [e]; apply I.hp
        have : a.name ∈ mapspecNames (gs.map (withSpec τ)) := by
          unfold mapspecNames
          rw [List.mem_flatMap]
          refine ⟨withSpec τ f, List.mem_map.mpr ⟨f, hf, rfl⟩, ?_⟩
          simp only [withSpec, hm, List.mem_append, List.mem_map]
          exact Or.inl ⟨a, ha, rfl⟩
        rw [← e]; simpa using this
      · obtain ⟨orig, hpar, hb⟩ := (mem_mfree f a.name).mp h2
        obtain ⟨g, hg, _, hxg⟩ := isL_produced τ gs a.name e
        obtain ⟨h, hh⟩ := producer_isSome_of_mem gs g hg _ hxg
        have hl := ok.producer_lifted a.name e h hh
        obtain ⟨hmem, hxh⟩ := producer_some gs a.name h hh
        exact I.hd h hmem hl (hr a.name orig h hpar hb hh) a.name hxh
    have hdims := outDims_lift (axis := axis) K ms t hrec
    have houtIdx : ms.outputIndices = [axis] := by
      unfold MSpec.outputIndices
      rw [ho]
      cases hfo : f.outputs with
      | nil => exact absurd hfo (ok.outs f hf)
      | cons o os => simp
    cases hmi : ms.inputs with
    | nil => exact absurd hmi hne
    | cons a0 as =>
      rw [hmi] at hdims
      simp only [List.map_cons] at hdims
      constructor
      · simp only [Bool.and_eq_true]
        constructor
        · apply List.all_eq_true.mpr
          intro a ha
          obtain ⟨h1, h2⟩ := hrec a ha
          simp [alookup_shapesOf, h2, h1]
        · rw [houtIdx]
          simp only [goOK, hdims, Bool.and_true]
          simp
      · simp only []
        congr 1
        apply List.map_congr_left
        intro o _
        unfold funcShape
        rw [houtIdx]
        simp only [goTot, hdims]
end shapes

end PF.Rw.Ax

namespace PF.Rw.Ax
open PF PF.Map PF.C01

variable {τ : List String → Option MSpec} {gs : List MFunc} {p axis : String}

section shapes2
variable (K : Nat)

theorem TInv.mono (t t' : Tbl) (done : List String) (I : TInv (τ := τ) (gs := gs) (p := p) K t done) (hti : TI K t')
    (hm : ∀ x, (alookup t x).isSome = true → (alookup t' x).isSome = true) : TInv (τ := τ) (gs := gs) (p := p) K t' done :=
  ⟨hti, fun h => hm _ (I.hp h), fun h hh hs hd o ho => hm _ (I.hd h hh hs hd o ho)⟩

/-- one generation of the lifted pipeline -/
theorem gen_lift (ok : LiftOK τ gs p axis) (internal : List (String × List Nat)) (done : List String) :
    ∀ (l : List MFunc) (t : Tbl), (∀ f ∈ l, f ∈ gs ∧ Ready gs done f) → TInv (τ := τ) (gs := gs) (p := p) K t done →
      shapesOK internal (l.map (withSpec τ)) t = true ∧
      TInv (τ := τ) (gs := gs) (p := p) K (tblFrom internal (l.map (withSpec τ)) t) done ∧
      (∀ x, (alookup t x).isSome = true → (alookup (tblFrom internal (l.map (withSpec τ)) t) x).isSome = true) ∧
      ∀ f ∈ l, Rec (τ := τ) (tblFrom internal (l.map (withSpec τ)) t) f := by
  intro l
  induction l with
  | nil => intro t _ I; exact ⟨rfl, I, fun x h => h, fun f hf => by cases hf⟩
  | cons f fs ih =>
    intro t hl I
    obtain ⟨hfg, hfr⟩ := hl f List.mem_cons_self
    obtain ⟨s1, s2⟩ := step_lift K ok internal t done I f hfg hfr
    have hmono1 : ∀ x, (alookup t x).isSome = true → (alookup (stepTbl internal t (withSpec τ f)) x).isSome = true := by
      intro x hx; rw [s2]; exact alookup_append_isSome _ _ _ hx
    have hti1 : TI K (stepTbl internal t (withSpec τ f)) := by
      rw [s2]
      intro e he
      rcases List.mem_append.mp he with he | he
      · exact I.ti e he
      · cases hm : τ f.outputs with
        | none => simp [hm] at he
        | some ms =>
          simp only [hm, List.mem_map] at he
          obtain ⟨o, _, rfl⟩ := he; rfl
    have I1 := TInv.mono K t _ done I hti1 hmono1
    have hrec1 : Rec (τ := τ) (stepTbl internal t (withSpec τ f)) f := by
      intro hs o ho
      rw [s2]
      cases hm : τ f.outputs with
      | none => rw [hm] at hs; cases hs
      | some ms => exact alookup_append_right_isSome _ _ _ (alookup_map_const_isSome _ _ _ ho)
    obtain ⟨a, b, c, d⟩ := ih (stepTbl internal t (withSpec τ f)) (fun x hx => hl x (List.mem_cons_of_mem _ hx)) I1
    simp only [List.map_cons, shapesOK, s1, Bool.true_and, tblFrom, List.foldl_cons]
    refine ⟨a, b, fun x hx => c x (hmono1 x hx), ?_⟩
    intro g hg
    rcases List.mem_cons.mp hg with rfl | hg
    · intro hs o ho; exact c o (hrec1 hs o ho)
    · exact d g hg

/-- all generations of the lifted pipeline: `map_shapes` accepts them, every entry of the table is `[K]`, and the outputs of
    every lifted function that is run are recorded -/
theorem layers_lift (ok : LiftOK τ gs p axis) (internal : List (String × List Nat)) :
    ∀ (fuel : Nat) (done : List String) (rest : List MFunc) (t : Tbl), (∀ f ∈ rest, f ∈ gs) →
      TInv (τ := τ) (gs := gs) (p := p) K t done →
      shapesOK internal ((layers gs fuel done rest).map (List.map (withSpec τ))).flatten t = true ∧
      TI K (tblFrom internal ((layers gs fuel done rest).map (List.map (withSpec τ))).flatten t) ∧
      (∀ x, (alookup t x).isSome = true →
        (alookup (tblFrom internal ((layers gs fuel done rest).map (List.map (withSpec τ))).flatten t) x).isSome = true) ∧
      ∀ f ∈ (layers gs fuel done rest).flatten,
        Rec (τ := τ) (tblFrom internal ((layers gs fuel done rest).map (List.map (withSpec τ))).flatten t) f := by
  intro fuel
  induction fuel with
  | zero => intro done rest t _ I; exact ⟨rfl, I.ti, fun x h => h, fun f hf => by simp [layers] at hf⟩
  | succ fuel ih =>
    intro done rest t hsub I
    unfold layers
    by_cases h1 : rest.isEmpty = true
    · simp only [h1, ↓reduceIte]; exact ⟨rfl, I.ti, fun x h => h, fun f hf => by simp at hf⟩
    · simp only [h1, Bool.false_eq_true, ↓reduceIte]
      by_cases h2 : (rest.filter fun f => (upstream gs f).all fun g => done.contains g).isEmpty = true
      · simp only [h2, ↓reduceIte]; exact ⟨rfl, I.ti, fun x h => h, fun f hf => by simp at hf⟩
      · simp only [h2, Bool.false_eq_true, ↓reduceIte]
        generalize hready : (rest.filter fun f => (upstream gs f).all fun g => done.contains g) = ready
        have hr : ∀ f ∈ ready, f ∈ gs ∧ Ready gs done f := by
          intro f hf; rw [← hready] at hf
          exact ⟨hsub f (List.mem_filter.mp hf).1, ready_of_upstream gs done f (List.mem_filter.mp hf).2⟩
        obtain ⟨a, b, c, d⟩ := gen_lift K ok internal done ready t hr I
        have I' : TInv (τ := τ) (gs := gs) (p := p) K (tblFrom internal (ready.map (withSpec τ)) t) (done ++ ready.map (·.name)) := by
          refine ⟨b.ti, b.hp, ?_⟩
          intro h hh hs hd o ho
          rcases List.mem_append.mp hd with hd | hd
          · exact b.hd h hh hs hd o ho
          · obtain ⟨f, hf, hn⟩ := List.mem_map.mp hd
            have hfh : f = h := nodupB_inj gs ok.names f (hr f hf).1 h hh hn
            subst hfh
            exact d f hf hs o ho
        obtain ⟨a2, b2, c2, d2⟩ := ih (done ++ ready.map (·.name)) (rest.filter fun f => !(ready.any (·.name = f.name))) _
          (fun f hf => hsub f (List.mem_filter.mp hf).1) I'
        simp only [List.map_cons, List.flatten_cons, shapesOK_append, tblFrom_append, a, Bool.true_and]
        refine ⟨a2, b2, fun x hx => c2 x (c x hx), ?_⟩
        intro f hf
        rcases List.mem_append.mp hf with hf | hf
        · intro hs o ho; exact c2 o (d f hf hs o ho)
        · exact d2 f hf

end shapes2
end PF.Rw.Ax
