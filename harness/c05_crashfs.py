"""Crash states of a run folder: canonical (model-level) paths and events, materialisation of an event prefix on disk,
and the abstraction of an on-disk folder to the model's `FS` (`Path → absent | partial | complete v`).

Model paths (lean/PfModel/Model/ResumeFS.lean): ["runInfo"] ["defaults"] ["input", n] ["cell", o, li] ["single", o] ["dictArr", o]
["tmp", p]; directories ["root"] ["inputs"] ["defaults"] ["outputs"] ["arr", o].
"""
from __future__ import annotations

import json
import os
import re
import shutil

import cloudpickle
import numpy as np

import terms

_TMP = re.compile(r"^\.(.+)\.\d+\.tmp$")
_CELL = re.compile(r"^__(\d+)__\.pickle$")


class Unmodelled(Exception):
    pass


def model_path(rel):
    """Relative path of a file in the run folder → model path (raises Unmodelled for anything else)."""
    parts = rel.split(os.sep)
    base = parts[-1]
    m = _TMP.match(base)
    if m or base == ".run_info.json.tmp":
        real = m.group(1) if m else "run_info.json"
        return ["tmp", model_path(os.sep.join(parts[:-1] + [real]))]
    if parts == ["run_info.json"]:
        return ["runInfo"]
    if parts == ["defaults", "defaults.cloudpickle"]:
        return ["defaults"]
    if len(parts) == 2 and parts[0] == "inputs" and base.endswith(".cloudpickle"):
        return ["input", base[: -len(".cloudpickle")]]
    if len(parts) == 2 and parts[0] == "outputs" and base.endswith(".cloudpickle"):
        return ["single", base[: -len(".cloudpickle")]]
    if len(parts) == 3 and parts[0] == "outputs":
        if base == "dict_array.cloudpickle":
            return ["dictArr", parts[1]]
        m = _CELL.match(base)
        if m:
            return ["cell", parts[1], int(m.group(1))]
    raise Unmodelled(f"file {rel!r} has no counterpart in the model")


def model_dir(rel):
    parts = [] if rel in ("", ".") else rel.split(os.sep)
    if not parts:
        return ["root"]
    if parts in (["inputs"], ["defaults"], ["outputs"]):
        return [parts[0]]
    if len(parts) == 2 and parts[0] == "outputs":
        return ["arr", parts[1]]
    raise Unmodelled(f"directory {rel!r} has no counterpart in the model")


def base_path(p):
    while p[0] == "tmp":
        p = p[1]
    return p


def canon(j):
    """`terms.canon`, idempotent: C05 feeds values read from the run folder (`terms.enc` of what the pickles hold) back INTO the model
    (`map.run_on` on an abstracted folder), so a model answer may contain the already expanded image `arr [2] [proj t [0], proj t [1]]` of a
    sequence-valued interpreted function (`terms.SEQ_SUFFIX`) next to its free term `t`.  `terms.canon` would expand the `t` inside such a
    `proj` a second time; here `proj t ix` of a sequence-valued call keeps its base plain (under the interpretation element `i` of the
    sequence `t` IS `proj t [i]`; functions with an internal shape, the only native source of `proj`, are never sequence-valued).
    Values of the implementation side (already `terms.enc`'d) are fixed points."""
    if isinstance(j, dict):
        is_c, c = terms._const_call(j)
        if is_c:
            return terms.enc(c)
        if terms._seq_call(j):
            base = _canon_plain(j)
            return {"arr": [[2], [{"proj": [base, [0]]}, {"proj": [base, [1]]}]]}
        if "f" in j:
            return _canon_plain(j)
        if "t" in j:
            return {"arr": [[len(j["t"])], [canon(x) for x in j["t"]]]}
        if "arr" in j:
            return {"arr": [j["arr"][0], [canon(x) for x in j["arr"][1]]]}
        if "pick" in j:
            return {"pick": [canon(j["pick"][0]), j["pick"][1]]}
        if "proj" in j:
            b = j["proj"][0]
            return {"proj": [_canon_plain(b) if terms._seq_call(b) else canon(b), j["proj"][1]]}
        return j
    return j


def _canon_plain(j):
    if "f" in j:
        return {"f": j["f"], "k": sorted(([k, canon(x)] for k, x in j["k"]), key=lambda kv: kv[0])}
    return {"pick": [_canon_plain(j["pick"][0]), j["pick"][1]]}


TORN = "$torn"      # what `decode` answers for a file that does not decode (a stored None decodes to the value JSON `None`)


def decode(mp, data):
    """Content of a file → value JSON of the model, or TORN when it does not decode (a partial write)."""
    kind = base_path(mp)[0]
    try:
        if kind == "runInfo":
            json.loads(data.decode())
            return {"s": "run_info"}
        obj = cloudpickle.loads(data)
    except Exception:  # noqa: BLE001
        return TORN
    if kind == "defaults":
        return {"s": "defaults"}
    if kind == "dictArr":
        if not isinstance(obj, dict):
            return TORN
        return {"t": [terms.enc(obj[k]) for k in sorted(obj)]}
    return terms.enc(obj)


# ------------------------------------------------------------------------------------------------ event lists
def canon_real(events, folder):
    """Real trace → canonical list: ["mkdir", dir] ["write", path, value] ["rename", p, q] ["unlink", p] ["call", fn, kw].
    A group open/write*/close on one path is one `write` (its value is the decoded final content)."""
    out, open_ = [], {}
    for e in events:
        if e[0] == "call":
            out.append(["call", e[1], e[2]])
            continue
        rel = os.path.relpath(e[1], folder)
        if e[0] == "mkdir":
            out.append(["mkdir", model_dir(rel)])
        elif e[0] == "rmdir":
            out.append(["rmdir", model_dir(rel)])
        elif e[0] == "open":
            if not e[2]:
                raise Unmodelled(f"open for writing without truncation: {rel}")
            open_[e[1]] = b""
        elif e[0] == "write":
            open_[e[1]] = open_.get(e[1], b"") + e[2]
        elif e[0] == "close":
            mp = model_path(rel)
            v = decode(mp, open_.pop(e[1], b""))
            out.append(["write", mp, TORN if v == TORN else canon(v)])
        elif e[0] == "rename":
            rel2 = os.path.relpath(e[2], folder)
            if rel == ".":
                out.append(["rmtree"])      # the run folder itself is moved away (`_cleanup_run_folder`): for the folder that is `rmtree`
            elif rel2.startswith(".."):
                out.append(["unlink", model_path(rel)])     # moved out of the run folder = gone
            else:
                out.append(["rename", model_path(rel), model_path(rel2)])
        elif e[0] == "unlink":
            out.append(["unlink", model_path(rel)])
    if open_:
        raise Unmodelled(f"files left open at exit: {sorted(open_)}")
    return out


_PARENTS = {"root": [["root"]], "inputs": [["root"], ["inputs"]], "defaults": [["root"], ["defaults"]], "outputs": [["root"], ["outputs"]]}


def canon_model(events, dirs0=()):
    """Model event list → the same canonical form (`mkdirp` expands to the directories that do not exist yet)."""
    out, dirs = [], {json.dumps(d) for d in dirs0}
    i = 0
    while i < len(events):
        e = events[i]
        if e[0] == "mkdirp":
            chain = _PARENTS.get(e[1][0]) or [["root"], ["outputs"], e[1]]
            for d in chain:
                if json.dumps(d) not in dirs:
                    dirs.add(json.dumps(d)); out.append(["mkdir", d])
        elif e[0] == "begin":
            j = i + 1
            while j < len(events) and events[j][0] == "chunk" and events[j][1] == e[1]:
                j += 1
            if j >= len(events) or events[j][0] != "commit" or events[j][1] != e[1]:
                raise Unmodelled("model write group without commit")
            out.append(["write", e[1], canon(events[j][2])])
            i = j
        elif e[0] == "rename":
            out.append(["rename", e[1], e[2]])
        elif e[0] == "unlink":
            out.append(["unlink", e[1]])
        elif e[0] == "call":
            out.append(["call", e[1], sorted(([k, canon(v)] for k, v in e[3]), key=lambda kv: kv[0])])
        elif e[0] == "rmtree":
            out.append(["rmtree"])
        i += 1
    return out


# ------------------------------------------------------------------------------------------------ crash states
def crash_points(events):
    """All (k, tear) crash points of a real event list: every prefix, and inside every write of ≥ 2 bytes a half-buffer tear
    (plus a 1-byte and an all-but-one-byte tear for the first write of the trace and for `run_info.json`)."""
    pts = []
    seen_write = False
    for k in range(len(events) + 1):
        pts.append((k, None))
        if k < len(events) and events[k][0] == "write" and len(events[k][2]) > 1:
            n = len(events[k][2])
            pts.append((k, n // 2))
            if not seen_write or events[k][1].endswith("run_info.json") or events[k][1].endswith(".run_info.json.tmp"):
                pts.append((k, 1)); pts.append((k, n - 1))
            seen_write = True
    return pts


def _inside(p, root):
    return p == root or p.startswith(root + os.sep)


def materialise(events, k, src, dst, tear=None, keep=False):
    """Apply the first k events (and `tear` bytes of event k when it is a write) to the folder `dst` (emptied first unless
    `keep`).  `src` is the folder the trace was taken in; it must have the same length as `dst` because `run_info.json`
    records absolute paths (they are rewritten in the written bytes).
    Whatever the traced process did is replayed or refused with `Unmodelled` (never another exception): a rename of the run folder
    itself, or of anything to a place outside it (the trash sibling of `_cleanup_run_folder`), removes the source - several states of
    one trace are materialised concurrently and none of them may touch a path outside its own `dst`."""
    assert len(src) == len(dst), (src, dst)
    sb, db = src.encode(), dst.encode()
    if not keep:
        shutil.rmtree(dst, ignore_errors=True)
    content = {}

    def mp(p):
        return dst + p[len(src):] if _inside(p, src) else p

    def flush(p):
        os.makedirs(os.path.dirname(p), exist_ok=True)
        with open(p, "wb") as fh:
            fh.write(content[p])

    def remove(p):
        if os.path.isdir(p) and not os.path.islink(p):
            shutil.rmtree(p, ignore_errors=True)
        elif os.path.lexists(p):
            os.remove(p)

    seq = list(events[:k])
    if tear is not None and k < len(events) and events[k][0] == "write":
        seq.append(("write", events[k][1], events[k][2][:tear]))
    for e in seq:
        if e[0] == "call":
            continue
        p = mp(e[1])
        try:
            if not _inside(p, dst):
                if e[0] == "rename" and _inside(mp(e[2]), dst):
                    raise Unmodelled(f"replay: {e[1]} is moved into the run folder from outside")
                continue                    # nothing of the run folder is touched
            if e[0] == "mkdir":
                os.makedirs(p, exist_ok=True)
            elif e[0] == "open":
                content[p] = b""
                flush(p)
            elif e[0] == "write":
                if p not in content:
                    content[p] = open(p, "rb").read() if os.path.exists(p) else b""
                content[p] += e[2].replace(sb, db)
                flush(p)
            elif e[0] == "close":
                content.pop(p, None)
            elif e[0] == "rename":
                q = mp(e[2])
                if p == dst or not _inside(q, dst):
                    remove(p)               # the folder (or a file of it) is moved away
                    for c in [c for c in content if _inside(c, p)]:
                        content.pop(c)
                else:
                    if os.path.isdir(q) and not os.path.isdir(p):
                        raise Unmodelled(f"replay: rename of the file {e[1]} onto a directory")
                    os.replace(p, q)
                content.pop(p, None)
            elif e[0] == "unlink":
                if os.path.lexists(p):
                    os.remove(p)
            elif e[0] == "rmdir":
                if os.path.isdir(p):
                    shutil.rmtree(p, ignore_errors=True)
        except OSError as x:
            raise Unmodelled(f"replay of {e[0]} {os.path.relpath(e[1], src)} fails: {type(x).__name__} {x.strerror}") from None


def _simulate(events, folder, start_abs):
    """Pure simulation of a trace on the abstract folder `start_abs` ({"files": [[path, "P" | {"C": v}]]} or None = empty): yields the
    state {json model path: "C" | "P"} after 0, 1, ..., len(events) events (the same dict object, updated in place)."""
    state = {json.dumps(p): ("P" if c == "P" else "C") for p, c in (start_abs or {"files": []})["files"]}

    def key(path):
        try:
            return json.dumps(model_path(os.path.relpath(path, folder)))
        except Unmodelled:
            return "?" + path

    yield state
    for e in events:
        if e[0] == "open":
            if e[2]:
                state[key(e[1])] = "P"
            else:
                state.setdefault(key(e[1]), "P")
        elif e[0] == "write":
            state[key(e[1])] = "P"
        elif e[0] == "close":
            state[key(e[1])] = "C"
        elif e[0] == "unlink":
            state.pop(key(e[1]), None)
        elif e[0] in ("rename", "rmdir"):
            rel, rel2 = os.path.relpath(e[1], folder), os.path.relpath(e[2], folder) if e[0] == "rename" else ".."
            if rel == ".":
                state.clear()
            elif rel.startswith(".."):
                pass        # the source is outside the folder (`materialise` refuses the prefix if the target is inside)
            else:
                src_key = key(e[1])
                if src_key in state:
                    c = state.pop(src_key)
                    if not rel2.startswith(".."):
                        state[key(e[2])] = c
                else:       # a directory: everything below it goes
                    pre = rel + os.sep
                    for s in [s for s in state if _below(s, pre)]:
                        state.pop(s)
        yield state


def _is_data(k):
    return not k.startswith("?") and json.loads(k)[0] != "tmp"


def lost_at(events, folder, start_abs):
    """Which stored results does a prefix of the run LOSE?  `start_abs` = the abstraction of the folder the traced run started on.
    Returns, for k = 0..len(events), the sorted list of non-temporary files that were complete at the start and are absent or
    partial after the first k events (pure simulation of the trace: nothing is materialised).  A run of the repaired protocol
    never loses one (Lean: `C05_stored_kept`); a run that does opens a window in which a second kill makes the next run redo
    stored work."""
    stored, out = None, []
    for state in _simulate(events, folder, start_abs):
        if stored is None:
            stored = sorted(k for k, c in state.items() if c == "C" and _is_data(k))
        out.append([p for p in stored if state.get(p) != "C"])
    return out


def ever_complete(events, folder, start_abs=None):
    """For k = 0..len(events): the set of non-temporary files that were complete after SOME prefix of at most k events - what the run
    had completely stored at any time before a kill after k events, also if the run itself removed it again later (an error handler
    that tidies up, a rewrite that unlinks first): stored before the interruption, so not to be recomputed."""
    out, acc = [], set()
    for state in _simulate(events, folder, start_abs):
        acc = acc | {k for k, c in state.items() if c == "C" and _is_data(k)}
        out.append(acc)
    return out


_DIR_OF = {"inputs": lambda p: p[0] == "input", "defaults": lambda p: p[0] == "defaults", "outputs": lambda p: p[0] in ("cell", "single", "dictArr")}


def _below(state_key, rel_prefix):
    """Is the file with this (json) model path below the directory `rel_prefix` (relative, with trailing separator)?"""
    if state_key.startswith("?"):
        return False
    p = base_path(json.loads(state_key))
    parts = rel_prefix.strip(os.sep).split(os.sep)
    if len(parts) == 1:
        return _DIR_OF.get(parts[0], lambda _p: False)(p)
    if len(parts) == 2 and parts[0] == "outputs":
        return p[0] in ("cell", "dictArr") and p[1] == parts[1]
    return False


def loss_points(lost):
    """Crash points (k, None) that cover every window of `lost_at`: the first and the last prefix of every maximal run of
    prefixes with the same non-empty set of lost files."""
    pts, k = [], 0
    while k < len(lost):
        if lost[k]:
            j = k
            while j + 1 < len(lost) and lost[j + 1] == lost[k]:
                j += 1
            pts += [k] if j == k else [k, j]
            k = j + 1
        else:
            k += 1
    return pts


def snapshot(folder, dst):
    shutil.rmtree(dst, ignore_errors=True)
    if os.path.isdir(folder):
        shutil.copytree(folder, dst)


def abstract(folder):
    """On-disk folder → the model's FS: {"files": [[path, "P" | {"C": value}]], "dirs": [dir]}."""
    files, dirs = [], []
    if not os.path.isdir(folder):
        return {"files": [], "dirs": []}
    for root, dnames, fnames in os.walk(folder):
        rel = os.path.relpath(root, folder)
        dirs.append(model_dir("" if rel == "." else rel))
        for fn in sorted(fnames):
            r = fn if rel == "." else os.path.join(rel, fn)
            mp = model_path(r)
            v = decode(mp, open(os.path.join(root, fn), "rb").read())
            files.append([mp, "P" if v == TORN else {"C": v}])
    return {"files": sorted(files, key=lambda x: json.dumps(x[0])), "dirs": dirs}
