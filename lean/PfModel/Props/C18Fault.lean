/-
C18, raising user functions (`PF.Lazy.evalF`, Model/LazyFault.lean): with no faulty function the fault-aware evaluation IS the
evaluation the other C18 theorems speak about, so every one of them transfers to sessions of the stream `fault` between faults.
-/
import PfModel.Model.LazyFault
namespace PF.C18
open PF PF.Pipe PF.Lazy

/-- the argument loop, given the agreement of the recursive calls -/
theorem C18_fault_args_agree (rec : Nat → ESt → Except EErr (Val × ESt)) (recF : Nat → ESt → ESt × Except FErr Val)
    (H : ∀ i s v s', rec i s = .ok (v, s') → recF i s = (s', .ok v)) :
    ∀ (args : List (String × LArg)) (s : ESt) (vs : List (String × Val)) (s' : ESt),
      evalArgs rec args s = .ok (vs, s') → evalArgsF recF args s = (s', .ok vs) := by
  intro args
  induction args with
  | nil => intro s vs s' h; simp only [evalArgs] at h; cases h; rfl
  | cons ka r ih =>
    obtain ⟨k, a⟩ := ka
    intro s vs s' h
    simp only [evalArgs] at h
    cases a with
    | val v =>
      simp only [evalArg] at h
      cases hr : evalArgs rec r s with
      | error e => rw [hr] at h; cases h
      | ok p =>
        obtain ⟨vs2, s2⟩ := p
        rw [hr] at h; cases h
        simp only [evalArgsF, evalArgF, ih s vs2 _ hr]
    | ref i =>
      simp only [evalArg] at h
      cases h1 : rec i s with
      | error e => rw [h1] at h; cases h
      | ok p =>
        obtain ⟨v, s1⟩ := p
        rw [h1] at h
        simp only at h
        cases hr : evalArgs rec r s1 with
        | error e => rw [hr] at h; cases h
        | ok q =>
          obtain ⟨vs2, s2⟩ := q
          rw [hr] at h; cases h
          simp only [evalArgsF, evalArgF, H i s v s1 h1, ih s1 vs2 _ hr]

/-- **No fault, no difference.**  When no function is faulty, whatever `evaluate` (`PF.Lazy.eval`) returns — value and state — is what the
    fault-aware `evalF` returns: for every table, fuel, node and state. -/
theorem C18_fault_free_agrees (nodes : List Lazy.Node) :
    ∀ (n id : Nat) (s s' : ESt) (v : Val), eval nodes n id s = .ok (v, s') → evalF [] nodes n id s = (s', .ok v) := by
  intro n
  induction n with
  | zero => intro id s s' v h; simp only [eval] at h; cases h
  | succ n ih =>
    intro id s s' v h
    simp only [eval] at h
    simp only [evalF]
    cases hd : dlookup s.done id with
    | some w => rw [hd] at h; cases h; rfl
    | none =>
      rw [hd] at h
      cases hn : nodes[id]? with
      | none => rw [hn] at h; cases h
      | some nd =>
        rw [hn] at h
        cases nd with
        | call f args =>
          simp only at h ⊢
          cases ha : evalArgs (eval nodes n) args s with
          | error e => rw [ha] at h; cases h
          | ok p =>
            obtain ⟨vals, s1⟩ := p
            rw [ha] at h; cases h
            rw [C18_fault_args_agree (eval nodes n) (evalF [] nodes n) (fun i s v s' hh => ih i s s' v hh) args s vals _ ha]
            simp
        | pick f src name =>
          simp only at h ⊢
          cases src with
          | val w =>
            simp only [evalArg] at h
            simp only [evalArgF]
            cases hp : pickVal f.outputs name w with
            | none => rw [hp] at h; cases h
            | some r => rw [hp] at h; cases h; rfl
          | ref i =>
            simp only [evalArg] at h
            simp only [evalArgF]
            cases h1 : eval nodes n i s with
            | error e => rw [h1] at h; cases h
            | ok p =>
              obtain ⟨w, s1⟩ := p
              rw [h1] at h
              simp only at h
              rw [ih i s s1 w h1]
              cases hp : pickVal f.outputs name w with
              | none => rw [hp] at h; cases h
              | some r => rw [hp] at h; cases h; simp only [hp]

/-- the same for `x.evaluate()` on a returned object -/
theorem C18_fault_free_evaluate (a : LArg) (s s' : LSt) (v : Val) (h : evaluate a s = .ok (v, s')) :
    evaluateF [] a s = (s', .ok v) := by
  simp only [evaluate] at h
  simp only [evaluateF]
  cases a with
  | val w => simp only [evalArg] at h; cases h; rfl
  | ref i =>
    simp only [evalArg] at h
    simp only [evalArgF]
    cases h1 : eval s.nodes (s.nodes.length + 1) i s.ev with
    | error e => rw [h1] at h; cases h
    | ok p =>
      obtain ⟨w, e⟩ := p
      rw [h1] at h; cases h
      rw [C18_fault_free_agrees s.nodes _ i s.ev e v h1]

end PF.C18

namespace PF.C18
open PF PF.Pipe PF.Lazy

/-- non-vacuity, and the behaviour the stream `fault` watches: one node `f()`; while `f` is faulty `evaluate()` raises and leaves the node
    unevaluated (the invocation is logged), the retry without the fault returns, the node is evaluated once more and memoised -/
example :
    let f : Func := { name := "f", params := [], outputs := ["a"], defaults := [], bound := [] }
    let nodes : List Lazy.Node := [.call f []]
    let r1 := evalF ["f"] nodes 2 0 ⟨[], []⟩
    let r2 := evalF [] nodes 2 0 r1.1
    (match r1.2 with | .error (.raised i) => i == 0 | _ => false) = true ∧ r1.1.done.length = 0 ∧ r1.1.log = [0] ∧ r2.2.isOk = true ∧ r2.1.done.length = 1 ∧ r2.1.log = [0, 0] := by
  decide

/-- non-vacuity of `C18_fault_free_agrees` / `C18_fault_args_agree` / `C18_fault_free_evaluate`: `eval` / `evaluate` do return on a table
    with a consumer of a producer -/
example :
    let f : Func := { name := "f", params := [], outputs := ["a"], defaults := [], bound := [] }
    let g : Func := { name := "g", params := [("a", "a")], outputs := ["b"], defaults := [], bound := [] }
    let nodes : List Lazy.Node := [.call f [], .call g [("a", .ref 0)]]
    (∃ v s', eval nodes 3 1 ⟨[], []⟩ = .ok (v, s')) ∧
    (∃ vs s', evalArgs (eval nodes 2) [("a", .ref 0)] ⟨[], []⟩ = .ok (vs, s')) ∧
    (∃ v s', evaluate (.ref 1) { memo := [], used := [], usedNone := false, nodes := nodes, tg := none, ev := ⟨[], []⟩ } = .ok (v, s')) :=
  ⟨⟨_, _, rfl⟩, ⟨_, _, rfl⟩, ⟨_, _, rfl⟩⟩

end PF.C18
