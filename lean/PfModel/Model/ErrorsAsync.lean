/-
Model of `Pipeline.map_async` with failing user functions (C13, extension): which exception surfaces when several invocations
raise.

Mirrored code (`pipefunc/map/_run.py`):
* `_process_task_async` (`:1015-1031`): `futs = [asyncio.wrap_future(x) for x in r]; await asyncio.gather(*futs)` — without
  `return_exceptions`, `gather` propagates the exception of the future of *this function* whose completion the event loop
  observes first; the other futures keep running → `gatherFail`, `awaitGather`.
* `_process_generation_async` (`:888-905`): functions of the generation in order, each awaiting its own futures → `procGenA`.
* `_run_and_process_generation_async` + the generation loop of `run_map_async._run_pipeline` (`:292-310`) → `poolGenA`, `runGensA`.

`ρ` ("loop order") lists task positions in the order in which the event loop runs the completion callbacks of their wrapped
futures.  It need not be the order `σ` in which the pool finished them: a future that was already done when `wrap_future` was
called is scheduled at once (submission order), one that finishes later when its pool thread reports it.  The model therefore
takes `ρ` as a second, independent schedule; the theorems hold for every `ρ`.
Core Lean only.
-/
import PfModel.Model.Errors
namespace PF.Errors
open PF PF.Map

/-- the first position of the loop order `ρ` that belongs to this function's futures (`off ≤ i < off + ts.length`) and whose
    future holds an exception: that exception is what `await asyncio.gather(*futs)` raises -/
def gatherFail (futs : Futs) (ts : List Task) (off : Nat) : List Nat → Option (Task × Exn)
  | [] => none
  | i :: ρ =>
    if off ≤ i then
      match ts[i - off]?, futs i with
      | some t, some (some x) => some (t, x)
      | _, _ => gatherFail futs ts off ρ
    else gatherFail futs ts off ρ

/-- every future of the function finished without an exception -/
def allSucceeded (futs : Futs) : List Task → Nat → Bool
  | [], _ => true
  | _ :: ts, i => (match futs i with | some none => true | _ => false) && allSucceeded futs ts (i + 1)

/-- `await asyncio.gather(*futs)`: the first observed failure ends the wait at once; without a failure the wait ends when
    every future has a result; otherwise it never ends -/
def awaitGather (futs : Futs) (ρ : List Nat) (ts : List Task) (off : Nat) : Await :=
  match gatherFail futs ts off ρ with
  | some (t, x) => .raised t x
  | none => if allSucceeded futs ts off then .allDone else .hang

/-- `_process_generation_async`: functions in generation order, each awaiting its own futures with `gather` -/
def procGenA (futs : Futs) (ρ : List Nat) : List (MFunc × FuncResult) → Nat → Proc
  | [], _ => .ok
  | (f, r) :: rest, off =>
    match awaitGather futs ρ (tasksOf f r) off with
    | .hang => .hang
    | .raised t x =>
      .raised (raisedOf t x) (workerSlots futs off r ++ (procGen.restSlots futs rest (off + r.calls.length)))
    | .allDone =>
      match procGenA futs ρ rest (off + r.calls.length) with
      | .ok => .ok
      | .hang => .hang
      | .raised rr sl => .raised rr (r.slots ++ sl)

/-- **Generation of `map_async`**: every invocation is submitted, the pool runs them in the order `σ`, the event loop
    observes the completions in the order `ρ` -/
def poolGenA (fails : Oracle) (σ ρ : List Nat) (R : Env → MFunc → M FuncResult) (env : Env) (gen : List MFunc) : GenOut :=
  match runGenWith R env gen with
  | .error e => .refused e
  | .ok rs =>
    let frs := gen.zip rs
    let tasks := genTasks frs
    let futs := execAll fails tasks σ (fun _ => none)
    let log := σ.filterMap fun i => tasks[i]?
    match procGenA futs ρ frs 0 with
    | .ok => .ok rs log
    | .hang => .hang log
    | .raised r sl => .raised r log sl

/-- the generation loop, parameterised by how one generation is run (`runGensE mode …` is the instance `genE mode …`) -/
def runGensG (G : Nat → Env → List MFunc → GenOut) : List (List MFunc) → Env → Nat → RunOut
  | [], env, _ => .ok [] env []
  | gen :: rest, env, g =>
    match G g env gen with
    | .refused e => .refused e
    | .hang log => .hang g log
    | .raised r log slots => .raised g r log (env.store ++ slots)
    | .ok rs log =>
      match runGensG G rest { env with store := env.store ++ rs.flatMap (·.slots) } (g + 1) with
      | .ok more envF log' => .ok (rs ++ more) envF (log ++ log')
      | .refused e => .refused e
      | .raised g' r log' st => .raised g' r (log ++ log') st
      | .hang g' log' => .hang g' (log ++ log')

/-- the generation loop of `run_map_async`: `sched g` = pool order, `loopo g` = loop order of generation `g` -/
def runGensA (fails : Oracle) (sched loopo : Nat → List Nat) (R : Env → MFunc → M FuncResult) :
    List (List MFunc) → Env → Nat → RunOut :=
  runGensG fun g env gen => poolGenA fails (sched g) (loopo g) R env gen

/-- `run_map_async` with a failing user function -/
def runMapA (fails : Oracle) (sched loopo : Nat → List Nat) (fs : List MFunc) (inputs : List (String × Val))
    (userInternal : List (String × List Nat)) : Outcome :=
  match validateInputs fs inputs with
  | .error e => .refused e
  | .ok _ =>
    if (generations fs).flatten.length ≠ fs.length then .refused (.value "cyclic pipeline") else
    match mapShapes fs inputs (constructInternal fs userInternal) with
    | .error e => .refused e
    | .ok (shapes, masks) =>
      match runGensA fails sched loopo (runFuncWith opArray fs shapes masks) (generations fs) { inputs := inputs, store := [] } 0 with
      | .refused e => .refused e
      | .hang g log => .hang g log
      | .raised g r log st => .raised g r log (st.map fun (o, s) => (o, s.toVal))
      | .ok rs env log =>
        .done { outputs := rs.flatMap (·.outputs), stored := env.store.map fun (o, s) => (o, s.toVal), shapes := shapes, masks := masks,
                calls := log.map (·.c), gens := (generations fs).map fun g => g.map (·.name) }

/-- the invocations whose exception `map_async` may surface: the raising invocations of the first function — in the order of
    the first generation that has one — that has a raising invocation (the specification side of `C13_async_surface`) -/
def asyncCandidates (fails : Oracle) : List (MFunc × FuncResult) → List (Task × Exn)
  | [] => []
  | (f, r) :: rest =>
    match (tasksOf f r).filterMap fun t => (failOf fails t).map fun x => (t, x) with
    | [] => asyncCandidates fails rest
    | c :: cs => c :: cs

/-- **Specification of `map_async`**: the generation that fails and the invocations whose exception may surface — no pool
    schedule, no loop order -/
def specGensA (fails : Oracle) (R : Env → MFunc → M FuncResult) : List (List MFunc) → Env → Nat → M (Option (Nat × List (Task × Exn)))
  | [], _, _ => pure none
  | gen :: rest, env, g =>
    match runGenWith R env gen with
    | .error e => .error e
    | .ok rs =>
      match asyncCandidates fails (gen.zip rs) with
      | [] => specGensA fails R rest { env with store := env.store ++ rs.flatMap (·.slots) } (g + 1)
      | c :: cs => pure (some (g, c :: cs))

end PF.Errors
