import PfModel.Model.Sweep
import PfModel.Model.Pipeline
/-!
# `count_sweep` with its pipeline part (C17, extension)

`count_sweep(output_name, sweep, pipeline)` (`sweep.py:504-522`) asks the pipeline for `func_dependencies(output_name)` and,
for each of them, `root_args(dep)`.  Both are taken from the pipeline model of C02 (`PF.Pipe.funcDeps`, `PF.Pipe.rootArgs`);
this file only composes them with `PF.Sweep.countSweep`.
-/
namespace PF.Sweep

/-- `[(dep, pipeline.root_args(dep)) for dep in pipeline.func_dependencies(output_name)]` (`sweep.py:505-508`), for functions
    with a single output name.  `none`: `output_name` is not an output of the pipeline (`KeyError` in the code), or a
    dependency without a root-argument combination. -/
def countDeps (fs : List PF.Pipe.Func) (o : String) : Option (List (String × List Key)) :=
  match PF.Pipe.producerIdx fs o with
  | none => none
  | some i =>
    (PF.Pipe.funcDeps fs (fs.length * fs.length + 2) [i] []).mapM fun j =>
      let out := ",".intercalate (PF.Pipe.funcAt fs j).outputs
      (PF.Pipe.rootArgs fs out).map fun r => (out, r)

/-- `count_sweep` (`sweep.py:468-522`, default path) on the combinations of a sweep -/
def countSweepPipe {V : Type} [DecidableEq V] (fs : List PF.Pipe.Func) (o : String) (combos : List (Dict V)) :
    Option (Except Err (List (String × List (List V × Nat)))) :=
  (countDeps fs o).map fun deps => countSweep deps combos

end PF.Sweep
