import PfModel.Lemmas.RewriteRename
import PfModel.Lemmas.RewriteNest
/-!
C10 — Structural rewrites preserve what a pipeline computes.

`PF.Rw.eval` is the composition along the DAG (`PF.Pipe.compose`, the specification of C02, extended to renamed outputs and
`NestedPipeFunc` bodies; `C10_eval_is_compose` ties them).  Terms record the ORIGINAL parameter and output names, so "the
same value" below is literal equality.  `Agree a b`: both return the same value, or both refuse.
-/
namespace PF.C10
open PF PF.Pipe PF.Rw

/-- On a plain pipeline `eval` is the specification `PF.Pipe.compose` of C02 (which `C02_run_eq_compose` relates to the
    memoised run), for every fuel, output and keyword set. -/
theorem C10_eval_is_compose (fs : List Func) (kw : List (String × Val)) (n : Nat) (o : String) :
    eval (fs.map embed) kw n o = compose fs kw n o := eval_embed fs kw n o

/-- **copy / pickle round-trip**: the copy is the same pipeline (the content of this clause is the correspondence: the
    real copies and unpickled objects are compared with the model on every output). -/
theorem C10_copy_pickle (fs : List RFunc) (kw : List (String × Val)) (n : Nat) (o : String) :
    eval (copy fs) kw n o = eval fs kw n o ∧ eval (pickle fs) kw n o = eval fs kw n o := ⟨rfl, rfl⟩

/-- **update_renames**: for a renaming `ρ` that is injective on the names in use (capture-free), the renamed pipeline
    called for `ρ o` with the re-keyed keywords returns what the original returns for `o` — or both refuse. -/
theorem C10_rename (ρ : String → String) (N : String → Prop) (hinj : ∀ a b, N a → N b → ρ a = ρ b → a = b)
    (fs : List RFunc) (kw : List (String × Val)) (hfs : ∀ f ∈ fs, NamesIn N f.core) (hkw : ∀ kv ∈ kw, N kv.1)
    (n : Nat) (o : String) (ho : N o) :
    Agree (eval (renameAll ρ fs) (kw.map (rkv ρ)) n (ρ o)) (eval fs kw n o) :=
  eval_rename ρ N hinj fs kw hfs hkw n o ho

/-- the same over `PF.Pipe.compose` for a plain pipeline -/
theorem C10_rename_compose (ρ : String → String) (N : String → Prop) (hinj : ∀ a b, N a → N b → ρ a = ρ b → a = b)
    (fs : List Func) (kw : List (String × Val)) (hfs : ∀ f ∈ fs, NamesIn N f) (hkw : ∀ kv ∈ kw, N kv.1)
    (n : Nat) (o : String) (ho : N o) :
    Agree (eval (renameAll ρ (fs.map embed)) (kw.map (rkv ρ)) n (ρ o)) (compose fs kw n o) := by
  rw [← eval_embed]
  apply eval_rename ρ N hinj _ kw _ hkw n o ho
  intro f hf
  obtain ⟨g, hg, rfl⟩ := List.mem_map.mp hf
  exact hfs g hg

/-- `Pipeline.update_renames(m)`, when it accepts, is the renaming by the dictionary read as a total function. -/
theorem C10_update_renames (m : List (String × String)) (fs fs' : List RFunc) (h : updateRenames m fs = .ok fs') :
    fs' = renameAll (rhoOf m) fs := by
  unfold updateRenames at h
  split at h
  · cases h
  · split at h
    · cases h
    · split at h
      · cases h
      · injection h with h; exact h.symm

/-- **update_scope** (adding, replacing or removing a scope) is an instance of renaming: when it accepts, the result is
    the renaming by `scopeRho`, so `C10_rename` applies whenever that map is injective on the names in use. -/
theorem C10_scope (s : Option String) (fs fs' : List RFunc) (h : updateScope s fs = .ok fs') (N : String → Prop)
    (hinj : ∀ a b, N a → N b → scopeRho s fs a = scopeRho s fs b → a = b)
    (kw : List (String × Val)) (hfs : ∀ f ∈ fs, NamesIn N f.core) (hkw : ∀ kv ∈ kw, N kv.1) (n : Nat) (o : String) (ho : N o) :
    Agree (eval fs' (kw.map (rkv (scopeRho s fs))) n (scopeRho s fs o)) (eval fs kw n o) := by
  have : fs' = renameAll (scopeRho s fs) fs := by
    unfold updateScope at h
    split at h
    · cases h
    · split at h
      · cases h
      · injection h with h; exact h.symm
  rw [this]
  exact eval_rename _ N hinj fs kw hfs hkw n o ho

/-- adding the scope `s` is injective on un-scoped names (so a freshly scoped pipeline satisfies `C10_scope`'s hypothesis) -/
theorem C10_scope_injective (s a b : String) (ha : dotSplit a = none) (hb : dotSplit b = none)
    (ha' : a.startsWith (s ++ ".") = false) (hb' : b.startsWith (s ++ ".") = false)
    (h : prependScope (some s) a = prependScope (some s) b) : a = b := by
  simp only [prependScope, ha, hb, ha', hb', Bool.false_eq_true, ↓reduceIte] at h
  exact (String.append_right_inj (s ++ ".")).mp h

/-- **Both calling conventions**: a dictionary given for a parameter scope is the dotted keywords; plain keywords pass
    through unchanged (`_flatten_scopes`). -/
theorem C10_scope_nested (scopes : List String) (s : String) (items : List (String × Val)) (rest : List (String × Val))
    (hs : scopes.contains s = true) :
    flattenKw scopes ((s, KwArg.scope items) :: rest.map fun kv => (kv.1, KwArg.val kv.2)) =
      items.map (fun kv => (s ++ "." ++ kv.1, kv.2)) ++ rest := by
  have hrest : ∀ l : List (String × Val), flattenKw scopes (l.map fun kv => (kv.1, KwArg.val kv.2)) = l := by
    intro l
    induction l with
    | nil => rfl
    | cons e es ih =>
      simp only [flattenKw, List.map_cons, List.flatMap_cons] at ih ⊢
      rw [ih]; rfl
  simp only [flattenKw, List.flatMap_cons, hs, ↓reduceIte] at hrest ⊢
  rw [hrest]

/-- **split_disconnected**: every output computes in its component what it computes in the whole pipeline (same value,
    same refusal), for every keyword set. -/
theorem C10_split (o : String) (fs part : List RFunc) (h : splitComponent o fs = .ok part) (hu : UniqueOutR fs)
    (hc : ConsistentDefaults (cores fs)) (kw : List (String × Val)) (n : Nat) (o' : String)
    (ho' : ∃ g ∈ part, o' ∈ g.core.outputs) : eval part kw n o' = eval fs kw n o' := by
  unfold splitComponent at h
  split at h
  · cases h
  · next f _ =>
    simp only [] at h
    split at h
    · cases h
    · next hcl =>
      split at h
      · cases h
      · injection h with h
        subst h
        obtain ⟨g, hg, hog⟩ := ho'
        obtain ⟨hgfs, hP⟩ := List.mem_filter.mp hg
        apply eval_split fs _ (by simpa using hcl) hu hc kw n o' ⟨g, hgfs, hP, hog⟩

/-- **join / |** is conservative: `join`, when it accepts, lists the functions of both; an output of the first pipeline
    whose cone `C` (closed under "is a parameter of the producer") contains no output and no default of the second
    computes the same in the joined pipeline. -/
theorem C10_join_conservative (fs gs r : List RFunc) (h : join fs gs = .ok r) (kw : List (String × Val)) (C : String → Prop)
    (hc : ConsistentDefaults (cores (fs ++ gs)))
    (hclosed : ∀ x f, C x → rproducer fs x = some f → ∀ p ∈ f.core.params, C p.1)
    (hfree : ∀ x, C x → ∀ g ∈ gs, x ∉ g.core.outputs ∧ ∀ v, (x, v) ∉ g.core.defaults)
    (n : Nat) (o : String) (ho : C o) : r = fs ++ gs ∧ eval r kw n o = eval fs kw n o := by
  have : r = fs ++ gs := by
    unfold join at h
    simp only [] at h
    split at h
    · cases h
    · split at h
      · cases h
      · injection h with h; exact h.symm
  subst this
  exact ⟨rfl, eval_join fs gs kw C hc hclosed hfree n o ho⟩

/-- keywords are given for root arguments only -/
def RootKw (fs : List RFunc) (kw : List (String × Val)) : Prop :=
  ∀ p, (∃ c, producer (cores fs) p = some c) → alookup kw p = none

/-- **nest_funcs / NestedPipeFunc** (soundness half): when `nest_funcs` accepts, the new pipeline is the un-nested
    functions followed by one nested function `N`; if `N` retains every inner output consumed outside (`retainsAll`, the
    decidable check the driver evaluates on every case), then for root keywords whatever the new pipeline returns for ANY
    of its outputs is what the original returns (tuple-output leaves, bound inner parameters, defaults, renames included).
    Missing (rests on the correspondence check): totality — that the nested pipeline does return a value whenever the
    original evaluates every nested function; it needs the fuel bound of an acyclic selection. -/
theorem C10_nest_partial (sel : List String) (out : Option (List String)) (fs r : List RFunc)
    (h : nestFuncs sel out fs = .ok r) :
    ∃ N, r = fs.filter (fun f => !(sel.any fun o => f.core.outputs.contains o)) ++ [N] ∧
      IsNest (fs.filter fun f => sel.any fun o => f.core.outputs.contains o) N ∧
      (retainsAll fs (fun f => sel.any fun o => f.core.outputs.contains o) [N] = true → UniqueOutR fs →
        ConsistentDefaults (cores fs) → ∀ kw, RootKw fs kw → ∀ n o v, eval r kw n o = .ok v → ∃ m, eval fs kw m o = .ok v) := by
  unfold nestFuncs at h
  split at h
  · cases h
  · simp only [] at h
    split at h
    · cases h
    · next N hN =>
      split at h
      · injection h with h
        subst h
        have hIs := mkNest_isNest _ out N hN
        refine ⟨N, rfl, hIs, ?_⟩
        intro hret hu hc kw hK n o v hv
        refine eval_nests fs (fun f => sel.any fun o => f.core.outputs.contains o) [N] kw ?_ hu hc hK
          (retainsAll_spec _ _ _ hret) n o v hv
        intro N' hN'
        have : N' = N := by simpa using hN'
        subst this
        exact ⟨_, fun _ _ h => h, hIs⟩
      · cases h

/-- **simplified_pipeline** (soundness half): when it accepts, the result is the functions outside the groups of
    `_identify_combinable_nodes/_combine_nodes` followed by one `NestedPipeFunc` per group — the groups may even overlap
    (a shared dependency is then nested twice) — and, if the nested functions together retain every grouped output that is
    consumed outside its group (`retainsAll`: what `_output_name` is meant to guarantee; the driver evaluates this check on
    EVERY generated case and the harness reports a case where it fails), then for root keywords whatever the simplified
    pipeline returns for any of its outputs is what the original returns.
    Missing: that `_output_name` always establishes `retainsAll` (checked per case), and totality as for `C10_nest_partial`. -/
theorem C10_simplify_partial (o : String) (c : Bool) (fs r : List RFunc) (h : simplify o c fs = .ok r) :
    ∃ (plan : List (List RFunc × List String)) (Ns : List RFunc), simplifyPlan o c fs = .ok plan ∧
      r = fs.filter (fun f => !((plan.map (·.1)).flatten.any (sameF f))) ++ Ns ∧
      (retainsAll fs (fun f => (plan.map (·.1)).flatten.any (sameF f)) Ns = true → UniqueOutR fs → ConsistentDefaults (cores fs) →
        ∀ kw, RootKw fs kw → ∀ n o' v, eval r kw n o' = .ok v → ∃ m, eval fs kw m o' = .ok v) := by
  unfold simplify at h
  split at h
  · cases h
  · next plan hplan =>
    split at h
    · cases h
    · next Ns hNs =>
      split at h
      · cases h
      · split at h
        · injection h with h
          subst h
          refine ⟨plan, Ns, hplan, rfl, ?_⟩
          intro hret hu hc kw hK n o' v hv
          refine eval_nests fs _ Ns kw ?_ hu hc hK (retainsAll_spec _ _ _ hret) n o' v hv
          intro N hN
          obtain ⟨e, he, hm⟩ := buildNests_mem _ Ns hNs N hN
          obtain ⟨e0, he0, rfl⟩ := List.mem_map.mp he
          obtain ⟨g, outs⟩ := e0
          refine ⟨fun f => g.any (sameF f), ?_, mkNest_isNest _ _ N hm⟩
          intro f _ hsel
          obtain ⟨x, hx, hfx⟩ := List.any_eq_true.mp hsel
          exact List.any_eq_true.mpr ⟨x, List.mem_flatten.mpr ⟨g, List.mem_map.mpr ⟨(g, outs), he0, rfl⟩, hx⟩, hfx⟩
        · cases h

/-- values are unique: two evaluations of the same output (any fuel) that both return agree — so the soundness halves
    above determine the value -/
theorem C10_deterministic (fs : List RFunc) (kw : List (String × Val)) (k k' : Nat) (o : String) (v v' : Val)
    (h : eval fs kw k o = .ok v) (h' : eval fs kw k' o = .ok v') : v = v' := eval_det fs kw h h'

/-- **Operations bind a new name and leave every other binding unchanged** (the environment semantics of the
    histories; aliasing in the real objects shows up as a disagreement on a later evaluation of the other name). -/
theorem C10_env (env : Env) (d n : String) (fs : List RFunc) (hne : n ≠ d) : envGet (envSet env d fs) n = envGet env n := by
  have h1 : decide (d = n) = false := decide_eq_false (fun x => hne (Eq.symm x))
  have aux : ∀ es : Env, (es.map fun kv => if kv.1 = d then (d, fs) else kv).find? (fun x => decide (x.1 = n)) =
      es.find? (fun x => decide (x.1 = n)) := by
    intro es
    induction es with
    | nil => rfl
    | cons e es ih =>
      by_cases he : e.1 = d
      · have h2 : decide (e.1 = n) = false := by rw [he]; exact h1
        simp only [List.map_cons, if_pos he, List.find?_cons, h1, h2]
        exact ih
      · by_cases hn : e.1 = n
        · have hn' : decide (e.1 = n) = true := decide_eq_true hn
          simp only [List.map_cons, if_neg he, List.find?_cons, hn']
        · have hn' : decide (e.1 = n) = false := decide_eq_false hn
          simp only [List.map_cons, if_neg he, List.find?_cons, hn']
          exact ih
  unfold envSet envGet
  split
  · rw [aux]
  · rw [List.find?_append]
    cases List.find? (fun x => decide (x.1 = n)) env with
    | some v => rfl
    | none => simp [List.find?_cons, h1]

/-! ### non-vacuity -/

def g0 : Func := ⟨"f0", [("r0", "a")], ["o0"], [], []⟩
def g1 : Func := ⟨"f1", [("o0", "x"), ("r1", "r1")], ["o1a", "o1b"], [("r1", .int 7)], []⟩
def g2 : Func := ⟨"f2", [("o1b", "o1b"), ("r2", "r2")], ["o2"], [], [("r2", .int 9)]⟩
def P3 : List RFunc := [g0, g1, g2].map embed

def headName : Except Err Val → String
  | .ok (.app f _) => f
  | .ok (.pick (.app f _) o) => f ++ "." ++ o
  | .ok _ => "?"
  | .error _ => "error"

/-- nesting a tuple-output leaf with a bound parameter in the group, then renaming an output of the nest and scoping:
    the pipeline still evaluates (the defects DF-27, DF-28 and the renamed-nest defect on the model) -/
example : ((nestFuncs ["o1a", "o2"] none P3).toOption.map fun r => headName (eval r [("r0", .int 1)] 5 "o1b")) = some "f1.o1b" := by decide
example : ((nestFuncs ["o1a", "o2"] none P3).toOption.map fun r => (r.map fun f => f.core.params.map (·.1))) =
    some [["r0"], ["o0", "r1"]] := by decide
example : ((nestFuncs ["o1a", "o2"] none P3).toOption.bind fun r => (updateRenames [("o1b", "X"), ("r0", "R")] r).toOption.map fun r' =>
    headName (eval r' [("R", .int 1)] 5 "X")) = some "f1.o1b" := by decide
example : ((splitComponent "o0" ([g0, ⟨"h", [("z", "z")], ["w"], [], []⟩].map embed)).toOption.map (·.length)) = some 1 := by decide
/-- a capture-free renaming is injective on the names in use -/
example : ∀ a ∈ ["r0", "r1", "r2", "o0", "o1a", "o1b", "o2"], ∀ b ∈ ["r0", "r1", "r2", "o0", "o1a", "o1b", "o2"],
    rhoOf [("r0", "R"), ("o1a", "X")] a = rhoOf [("r0", "R"), ("o1a", "X")] b → a = b := by decide

end PF.C10
