import PfModel.Lemmas.TypingXEmb
import PfModel.Lemmas.TypingXSub
/-!
C16, conservativity of the extended annotation language (`Model/TypingX.lean`) over the language of the code's original model
(`Model/Typing.lean`): on embedded annotations `compatX` IS `compat`, for every pair, with no size bound and no well-formedness
hypothesis.  Until now the driver compared the two functions on every generated pair (`typing.compat` answers `bad` when they
differ); with `C16_bridge` every theorem about `compatX` / `XSub` specialises to the old language, and the comparison in the driver
is a check of the translation only.  `compat` / `compatX` carry no fuel or memo argument (well-founded recursion on
`sizeOf a + sizeOf b`), so there are no fuel variants; the three list helpers have their own statements.
-/
namespace PF.C16
open PF.Typing

/-- the bridge: `compatX ∘ emb = compat` -/
theorem C16_bridge (a b : Ty) : compatX a.emb b.emb = compat a b := compatX_emb a b

example : compatX (Ty.gen .list [.base .bool]).emb (Ty.union [.gen .list [.base .int], .base .str]).emb = true := by
  rw [C16_bridge]
  exact sub_compat (Sub.union_r (b := .gen .list [.base .int]) (by simp)
    (Sub.gen rfl (by intro p hp; simp at hp; subst hp; exact Sub.base rfl)))

/-- the helper of a union source / constrained TypeVar (`all(...)`) -/
theorem C16_bridge_all (as : List Ty) (b : Ty) : compatAllX (embL as) b.emb = compatAll as b := compatAllX_emb as b

/-- the helper of a union target / the constraints (`any(...)`) -/
theorem C16_bridge_any (a : Ty) (bs : List Ty) : compatAnyX a.emb (embL bs) = compatAny a bs := compatAnyX_emb a bs

/-- the pairwise helper of generic arguments (`zip`) -/
theorem C16_bridge_zip (as bs : List Ty) : compatZipX (embL as) (embL bs) = compatZip as bs := compatZipX_emb as bs

/-- the two declarative relations agree on the old language: the four new rules of `XSub` (and its 19 old rules applied to
    extended intermediate annotations) derive nothing new between embedded annotations -/
theorem C16_bridge_sub (a b : Ty) : XSub a.emb b.emb ↔ Sub a b := by
  constructor
  · intro h; exact compat_sub a b (by rw [← C16_bridge]; exact xsub_compatX h)
  · intro h; exact compatX_sub _ _ (by rw [C16_bridge]; exact sub_compat h)

example : XSub (Ty.array (.base .clsB)).emb (Ty.annot (.array (.base .clsA))).emb :=
  (C16_bridge_sub _ _).mpr (Sub.annot_r (Sub.array (Sub.base rfl)))

/-- the glue used for pipelines over extended annotations ("edge ok iff `compatX (wrapped out) inp`", `c16_x.check_xpipes`) is
    `edgeOk` on every edge of the old language -/
theorem C16_bridge_edge (e : Edge) :
    (mapspecIsGenerated e || withInternalShape e || compatX (wrapOut e).emb e.inp.emb) = edgeOk e := by
  rw [C16_bridge, edgeOk]

/-- and so is the verdict of the constructor -/
theorem C16_bridge_construct (v : Bool) (es : List Edge) :
    (if v then (if es.all (fun e => mapspecIsGenerated e || withInternalShape e || compatX (wrapOut e).emb e.inp.emb)
        then Outcome.ok else .typeError) else .ok) = construct v es := by
  simp only [C16_bridge_edge]
  rfl

/-- the embedding loses nothing: different old annotations stay different -/
theorem C16_bridge_emb_injective (a b : Ty) (h : a.emb = b.emb) : a = b := emb_inj a b h

example : (Ty.union [.base .int, .noann]).emb = (Ty.union [.base .int, .noann]).emb := rfl

/-- well-formedness (what the `typing` constructors can return) is the same predicate on both sides -/
theorem C16_bridge_wf (a : Ty) : a.emb.wf = a.wf := emb_wf a

/-- the image of the embedding is exactly the extended annotations with no `Literal` and no `tuple[T, ...]` inside -/
theorem C16_bridge_image (x : XTy) : x.old = true ↔ ∃ a : Ty, a.emb = x :=
  ⟨old_emb x, fun ⟨a, h⟩ => h ▸ emb_old a⟩

/-- specialisation in the other direction: on any two extended annotations without the new constructors `compatX` is `compat` of
    their (unique) preimages -/
theorem C16_bridge_old (x y : XTy) (hx : x.old = true) (hy : y.old = true) :
    ∃ a b : Ty, a.emb = x ∧ b.emb = y ∧ compatX x y = compat a b ∧ (XSub x y ↔ Sub a b) := by
  obtain ⟨a, rfl⟩ := old_emb x hx
  obtain ⟨b, rfl⟩ := old_emb y hy
  exact ⟨a, b, rfl, rfl, C16_bridge a b, C16_bridge_sub a b⟩

example : ∃ x y : XTy, x.old = true ∧ y.old = true ∧ compatX x y = true ∧ x ≠ y :=
  ⟨.gen .tuple [.base .bool, .base .clsB], .gen .tuple [.base .int, .base .clsA], by decide, by decide,
    (C16_bridge (.gen .tuple [.base .bool, .base .clsB]) (.gen .tuple [.base .int, .base .clsA])).trans
      (sub_compat (Sub.gen rfl (by intro p hp; simp at hp; rcases hp with rfl | rfl <;> exact Sub.base rfl))),
    by intro h; injection h with _ h; injection h with h _; injection h with h; cases h⟩

/-- closed witnesses that the hypothesis of `C16_bridge_old` is needed: the new constructors are outside the image -/
theorem C16_bridge_new_outside (vs : List LitV) (t : XTy) :
    (¬ ∃ a : Ty, a.emb = .lit vs) ∧ (¬ ∃ a : Ty, a.emb = .vtuple t) := by
  constructor
  · intro h; have := (C16_bridge_image _).mpr h; simp [XTy.old] at this
  · intro h; have := (C16_bridge_image _).mpr h; simp [XTy.old] at this

end PF.C16
