/-
The pool runner (`Pipeline.map(..., parallel=True, executor=…)`) when a USER CALL RAISES.

In a pool every missing element of every function of the generation has been submitted before the parent looks at the first
result (`_submit_generation`, `pipefunc/map/_run.py:938-954`; one future per element: `_maybe_parallel_map`, `:684-700`), so the
raising call does not stop the others: the bodies submitted next to it still run — the user call and, for file arrays, the
element dumps (`_run_iteration_and_process`, `:478-537`) — and a LATER element is stored while an earlier one failed.  The
stored set the run leaves is then not a prefix of the elements.  The parent (`_process_generation`, `:878-885`) processes the
functions of the generation in order: the single outputs of the functions BEFORE the one whose task failed are dumped, then
`Future.result()` re-raises (`_result`, `:971-972`), nothing of the later generations is submitted and the memory storages are
not persisted (`run_map`, `:148-164`: `_maybe_persist_memory` is not reached).

`runOnPF cfg sched fsched` is that run: the plan of every generation is the sequential one WITHOUT a raising call
(`{cfg with failAt := none}`); generations before the failing one are scheduled by `sched` as in `runOnP`; in the generation
that holds the call with global submission index `cfg.failAt = some j` the body `j` is cut down to its user call
(`truncAt`), the parent's events are cut down to those of the functions before the failing one, and `fsched` says which of
the bodies ran and in which order (a thread pool that is shut down with `cancel_futures=True` may drop bodies that had not
started; the permuting executor of the harness and `ThreadPoolExecutor.__exit__` run them all).
-/
import PfModel.Model.ResumePar
namespace PF.ResumeFS
open PF PF.Map

/-- body number `n` is cut down to its first event (the user call that raises); the other bodies are untouched -/
def truncAt : List (List Ev) → Nat → List (List Ev)
  | [], _ => []
  | b :: bs, 0 => b.take 1 :: bs
  | b :: bs, n + 1 => b :: truncAt bs n

/-- the function a task body belongs to (its first event is the user call) -/
def bodyFn : List Ev → String
  | .call fn _ _ :: _ => fn
  | _ => ""

/-- the generation loop of the pool runner when the user call with global submission index `j` raises; `step0` is the step
    function of the configuration without a raising call -/
def runGensPF (step0 : Env → FS → Nat → MFunc → FOut) (sched fsched : Sched) (j : Nat) :
    Nat → List (List MFunc) → Env → FS → Nat → LOut
  | _, [], env, _, _ => ⟨[], [], .ok ([], env)⟩
  | g, gen :: rest, env, fs, nc =>
    let G := runGenR step0 env fs nc gen
    match G.res with
    | .error e => ⟨sched g (splitCalls G.subEvs) G.procEvs, G.calls, .error e⟩
    | .ok rs =>
      if nc ≤ j ∧ j < G.nc then
        -- the failing generation: every body was submitted; body `j - nc` raises after its call; the parent dumps the single
        -- outputs of the functions in front of the failing one, then re-raises
        let bodies := splitCalls G.subEvs
        let fn := bodyFn (bodies.getD (j - nc) [])
        let plen := (runGenR step0 env fs nc (gen.takeWhile (·.name != fn))).procEvs.length
        ⟨fsched g (truncAt bodies (j - nc)) (G.procEvs.take plen), G.calls, .error (.raised fn)⟩
      else
        let evs := sched g (splitCalls G.subEvs) G.procEvs
        let env' : Env := { env with store := env.store ++ rs.flatMap (·.slots) }
        let l := runGensPF step0 sched fsched j (g + 1) rest env' (applyAll fs evs) G.nc
        ⟨evs ++ l.evs, G.calls ++ l.calls, l.res.map fun (more, envF) => (rs ++ more, envF)⟩

/-- `Pipeline.map(inputs, run_folder=F, cleanup=False, parallel=True)` started on the folder state `fs` when the user call
    `cfg.failAt` raises (without a raising call: `runOnP`).  `calls` lists the calls of every SUBMITTED body (those a
    cancelling pool dropped included: a superset of the calls made). -/
def runOnPF (cfg : Cfg) (sched fsched : Sched) (fs : FS) (fsd : List MFunc) (inputs : List (String × Val)) (ui : List (String × List Nat)) : Run :=
  match cfg.failAt with
  | none => runOnP cfg sched fs fsd inputs ui
  | some j =>
    match preRun fsd inputs ui with
    | .error e => ⟨[], [], .error (.map e)⟩
    | .ok (shapes, masks) =>
      let c := compare cfg.legacy fs inputs
      match c.res with
      | .error e => ⟨c.evs, [], .error e⟩
      | .ok () =>
        let e1 := c.evs ++ dumpAllEvs cfg.legacy inputs
        let fs1 := applyAll fs e1
        let i := initStore cfg.legacy fs1 (storePlan cfg fsd)
        match i.res with
        | .error e => ⟨e1 ++ i.evs, [], .error e⟩
        | .ok mem =>
          let e2 := e1 ++ i.evs
          let fs2 := applyAll fs1 i.evs
          let l := runGensPF (stepFunc { cfg with failAt := none } fsd shapes masks mem) sched fsched j 0 (generations fsd)
            { inputs := inputs, store := [] } fs2 0
          match l.res with
          | .error e => ⟨e2 ++ l.evs, l.calls, .error e⟩
          | .ok (rs, envF) =>
            ⟨e2 ++ l.evs ++ persistEvs cfg.legacy envF.store (storePlan cfg fsd), l.calls,
             .ok { outputs := rs.flatMap (·.outputs), calls := l.calls }⟩

/-- which of the submitted bodies ran, in which order: every body that happened is one of the submitted ones (whole, or the
    raising one cut down to its call), the parent's events follow -/
def SubSched (fsched : Sched) : Prop := ∀ g bs pe, ∃ bs' : List (List Ev), (∀ b ∈ bs', b ∈ bs) ∧ fsched g bs pe = bs'.flatten ++ pe

/-- a failing-generation scheduler given as data: the bodies `order` (indices into the submitted bodies; out-of-range indices
    are ignored) ran, in that order -/
def pickSched (orders : List (List Nat)) : Sched := fun g bs pe =>
  match orders[g]? with
  | some o => (o.filterMap (bs[·]?)).flatten ++ pe
  | none => bs.flatten ++ pe

end PF.ResumeFS
