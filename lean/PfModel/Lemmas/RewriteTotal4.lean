import PfModel.Lemmas.RewriteTotal3
/-! `simplified_pipeline`: every member of every group of the plan is a function of the pipeline (membership invariant of
`identify`, `combineNodes`, `sortF`), and the shape of the plan. -/
namespace PF.Rw
open PF PF.Pipe

/-- all heads and all dependencies of the groups are functions of the pipeline -/
def GInv (fs : List RFunc) (acc : Groups) : Prop := ∀ kv ∈ acc, kv.1 ∈ fs ∧ ∀ x ∈ kv.2, x ∈ fs

theorem foldl_addIf_mem (t : List RFunc → RFunc → Bool) (P : RFunc → Prop) : ∀ (l acc : List RFunc),
    (∀ x ∈ l, P x) → (∀ x ∈ acc, P x) → ∀ x ∈ l.foldl (fun acc g => if t acc g then acc else acc ++ [g]) acc, P x := by
  intro l
  induction l with
  | nil => intro acc _ h x hx; exact h x hx
  | cons a as ih =>
    intro acc hl hacc
    simp only [List.foldl_cons]
    apply ih _ (fun x hx => hl x (List.mem_cons_of_mem _ hx))
    intro x hx
    split at hx
    · exact hacc x hx
    · rcases List.mem_append.mp hx with hx | hx
      · exact hacc x hx
      · have : x = a := by simpa using hx
        subst this
        exact hl x List.mem_cons_self

theorem predFuncs_mem (fs : List RFunc) (f : RFunc) : ∀ x ∈ predFuncs fs f, x ∈ fs := by
  unfold predFuncs
  apply foldl_addIf_mem (fun acc g => acc.any fun h => h.core.outputs = g.core.outputs) (fun x => x ∈ fs)
  · intro x hx
    obtain ⟨p, _, hp⟩ := List.mem_filterMap.mp hx
    exact (rproducer_mem fs p x hp).1
  · intro x hx; cases hx

theorem unionF_mem (fs a b : List RFunc) (ha : ∀ x ∈ a, x ∈ fs) (hb : ∀ x ∈ b, x ∈ fs) : ∀ x ∈ unionF a b, x ∈ fs := by
  unfold unionF
  exact foldl_addIf_mem (fun acc g => acc.any (sameF g)) (fun x => x ∈ fs) b a hb ha

theorem identify_go_inv (fs : List RFunc) (c : Bool) (fuel : Nat) (head : RFunc)
    (ih : ∀ nd acc acc', nd ∈ fs → GInv fs acc → identify fs c fuel nd acc = .ok acc' → GInv fs acc') :
    ∀ (ps : List RFunc) (acc : Groups) (funcs : List RFunc) (i : Nat) (acc' : Groups) (funcs' : List RFunc) (i' : Nat),
      (∀ nd ∈ ps, nd ∈ fs) → GInv fs acc → (∀ x ∈ funcs, x ∈ fs) →
      identify.go fs c fuel head ps acc funcs i = .ok (acc', funcs', i') → GInv fs acc' ∧ ∀ x ∈ funcs', x ∈ fs := by
  intro ps
  induction ps with
  | nil =>
    intro acc funcs i acc' funcs' i' _ hacc hf h
    rw [identify.go.eq_1] at h
    simp only [Except.ok.injEq, Prod.mk.injEq] at h
    obtain ⟨rfl, rfl, rfl⟩ := h
    exact ⟨hacc, hf⟩
  | cons nd rest ihps =>
    intro acc funcs i acc' funcs' i' hps hacc hf h
    rw [identify.go.eq_2] at h
    split at h
    · cases h
    · split at h
      · cases h
      · next acc1 h1 =>
        have hnd := hps nd List.mem_cons_self
        refine ihps acc1 _ _ acc' funcs' i' (fun x hx => hps x (List.mem_cons_of_mem _ hx)) (ih nd acc acc1 hnd hacc h1) ?_ h
        intro x hx
        split at hx
        · rcases List.mem_append.mp hx with hx | hx
          · exact hf x hx
          · have : x = nd := by simpa using hx
            subst this; exact hnd
        · exact hf x hx

theorem identify_inv (fs : List RFunc) (c : Bool) : ∀ (fuel : Nat) (head : RFunc) (acc acc' : Groups),
    head ∈ fs → GInv fs acc → identify fs c fuel head acc = .ok acc' → GInv fs acc' := by
  intro fuel
  induction fuel with
  | zero => intro head acc acc' _ _ h; rw [identify.eq_1] at h; cases h
  | succ fuel ih =>
    intro head acc acc' hhead hacc h
    rw [identify.eq_2] at h
    split at h
    · cases h
    · next acc1 funcs i hgo =>
      obtain ⟨hinv, hfuncs⟩ := identify_go_inv fs c fuel head ih (predFuncs fs head) acc [] 0 acc1 funcs i
        (predFuncs_mem fs head) hacc (fun x hx => by cases hx) hgo
      split at h
      · injection h with h
        subst h
        intro kv hkv
        rcases List.mem_append.mp hkv with hkv | hkv
        · exact hinv kv (List.mem_filter.mp hkv).1
        · have : kv = (head, funcs) := by simpa using hkv
          subst this
          exact ⟨hhead, hfuncs⟩
      · injection h with h
        subst h
        exact hinv

theorem combineNodes_inv (fs : List RFunc) (gs : Groups) (h : GInv fs gs) : GInv fs (combineNodes gs) := by
  unfold combineNodes
  suffices hgen : ∀ (l : List Nat) (d : Groups), GInv fs d → GInv fs (l.foldl (fun (d : Groups) _ =>
      match d with
      | [] => []
      | (node, deps) :: rest =>
        if rest.any (fun kv => kv.2.any (sameF node)) then
          rest.map fun kv => if kv.2.any (sameF node) then (kv.1, unionF kv.2 deps) else kv
        else rest ++ [(node, deps)]) d) from hgen _ gs h
  intro l
  induction l with
  | nil => intro d hd; exact hd
  | cons a as ih =>
    intro d hd
    simp only [List.foldl_cons]
    apply ih
    cases d with
    | nil => exact hd
    | cons e rest =>
      obtain ⟨node, deps⟩ := e
      have he := hd (node, deps) List.mem_cons_self
      have hrest : GInv fs rest := fun kv hkv => hd kv (List.mem_cons_of_mem _ hkv)
      simp only []
      split
      · intro kv hkv
        obtain ⟨kv0, hkv0, rfl⟩ := List.mem_map.mp hkv
        split
        · exact ⟨(hrest kv0 hkv0).1, unionF_mem fs _ _ (hrest kv0 hkv0).2 he.2⟩
        · exact hrest kv0 hkv0
      · intro kv hkv
        rcases List.mem_append.mp hkv with hkv | hkv
        · exact hrest kv hkv
        · have : kv = (node, deps) := by simpa using hkv
          subst this
          exact he

theorem mem_insertSortedF (x y : RFunc) (l : List RFunc) (h : y ∈ insertSortedF x l) : y = x ∨ y ∈ l := by
  induction l with
  | nil => simp [insertSortedF] at h; exact Or.inl h
  | cons a as ih =>
    simp only [insertSortedF] at h
    split at h
    · rcases List.mem_cons.mp h with h | h
      · exact Or.inl h
      · exact Or.inr h
    · rcases List.mem_cons.mp h with h | h
      · exact Or.inr (by rw [h]; exact List.mem_cons_self)
      · rcases ih h with h | h
        · exact Or.inl h
        · exact Or.inr (List.mem_cons_of_mem _ h)

theorem mem_sortF (l : List RFunc) (y : RFunc) (h : y ∈ sortF l) : y ∈ l := by
  unfold sortF at h
  suffices hgen : ∀ (l acc : List RFunc), y ∈ l.foldl (fun acc x => insertSortedF x acc) acc → y ∈ acc ∨ y ∈ l by
    rcases hgen l [] h with h | h
    · cases h
    · exact h
  intro l
  induction l with
  | nil => intro acc h; exact Or.inl h
  | cons a as ih =>
    intro acc h
    simp only [List.foldl_cons] at h
    rcases ih _ h with h | h
    · rcases mem_insertSortedF a y acc h with h | h
      · exact Or.inr (by rw [h]; exact List.mem_cons_self)
      · exact Or.inl h
    · exact Or.inr (List.mem_cons_of_mem _ h)

/-- the rest inputs `_output_name` sees: all parameter names of the functions outside the groups -/
def restInputsOf (fs : List RFunc) (groups : List (List RFunc)) : List String :=
  (fs.filter fun f => !(groups.flatten.any (sameF f))).flatMap fun f => f.core.params.map (·.1)

/-- **The plan of `simplified_pipeline`**: one entry per group with the outputs `_output_name` computes, and every member of
    every group is a function of the pipeline -/
theorem simplifyPlan_spec (o : String) (c : Bool) (fs : List RFunc) (plan : List (List RFunc × List String))
    (h : simplifyPlan o c fs = .ok plan) :
    ∃ groups : List (List RFunc), (∀ grp ∈ groups, ∀ x ∈ grp, x ∈ fs) ∧
      plan = (List.range groups.length).map fun i => (groups.getD i [], groupOutputs groups i (restInputsOf fs groups)) := by
  unfold simplifyPlan at h
  split at h
  · cases h
  · next head hhead =>
    have hheadfs := (rproducer_mem fs o head hhead).1
    split at h
    · cases h
    · cases h
    · next groups0 _ hid =>
      have hinv0 := identify_inv fs c _ head [] groups0 hheadfs (fun kv hkv => by cases hkv) hid
      have hinv := combineNodes_inv fs groups0 hinv0
      simp only [Except.ok.injEq] at h
      refine ⟨_, ?_, h.symm⟩
      intro grp hgrp x hx
      obtain ⟨k, hk, rfl⟩ := List.mem_map.mp hgrp
      have hk' := mem_sortF _ k hk
      obtain ⟨kv, hkv, rfl⟩ := List.mem_map.mp hk'
      rcases List.mem_cons.mp hx with rfl | hx
      · exact (hinv kv hkv).1
      · have hx' := mem_sortF _ x hx
        cases hf : (combineNodes groups0).find? (fun kv' => sameF kv'.1 kv.1) with
        | none => rw [hf] at hx'; simp at hx'
        | some kv1 =>
          rw [hf] at hx'
          simp only [Option.map_some, Option.getD_some] at hx'
          exact (hinv kv1 (List.mem_of_find?_eq_some hf)).2 x hx'

/-! ### `_output_name` establishes `retainsAll` -/

theorem retainsAll_of_spec (fs : List RFunc) (inG : RFunc → Bool) (Ns : List RFunc)
    (h : ∀ p, (∃ g ∈ fs, inG g = true ∧ p ∈ g.core.outputs) → Consumed fs inG Ns p → ∃ N ∈ Ns, p ∈ N.core.outputs) :
    retainsAll fs inG Ns = true := by
  unfold retainsAll
  rw [List.all_eq_true]
  intro p hp
  unfold allOutputs at hp
  obtain ⟨g, hg, hpg⟩ := List.mem_flatMap.mp hp
  obtain ⟨hgfs, hgi⟩ := List.mem_filter.mp hg
  have key : ∀ (C D : Bool), (C = true → D = true) → (!C || D) = true := by
    intro C D h; cases C <;> simp_all
  apply key
  intro hcnd
  have hcons : Consumed fs inG Ns p := by
    rcases Bool.or_eq_true_iff.mp hcnd with h1 | h1
    · obtain ⟨f, hf, hff⟩ := List.any_eq_true.mp h1
      simp only [Bool.and_eq_true, Bool.not_eq_true', List.contains_eq_mem, decide_eq_true_eq] at hff
      exact Or.inl ⟨f, hf, hff.1, hff.2⟩
    · obtain ⟨N, hN, hNN⟩ := List.any_eq_true.mp h1
      obtain ⟨q, hq, hqp⟩ := List.any_eq_true.mp hNN
      exact Or.inr ⟨N, hN, q, hq, by simpa using hqp⟩
  obtain ⟨N, hN, hpN⟩ := h p ⟨g, hgfs, hgi, hpg⟩ hcons
  exact List.any_eq_true.mpr ⟨N, hN, by simpa using hpN⟩

theorem mkNest_outputs (S : List RFunc) (outs : List String) (N : RFunc) (h : mkNest S (some outs) = .ok N) :
    N.core.outputs = outs := by
  unfold mkNest at h
  split at h
  · cases h
  · split at h
    · cases h
    · split at h
      · simp only [] at h
        split at h
        · cases h
        · simp only [Except.ok.injEq] at h
          subst h
          rfl
      · cases h

theorem sameF_eq (fs : List RFunc) (hu : UniqueOutR fs) (hne : ∀ g ∈ fs, g.core.outputs ≠ []) (f x : RFunc) (hf : f ∈ fs)
    (hx : x ∈ fs) (h : sameF f x = true) : f = x := by
  have he : f.core.outputs = x.core.outputs := by simpa [sameF] using h
  cases ho : f.core.outputs with
  | nil => exact absurd ho (hne f hf)
  | cons o os =>
    exact hu f hf x hx o (by rw [ho]; exact List.mem_cons_self) (by rw [← he, ho]; exact List.mem_cons_self)

theorem map_getD_range (groups : List (List RFunc)) : (List.range groups.length).map (fun i => groups.getD i []) = groups := by
  apply List.ext_getElem
  · simp
  · intro i h1 h2
    simp at h1
    simp [List.getD, h1]

/-- **`simplified_pipeline` retains every grouped output that is consumed outside its group** -/
theorem retainsAll_plan (fs : List RFunc) (hu : UniqueOutR fs) (hne : ∀ g ∈ fs, g.core.outputs ≠ [])
    (groups : List (List RFunc)) (hM : ∀ grp ∈ groups, ∀ x ∈ grp, x ∈ fs)
    (plan : List (List RFunc × List String))
    (hplan : plan = (List.range groups.length).map fun i => (groups.getD i [], groupOutputs groups i (restInputsOf fs groups)))
    (Ns : List RFunc)
    (hNs : buildNests (plan.map fun (g, outs) => (fs.filter (fun f => g.any (sameF f)), outs)) = .ok Ns) :
    retainsAll fs (fun f => (plan.map (·.1)).flatten.any (sameF f)) Ns = true := by
  have hfst : plan.map (·.1) = groups := by
    rw [hplan, List.map_map]
    exact map_getD_range groups
  have hentry : ∀ i, i < groups.length → (groups.getD i [], groupOutputs groups i (restInputsOf fs groups)) ∈ plan := by
    intro i hi
    rw [hplan]
    exact List.mem_map.mpr ⟨i, List.mem_range.mpr hi, rfl⟩
  have hgetD : ∀ i (hi : i < groups.length), groups.getD i [] = groups[i] := by
    intro i hi; simp [List.getD, hi]
  have hMi : ∀ i, i < groups.length → ∀ x ∈ groups.getD i [], x ∈ fs := by
    intro i hi x hx
    rw [hgetD i hi] at hx
    exact hM _ (List.getElem_mem hi) x hx
  apply retainsAll_of_spec
  intro p ⟨g, hg, hgi, hpg⟩ hcons
  simp only [hfst] at hgi
  obtain ⟨x, hx, hgx⟩ := List.any_eq_true.mp hgi
  obtain ⟨grp, hgrp, hxg⟩ := List.mem_flatten.mp hx
  obtain ⟨i, hi, rfl⟩ := List.getElem_of_mem hgrp
  have hxi : x ∈ groups.getD i [] := by rw [hgetD i hi]; exact hxg
  have hxfs := hMi i hi x hxi
  have : g = x := sameF_eq fs hu hne g x hg hxfs hgx
  subst this
  -- the nest of group `i`
  obtain ⟨Ni, hNi, hmk⟩ := buildNests_mem_conv _ Ns hNs
    (fs.filter (fun f => (groups.getD i []).any (sameF f)), groupOutputs groups i (restInputsOf fs groups))
    (List.mem_map.mpr ⟨_, hentry i hi, rfl⟩)
  refine ⟨Ni, hNi, ?_⟩
  rw [mkNest_outputs _ _ Ni hmk]
  unfold groupOutputs
  rw [mem_sortDedup]
  refine List.mem_append_right _ (List.mem_filter.mpr ⟨?_, ?_⟩)
  · unfold allOutputs
    exact List.mem_flatMap.mpr ⟨g, hxi, hpg⟩
  · simp only [List.contains_eq_mem, decide_eq_true_eq]
    rcases hcons with ⟨f, hf, hfi, hpf⟩ | ⟨N, hN, q, hq, hqp⟩
    · -- consumed by a function outside the groups
      apply List.mem_append_right
      unfold restInputsOf
      simp only [hfst] at hfi
      obtain ⟨q, hq, hqp, _⟩ := freeParams_mem f p hpf
      exact List.mem_flatMap.mpr ⟨f, List.mem_filter.mpr ⟨hf, by simp [hfi]⟩, List.mem_map.mpr ⟨q, hq, hqp⟩⟩
    · -- consumed by another nest
      apply List.mem_append_left
      obtain ⟨e, he, hmkN⟩ := buildNests_mem _ Ns hNs N hN
      obtain ⟨e0, he0, rfl⟩ := List.mem_map.mp he
      rw [hplan] at he0
      obtain ⟨j, hj, rfl⟩ := List.mem_map.mp he0
      have hj' : j < groups.length := List.mem_range.mp hj
      simp only [] at hmkN
      have hIs := mkNest_isNest _ _ N hmkN
      rw [hIs.params] at hq
      obtain ⟨p', hp', rfl⟩ := List.mem_map.mp hq
      simp only [] at hqp
      subst hqp
      obtain ⟨⟨h, hh, hph⟩, hnot⟩ := (mem_nestParams _ _).mp hp'
      have hji : j ≠ i := by
        intro e
        subst e
        exact hnot ⟨g, List.mem_filter.mpr ⟨hg, List.any_eq_true.mpr ⟨g, hxi, by simp [sameF]⟩⟩, hpg⟩
      obtain ⟨hhfs, hhany⟩ := List.mem_filter.mp hh
      obtain ⟨y, hy, hhy⟩ := List.any_eq_true.mp hhany
      have : h = y := sameF_eq fs hu hne h y hhfs (hMi j hj' y hy) hhy
      subst this
      obtain ⟨q, hq, hqp, _⟩ := freeParams_mem h p' hph
      refine List.mem_flatMap.mpr ⟨j, hj, ?_⟩
      simp only [hji, ↓reduceIte]
      exact List.mem_flatMap.mpr ⟨h, hy, List.mem_map.mpr ⟨q, hq, hqp⟩⟩

/-- `simplify` accepted: the nested functions retain every grouped output consumed outside its group -/
theorem retainsAll_simplify (o : String) (c : Bool) (fs : List RFunc) (hu : UniqueOutR fs) (hne : ∀ g ∈ fs, g.core.outputs ≠ [])
    (plan : List (List RFunc × List String)) (hplan : simplifyPlan o c fs = .ok plan) (Ns : List RFunc)
    (hNs : buildNests (plan.map fun (g, outs) => (fs.filter (fun f => g.any (sameF f)), outs)) = .ok Ns) :
    retainsAll fs (fun f => (plan.map (·.1)).flatten.any (sameF f)) Ns = true := by
  obtain ⟨groups, hM, hp⟩ := simplifyPlan_spec o c fs plan hplan
  exact retainsAll_plan fs hu hne groups hM plan hp Ns hNs

theorem mkNest_outputs_none (S : List RFunc) (N : RFunc) (h : mkNest S none = .ok N) :
    N.core.outputs = sortDedup (allOutputs S) := by
  unfold mkNest at h
  split at h
  · cases h
  · split at h
    · cases h
    · split at h
      · simp only [] at h
        split at h
        · cases h
        · simp only [Except.ok.injEq] at h
          subst h
          rfl
      · cases h

/-- a nest that exposes all inner outputs (`new_output_name=None`) retains everything -/
theorem retainsAll_nest_none (fs : List RFunc) (inG : RFunc → Bool) (N : RFunc) (h : mkNest (fs.filter inG) none = .ok N) :
    retainsAll fs inG [N] = true := by
  apply retainsAll_of_spec
  intro p ⟨g, hg, hgi, hpg⟩ _
  refine ⟨N, by simp, ?_⟩
  rw [mkNest_outputs_none _ N h, mem_sortDedup]
  unfold allOutputs
  exact List.mem_flatMap.mpr ⟨g, List.mem_filter.mpr ⟨hg, hgi⟩, hpg⟩

end PF.Rw
