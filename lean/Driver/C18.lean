import PfModel.DriverVal
import PfModel.Model.Lazy
import PfModel.Model.PipeCache
import PfModel.Lemmas.LazySimRun
import PfModel.DriverC18Refuse
import PfModel.DriverC18Cont
import PfModel.DriverC18Multi
import PfModel.DriverC18Fault
/-! Driver for C18 (`lazy.run`): a session of lazy calls, `evaluate()`s and `construct_dag()` blocks on one pipeline. -/
open Lean PF PF.Drv PF.Pipe PF.Lazy

/-- `{"name": "f", "params": [["p", "orig"], …], "outputs": ["a", "b"], "defaults": [["p", v]], "bound": [["p", v]]}` -/
def getFunc (j : Json) : R Func := do
  return { name := ← strF j "name", params := ← listF (asPair asStr asStr) j "params", outputs := ← listF asStr j "outputs",
           defaults := (← optF getKw j "defaults").getD [], bound := (← optF getKw j "bound").getD [] }

def putErr : Err → Json
  | .fuel => jObj [("err", jStr "RecursionError")]
  | .missing _ => jObj [("err", jStr "ValueError")]
  | .noFunc _ => jObj [("err", jStr "KeyError")]
  | .unused ps => jObj [("err", jStr "UnusedParametersError"), ("unused", jList jStr ps)]
  | .outputInKwargs => jObj [("err", jStr "ValueError")]
  | .mapspec => jObj [("err", jStr "RuntimeError")]

def putEErr : EErr → Json
  | .fuel => jObj [("err", jStr "RecursionError")]
  | .dangling _ => jObj [("err", jStr "KeyError")]
  | .notTuple => jObj [("err", jStr "TypeError")]

def getReq (j : Json) : R Req := do
  match j with
  | .str s => return .name s
  | _ => return .whole (← asList asStr j)

def putLArg : LArg → Json
  | .val v => jObj [("val", putVal v)]
  | .ref i => jObj [("ref", jNat i)]

def putNode : Lazy.Node → Json
  | .call f args => jObj [("kind", jStr "call"), ("f", jStr f.name), ("args", jList (fun (_, a) => putLArg a) args)]
  | .pick f src name => jObj [("kind", jStr "pick"), ("f", jStr f.name), ("args", jArr [putLArg src, jObj [("val", putVal (.str name))]])]

def putGraph (g : TG) : Json :=
  jObj [("nodes", jList jNat g.gnodes), ("edges", jList (fun (a, b) => jArr [jNat a, jNat b]) g.edges),
        ("cache", jNat g.cache.length)]

/-- one step of a session; `handles` are the objects the calls returned so far, each with the segment of the node table its request
    created (`C18_calls_eq_eager_later` speaks about the invoked nodes of that segment) -/
def step (fs : List Func) (s : LSt) (handles : List (Option (LArg × Nat × Nat))) (op : Json) :
    R (Json × LSt × List (Option (LArg × Nat × Nat))) := do
  match ← strF op "op" with
  | "enter" => return (jObj [("ok", jBool true)], enterDag s, handles)
  | "exit" =>
    match s.tg with
    | none => .error "exit without enter"
    | some g => return (putGraph g, exitDag s, handles)
  | "call" =>
    let kw ← getKw (← fld op "kw")
    let req ← getReq (← fld op "out")
    match lrunTop fs kw req s with
    | .error e => return (putErr e, s, handles ++ [none])
    | .ok (a, s1) =>
      -- the specification, evaluated alongside: the value the returned object stands for must be the eager composition
      let spec : Json := match req with
        | .name n => match compose fs kw (fuelFor fs) n with | .ok v => putVal v | .error _ => Json.null
        | .whole _ => Json.null
      let eager : Json := match runTop fs kw req with | .ok o => jObj [("value", putVal o.value), ("calls", jList jStr o.calls)] | .error e => putErr e
      -- `fresh`: the hypothesis `entries s = []` of `C18_calls_eq_eager` (the request can find nothing in a cache)
      return (jObj [("ret", putLArg a), ("den", jOpt putVal (den s1.nodes a)), ("spec", spec), ("eager", eager),
                    ("log", jList jStr (callNames s1.nodes s1.ev.log)), ("fresh", jBool (entries s).isEmpty),
                    ("seg", jArr [jNat s.nodes.length, jNat s1.nodes.length]),
                    ("created", jList jStr (cnames (s1.nodes.drop s.nodes.length)))], s1, handles ++ [some (a, s.nodes.length, s1.nodes.length)])
  | "eval" =>
    let h ← natF op "h"
    match handles[h]? with
    | some (some (a, lo, hi)) =>
      match evaluate a s with
      | .error e => return (putEErr e, s, handles)
      | .ok (v, s1) =>
        return (jObj [("value", putVal v), ("log", jList jStr (callNames s1.nodes s1.ev.log)),
                      ("new", jList jStr (callNames s1.nodes (s1.ev.log.drop s.ev.log.length))),
                      ("seg_invoked", jList jStr (callNames s1.nodes (s1.ev.log.filter fun i => lo ≤ i && i < hi)))], s1, handles)
    | _ => .error s!"eval of handle {h}: no such object"
  | o => .error s!"unknown op {o}"

def session (fs : List Func) : List Json → LSt → List (Option (LArg × Nat × Nat)) → List Json → R (List Json × LSt)
  | [], s, _, acc => .ok (acc.reverse, s)
  | op :: ops, s, hs, acc => do
    let (r, s1, hs1) ← step fs s hs op
    session fs ops s1 hs1 (r :: acc)

def handle (m : String) (a : Json) : R Json := do
  match m with
  | "session" =>
    let fs ← listF getFunc a "funcs"
    let ops ← asArr (← fld a "ops")
    -- the lazy pipeline's own cache: `"own": true` (it has one) and the output names of the `cache=True` functions
    let own := (← optF asBool a "own").getD false
    let cfn := (← optF (asList (asList asStr)) a "cached").getD []
    let s0 : LSt := { memo := [], used := [], usedNone := false, nodes := [], tg := none, ev := ⟨[], []⟩,
                      own := if own then some [] else none, cfn := cfn }
    let (rs, s) ← session fs ops s0 [] []
    -- the hypotheses of the theorems (`PF.PipeCache.WF`), evaluated on this pipeline, and the agreement of the two root-set models
    let wf := PipeCache.rankedB fs && PipeCache.uniqueOutB fs && PipeCache.consistentDefaultsB PipeCache.encVal fs
    return jObj [("ops", jArr rs), ("table", jList putNode s.nodes), ("wf", jBool wf), ("roots_ok", jBool (PipeCache.rootsAgreeB fs)),
                 ("own", jOpt (fun c => jNat c.length) s.own)]
  | "rsession" => PF.DrvC18Refuse.handle a
  | "csession" => PF.DrvC18Cont.handle a
  | "msession" => PF.DrvC18Multi.handle a
  | "fsession" => PF.DrvC18Fault.handle a
  | _ => .error s!"unknown entry {m}"

def main : IO Unit := loop handle
