"""`./check CXX [--tier quick|thorough] [--replay FILE]` — see framework.py for the flow."""
from __future__ import annotations

import argparse
import importlib
import json
import os
import subprocess
import sys
import traceback
from pathlib import Path

sys.path.insert(0, str(Path(__file__).resolve().parent))
import framework as fw  # noqa: E402


def main() -> int:
    ap = argparse.ArgumentParser()
    ap.add_argument("pid")
    ap.add_argument("--tier", default=os.environ.get("VERIF_TIER", "quick"), choices=["quick", "thorough"])
    ap.add_argument("--replay")
    ap.add_argument("--no-build", action="store_true")
    ap.add_argument("--translate", action="store_true", help="only regenerate the Lean facts this property extracts from /repo's source")
    a = ap.parse_args()
    seed = int(os.environ.get("VERIF_SEED", "0"))
    pid = a.pid.upper()
    os.environ["VERIF_PID"] = pid
    try:
        mod = importlib.import_module(f"props.{pid.lower()}")
    except ModuleNotFoundError as e:
        print(f"no check for {pid}: {e}", file=sys.stderr)
        return 2
    ctx = fw.Ctx(pid, a.tier, seed)
    try:
        if a.replay:
            case = json.loads(Path(a.replay).read_text())
            mod.replay(ctx, case.get("case", case))
            return 0
        if hasattr(mod, "pre_build"):
            mod.pre_build(ctx)           # translator: regenerate Lean facts from /repo's source
        if a.translate:
            return 0
        props = list(mod.PROPS)
        build_ok, log = (True, "") if a.no_build else fw.lake_build(props + list(getattr(mod, "EXTRA_BUILD", [])))
        broken_mods = []
        if not build_ok:
            if not getattr(mod, "GENERATED", False):
                # nothing in a hand-written model depends on /repo: a failing build is our own breakage
                print(log[-3000:], file=sys.stderr)
                raise fw.Infra("lake build failed for a hand-written model")
            # a module regenerated from /repo's source no longer checks: build the property modules one by one, audit the
            # ones that still build, and carry the broken ones as undischarged obligations
            for m in props:
                ok1, log1 = fw.lake_build([m])
                if not ok1:
                    broken_mods.append(m)
                    log = log1
        good = [m for m in props if m not in broken_mods]
        aud = fw.audit(good) if good else {"theorems": [], "obligations": 0, "discharged": 0, "failed": [], "axioms_used": [], "closure": [], "raw": ""}
        for m in broken_mods:
            names = fw.theorems_of(m)
            aud["theorems"] += names
            aud["obligations"] += max(1, len(names))
            aud["failed"].append(f"{m} no longer builds against the facts regenerated from the source ({', '.join(names)})")
        if a.tier == "thorough" and build_ok and not os.environ.get("VERIF_NO_LEANCHECKER"):
            p = subprocess.run(["lake", "env", "leanchecker", *good], cwd=fw.LEAN, capture_output=True, text=True, timeout=3000)
            ctx.extra["leanchecker"] = "ok" if p.returncode == 0 else (p.stdout + p.stderr)[-500:]
            if p.returncode != 0:
                aud["failed"].append("leanchecker rejected the compiled modules")
        mod.run(ctx)
        return fw.finish(ctx, mod, aud, build_ok, log)
    except fw.Infra as e:
        print(f"INFRA {pid}: {e}", file=sys.stderr)
        return 2
    except subprocess.TimeoutExpired as e:
        print(f"INFRA {pid}: timeout {e}", file=sys.stderr)
        return 2
    except Exception:
        traceback.print_exc()
        print(f"INFRA {pid}: harness crashed", file=sys.stderr)
        return 2


def _descendants(me: int) -> list[int]:
    kids: dict[int, list[int]] = {}
    for d in os.listdir("/proc"):
        if d.isdigit():
            try:
                with open(f"/proc/{d}/stat") as fh:
                    ppid = int(fh.read().rsplit(")", 1)[1].split()[1])
                kids.setdefault(ppid, []).append(int(d))
            except (OSError, ValueError, IndexError):
                pass
    out, todo = [], [me]
    while todo:
        for k in kids.get(todo.pop(), []):
            out.append(k)
            todo.append(k)
    return out


def _reap() -> None:
    """Kill whatever this run started and left behind (pool workers of a killed child interpreter, zygotes, managers, strace).
    Orphaned pool workers never notice that their parent died; thousands of them once ate the machine's memory and had other
    checks OOM-killed.  The run is a child subreaper, so orphans are re-parented to it and found by the walk over /proc."""
    import signal
    import time
    me = os.getpid()
    for sig in (signal.SIGTERM, signal.SIGKILL):
        left = _descendants(me)
        for k in left:
            try:
                os.kill(k, sig)
            except (ProcessLookupError, PermissionError):
                pass
        if not left:
            return
        time.sleep(0.3)


if __name__ == "__main__":
    import signal
    try:
        import ctypes
        ctypes.CDLL(None, use_errno=True).prctl(36, 1, 0, 0, 0)     # PR_SET_CHILD_SUBREAPER
    except Exception:  # noqa: BLE001
        pass
    signal.signal(signal.SIGTERM, lambda *_: sys.exit(2))       # a `timeout` still runs the reaper below
    rc = 2
    try:
        rc = main()
    finally:
        _reap()
    sys.exit(rc)
