"""C06 round 9: "pieces = whole" at pipeline level (lean/PfModel/Props/C06Whole.lean).

For every generated sequence of parts (one `fixed_indices` dictionary each, then the final full run) the driver entry `pieces.whole`
evaluates, on the definitions the theorems are about: `hyp` (distinct, non-empty output names), `cover` (`coverB`: the masks
`_mask_fixed_axes` builds for the parts cover the external index space of every mapped function), `uncovered` (per mapped function the
external linear indices NO part selects — computed from the masks alone, no run), and from the model's run of the parts on an empty
folder: `missing` (`missingOf`: what a full run finds missing in the folder the parts leave), `complete`, `final_calls`.

Checked here:
 * theorem instances (the driver runs the proved definitions): `hyp` => `missing == uncovered` (`C06_final_recomputes_uncovered`);
   `hyp and cover` => `complete and final_calls == 0` (`C06_pieces_complete`, `C06_final_run_nothing`); otherwise
   `correspondence:whole-theorem`;
 * on the implementation's own answers: after the last part the elements each storage array misses are precisely `uncovered`, and
   the final full run calls each mapped function exactly once per uncovered element and nothing else (clause "each partial run
   computes precisely the selected elements and leaves all others missing ... a final full run recomputes nothing");
 * a stream of OVERLAPPING sequences (`pieces-overlap`: one part of a partition requested twice): the theorems hold for overlapping
   parts too; the repeated request computes nothing;
 * a stream of NON-covering sequences (`incomplete`: a planned partition with some of its parts dropped) so that `cover` is false
   and the final run has something to do on a share of the cases.
"""
from __future__ import annotations

from collections import Counter

STREAMS = ("sub-pieces", "blocks", "incomplete")    # + every kind starting with "pieces" (pieces, pieces2, pieces-overlap)


def wanted(kind):
    return isinstance(kind, str) and (kind.startswith("pieces") or kind in STREAMS)


def add_reqs(jobs):
    """append one `pieces.whole` request to every sequential job that is a sequence of parts followed by the final full run; must be
    called BEFORE c06_flow.add_reqs (whose request has to stay the last one of its job)"""
    for job in jobs:
        if not wanted(job.get("kind")) or not job.get("reqs") or job.get("resp_from") is not None:
            continue
        if job["reqs"][0].get("m") != "pieces.run":
            continue
        a = job["reqs"][0]["a"]
        parts = a["parts"]
        if len(parts) < 2 or parts[-1] is not None or any(fx is None for fx in parts[:-1]):
            continue
        job["whole_q"] = len(job["reqs"])
        job["reqs"].append({"m": "pieces.whole", "a": {**{k: v for k, v in a.items() if k != "parts"}, "parts": parts[:-1]}})


def incomplete_plans(ctx, rng, plans):
    """from the planned partitions of one pipeline: a few with a non-empty proper subset of their parts dropped (the order of the
    remaining parts kept), still followed by the final full run"""
    cands = [(kind, axis, parts) for kind, axis, parts in plans
             if wanted(kind) and kind not in ("incomplete", "pieces-overlap") and len(parts) >= 3 and parts[-1] is None and all(fx is not None for fx in parts[:-1])]
    out = []
    for kind, axis, parts in (rng.sample(cands, min(len(cands), ctx.n(2, 4))) if cands else []):
        body = parts[:-1]
        ndrop = rng.randint(1, len(body) - 1)
        drop = set(rng.sample(range(len(body)), ndrop))
        kept = [fx for q, fx in enumerate(body) if q not in drop]
        ctx.count(f"incomplete:{ndrop} of {len(body)} parts dropped (from a {kind} plan)")
        out.append(("incomplete", axis, kept + [None]))
    # overlapping parts: one part of a partition requested again (after the others, or right away); the repeated request must compute
    # nothing, the calls of all parts must still add up to one full run's (kind starts with "pieces": all clauses of a covering sequence)
    for kind, axis, parts in (rng.sample(cands, min(len(cands), ctx.n(1, 2))) if cands else []):
        body = parts[:-1]
        q = rng.randrange(len(body))
        at = rng.choice([q + 1, len(body)])
        ctx.count("overlap:a part requested twice (" + ("back to back" if at == q + 1 else "again after the other parts") + ")")
        out.append(("pieces-overlap", axis, body[:at] + [body[q]] + body[at:] + [None]))
    return out


def judge(ctx, job, case, resp):
    """`job['impl']`: one observation per request of the sequence (the last one is the final full run), all successful"""
    r = resp["r"]
    mode = " under a run mode" if job.get("mode") else ""
    if "err" in r and "mapped" not in r:
        ctx.count(f"whole:no shapes ({r['err']})")
        return True
    if "run" in r:
        ctx.count("whole:a part is refused by the model")
        return True
    unc = {n: l for n, l in r["uncovered"]}
    nun = sum(len(l) for l in unc.values())
    ctx.count(f"whole{mode}:cover {'holds' if r['cover'] else 'fails'}, hypotheses {'hold' if r['hyp'] else 'fail'}")
    if not r["cover"]:
        ctx.count(f"whole{mode}:uncovered elements " + ("1" if nun == 1 else "2-3" if nun <= 3 else "4-8" if nun <= 8 else "9+"))

    def V(what, **kw):
        ctx.violation(case, what + f" [axis {case.get('axis')}, parts {case['parts'][:-1]}]", key=what[:60], **kw)

    if r["hyp"]:
        bad = None
        if r["missing"] != r["uncovered"]:
            bad = "missingOf(final folder) != uncovered (contradicts C06_final_recomputes_uncovered)"
        elif r["cover"] and not (r["complete"] and r["final_calls"] == 0):
            bad = "cover holds but the folder is not complete / the final run calls something (contradicts C06_pieces_whole)"
        elif not r["cover"] and (r["complete"] or r["final_calls"] == 0) and nun:
            bad = "cover fails yet the model's folder is complete / its final run calls nothing"
        if bad:
            V("the driver's evaluation contradicts a theorem of Props/C06Whole.lean: " + bad, found_input=False,
              item="correspondence:whole-theorem", impl=None, model=r)
            return False
        ctx.count(f"whole{mode}:theorem instances checked (missing = uncovered; cover => complete and nothing recomputed)")
    impl = job["impl"]
    if len(impl) != len(job["parts"]) or len(impl) < 2 or any("err" in o for o in impl):
        return True
    last = impl[-2]["present"]
    for fname, outs, n in r["mapped"]:
        for o in outs:
            pres = last.get(o)
            if pres is None:
                ctx.count("whole:an output of a mapped function has no storage mask in the implementation (not compared)")
                continue
            miss = sorted(set(range(n)) - set(pres))
            if miss != unc.get(fname, []):
                V(f"after the parts the elements `{o}` misses are not precisely the elements no part selects", impl={"missing": miss},
                  model={"uncovered": unc.get(fname, [])})
                return False
    final_calls = dict(Counter(c[0] for c in impl[-1]["calls"]))
    expect = {n: len(l) for n, l in unc.items() if l}
    if final_calls != expect:
        V("the final full run did not compute precisely the elements no part selected (per function: "
          f"{final_calls} instead of {expect})", impl={"final calls": final_calls}, model={"uncovered": r["uncovered"]})
        return False
    ctx.count(f"whole{mode}:implementation misses exactly the uncovered elements; final run computes " + ("nothing" if not expect else "exactly them"))
    return True
