"""C04: the fresh interpreter.  `python c04_child.py jobs.json out.json` — for every job `{"folder", "names", "xarray"}` reload the
folder twice in a row and write the observations.  Started by props/c04.py after all manager processes of the runs are gone."""
import pfimport  # noqa: F401  (FIRST)

import json
import multiprocessing
import sys

import c04_obs


def main():
    jobs = json.load(open(sys.argv[1]))
    out = []
    for job in jobs:
        first = c04_obs.observe(job["folder"], job["names"], job.get("xarray", True), job.get("subset"))
        second = c04_obs.observe(job["folder"], job["names"], job.get("xarray", True), job.get("subset"))
        out.append({"first": first, "second": second})
    with open(sys.argv[2], "w") as f:
        json.dump({"pid_children": len(multiprocessing.active_children()), "results": out}, f)


if __name__ == "__main__":
    main()
