import PfModel.Model.CachePolicyShared
import PfModel.Lemmas.CachePolicyHybrid
/-! Linearisability of lock-protected operations (C14, shared caches): the invariant of `Shared.step` and its consequences. -/
namespace PF.Cache.Shared
open PF.Cache

/-! ### running a history that ends with one more operation -/

theorem run_snoc {σ : Type} (M : Sem σ) (h : List Op) (op : Op) : ∀ s,
    M.run s (h ++ [op]) =
      match M.run s h with
      | .error e => .error e
      | .ok (s', os) =>
        match M.step s' op with
        | .error e => .error e
        | .ok (s'', o) => .ok (s'', os ++ [o]) := by
  induction h with
  | nil =>
    intro s
    simp only [List.nil_append, Sem.run]
    cases M.step s op with
    | error e => rfl
    | ok p => rfl
  | cons a h ih =>
    intro s
    simp only [List.cons_append, Sem.run]
    cases M.step s a with
    | error e => rfl
    | ok p =>
      obtain ⟨s1, o1⟩ := p
      simp only [ih s1]
      cases M.run s1 h with
      | error e => rfl
      | ok q =>
        obtain ⟨s2, os⟩ := q
        simp only
        cases M.step s2 op with
        | error e => rfl
        | ok r => rfl

theorem getElem?_append_of_some {α : Type} (l m : List α) (t : Nat) (x : α) (h : l[t]? = some x) : (l ++ m)[t]? = some x := by
  obtain ⟨ht, rfl⟩ := List.getElem?_eq_some_iff.mp h
  rw [List.getElem?_append_left ht]
  simp

theorem runMicro_cons {σ L : Type} (f : Micro σ L) (fs : List (Micro σ L)) (x : L × σ) :
    runMicro (f :: fs) x = runMicro fs (f x) := rfl

theorem setProc_self {σ L : Type} (procs : Pid → Phase σ L) (p : Pid) (x : Phase σ L) : setProc procs p x p = x := by
  simp [setProc]

theorem setProc_ne {σ L : Type} (procs : Pid → Phase σ L) (p q : Pid) (x : Phase σ L) (h : q ≠ p) : setProc procs p x q = procs q := by
  simp [setProc, h]

/-! ### the invariant -/

/-- What holds after every prefix of every schedule.  `hist` is the list of operations whose critical sections are complete;
    `s`, `os` are the state and the answers of the *sequential* run of `hist`. -/
structure Good {σ L : Type} (B : Body σ L) (M : Sem σ) (Inv : σ → Prop) (s0 : σ) (c : Config σ L)
    (hist : List (Pid × Op)) (s : σ) (os : List Obs) : Prop where
  run : M.run s0 (hist.map (·.2)) = .ok (s, os)
  len : os.length = hist.length
  inv : Inv s
  ready : ∀ p op l, c.procs p = .ready op l → op.WF ∧ l = B.init op
  logged : ∀ t p op o, (t, p, op, o) ∈ c.log → hist[t]? = some (p, op) ∧ os[t]? = some o
  returned : ∀ p op t l, c.procs p = .after op t l → hist[t]? = some (p, op) ∧ os[t]? = some (B.result l)
  /-- either the lock is free, every entered critical section is complete and the shared state is the sequential one, or exactly
      one process is inside its critical section and what is left of it finishes the atomic operation -/
  crit : (c.lock = none ∧ c.lin = hist ∧ c.shared = s ∧ ∀ p, (c.procs p).isCrit = false) ∨
         (∃ q op l rest, c.lock = some q ∧ c.lin = hist ++ [(q, op)] ∧ c.procs q = .crit op hist.length l rest ∧ op.WF ∧
            runMicro rest (l, c.shared) = runMicro (B.micro op) (B.init op, s) ∧ ∀ p, p ≠ q → (c.procs p).isCrit = false)

theorem good_init {σ L : Type} (B : Body σ L) (M : Sem σ) (Inv : σ → Prop) (s0 : σ) (h0 : Inv s0) :
    Good B M Inv s0 (Config.init s0 : Config σ L) [] s0 [] where
  run := rfl
  len := rfl
  inv := h0
  ready := by intro p op l h; simp [Config.init] at h
  logged := by intro t p op o h; simp [Config.init] at h
  returned := by intro p op t l h; simp [Config.init] at h
  crit := .inl ⟨rfl, rfl, rfl, fun _ => rfl⟩

/-- one scheduling decision keeps the invariant (for some extension of the completed history) -/
theorem good_step {σ L : Type} (B : Body σ L) (M : Sem σ) (Inv : σ → Prop) (hL : Lawful M Inv)
    (hB : Implements B M Inv Op.WF) (s0 : σ) (c : Config σ L) (hist : List (Pid × Op)) (s : σ) (os : List Obs)
    (g : Good B M Inv s0 c hist s os) (ev : Pid × Op) (hwf : ev.2.WF) :
    ∃ hist' s' os', Good B M Inv s0 (step B c ev) hist' s' os' := by
  obtain ⟨p, eop⟩ := ev
  simp only at hwf
  cases hp : c.procs p with
  | idle =>
    refine ⟨hist, s, os, ?_⟩
    have hstep : step B c (p, eop) = { c with procs := setProc c.procs p (.ready eop (B.init eop)) } := by
      simp only [step, hp]
    rw [hstep]
    refine { run := g.run, len := g.len, inv := g.inv, ready := ?_, logged := g.logged, returned := ?_, crit := ?_ }
    · intro q op l hq
      by_cases hqp : q = p
      · subst hqp; simp only [setProc_self] at hq; cases hq; exact ⟨hwf, rfl⟩
      · simp only [setProc_ne _ _ _ _ hqp] at hq; exact g.ready q op l hq
    · intro q op t l hq
      by_cases hqp : q = p
      · subst hqp; simp only [setProc_self] at hq; cases hq
      · simp only [setProc_ne _ _ _ _ hqp] at hq; exact g.returned q op t l hq
    · rcases g.crit with ⟨h1, h2, h3, h4⟩ | ⟨q, op, l, rest, h1, h2, h3, h4, h5, h6⟩
      · refine .inl ⟨h1, h2, h3, ?_⟩
        intro q
        by_cases hqp : q = p
        · subst hqp; simp [setProc_self, Phase.isCrit]
        · simp only [setProc_ne _ _ _ _ hqp]; exact h4 q
      · have hqp : q ≠ p := by intro e; subst e; rw [hp] at h3; cases h3
        refine .inr ⟨q, op, l, rest, h1, h2, by simp only [setProc_ne _ _ _ _ hqp]; exact h3, h4, h5, ?_⟩
        intro r hr
        by_cases hrp : r = p
        · subst hrp; simp [setProc_self, Phase.isCrit]
        · simp only [setProc_ne _ _ _ _ hrp]; exact h6 r hr
  | ready op l =>
    obtain ⟨hopwf, hl⟩ := g.ready p op l hp
    cases hlock : c.lock with
    | some q =>
      refine ⟨hist, s, os, ?_⟩
      have hstep : step B c (p, eop) = c := by simp only [step, hp, hlock]
      rw [hstep]; exact g
    | none =>
      refine ⟨hist, s, os, ?_⟩
      have hstep : step B c (p, eop) = { c with lock := some p, procs := setProc c.procs p (.crit op c.lin.length l (B.micro op)),
                                                lin := c.lin ++ [(p, op)] } := by
        simp only [step, hp, hlock]
      rw [hstep]
      rcases g.crit with ⟨_, h2, h3, h4⟩ | ⟨q, _, _, _, h1, _⟩
      · refine { run := g.run, len := g.len, inv := g.inv, ready := ?_, logged := g.logged, returned := ?_, crit := ?_ }
        · intro q op' l' hq
          by_cases hqp : q = p
          · subst hqp; simp only [setProc_self] at hq; cases hq
          · simp only [setProc_ne _ _ _ _ hqp] at hq; exact g.ready q op' l' hq
        · intro q op' t l' hq
          by_cases hqp : q = p
          · subst hqp; simp only [setProc_self] at hq; cases hq
          · simp only [setProc_ne _ _ _ _ hqp] at hq; exact g.returned q op' t l' hq
        · refine .inr ⟨p, op, l, B.micro op, rfl, by simp only [h2], by simp only [setProc_self, h2], hopwf, by simp only [h3, hl], ?_⟩
          intro r hr
          simp only [setProc_ne _ _ _ _ hr]; exact h4 r
      · rw [hlock] at h1; cases h1
  | crit op t l rest =>
    rcases g.crit with ⟨_, _, _, h4⟩ | ⟨q, op', l', rest', h1, h2, h3, h4, h5, h6⟩
    · have := h4 p; rw [hp] at this; simp [Phase.isCrit] at this
    · have hqp : q = p := by
        by_cases e : p = q
        · exact e.symm
        · have := h6 p e; rw [hp] at this; simp [Phase.isCrit] at this
      subst hqp
      rw [hp] at h3
      cases h3
      cases rest with
      | cons f fs =>
        refine ⟨hist, s, os, ?_⟩
        have hstep : step B c (q, eop) = { c with shared := (f (l, c.shared)).2,
                                                  procs := setProc c.procs q (.crit op hist.length (f (l, c.shared)).1 fs) } := by
          simp only [step, hp]
        rw [hstep]
        refine { run := g.run, len := g.len, inv := g.inv, ready := ?_, logged := g.logged, returned := ?_, crit := ?_ }
        · intro r op' l' hr
          by_cases hrq : r = q
          · subst hrq; simp only [setProc_self] at hr; cases hr
          · simp only [setProc_ne _ _ _ _ hrq] at hr; exact g.ready r op' l' hr
        · intro r op' t l' hr
          by_cases hrq : r = q
          · subst hrq; simp only [setProc_self] at hr; cases hr
          · simp only [setProc_ne _ _ _ _ hrq] at hr; exact g.returned r op' t l' hr
        · refine .inr ⟨q, op, (f (l, c.shared)).1, fs, h1, h2, by simp only [setProc_self], h4, ?_, ?_⟩
          · rw [← h5, runMicro_cons]
          · intro r hr
            simp only [setProc_ne _ _ _ _ hr]; exact h6 r hr
      | nil =>
        -- the release: the critical section is complete, the history grows by this operation
        have hat : M.step s op = .ok (B.atomic s op) := hB s op g.inv h4
        have h5' : (l, c.shared) = runMicro (B.micro op) (B.init op, s) := h5
        have hsh : (B.atomic s op).1 = c.shared := by simp only [Body.atomic, ← h5']
        have hres : (B.atomic s op).2 = B.result l := by simp only [Body.atomic, ← h5']
        obtain ⟨s1, o1, hs1, hi1⟩ := hL.total s op g.inv h4
        rw [hat] at hs1
        have hs1' : B.atomic s op = (s1, o1) := by cases hs1; rfl
        have hsh1 : s1 = c.shared := by rw [← hsh, hs1']
        have ho1 : o1 = B.result l := by rw [← hres, hs1']
        refine ⟨hist ++ [(q, op)], c.shared, os ++ [B.result l], ?_⟩
        have hstep : step B c (q, eop) = { c with lock := none, procs := setProc c.procs q (.after op hist.length l) } := by
          simp only [step, hp]
        rw [hstep]
        refine { run := ?_, len := by simp [g.len], inv := hsh1 ▸ hi1, ready := ?_, logged := ?_, returned := ?_, crit := ?_ }
        · rw [List.map_append, List.map_cons, List.map_nil, run_snoc, g.run]
          simp only [hat, hs1', hsh1, ho1]
        · intro r op' l' hr
          by_cases hrq : r = q
          · subst hrq; simp only [setProc_self] at hr; cases hr
          · simp only [setProc_ne _ _ _ _ hrq] at hr; exact g.ready r op' l' hr
        · intro t r op' o hm
          obtain ⟨a, b⟩ := g.logged t r op' o hm
          exact ⟨getElem?_append_of_some _ _ _ _ a, getElem?_append_of_some _ _ _ _ b⟩
        · intro r op' t l' hr
          by_cases hrq : r = q
          · subst hrq
            simp only [setProc_self] at hr
            cases hr
            refine ⟨by simp, ?_⟩
            rw [← g.len]; simp
          · simp only [setProc_ne _ _ _ _ hrq] at hr
            obtain ⟨a, b⟩ := g.returned r op' t l' hr
            exact ⟨getElem?_append_of_some _ _ _ _ a, getElem?_append_of_some _ _ _ _ b⟩
        · refine .inl ⟨rfl, h2, rfl, ?_⟩
          intro r
          by_cases hrq : r = q
          · subst hrq; simp [setProc_self, Phase.isCrit]
          · simp only [setProc_ne _ _ _ _ hrq]; exact h6 r hrq
  | after op t l =>
    refine ⟨hist, s, os, ?_⟩
    have hstep : step B c (p, eop) = { c with procs := setProc c.procs p .idle, log := c.log ++ [(t, p, op, B.result l)] } := by
      simp only [step, hp]
    rw [hstep]
    refine { run := g.run, len := g.len, inv := g.inv, ready := ?_, logged := ?_, returned := ?_, crit := ?_ }
    · intro q op' l' hq
      by_cases hqp : q = p
      · subst hqp; simp only [setProc_self] at hq; cases hq
      · simp only [setProc_ne _ _ _ _ hqp] at hq; exact g.ready q op' l' hq
    · intro t' q op' o hm
      simp only [List.mem_append, List.mem_singleton] at hm
      rcases hm with hm | hm
      · exact g.logged t' q op' o hm
      · cases hm; exact g.returned p op t l hp
    · intro q op' t' l' hq
      by_cases hqp : q = p
      · subst hqp; simp only [setProc_self] at hq; cases hq
      · simp only [setProc_ne _ _ _ _ hqp] at hq; exact g.returned q op' t' l' hq
    · rcases g.crit with ⟨h1, h2, h3, h4⟩ | ⟨q, op', l', rest, h1, h2, h3, h4, h5, h6⟩
      · refine .inl ⟨h1, h2, h3, ?_⟩
        intro q
        by_cases hqp : q = p
        · subst hqp; simp [setProc_self, Phase.isCrit]
        · simp only [setProc_ne _ _ _ _ hqp]; exact h4 q
      · have hqp : q ≠ p := by intro e; subst e; rw [hp] at h3; cases h3
        refine .inr ⟨q, op', l', rest, h1, h2, by simp only [setProc_ne _ _ _ _ hqp]; exact h3, h4, h5, ?_⟩
        intro r hr
        by_cases hrp : r = p
        · subst hrp; simp [setProc_self, Phase.isCrit]
        · simp only [setProc_ne _ _ _ _ hrp]; exact h6 r hr

theorem good_exec {σ L : Type} (B : Body σ L) (M : Sem σ) (Inv : σ → Prop) (hL : Lawful M Inv)
    (hB : Implements B M Inv Op.WF) (s0 : σ) (sch : List (Pid × Op)) :
    ∀ (c : Config σ L) hist s os, Good B M Inv s0 c hist s os → (∀ ev ∈ sch, ev.2.WF) →
      ∃ hist' s' os', Good B M Inv s0 (exec B c sch) hist' s' os' := by
  induction sch with
  | nil => intro c hist s os g _; exact ⟨hist, s, os, g⟩
  | cons ev sch ih =>
    intro c hist s os g hwf
    obtain ⟨h1, s1, os1, g1⟩ := good_step B M Inv hL hB s0 c hist s os g ev (hwf ev (by simp))
    exact ih (step B c ev) h1 s1 os1 g1 (fun e he => hwf e (List.mem_cons_of_mem _ he))

/-- The invariant, read in terms of `c.lin` (the order in which the critical sections were ENTERED): the sequential history in
    that order runs without raising, every result returned so far is the result of that operation in the sequential run, and
    whenever the lock is free the shared state is the sequential state. -/
theorem good_lin {σ L : Type} (B : Body σ L) (M : Sem σ) (Inv : σ → Prop) (hL : Lawful M Inv) (s0 : σ) (c : Config σ L)
    (hist : List (Pid × Op)) (s : σ) (os : List Obs) (g : Good B M Inv s0 c hist s os) :
    ∃ s' os', M.run s0 (c.lin.map (·.2)) = .ok (s', os') ∧ Inv s' ∧ os'.length = c.lin.length ∧
      (∀ t p op o, (t, p, op, o) ∈ c.log → c.lin[t]? = some (p, op) ∧ os'[t]? = some o) ∧
      (c.lock = none → c.shared = s') := by
  rcases g.crit with ⟨h1, h2, h3, _⟩ | ⟨q, op, l, rest, h1, h2, _, h4, _, _⟩
  · exact ⟨s, os, by rw [h2]; exact g.run, g.inv, by rw [h2]; exact g.len, by rw [h2]; exact g.logged, fun _ => h3⟩
  · obtain ⟨s1, o1, hs1, hi1⟩ := hL.total s op g.inv h4
    refine ⟨s1, os ++ [o1], ?_, hi1, by simp [h2, g.len], ?_, ?_⟩
    · rw [h2, List.map_append, List.map_cons, List.map_nil, run_snoc, g.run]
      simp only [hs1]
    · intro t p op' o hm
      obtain ⟨a, b⟩ := g.logged t p op' o hm
      rw [h2]
      exact ⟨getElem?_append_of_some _ _ _ _ a, getElem?_append_of_some _ _ _ _ b⟩
    · intro hnone; rw [h1] at hnone; cases hnone

/-- mutual exclusion: at most one process is inside a critical section -/
theorem good_mutex {σ L : Type} (B : Body σ L) (M : Sem σ) (Inv : σ → Prop) (s0 : σ) (c : Config σ L)
    (hist : List (Pid × Op)) (s : σ) (os : List Obs) (g : Good B M Inv s0 c hist s os) (p q : Pid)
    (hp : (c.procs p).isCrit = true) (hq : (c.procs q).isCrit = true) : p = q ∧ c.lock = some p := by
  rcases g.crit with ⟨_, _, _, h4⟩ | ⟨r, _, _, _, h1, _, _, _, _, h6⟩
  · rw [h4 p] at hp; cases hp
  · have hpr : p = r := by
      by_cases e : p = r
      · exact e
      · rw [h6 p e] at hp; cases hp
    have hqr : q = r := by
      by_cases e : q = r
      · exact e
      · rw [h6 q e] at hq; cases hq
    exact ⟨hpr.trans hqr.symm, hpr ▸ h1⟩

/-- the `t`-th operation of a sequential run is one `M.step` from the state the first `t` operations lead to, and its answer
    is the `t`-th answer of the whole run -/
theorem run_split {σ : Type} (M : Sem σ) (h1 : List Op) (op : Op) (h2 : List Op) : ∀ s0 s os,
    M.run s0 (h1 ++ op :: h2) = .ok (s, os) →
    ∃ st ost st1 o, M.run s0 h1 = .ok (st, ost) ∧ M.step st op = .ok (st1, o) ∧ os[h1.length]? = some o := by
  induction h1 with
  | nil =>
    intro s0 s os h
    simp only [List.nil_append, Sem.run] at h
    cases hs : M.step s0 op with
    | error e => simp [hs] at h
    | ok p1 =>
      obtain ⟨s1, o1⟩ := p1
      simp only [hs] at h
      cases hr : M.run s1 h2 with
      | error e => simp [hr] at h
      | ok p2 =>
        obtain ⟨s2, os2⟩ := p2
        simp only [hr, Except.ok.injEq, Prod.mk.injEq] at h
        obtain ⟨_, hb⟩ := h
        subst hb
        exact ⟨s0, [], s1, o1, rfl, hs, by simp⟩
  | cons a h1 ih =>
    intro s0 s os h
    simp only [List.cons_append, Sem.run] at h
    cases hs : M.step s0 a with
    | error e => simp [hs] at h
    | ok p1 =>
      obtain ⟨s1, o1⟩ := p1
      simp only [hs] at h
      cases hr : M.run s1 (h1 ++ op :: h2) with
      | error e => simp [hr] at h
      | ok p2 =>
        obtain ⟨s2, os2⟩ := p2
        simp only [hr, Except.ok.injEq, Prod.mk.injEq] at h
        obtain ⟨_, hb⟩ := h
        subst hb
        obtain ⟨st, ost, st1, o, e1, e2, e3⟩ := ih s1 _ _ hr
        refine ⟨st, o1 :: ost, st1, o, ?_, e2, by simpa using e3⟩
        simp only [Sem.run, hs, e1]

/-- only operations that were scheduled (hence well-formed ones) enter the linearisation -/
theorem step_lin_wf {σ L : Type} (B : Body σ L) (M : Sem σ) (Inv : σ → Prop) (s0 : σ) (c : Config σ L)
    (hist : List (Pid × Op)) (s : σ) (os : List Obs) (g : Good B M Inv s0 c hist s os) (ev : Pid × Op)
    (h : ∀ e ∈ c.lin, e.2.WF) : ∀ e ∈ (step B c ev).lin, e.2.WF := by
  obtain ⟨p, eop⟩ := ev
  cases hp : c.procs p with
  | idle => simpa only [step, hp] using h
  | ready op l =>
    cases hlock : c.lock with
    | some q => simpa only [step, hp, hlock] using h
    | none =>
      simp only [step, hp, hlock]
      intro e he
      simp only [List.mem_append, List.mem_singleton] at he
      rcases he with he | he
      · exact h e he
      · subst he; exact (g.ready p op l hp).1
  | crit op t l rest =>
    cases rest with
    | nil => simpa only [step, hp] using h
    | cons f fs => simpa only [step, hp] using h
  | after op t l => simpa only [step, hp] using h

theorem exec_lin_wf {σ L : Type} (B : Body σ L) (M : Sem σ) (Inv : σ → Prop) (hL : Lawful M Inv)
    (hB : Implements B M Inv Op.WF) (s0 : σ) (sch : List (Pid × Op)) :
    ∀ (c : Config σ L) hist s os, Good B M Inv s0 c hist s os → (∀ ev ∈ sch, ev.2.WF) → (∀ e ∈ c.lin, e.2.WF) →
      ∀ e ∈ (exec B c sch).lin, e.2.WF := by
  induction sch with
  | nil => intro c hist s os _ _ h; exact h
  | cons ev sch ih =>
    intro c hist s os g hwf h
    obtain ⟨h1, s1, os1, g1⟩ := good_step B M Inv hL hB s0 c hist s os g ev (hwf ev (by simp))
    exact ih (step B c ev) h1 s1 os1 g1 (fun e he => hwf e (List.mem_cons_of_mem _ he)) (step_lin_wf B M Inv s0 c hist s os g ev h)

theorem lin_wf {σ L : Type} (B : Body σ L) (M : Sem σ) (Inv : σ → Prop) (hL : Lawful M Inv)
    (hB : Implements B M Inv Op.WF) (s0 : σ) (h0 : Inv s0) (sch : List (Pid × Op)) (hwf : ∀ ev ∈ sch, ev.2.WF) :
    ∀ op ∈ (exec B (Config.init s0 : Config σ L) sch).lin.map (·.2), op.WF := by
  intro op hm
  simp only [List.mem_map] at hm
  obtain ⟨e, he, rfl⟩ := hm
  exact exec_lin_wf B M Inv hL hB s0 sch (Config.init s0) [] s0 [] (good_init B M Inv s0 h0) hwf (by simp [Config.init]) e he

/-! ### decompositions -/

theorem ofSem_implements {σ : Type} (M : Sem σ) (Inv : σ → Prop) (hL : Lawful M Inv) : Implements (Body.ofSem M) M Inv Op.WF := by
  intro s op hi hwf
  obtain ⟨s', o, h, _⟩ := hL.total s op hi hwf
  simp only [Body.atomic, Body.ofSem, runMicro, List.foldl_cons, List.foldl_nil, h, Option.getD_some]

theorem LRU.ext' (a b : LRU) (h1 : a.max = b.max) (h2 : a.dict = b.dict) (h3 : a.queue = b.queue) : a = b := by
  cases a; cases b; simp_all

/-- the statement-by-statement critical sections of `LRUCache` compose to the atomic operations of the model -/
theorem lru_implements : Implements lruBody lruSem LRU.Inv Op.WF := by
  intro s op hi _
  cases op with
  | get k =>
    obtain ⟨s', hg, _, hd, hm, hq⟩ := LRU.get_spec s k hi
    simp only [lruSem, LRU.step, hg]
    simp only [Body.atomic, lruBody, runMicro, List.foldl_cons, List.foldl_nil]
    cases hh : has s.dict k
    · simp only [hh] at hq
      have : s' = s := LRU.ext' _ _ hm hd (by simpa using hq)
      subst this
      have : lookup s'.dict k = none := (has_false_iff _ _).mp hh
      simp [this]
    · simp only [hh, if_true] at hq
      congr 1
      refine Prod.ext (LRU.ext' _ _ hm hd (by simp [hq])) (by simp)
  | put k v d =>
    obtain ⟨s', hp, _, hm, hc⟩ := LRU.put_spec s k v hi
    simp only [lruSem, LRU.step, hp]
    simp only [Body.atomic, lruBody, runMicro, List.foldl_cons, List.foldl_nil]
    rcases hc with ⟨hh, hd, hq⟩ | ⟨hh, hlt, hd, hq⟩ | ⟨hh, hfull, old, rest, hqq, _, hd, hq⟩
    · have : s' = { max := s.max, dict := set s.dict k v, queue := s.queue.erase k ++ [k] } := LRU.ext' _ _ hm hd hq
      subst this
      simp [hh]
    · have : s' = { max := s.max, dict := set s.dict k v, queue := s.queue ++ [k] } := LRU.ext' _ _ hm hd hq
      subst this
      simp [hh, hlt]
    · have hnlt : ¬ rest.length + 1 < s.max := by rw [hqq] at hfull; simp at hfull; omega
      have : s' = { max := s.max, dict := erase (set s.dict k v) old, queue := rest ++ [k] } := LRU.ext' _ _ hm hd hq
      subst this
      simp [hh, hnlt, hqq]
  | has k => simp [lruSem, LRU.step, Body.atomic, lruBody, runMicro]
  | len => simp [lruSem, LRU.step, Body.atomic, lruBody, runMicro]
  | clear => simp [lruSem, LRU.step, Body.atomic, lruBody, runMicro, LRU.clear]
  | reopen m l => simp [lruSem, LRU.step, Body.atomic, lruBody, runMicro]

end PF.Cache.Shared
