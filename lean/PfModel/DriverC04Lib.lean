import PfModel.DriverVal
import PfModel.Model.RunInfoCodec
/-! JSON readers / writers shared by the C04 driver (`Driver/C04.lean`) and its per-item handler libraries
    (`PfModel/DriverC04*.lean`).  Moved here unchanged from `Driver/C04.lean` (round 9). -/
open Lean PF PF.Drv PF.Map PF.RIC

namespace PF.C04Drv

def getASpec (j : Json) : R ASpec := do
  let (n, ax) ← asPair asStr (asList (asOpt asStr)) j
  return { name := n, axes := ax }

def getMSpec (j : Json) : R MSpec := do
  return { inputs := ← listF getASpec j "inputs", outputs := ← listF getASpec j "outputs" }

def getMFunc (j : Json) : R MFunc := do
  return { name := ← strF j "name", params := ← listF (asPair asStr asStr) j "params", outputs := ← listF asStr j "outputs",
           mapspec := ← optF getMSpec j "mapspec", ret := ← optF (asList asNat) j "ret", internal := ← optF (asList asNat) j "internal",
           defaults := (← optF getKw j "defaults").getD [], bound := (← optF getKw j "bound").getD [] }

def putMErr : PF.Map.Err → Json
  | .value w => jObj [("err", jStr "ValueError"), ("why", jStr w)]
  | .type w => jObj [("err", jStr "TypeError"), ("why", jStr w)]
  | .index w => jObj [("err", jStr "IndexError"), ("why", jStr w)]
  | .key w => jObj [("err", jStr "KeyError"), ("why", jStr w)]
  | .fuel => jObj [("err", jStr "RecursionError")]

def getKey (j : Json) : R Key :=
  match j with
  | .str s => .ok (.one s)
  | _ => do return .many (← asList asStr j)

def putKey : Key → Json
  | .one s => jStr s
  | .many ss => jList jStr ss

def getIShape (j : Json) : R IShape :=
  match j with
  | .num _ => do return .int (← asNat j)
  | _ => do return .tup (← asList asNat j)

def putIShape : IShape → Json
  | .int n => jNat n
  | .tup l => jList jNat l

def getStorage (j : Json) : R Storage :=
  match j with
  | .str s => .ok (.uniform s)
  | _ => do return .per (← asList (asPair getKey asStr) j)

def putStorage : Storage → Json
  | .uniform s => jStr s
  | .per m => jList (jPair putKey jStr) m

def getRunInfo (j : Json) : R RunInfo := do
  return { inputs := ← getKw (← fld j "inputs"), defaults := ← getKw (← fld j "defaults"),
           allOutputNames := ← listF asStr j "all_output_names",
           shapes := ← listF (asPair getKey (asList asNat)) j "shapes",
           internalShapes := ← optF (asList (asPair asStr getIShape)) j "internal_shapes",
           shapeMasks := ← listF (asPair getKey (asList asBool)) j "shape_masks",
           mapspecs := ← listF asStr j "mapspecs", storage := ← getStorage (← fld j "storage"),
           version := (← optF asStr j "version").getD "v" }

def putRunInfo (r : RunInfo) : Json :=
  jObj [("inputs", putKw r.inputs), ("defaults", putKw r.defaults), ("all_output_names", jList jStr r.allOutputNames),
        ("shapes", jList (jPair putKey (jList jNat)) r.shapes),
        ("internal_shapes", jOpt (jList (jPair jStr putIShape)) r.internalShapes),
        ("shape_masks", jList (jPair putKey (jList jBool)) r.shapeMasks),
        ("mapspecs", jList jStr r.mapspecs), ("storage", putStorage r.storage), ("version", jStr r.version)]

def pathStr : Path → String
  | .folder => "$F"
  | .runInfo => "$F/run_info.json"
  | .input n => "$F/inputs/" ++ n ++ ".cloudpickle"
  | .defaults => "$F/defaults/defaults.cloudpickle"
  | .output n => "$F/outputs/" ++ n ++ ".cloudpickle"
  | .cell n li => "$F/outputs/" ++ n ++ "/__" ++ toString li ++ "__.pickle"
  | .dictFile n => "$F/outputs/" ++ n ++ "/dict_array.cloudpickle"

/-- the model's JSON value as real JSON (objects as lists of pairs, so that key order and duplicates stay visible) -/
partial def putJ : J → Json
  | .null => Json.null
  | .bool b => jBool b
  | .num n => jInt n
  | .str s => jStr s
  | .path p => jStr (pathStr p)
  | .arr l => jArr (l.map putJ)
  | .obj kv => jObj [("obj", jArr (kv.map fun (k, v) => jArr [jStr k, putJ v]))]

end PF.C04Drv
