"""C12, round 9: the CALL-path stream — `Pipeline.run` / `Pipeline.__call__` / `Pipeline.func(out)(**kw)`.

`run` has no validation of its own for duplicate output names, inconsistent defaults or CYCLES: they are met because its first
statement reads the cached property `mapspec_names` (→ `mapspecs()` → `sorted_functions` → `topological_generations` → `graph`).
Construction meets the cycle in `_autogen_mapspec_axes` (→ `topological_generations`).  Seeded change C12-s4-A cut both links for
pipelines WITHOUT any MapSpec; it was only caught where an in-place rename happened to close a cycle and `run` was the action.

Two kinds of cases, one model entry (`callpath`: `PF.Validate.constructThenCall` / `sessionCall`, lean/PfModel/Model/ValidateCall.lean):
 * FRESH: a valid call pipeline (pipegen, no MapSpec; 1/4 mapgen pipelines with MapSpecs for the `RuntimeError` gate) with ONE
   construction-level fault (back edge, duplicate output, output named like a parameter, changed default) or none, built with
   `Pipeline([...])` and — whenever the implementation constructs it, whatever the model says — executed through run / __call__ / func
   for SEVERAL outputs (the first function's, the last function's, a random one: an output upstream of a cycle never meets it lazily);
 * SESSION: a valid base edited in place (the operators of `c12_edit.gen_edits`), then the same actions.
Keyword arguments: exactly the root arguments of the requested output (read from the real `root_args`; all inputs when that raises);
in 1/8 the requested output itself is added (`ValueError`), in 1/10 the requested name is unknown (`KeyError`).

A case = {"op", "base": request, "edits": [...], "via": "run"|"call"|"func", "output": name, "kw": "roots"|"roots+output"}.
"""
from __future__ import annotations

import copy

import pfimport  # noqa: F401
from pfimport import exc_enum

import c12_edit as edit
import c12_impl as impl
import c12_mut as mut
import mapgen
import terms

CTOR_OPS = ["back-edge", "back-edge", "dup-output", "self-named", "changed-default"]
PROPERTY_CHECKS = {"duplicate-output", "inconsistent-defaults", "cycle", "output-is-own-parameter", "mapspec-input-not-a-parameter",
                   "mapspec-input-bound", "mapspec-outputs-differ", "inconsistent-axes"}
VIAS = ["run", "call", "func"]


# ------------------------------------------------------------------------------------------------ the implementation side
def _act(p, via, out, kw):
    if via == "run":
        return mapgen.quiet(p.run, out, kwargs=kw)
    if via == "call":
        return mapgen.quiet(p, out, **kw)
    return mapgen.quiet(lambda: p.func(out)(**kw))


def run_case(c):
    """{"at": None | "construct" | "edit" | "start", "index", "err", "calls", "msg", "kwargs": names passed}"""
    req = c["base"]
    log = terms.CallLog()
    obs = {"at": None, "index": None, "err": None, "calls": [], "msg": "", "kwargs": []}
    try:
        p, log = mapgen.build(req["desc"], log=log)
    except BaseException as e:  # noqa: BLE001
        obs.update(at="construct", err=exc_enum(e), msg=str(e)[:160], calls=log.names())
        return obs
    for i, ed in enumerate(c.get("edits") or []):
        try:
            mapgen.quiet(edit.apply_edit, p, ed)
        except BaseException as e:  # noqa: BLE001
            obs.update(at="edit", index=i, err=exc_enum(e), msg=str(e)[:160], calls=log.names())
            return obs
    out = c["output"]
    have = impl.py_inputs(req["desc"])
    try:
        # `run` is lazy (C02): only the root arguments of the requested output may be passed.  Computing them recomputes `graph`
        # (not the generations); when it raises nothing is cached and the action below meets the same refusal itself.
        need = list(p.root_args(out))
    except BaseException:  # noqa: BLE001
        need = list(have)
    kw = {k: (have[k] if k in have else terms.dec({"s": f"in:{k}"})) for k in need}
    if c.get("kw") == "roots+output":
        kw[out] = terms.dec({"s": "in:surplus"})
    obs["kwargs"] = sorted(kw)
    skip = len(log.names())
    try:
        _act(p, c["via"], out, kw)
    except BaseException as e:  # noqa: BLE001  (RecursionError on an unnoticed cycle)
        obs.update(at="start", err=exc_enum(e), msg=str(e)[:160])
    obs["calls"] = log.names()[skip:]
    return obs


def model_case(c, obs):
    a = mapgen.model_request(c["base"]["desc"])
    return {"m": "callpath", "a": {"funcs": a["funcs"], "edits": c.get("edits") or [], "output": c["output"], "kwargs": obs["kwargs"],
                                   "via": c["via"]}}


# ------------------------------------------------------------------------------------------------ generation
def _outputs(desc):
    return [o for f in desc["funcs"] for o in f["outputs"]]


def _pick_outputs(desc, rng, names=None):
    outs = names if names is not None else _outputs(desc)
    if not outs:
        return []
    first = desc["funcs"][0]["outputs"][0] if names is None else outs[0]
    picks = [first, outs[-1], rng.choice(outs)]
    if rng.random() < 0.1:
        picks.append("zq")
    seen, res = set(), []
    for o in picks:
        if o not in seen:
            seen.add(o); res.append(o)
    return res


def cases_for_base(rng, base_req, ctx):
    """fresh (one construction-level fault or none) and session cases for one valid base"""
    out = []
    desc = mut.explicit(base_req["desc"])
    base_req = {**base_req, "desc": desc, "storage": "dict"}
    variants = [("valid", base_req)]
    for op in rng.sample(CTOR_OPS, 3):
        m = mut.OPS[op](base_req, rng)
        if m is None:
            ctx.count(f"call:op-not-applicable:{op}")
            continue
        variants.append((op, m))
    for op, m in variants:
        for o in _pick_outputs(m["desc"], rng):
            out.append({"op": f"call:{op}", "base": m, "edits": [], "via": rng.choice(VIAS), "output": o,
                        "kw": "roots+output" if rng.random() < 0.125 else "roots"})
    for _ in range(2):
        g = edit.gen_edits(desc, rng)
        if g is None:
            continue
        op, eds = g
        names = edit.Names(desc)
        for ed in eds:
            if ed["k"] == "member-rename":
                names.rename(ed["fn"], ed["old"], ed["new"])
            elif ed["k"] == "pipe-rename":
                names.rename(None, ed["old"], ed["new"])
        for o in _pick_outputs(desc, rng, names.all_outputs())[:3]:
            out.append({"op": f"call:edit:{op}", "base": base_req, "edits": eds, "via": rng.choice(VIAS), "output": o,
                        "kw": "roots+output" if rng.random() < 0.1 else "roots"})
    return out


# ------------------------------------------------------------------------------------------------ verdict
def _lazy_late(obs):
    """what the lazy evaluation (C02) reports late by design: an argument missing when its consumer is reached, unused keywords"""
    return obs["err"] == "UnusedParametersError" or (obs["err"] == "ValueError" and obs["msg"].startswith("Missing value"))


def judge(ctx, c, obs, model, digest):
    op = c["op"]
    ctx.count(f"op:{op}")
    ctx.count(f"call:via:{c['via']}")
    m_at = m_err = m_check = m_index = None
    if "err" in model["construct"]:
        m_at, m_err, m_check = "construct", model["construct"]["err"], model["construct"]["check"]
    elif model.get("edit") and "err" in model["edit"]:
        m_at, m_err, m_check, m_index = "edit", model["edit"]["err"], model["edit"]["check"], model["edit"].get("index")
    elif model.get("start") and "err" in model["start"]:
        m_at, m_err, m_check = "start", model["start"]["err"], model["start"]["check"]
    ctx.count(f"model:call:{m_at or 'accept'}:{m_check or '-'}")
    case = {k: c.get(k) for k in ("op", "edits", "via", "output", "kw")} | {"base": c["base"]}
    ctx.record({k: c.get(k) for k in ("op", "edits", "via", "output", "kw")} | {"base": digest(c["base"])},
               nontrivial=(m_at is not None or bool(c.get("edits")) or op != "call:valid"))
    mo = {"at": m_at, "err": m_err, "check": m_check, "index": m_index, "effects": model.get("effects"), "needed": model.get("needed")}
    # ---- the property's clauses on the implementation's own behaviour
    if obs["err"] is not None and obs["calls"]:
        if m_at is None and (_lazy_late(obs) or model.get("mapped_needed")):
            ctx.count("info:call-gate-passed:impl-raised-later")
            return
        ctx.violation(case, f"[{op}] {obs['err']} raised at {obs['at']} ({c['via']} of `{c['output']}`) after user functions were invoked: "
                            f"{obs['calls'][:4]} ({obs['msg'][:60]})", impl=obs, model=mo, key=f"user-code-ran:{op}")
        return
    if m_at is not None and obs["err"] is None:
        if m_check in PROPERTY_CHECKS:
            ctx.violation(case, f"[{op}] ill-formed pipeline ({m_check}; model: refused at {m_at}) was accepted by {c['via']} of "
                                f"`{c['output']}`; user calls: {len(obs['calls'])}", impl=obs, model=mo, key=f"accepted:{op}:{m_check}")
        else:
            ctx.violation(case, f"[{op}] the model refuses ({m_check} at {m_at}) what the implementation accepts", found_input=False,
                          item="correspondence:call-accept", impl=obs, model=mo, key=f"accepted-corr:{op}:{m_check}")
        return
    # ---- correspondence
    if m_at is None and obs["err"] is not None:
        if model.get("mapped_needed") or _lazy_late(obs):
            ctx.count("info:call-gate-passed:impl-raised-later")
            return
        ctx.violation(case, f"[{op}] call the model accepts is refused with {obs['err']} at {obs['at']}: {obs['msg'][:80]}", found_input=False,
                      item="correspondence:call-complete", impl=obs, model=mo, key=f"refused:{op}")
        return
    if (obs["at"], obs["err"], obs["index"]) != (m_at, m_err, m_index):
        ctx.violation(case, f"[{op}] refused at {obs['at']}[{obs['index']}] with {obs['err']}, model: at {m_at}[{m_index}] with {m_err} "
                            f"({m_check})", found_input=False, item="correspondence:call-where", impl=obs, model=mo, key=f"where:{op}")
        return
    if m_at is None:
        if model.get("mapped_needed"):
            ctx.count("info:call-on-mapped-function")       # a mapped function called with its whole input: C02 / not compared
            return
        if not model.get("kwargs_are_roots"):
            ctx.violation(case, f"[{op}] the real root_args {obs['kwargs']} are not root arguments of the model's pipeline", found_input=False,
                          item="correspondence:call-roots", impl=obs, model=mo, key=f"roots:{op}")
            return
        want = sorted(model.get("needed") or [])
        if sorted(obs["calls"]) != want:
            ctx.violation(case, f"[{op}] accepted call: user calls {sorted(obs['calls'])[:6]} differ from the model's {want[:6]}",
                          found_input=False, item="correspondence:call-calls", impl=obs, model=mo, key=f"calls:{op}")


# ------------------------------------------------------------------------------------------------ corpus
def _cyc():
    """seeded change C12-s4-A: h(x) → c, f(c, b) → a, g(a) → b: the cycle a → b → a behind the acyclic `h`, no MapSpec anywhere"""
    return edit._req([edit._fn("h", ["x"], "c"), edit._fn("f", ["c", "b"], "a"), edit._fn("g", ["a"], "b")], ["x"])


def _acyc():
    return edit._req([edit._fn("h", ["x"], "c"), edit._fn("f", ["c", "q"], "a"), edit._fn("g", ["a"], "b")], ["x", "q"])


def _mapped():
    r = edit._mapped_chain()          # x[i] -> y[i] -> z[i]
    r["desc"]["funcs"].append(edit._fn("k", ["z"], "w"))
    r["desc"]["funcs"].append(edit._fn("m", ["v"], "u"))
    r["desc"]["inputs"].append(["v", {"s": "in:v"}])
    return r


_Q2B = [{"k": "member-rename", "fn": "f", "old": "q", "new": "b"}]
CORPUS = (
    # the demo of C12-s4-A, fresh: construction must refuse; if it does not, every one of these actions exposes it
    [{"op": "call:back-edge", "base": _cyc(), "edits": [], "via": via, "output": o, "kw": "roots"}
     for via, o in (("run", "a"), ("run", "c"), ("call", "c"), ("func", "c"), ("func", "a"), ("call", "b"))] +
    # the same cycle closed in place: only the lazy checks at the head of `run` stand between it and user code
    [{"op": "call:edit:rename-cycle", "base": _acyc(), "edits": _Q2B, "via": via, "output": o, "kw": "roots"}
     for via, o in (("run", "c"), ("call", "a"), ("func", "c"), ("func", "b"))] +
    # an output that does not depend on the cycle at all (h(d) → z beside f → g → f)
    [{"op": "call:edit:rename-cycle", "base": edit._three(), "edits": [{"k": "member-rename", "fn": "f", "old": "a", "new": "y"}],
      "via": via, "output": "z", "kw": "roots"} for via in VIAS] +
    # duplicate output names / inconsistent defaults created in place, met (only) by the recomputed `graph` on the call path
    [{"op": "call:edit:rename-out-dup", "base": edit._three(), "edits": [{"k": "member-rename", "fn": "h", "old": "z", "new": "c"}],
      "via": via, "output": o, "kw": "roots"} for via, o in (("run", "y"), ("func", "c"), ("call", "y"))] +
    [{"op": "call:edit:default-one", "base": edit._demo_a(), "edits": edit._ED_A, "via": via, "output": o, "kw": "roots"}
     for via, o in (("func", "y"), ("run", "c"))] +
    # the gate: accepted, output among the keywords, unknown name, a MapSpec upstream (directly and transitively), none upstream
    [{"op": "call:valid", "base": _acyc(), "edits": [], "via": "run", "output": "b", "kw": "roots"},
     {"op": "call:valid", "base": _acyc(), "edits": [], "via": "func", "output": "a", "kw": "roots+output"},
     {"op": "call:valid", "base": _acyc(), "edits": [], "via": "func", "output": "zq", "kw": "roots"},
     {"op": "call:valid", "base": _acyc(), "edits": [], "via": "call", "output": "zq", "kw": "roots"},
     {"op": "call:valid", "base": _mapped(), "edits": [], "via": "run", "output": "z", "kw": "roots"},
     {"op": "call:valid", "base": _mapped(), "edits": [], "via": "call", "output": "w", "kw": "roots"},
     {"op": "call:valid", "base": _mapped(), "edits": [], "via": "func", "output": "u", "kw": "roots"}]
)


# ------------------------------------------------------------------------------------------------ entry points
def stream(ctx, rng, n_bases, digest):
    import pipegen
    cases = [copy.deepcopy(c) for c in CORPUS]
    for k in range(n_bases):
        desc = mapgen.gen_case(rng) if k % 4 == 3 else mut.from_pipegen(pipegen.gen_dag(rng))
        ctx.count("call-base:mapgen" if k % 4 == 3 else "call-base:pipegen")
        base_req = {"desc": desc, "storage": "dict", "executor": False, "parallel": False}
        cases += cases_for_base(rng, base_req, ctx)
    observed = [(c, run_case(c)) for c in cases]
    resps = ctx.lean([model_case(c, obs) for c, obs in observed])
    for (c, obs), resp in zip(observed, resps):
        judge(ctx, c, obs, resp["r"], digest)


def replay_case(ctx, case):
    obs = run_case(case)
    print("implementation:", obs)
    print("model:", ctx.lean([model_case(case, obs)])[0]["r"])
