import PfModel.Lemmas.MapPiecesFlowRel
/-!
Data flow of a run in pieces, part 4: one function of a part against the same function of the full run, then one generation,
then the generation loop.
-/
namespace PF.Pieces
open PF PF.Map

/-- the run folder holds only what the full run stores (`SF`: the store the full run leaves) -/
def OldLe (old SF : List (String × Slot)) : Prop :=
  (∀ o li v, cellLookup (oldCells old o) li = some v → cellLookup (oldCells SF o) li = some v) ∧
  (∀ o v, alookup old o = some (.single v) → alookup SF o = some (.single v))

theorem alookup_of_mem_nodup {β} : ∀ (l : List (String × β)) (k : String) (v : β), (akeys l).Nodup → (k, v) ∈ l → alookup l k = some v := by
  intro l
  induction l with
  | nil => intro k v _ h; simp at h
  | cons x xs ih =>
    intro k v hnd hm
    obtain ⟨k0, v0⟩ := x
    simp only [akeys, List.map_cons, List.nodup_cons] at hnd
    simp only [alookup]
    rcases List.mem_cons.mp hm with h | h
    · cases h; simp
    · have : k0 ≠ k := by
        intro e; subst e
        exact hnd.1 (List.mem_map.mpr ⟨(k0, v), h, rfl⟩)
      simp only [this, ↓reduceIte]
      exact ih k v hnd.2 h

section step
variable (fs : List MFunc) (shapes : List (String × List Nat)) (masks : List (String × List Bool)) (fx : List (String × Sel))
  (inputs : List (String × Val))

/-- a mapped function of a part against the same function of the full run -/
theorem mapped_step (P F : List (String × Slot)) (hrel : StoreRel fs shapes masks fx P F) (g : MFunc) (ms : MSpec) (o : String)
    (sh : List Nat) (mk : List Bool) (hok : funcOK fs shapes masks inputs fx g = true) (hms : g.mapspec = some ms)
    (hin : ms.inputs.isEmpty = false) (ho : g.outputs.head? = some o) (hs : alookup shapes o = some sh) (hk : alookup masks o = some mk)
    (hl : sh.length = mk.length) (old : List (String × Slot)) (rF rP : FuncResult)
    (hF : runMappedPart fs [] none { inputs := inputs, store := F } g ms sh mk = .ok rF)
    (hP : runMappedPart fs old (some fx) { inputs := inputs, store := P } g ms sh mk = .ok rP)
    (hold : ∀ o' ∈ g.outputs, ∀ li v, cellLookup (oldCells old o') li = some v →
      ∀ c', (o', Slot.array sh mk c') ∈ rF.slots → cellLookup c' li = some v) :
    StoreRel fs shapes masks fx rP.slots rF.slots ∧ ∀ c ∈ rP.calls, c ∈ rF.calls := by
  have hne : g.outputs ≠ [] := by intro e; rw [e] at ho; cases ho
  have emk : maskOfName masks o = mk := by simp [maskOfName, hk]
  have esh : shapeOfName shapes o = sh := by simp [shapeOfName, hs]
  have hhd : g.outputs.headD "" = o := by
    cases hg : g.outputs with
    | nil => exact absurd hg hne
    | cons a as => rw [hg] at ho; simp at ho; simp [ho]
  -- the full run
  unfold runMappedPart at hF
  simp only [fixedMask, bind, Except.bind, pure, Except.pure] at hF
  have hF' : runMappedSel fs [] (fun _ => true) { inputs := inputs, store := F } g ms sh mk = .ok rF := hF
  obtain ⟨AF, hAF, hrF⟩ := runMappedSel_inv fs [] _ _ g ms sh mk rF hF'
  rw [todo_full _ _ hne] at hAF
  -- the part
  unfold runMappedPart at hP
  cases hfm : fixedMask (some fx) ms sh mk with
  | error e => rw [hfm] at hP; cases hP
  | ok fm =>
    rw [hfm] at hP
    have hP' : runMappedSel fs old (selOf fm) { inputs := inputs, store := P } g ms sh mk = .ok rP := hP
    unfold fixedMask at hfm
    simp only [bind, Except.bind] at hfm
    cases hsl : selLists (extOf mk (ms.outputIndices.map (fixedLookup fx))) (extOf mk sh) with
    | error e => rw [hsl] at hfm; cases hfm
    | ok ls =>
      rw [hsl] at hfm
      simp only [pure, Except.pure, Except.ok.injEq] at hfm
      have hselOf : ∀ li, li < prod (extOf mk sh) → selOf fm li = selected ls (shapeToKey (extOf mk sh) li) := by
        intro li hli
        rw [← hfm]
        simp [selOf, List.getD, hli]
      obtain ⟨AP, hAP, hrP⟩ := runMappedSel_inv fs old _ _ g ms sh mk rP hP'
      have hfunc := hok
      unfold funcOK at hfunc
      simp only [Bool.and_eq_true, hms, hin, ho, Bool.false_or, beq_iff_eq] at hfunc
      obtain ⟨⟨houts, _, hlen⟩, _⟩ := hfunc
      rw [emk] at hlen
      -- same arguments at the computed indices
      have hargs : ∀ li ∈ todoOf g.outputs (prod (extOf mk sh)) (selOf fm) (oldCells old), AP li = AF li := by
        intro li hli
        have hm := (mem_todoOf _ _ _ _ li).mp hli
        have hkey := ravel_key (extOf mk sh) li hm.1
        have h1 := hAP li hli
        have h2 := hAF li (List.mem_range.mpr hm.1)
        have hflow := selectArgs_flow fs shapes masks fx inputs P F hrel g ms o hok hms hin ho ls (shapeToKey (extOf mk sh) li)
          (by rw [emk, esh]; exact hsl) (by rw [emk, esh]; exact hkey.2) (by rw [← hselOf li hm.1]; exact hm.2.1)
        rw [h1, h2] at hflow
        exact Except.ok.inj hflow
      subst hrP
      subst hrF
      simp only [selResult, todo_full _ _ hne] at hold ⊢
      constructor
      · apply storeRel_map
        intro o' ho'
        have hout := (List.all_eq_true.mp houts) o' ho'
        simp only [Bool.and_eq_true, beq_iff_eq, hhd] at hout
        obtain ⟨⟨hpm, hsho⟩, hmko⟩ := hout
        have hprod : (producer fs o').isSome = true := by
          cases hpp : producer fs o' with
          | none => rw [hpp] at hpm; cases hpm
          | some _ => rfl
        have haxes : axesOf fs o' = ms.outputIndices := by
          unfold axesOf
          cases hpp : producer fs o' with
          | none => rw [hpp] at hpm; cases hpm
          | some f =>
            rw [hpp] at hpm
            simp only [Option.map_some, Option.some.injEq] at hpm
            simp only [hpm]
        have esh' : shapeOfName shapes o' = sh := by simp [shapeOfName, hsho, hs]
        have emk' : maskOfName masks o' = mk := by simp [maskOfName, hmko, hk]
        refine ⟨hprod, ?_⟩
        rw [haxes, esh', emk']
        simp only [SlotRel]
        refine ⟨trivial, trivial, trivial, trivial, hl, by simpa using hlen, ?_, ?_⟩
        · intro li v hv
          rw [lookup_stepC] at hv ⊢
          by_cases hmem : li ∈ todoOf g.outputs (prod (extOf mk sh)) (selOf fm) (oldCells old)
          · rw [if_pos hmem] at hv
            have hlt := ((mem_todoOf _ _ _ _ li).mp hmem).1
            rw [if_pos (List.mem_range.mpr hlt), ← hargs li hmem]
            exact hv
          · rw [if_neg hmem] at hv
            have := hold o' ho' li v hv _ (List.mem_map.mpr ⟨o', ho', rfl⟩)
            rw [lookup_stepC] at this
            exact this
        · intro Fi hFi hsel
          have hEi : InRange (extOf mk sh) (extOf mk Fi) := inRange_ext mk sh Fi hFi hl
          have hlt := ravel_lt _ _ hEi
          have hlenF : mk.length = Fi.length := by rw [← hl]; exact inRange_length sh Fi hFi
          have hsel' : selOf fm (ravel (extOf mk sh) (extOf mk Fi)) = true := by
            rw [hselOf _ hlt, key_ravel _ _ hEi,
              selected_ext fx mk ms.outputIndices sh Fi ls hsl (by simpa using hlen.symm) hl.symm hlenF]
            exact hsel
          rw [lookup_stepC]
          by_cases hmem : ravel (extOf mk sh) (extOf mk Fi) ∈ todoOf g.outputs (prod (extOf mk sh)) (selOf fm) (oldCells old)
          · rw [if_pos hmem]; rfl
          · rw [if_neg hmem]
            have hnm : missingIn g.outputs (oldCells old) (ravel (extOf mk sh) (extOf mk Fi)) = false := by
              cases hmi : missingIn g.outputs (oldCells old) (ravel (extOf mk sh) (extOf mk Fi)) with
              | false => rfl
              | true => exact absurd ((mem_todoOf _ _ _ _ _).mpr ⟨hlt, hsel', hmi⟩) hmem
            unfold missingIn at hnm
            have := (List.any_eq_false.mp hnm) o' ho'
            cases hc : cellLookup (oldCells old o') (ravel (extOf mk sh) (extOf mk Fi)) with
            | none => rw [hc] at this; simp at this
            | some _ => rfl
      · intro c hc
        obtain ⟨li, hli, rfl⟩ := List.mem_map.mp hc
        have hlt := ((mem_todoOf _ _ _ _ li).mp hli).1
        rw [hargs li hli]
        exact List.mem_map.mpr ⟨li, List.mem_range.mpr hlt, rfl⟩

theorem runSingle_flow (P F : List (String × Slot)) (hrel : StoreRel fs shapes masks fx P F) (g : MFunc)
    (hwhole : ∀ pq ∈ g.params, ((alookup g.bound pq.1).isSome || (alookup inputs pq.1).isSome || (producer fs pq.1).isNone ||
      wholeOK fs masks fx pq.1) = true) :
    runSingle fs { inputs := inputs, store := P } g = runSingle fs { inputs := inputs, store := F } g := by
  unfold runSingle
  have : (g.params.mapM fun (pq : String × String) => do
        return (pq.2, ← argWhole fs { inputs := inputs, store := P } g pq.1)) =
      (g.params.mapM fun (pq : String × String) => do
        return (pq.2, ← argWhole fs { inputs := inputs, store := F } g pq.1)) := by
    apply mapM_congr'
    intro pq hpq
    rw [argWhole_whole fs shapes masks fx inputs P F hrel g pq.1 (hwhole pq hpq)]
  exact congrArg (fun (m : M (List (String × Val))) => m >>= _) this

theorem loadSingles_rel (old : List (String × Slot)) (val : String → Val) : ∀ (outs : List String) (vs : List (String × Val)),
    loadSingles old outs = some vs → (∀ o ∈ outs, ∀ v, alookup old o = some (.single v) → v = val o) →
    (∀ o ∈ outs, (producer fs o).isSome = true) →
    StoreRel fs shapes masks fx (vs.map fun kv => (kv.1, Slot.single kv.2)) (outs.map fun o => (o, Slot.single (val o))) := by
  intro outs
  induction outs with
  | nil => intro vs h _ _; simp [loadSingles] at h; subst h; simp [StoreRel]
  | cons o r ih =>
    intro vs h hv hp
    simp only [loadSingles] at h
    split at h
    · next v vs' hv1 hv2 =>
      cases h
      simp only [List.map_cons, StoreRel]
      refine ⟨trivial, hp o List.mem_cons_self, ?_, ih vs' hv2 (fun o' ho' => hv o' (List.mem_cons_of_mem _ ho'))
        (fun o' ho' => hp o' (List.mem_cons_of_mem _ ho'))⟩
      simp only [SlotRel]
      exact hv o List.mem_cons_self v hv1
    · cases h

/-- a function called once (no MapSpec inputs) of a part against the same function of the full run -/
theorem single_step (P F : List (String × Slot)) (hrel : StoreRel fs shapes masks fx P F) (g : MFunc)
    (hwhole : ∀ pq ∈ g.params, ((alookup g.bound pq.1).isSome || (alookup inputs pq.1).isSome || (producer fs pq.1).isNone ||
      wholeOK fs masks fx pq.1) = true)
    (hprod : ∀ o ∈ g.outputs, (producer fs o).isSome = true) (old : List (String × Slot)) (rF rP : FuncResult)
    (hF : runSinglePart fs [] { inputs := inputs, store := F } g = .ok rF)
    (hP : runSinglePart fs old { inputs := inputs, store := P } g = .ok rP)
    (hold : ∀ o ∈ g.outputs, ∀ v w, alookup old o = some (.single v) → (o, Slot.single w) ∈ rF.slots → v = w) :
    StoreRel fs shapes masks fx rP.slots rF.slots ∧ ∀ c ∈ rP.calls, c ∈ rF.calls := by
  rw [runSinglePart_nil] at hF
  have hsame := runSingle_flow fs shapes masks fx inputs P F hrel g hwhole
  -- the shape of the full run's result
  have hform : ∃ args, rF.slots = g.outputs.map (fun o => (o, Slot.single (outVal g args o))) := by
    unfold runSingle at hF
    simp only [bind, Except.bind] at hF
    split at hF
    · cases hF
    · next args _ =>
      simp only [pure, Except.pure, Except.ok.injEq] at hF
      subst hF
      exact ⟨args, by simp [List.map_map, Function.comp]⟩
  obtain ⟨args, hslots⟩ := hform
  have hrefl : StoreRel fs shapes masks fx rF.slots rF.slots := by
    rw [hslots]
    apply storeRel_map
    intro o ho
    exact ⟨hprod o ho, by simp [SlotRel]⟩
  unfold runSinglePart at hP
  split at hP
  · rw [hsame, hF] at hP; cases hP; exact ⟨hrefl, fun c hc => hc⟩
  · split at hP
    · next vs hvs =>
      simp only [pure, Except.pure, Except.ok.injEq] at hP
      subst hP
      simp only []
      refine ⟨?_, by simp⟩
      rw [hslots]
      have := loadSingles_rel fs shapes masks fx old (fun o => outVal g args o) g.outputs vs hvs
        (fun o ho v hv => hold o ho v _ hv (by rw [hslots]; exact List.mem_map.mpr ⟨o, ho, rfl⟩)) hprod
      simpa using this
    · rw [hsame, hF] at hP; cases hP; exact ⟨hrefl, fun c hc => hc⟩

/-- **one function** of a part against the same function of the full run -/
theorem func_step (P F : List (String × Slot)) (hrel : StoreRel fs shapes masks fx P F) (g : MFunc)
    (hok : funcOK fs shapes masks inputs fx g = true) (old SF : List (String × Slot)) (hold : OldLe old SF)
    (hnd : (akeys SF).Nodup) (rF rP : FuncResult)
    (hF : runFuncPart fs shapes masks none [] { inputs := inputs, store := F } g = .ok rF)
    (hP : runFuncPart fs shapes masks (some fx) old { inputs := inputs, store := P } g = .ok rP)
    (hSF : ∀ kv ∈ rF.slots, kv ∈ SF) :
    StoreRel fs shapes masks fx rP.slots rF.slots ∧ ∀ c ∈ rP.calls, c ∈ rF.calls := by
  have hfunc := hok
  unfold funcOK at hfunc
  simp only [Bool.and_eq_true] at hfunc
  obtain ⟨⟨houts, _⟩, hpar⟩ := hfunc
  have hprod : ∀ o ∈ g.outputs, (producer fs o).isSome = true := by
    intro o ho
    have := (List.all_eq_true.mp houts) o ho
    simp only [Bool.and_eq_true, beq_iff_eq] at this
    cases hpp : producer fs o with
    | none => rw [hpp] at this; simp at this
    | some _ => rfl
  have holdS : ∀ o ∈ g.outputs, ∀ v w, alookup old o = some (.single v) → (o, Slot.single w) ∈ rF.slots → v = w := by
    intro o _ v w hv hw
    have h1 := hold.2 o v hv
    have h2 := alookup_of_mem_nodup SF o _ hnd (hSF _ hw)
    rw [h1] at h2
    cases h2; rfl
  have hwholeOf : (∀ p, paramOK fs shapes masks fx g p = wholeOK fs masks fx p) →
      ∀ pq ∈ g.params, ((alookup g.bound pq.1).isSome || (alookup inputs pq.1).isSome || (producer fs pq.1).isNone ||
        wholeOK fs masks fx pq.1) = true := by
    intro he pq hpq
    have := (List.all_eq_true.mp hpar) pq hpq
    rw [he] at this
    exact this
  unfold runFuncPart at hF hP
  cases hms : g.mapspec with
  | none =>
    rw [hms] at hF hP
    exact single_step fs shapes masks fx inputs P F hrel g (hwholeOf (fun p => by simp [paramOK, hms])) hprod old rF rP hF hP holdS
  | some ms =>
    rw [hms] at hF hP
    simp only [] at hF hP
    by_cases hin : ms.inputs.isEmpty = true
    · rw [if_pos hin] at hF hP
      exact single_step fs shapes masks fx inputs P F hrel g (hwholeOf (fun p => by simp [paramOK, hms, hin])) hprod old rF rP hF hP holdS
    · rw [if_neg hin] at hF hP
      have hin' : ms.inputs.isEmpty = false := by simpa using hin
      cases ho : g.outputs.head? with
      | none => rw [ho] at hF; cases hF
      | some o =>
        rw [ho] at hF hP
        simp only [] at hF hP
        cases hs : alookup shapes o with
        | none => rw [hs] at hF; cases hF
        | some sh =>
          cases hk : alookup masks o with
          | none => rw [hs, hk] at hF; cases hF
          | some mk =>
            rw [hs, hk] at hF hP
            simp only [] at hF hP
            by_cases hl : sh.length = mk.length
            · simp only [hl, ne_eq, not_true_eq_false, ↓reduceIte] at hF hP
              refine mapped_step fs shapes masks fx inputs P F hrel g ms o sh mk hok hms hin' ho hs hk hl old rF rP hF hP ?_
              intro o' _ li v hv c' hc'
              have h1 := hold.1 o' li v hv
              have h2 := alookup_of_mem_nodup SF o' _ hnd (hSF _ hc')
              simp only [oldCells, h2] at h1
              exact h1
            · simp only [hl, ne_eq, not_false_eq_true, ↓reduceIte] at hF
              cases hF

/-- **one generation** -/
theorem gen_step (P F : List (String × Slot)) (hrel : StoreRel fs shapes masks fx P F) (old SF : List (String × Slot))
    (hold : OldLe old SF) (hnd : (akeys SF).Nodup) : ∀ (gen : List MFunc) (rsF rsP : List FuncResult),
    (∀ g ∈ gen, funcOK fs shapes masks inputs fx g = true) →
    runGenWith (runFuncPart fs shapes masks none []) { inputs := inputs, store := F } gen = .ok rsF →
    runGenWith (runFuncPart fs shapes masks (some fx) old) { inputs := inputs, store := P } gen = .ok rsP →
    (∀ kv ∈ rsF.flatMap (·.slots), kv ∈ SF) →
    StoreRel fs shapes masks fx (rsP.flatMap (·.slots)) (rsF.flatMap (·.slots)) ∧
    ∀ c ∈ rsP.flatMap (·.calls), c ∈ rsF.flatMap (·.calls) := by
  intro gen
  induction gen with
  | nil =>
    intro rsF rsP _ hF hP _
    simp only [runGenWith, pure, Except.pure, Except.ok.injEq] at hF hP
    subst hF; subst hP
    simp [StoreRel]
  | cons g rest ih =>
    intro rsF rsP hok hF hP hSF
    simp only [runGenWith, bind, Except.bind] at hF hP
    cases h1 : runFuncPart fs shapes masks none [] { inputs := inputs, store := F } g with
    | error e => rw [h1] at hF; cases hF
    | ok rF =>
      rw [h1] at hF
      simp only [] at hF
      cases h2 : runGenWith (runFuncPart fs shapes masks none []) { inputs := inputs, store := F } rest with
      | error e => rw [h2] at hF; cases hF
      | ok rsF' =>
        rw [h2] at hF
        simp only [pure, Except.pure, Except.ok.injEq] at hF
        subst hF
        cases h3 : runFuncPart fs shapes masks (some fx) old { inputs := inputs, store := P } g with
        | error e => rw [h3] at hP; cases hP
        | ok rP =>
          rw [h3] at hP
          simp only [] at hP
          cases h4 : runGenWith (runFuncPart fs shapes masks (some fx) old) { inputs := inputs, store := P } rest with
          | error e => rw [h4] at hP; cases hP
          | ok rsP' =>
            rw [h4] at hP
            simp only [pure, Except.pure, Except.ok.injEq] at hP
            subst hP
            simp only [List.flatMap_cons, List.mem_append] at hSF ⊢
            obtain ⟨a1, a2⟩ := func_step fs shapes masks fx inputs P F hrel g (hok g List.mem_cons_self) old SF hold hnd rF rP h1 h3
              (fun kv hkv => hSF kv (Or.inl hkv))
            obtain ⟨b1, b2⟩ := ih rsF' rsP' (fun g' hg' => hok g' (List.mem_cons_of_mem _ hg')) h2 h4 (fun kv hkv => hSF kv (Or.inr hkv))
            refine ⟨storeRel_append fs shapes masks fx _ _ _ _ a1 b1, ?_⟩
            intro c hc
            rcases hc with hc | hc
            · exact Or.inl (a2 c hc)
            · exact Or.inr (b2 c hc)

theorem runGensWith_store_mono (R : Env → MFunc → M FuncResult) : ∀ (gens : List (List MFunc)) (env : Env) (rs : List FuncResult) (env' : Env),
    runGensWith R gens env = .ok (rs, env') → env'.inputs = env.inputs ∧ ∀ kv ∈ env.store, kv ∈ env'.store := by
  intro gens
  induction gens with
  | nil =>
    intro env rs env' h
    simp only [runGensWith, pure, Except.pure, Except.ok.injEq, Prod.mk.injEq] at h
    rw [← h.2]; exact ⟨rfl, fun kv hkv => hkv⟩
  | cons gen rest ih =>
    intro env rs env' h
    simp only [runGensWith, bind, Except.bind] at h
    cases h1 : runGenWith R env gen with
    | error e => rw [h1] at h; cases h
    | ok rs1 =>
      rw [h1] at h
      simp only [] at h
      cases h2 : runGensWith R rest { env with store := env.store ++ rs1.flatMap (·.slots) } with
      | error e => rw [h2] at h; cases h
      | ok r2 =>
        rw [h2] at h
        simp only [pure, Except.pure, Except.ok.injEq, Prod.mk.injEq] at h
        obtain ⟨i1, i2⟩ := ih _ _ _ (by rw [h2])
        rw [← h.2]
        exact ⟨i1, fun kv hkv => i2 kv (List.mem_append_left _ hkv)⟩

/-- **the generation loop** -/
theorem gens_step (old SF : List (String × Slot)) (hold : OldLe old SF) (hnd : (akeys SF).Nodup) :
    ∀ (gens : List (List MFunc)) (P F : List (String × Slot)) (rsF rsP : List FuncResult) (envF' envP' : Env),
    StoreRel fs shapes masks fx P F →
    (∀ gen ∈ gens, ∀ g ∈ gen, funcOK fs shapes masks inputs fx g = true) →
    runGensWith (runFuncPart fs shapes masks none []) gens { inputs := inputs, store := F } = .ok (rsF, envF') →
    runGensWith (runFuncPart fs shapes masks (some fx) old) gens { inputs := inputs, store := P } = .ok (rsP, envP') →
    (∀ kv ∈ envF'.store, kv ∈ SF) →
    StoreRel fs shapes masks fx envP'.store envF'.store ∧ ∀ c ∈ rsP.flatMap (·.calls), c ∈ rsF.flatMap (·.calls) := by
  intro gens
  induction gens with
  | nil =>
    intro P F rsF rsP envF' envP' hrel _ hF hP _
    simp only [runGensWith, pure, Except.pure, Except.ok.injEq, Prod.mk.injEq] at hF hP
    rw [← hF.2, ← hP.2, ← hF.1, ← hP.1]
    exact ⟨hrel, by simp⟩
  | cons gen rest ih =>
    intro P F rsF rsP envF' envP' hrel hok hF hP hSF
    simp only [runGensWith, bind, Except.bind] at hF hP
    cases h1 : runGenWith (runFuncPart fs shapes masks none []) { inputs := inputs, store := F } gen with
    | error e => rw [h1] at hF; cases hF
    | ok rs1 =>
      rw [h1] at hF
      simp only [] at hF
      cases h2 : runGensWith (runFuncPart fs shapes masks none []) rest { inputs := inputs, store := F ++ rs1.flatMap (·.slots) } with
      | error e => rw [h2] at hF; cases hF
      | ok r2 =>
        rw [h2] at hF
        simp only [pure, Except.pure, Except.ok.injEq, Prod.mk.injEq] at hF
        cases h3 : runGenWith (runFuncPart fs shapes masks (some fx) old) { inputs := inputs, store := P } gen with
        | error e => rw [h3] at hP; cases hP
        | ok rs3 =>
          rw [h3] at hP
          simp only [] at hP
          cases h4 : runGensWith (runFuncPart fs shapes masks (some fx) old) rest { inputs := inputs, store := P ++ rs3.flatMap (·.slots) } with
          | error e => rw [h4] at hP; cases hP
          | ok r4 =>
            rw [h4] at hP
            simp only [pure, Except.pure, Except.ok.injEq, Prod.mk.injEq] at hP
            obtain ⟨rs2, env2⟩ := r2
            obtain ⟨rs4, env4⟩ := r4
            simp only [] at hF hP
            obtain ⟨hF1, hF2⟩ := hF
            obtain ⟨hP1, hP2⟩ := hP
            rw [← hF2] at hSF
            rw [← hF2, ← hP2, ← hF1, ← hP1]
            have hmono := (runGensWith_store_mono _ rest _ rs2 env2 h2).2
            obtain ⟨a1, a2⟩ := gen_step fs shapes masks fx inputs P F hrel old SF hold hnd gen rs1 rs3
              (hok gen List.mem_cons_self) h1 h3
              (fun kv hkv => hSF kv (hmono kv (List.mem_append_right _ hkv)))
            obtain ⟨b1, b2⟩ := ih _ _ rs2 rs4 env2 env4 (storeRel_append fs shapes masks fx _ _ _ _ hrel a1)
              (fun g' hg' => hok g' (List.mem_cons_of_mem _ hg')) h2 h4 hSF
            refine ⟨b1, ?_⟩
            intro c hc
            simp only [List.flatMap_append, List.mem_append] at hc ⊢
            rcases hc with hc | hc
            · exact Or.inl (a2 c hc)
            · exact Or.inr (b2 c hc)

end step

theorem layers_mem (fs : List MFunc) : ∀ (fuel : Nat) (done : List String) (rest : List MFunc), (∀ g ∈ rest, g ∈ fs) →
    ∀ gen ∈ layers fs fuel done rest, ∀ g ∈ gen, g ∈ fs := by
  intro fuel
  induction fuel with
  | zero => intro done rest _ gen h; simp [layers] at h
  | succ fuel ih =>
    intro done rest hr gen h
    simp only [layers] at h
    split at h
    · simp at h
    · split at h
      · simp at h
      · rcases List.mem_cons.mp h with h | h
        · subst h
          intro g hg
          exact hr g (List.mem_filter.mp hg).1
        · exact ih _ _ (fun g hg => hr g (List.mem_filter.mp hg).1) gen h

theorem oldLe_of_storeRel (fs : List MFunc) (shapes : List (String × List Nat)) (masks : List (String × List Bool)) (fx : List (String × Sel))
    (P F : List (String × Slot)) (h : StoreRel fs shapes masks fx P F) : OldLe P F := by
  constructor
  · intro o li v hv
    rcases storeRel_lookup fs shapes masks fx P F h o with ⟨h1, _⟩ | ⟨sP, sF, h1, h2, _, hs⟩
    · simp [oldCells, h1, cellLookup] at hv
    · simp only [oldCells, h1, h2] at hv ⊢
      cases sP with
      | single _ => simp [cellLookup] at hv
      | array sh mk c =>
        cases sF with
        | single _ => simp [SlotRel] at hs
        | array sh' mk' c' =>
          simp only [SlotRel] at hs
          exact hs.2.2.2.2.2.2.1 li v hv
  · intro o v hv
    rcases storeRel_lookup fs shapes masks fx P F h o with ⟨h1, _⟩ | ⟨sP, sF, h1, h2, _, hs⟩
    · rw [h1] at hv; cases hv
    · rw [h1] at hv
      cases hv
      cases sF with
      | single w => simp only [SlotRel] at hs; rw [h2, hs]
      | array _ _ _ => simp [SlotRel] at hs

end PF.Pieces
